(* Proofs/MultiLineProofs.v — MultiLine::run (Model/Glue.v multi_line_run) delivers exactly the events
   of the declarative multi-line reference ml_ref (Spec/MultiLineSpec.v): property C13.
   Layout:
     Adapter      — the lemmas of Proofs/SlowPathProofs.v this file uses, specialised to the whole
                    input as the window (A = 0, base = 0, Core.binary = true); everything below
                    uses only the adapter;
     HasMatched   — the context functions never read Core.has_matched;
     Sim          — pieces of the simulation: a run of context lines, a block of matched lines;
     NonInverted  — the loop with its merging rule against bfold (Proofs/MLGroup.v);
     Inverted     — the inverted loop against inv_flags. *)
From RG Require Import Base.Bytes Base.BytesFacts Model.Lines Model.SearcherCore Model.Glue
  Spec.GrepSpec Spec.MultiLineSpec
  Proofs.LinesProofs Proofs.CoreSinkProofs Proofs.SlowPathProofs Proofs.PrefixLaw Proofs.PrefixCore
  Proofs.MLInvExt Proofs.FuelProofs Proofs.MLPrefix Proofs.MLGroup Proofs.MLGeometry.

(* ------------------------------------------------------------------ adapter to SlowPathProofs *)
Section Adapter.
  Variable cfg : config.
  Hypothesis Hbin : c_binary cfg = BNone.
  Hypothesis Hinv : c_invert cfg = false.
  Hypothesis Hnostop : c_stop_on_nonmatch cfg = false.
  Variable s : bytes.
  Notation ltb := (lt_byte (c_lt cfg)).
  Notation K := (fun _ : nat => Continue).

  (* the matcher of the per-line lemmas: every line is a non-success *)
  Definition M0 : matcher :=
    {| m_is_match := fun _ => false; m_find_candidate := fun _ => None; m_line_term := None;
       m_nonmatching := fun _ => false; m_find_at := fun _ _ => None |}.

  Definition aR0 (c : core) (g : gstate) : Prop := R0 cfg s 0 0 c g.
  Definition aLN (c : core) : Prop := LN cfg s 0 c.
  Definition anext_line (p : nat) (l : bytes) : Prop := next_line cfg s p l.
  Definition alines_seq (ls : list bytes) (p : nat) : Prop := lines_seq cfg s ls p.
  Definition alines_at (ls : list bytes) (p : nat) : Prop := lines_at cfg s ls p.

  Lemma anext_line_eq p l : anext_line p l <->
    (sub s p (p + length l) = l /\ p + length l <= length s /\
     (terminated ltb l \/ (partial ltb l /\ p + length l = length s))).
  Proof. reflexivity. Qed.

  Lemma alines_seq_nil p : alines_seq [] p. Proof. exact I. Qed.
  Lemma alines_seq_cons l r p : alines_seq (l :: r) p <->
    (anext_line p l /\ (r <> [] -> terminated ltb l) /\ alines_seq r (p + length l)).
  Proof. reflexivity. Qed.
  Lemma alines_at_nil p : alines_at [] p <-> p = length s. Proof. reflexivity. Qed.
  Lemma alines_at_cons l r p : alines_at (l :: r) p <->
    (anext_line p l /\ (r <> [] -> terminated ltb l) /\ alines_at r (p + length l)).
  Proof. reflexivity. Qed.

  Lemma a_lines_at : alines_at (split_lines ltb s) 0.
  Proof.
    apply (lines_at_shape cfg s _ (split_lines_shape ltb s) 0); [lia|].
    rewrite split_lines_concat. reflexivity.
  Qed.

  Lemma aLN_eq c c' : line_number c' = line_number c -> last_line_counted c' = last_line_counted c ->
    aLN c -> aLN c'.
  Proof. unfold aLN, LN. intros -> ->. auto. Qed.

  Lemma aR0_elim c g : aR0 c g ->
    abs_off c = 0 /\ bin_off c = None /\ log c = g_out g ++ [EBegin] /\
    after_context_left c = g_after g /\ has_sunk c = g_sunk g /\
    last_line_visited c <= g_off g /\ (g_pend g = [] -> last_line_visited c = g_off g) /\
    last_line_counted c <= last_line_visited c /\ aLN c /\
    g_lnum g = 1 + count_lt ltb (firstn (g_off g) s) /\ g_after g <= c_after cfg.
  Proof.
    intros [Rabs Rbin Rlog Rafter Rsunk Rlaid Rllv Rllc Rln Rlnum Rap Rale].
    rewrite Nat.sub_0_r in Rlnum.
    repeat split; auto; try lia.
    intro E. rewrite E in Rllv. change (plen (rev [])) with 0 in Rllv. lia.
  Qed.

  Lemma aR0_intro_nopend c g : g_pend g = [] ->
    abs_off c = 0 -> bin_off c = None -> log c = g_out g ++ [EBegin] ->
    after_context_left c = g_after g -> has_sunk c = g_sunk g ->
    last_line_visited c = g_off g -> last_line_counted c <= last_line_visited c -> aLN c ->
    g_lnum g = 1 + count_lt ltb (firstn (g_off g) s) -> g_after g <= c_after cfg ->
    aR0 c g.
  Proof.
    intros E H1 H2 H3 H4 H5 H6 H7 H8 H9 H10.
    constructor; auto.
    - rewrite E. exact I.
    - rewrite E. change (plen (rev [])) with 0. lia.
    - rewrite Nat.sub_0_r. lia.
  Qed.

  (* R0 reads neither the scan position nor has_matched *)
  Lemma aR0_transfer c c' g :
    abs_off c' = abs_off c -> bin_off c' = bin_off c -> log c' = log c ->
    after_context_left c' = after_context_left c -> has_sunk c' = has_sunk c ->
    last_line_visited c' = last_line_visited c -> last_line_counted c' = last_line_counted c ->
    line_number c' = line_number c ->
    aR0 c g -> aR0 c' g.
  Proof.
    intros E1 E2 E3 E4 E5 E6 E7 E8 [Rabs Rbin Rlog Rafter Rsunk Rlaid Rllv Rllc Rln Rlnum Rap Rale].
    constructor; try (rewrite ?E1, ?E2, ?E3, ?E4, ?E5, ?E6, ?E7; assumption).
    apply (aLN_eq c c'); assumption.
  Qed.

  Lemma aR0_init : aR0 (set_log (core_new cfg) [EBegin]) g_init.
  Proof. exact (proj2 (proj2 (R_init cfg s))). Qed.

  Lemma a_matched_step c g p l :
    aR0 c g -> g_off g = p -> g_stopped g = false -> anext_line p l ->
    exists c2, before_context_by_line cfg K true (set_has_matched c) s p = OK true c2 /\
      bin_off c2 = None /\
      let c3 := post_matched cfg c2 s p (p + length l) in
      pos c3 = pos c /\ log c3 = g_out (g_step_s cfg g l true) ++ [EBegin] /\ bin_off c3 = None /\
      last_line_visited c3 = p + length l /\
      (terminated ltb l -> aR0 c3 (g_step_s cfg g l true)).
  Proof.
    intros HR Hoff Hns Hnl.
    destruct (matched_step cfg Hbin s 0 0 true c g p l HR Hoff Hns Hnl) as (c2 & H1 & H2 & H3).
    cbn zeta in H3. destruct H3 as (H3 & H4 & H5 & _ & H7 & H8).
    exists c2. split; [exact H1|]. split; [exact H2|]. cbn zeta.
    split; [exact H3|]. split; [exact H4|]. split; [exact H5|]. split; [exact H7|exact H8].
  Qed.

  Lemma fold_gstep_false pre : forall g,
    fold_left (g_step cfg (m_is_match M0)) pre g = fold_left (fun g l => g_step_s cfg g l false) pre g.
  Proof.
    induction pre as [|l r IH]; intro g; [reflexivity|]. cbn [fold_left]. rewrite IH. f_equal.
    unfold g_step. cbn [m_is_match M0]. now rewrite Hinv.
  Qed.

  Lemma a_nonmatch_run pre c g p :
    aR0 c g -> g_off g = p -> g_stopped g = false -> c_passthru cfg = false -> alines_seq pre p ->
    let gk := fold_left (fun g l => g_step_s cfg g l false) pre g in
    exists c', after_context_by_line cfg K true c s (p + length (concat pre)) = OK true c' /\
      pos c' = pos c /\ log c' = g_out gk ++ [EBegin] /\ bin_off c' = None /\
      g_off gk = p + length (concat pre) /\ g_stopped gk = false /\
      (Forall (terminated ltb) pre -> aR0 c' gk).
  Proof.
    intros HR Hoff Hns Hpt Hseq gk.
    assert (Hnon : Forall (nonsuccess cfg M0) pre).
    { apply Forall_forall. intros l _. unfold nonsuccess. cbn [m_is_match M0]. now rewrite Hinv. }
    destruct (nonmatch_run cfg M0 Hbin s 0 0 true pre c g p HR Hoff Hns Hpt ltac:(now rewrite Hnostop) Hseq Hnon)
      as (c' & Hrun & P).
    rewrite fold_gstep_false in P. fold gk in P.
    exists c'. split; [exact Hrun|].
    split; [exact (rp_pos _ _ _ _ _ _ _ _ _ _ P)|].
    split; [exact (rp_log _ _ _ _ _ _ _ _ _ _ P)|].
    split; [exact (rp_bin _ _ _ _ _ _ _ _ _ _ P)|].
    split; [exact (rp_off _ _ _ _ _ _ _ _ _ _ P)|].
    split; [exact (rp_ns _ _ _ _ _ _ _ _ _ _ P)|].
    exact (rp_R0 _ _ _ _ _ _ _ _ _ _ P).
  Qed.

  Lemma a_ctx_other c g p l :
    aR0 c g -> g_off g = p -> anext_line p l -> g_after g = 0 -> c_passthru cfg = true ->
    g_stopped g = false ->
    let g' := g_step_s cfg g l false in
    let c' := post_ctx cfg COther c s p (p + length l) in
    pos c' = pos c /\ log c' = g_out g' ++ [EBegin] /\ bin_off c' = None /\
    (terminated ltb l -> aR0 c' g').
  Proof.
    intros HR Hoff Hnl Ha Hpt Hns g' c'.
    assert (Hg : g' = g_other_step cfg g l false).
    { unfold g'. rewrite (g_step_nonmatch cfg g l Hns). cbn zeta. rewrite Ha, Hpt, Hnostop. reflexivity. }
    rewrite Hg.
    destruct (ctx_step cfg s 0 0 COther c g p l false HR Hoff Hnl) as (F1 & F2 & F3 & F4 & F5);
      [discriminate|intros _; exact Ha|discriminate|].
    cbn zeta in F1, F3, F4, F5.
    split; [exact F1|]. split; [exact F3|]. split; [exact F4|exact F5].
  Qed.

  Lemma a_line_step p l en : anext_line p l -> p + length l <= en -> en <= length s ->
    line_step ltb s p en = Some (p, p + length l).
  Proof. exact (line_step_seq cfg s p l en). Qed.
End Adapter.

(* ------------------------------------------------------------------ has_matched is never read *)
Section HasMatched.
  Variable cfg : config.
  Hypothesis Hbin : c_binary cfg = BNone.
  Variable s : bytes.
  Notation K := (fun _ : nat => Continue).

  Definition hm (o : outcome) : outcome :=
    match o with OK b c => OK b (set_has_matched c) | ERR c => ERR (set_has_matched c) | FUEL => FUEL end.

  Lemma brk_hm c p : brk cfg (set_has_matched c) p = set_has_matched (brk cfg c p).
  Proof.
    unfold brk. cbn [has_sunk last_line_visited set_has_matched].
    destruct (negb (any_ctx cfg) || negb (has_sunk c) || negb (last_line_visited c <? p)); reflexivity.
  Qed.

  Lemma post_ctx_hm k c a e : post_ctx cfg k (set_has_matched c) s a e = set_has_matched (post_ctx cfg k c s a e).
  Proof.
    unfold post_ctx, with_event, count_lines. cbn [line_number last_line_counted set_has_matched].
    destruct (line_number c); [destruct (Nat.leb a (last_line_counted c))|]; reflexivity.
  Qed.

  Lemma post_matched_hm c a e : post_matched cfg (set_has_matched c) s a e = set_has_matched (post_matched cfg c s a e).
  Proof.
    unfold post_matched. rewrite brk_hm. unfold with_event, count_lines.
    cbn [line_number last_line_counted set_has_matched].
    destruct (line_number (brk cfg c a)); [destruct (Nat.leb a (last_line_counted (brk cfg c a)))|]; reflexivity.
  Qed.

  Lemma bin_post_ctx k c a e : bin_off (post_ctx cfg k c s a e) = bin_off c.
  Proof. unfold post_ctx, with_event. cbn [bin_off set_visited set_log]. apply count_lines_bin. Qed.

  Lemma before_loop_hm : forall fuel c p en, bin_off c = None ->
    before_loop cfg K true fuel (set_has_matched c) s p en = hm (before_loop cfg K true fuel c s p en).
  Proof.
    induction fuel as [|f IH]; intros c p en Hb; [reflexivity|]. cbn [before_loop].
    destruct (line_step (ltb_ cfg) s p en) as [[a e]|]; [|reflexivity].
    rewrite !sink_break_K. cbn [andthen]. rewrite brk_hm.
    rewrite !(sink_before_K cfg Hbin) by (cbn [bin_off set_has_matched]; rewrite brk_bin; exact Hb).
    cbn [andthen]. rewrite post_ctx_hm. apply IH. rewrite bin_post_ctx, brk_bin. exact Hb.
  Qed.

  Lemma before_context_hm c u : bin_off c = None ->
    before_context_by_line cfg K true (set_has_matched c) s u = hm (before_context_by_line cfg K true c s u).
  Proof.
    intro Hb. unfold before_context_by_line. cbn [last_line_visited set_has_matched].
    destruct (Nat.eqb (c_before cfg) 0); [reflexivity|].
    destruct (Nat.leb u (last_line_visited c)); [reflexivity|]. apply before_loop_hm. exact Hb.
  Qed.

  Lemma hm_ok o c2 : hm o = OK true c2 -> exists c2', o = OK true c2' /\ c2 = set_has_matched c2'.
  Proof. destruct o as [b c'|c'|]; cbn [hm]; intro H; try discriminate. injection H as -> <-. eauto. Qed.
End HasMatched.

(* ------------------------------------------------------------------ pieces of the simulation *)
Section Sim.
  Variable cfg : config.
  Hypothesis Hbin : c_binary cfg = BNone.
  Hypothesis Hinv : c_invert cfg = false.
  Hypothesis Hnostop : c_stop_on_nonmatch cfg = false.
  (* SearcherBuilder::build: passthru resets both context sizes *)
  Hypothesis Hpta : c_passthru cfg = true -> c_after cfg = 0.
  Variable s : bytes.
  Notation ltb := (lt_byte (c_lt cfg)).
  Notation K := (fun _ : nat => Continue).
  Notation L := (split_lines (lt_byte (c_lt cfg)) s).
  Notation n := (length (split_lines (lt_byte (c_lt cfg)) s)).
  Notation cnt := (count_lt (lt_byte (c_lt cfg)) s).
  Notation off := (off (lt_byte (c_lt cfg)) s).
  Notation seg := (seg (split_lines (lt_byte (c_lt cfg)) s)).
  Notation stepf := (fun g l => g_step_s cfg g l false).

  Lemma lines_at_split : forall a b p, alines_at cfg s (a ++ b) p ->
    alines_seq cfg s a p /\ alines_at cfg s b (p + length (concat a)).
  Proof.
    induction a as [|l r IH]; intros b p H.
    - split; [apply alines_seq_nil|]. cbn [concat length]. now rewrite Nat.add_0_r.
    - cbn [app] in H. apply alines_at_cons in H as (H1 & H2 & H3).
      destruct (IH b _ H3) as [I1 I2]. split.
      + apply alines_seq_cons. split; [exact H1|]. split; [|exact I1].
        intro Hr. apply H2. destruct r; [congruence|discriminate].
      + cbn [concat]. rewrite app_length, Nat.add_assoc. exact I2.
  Qed.

  Lemma seg_lines_seq k i : k <= i -> i <= n -> alines_seq cfg s (seg k i) (off k).
  Proof.
    intros H1 H2. pose proof (a_lines_at cfg s) as Hat.
    rewrite <- (firstn_skipn k L) in Hat. apply lines_at_split in Hat as [_ Hat].
    change (0 + length (concat (firstn k L))) with (off k) in Hat.
    rewrite <- (seg_all L k), (seg_split L k i n) in Hat by lia.
    apply lines_at_split in Hat as [Hs _]. exact Hs.
  Qed.

  Lemma n_le_len : n <= length s.
  Proof.
    pose proof (lines_count_le _ (L_lines ltb s)) as H. now rewrite split_lines_concat in H.
  Qed.

  Lemma seq_bound : forall pre p, alines_seq cfg s pre p -> pre <> [] -> p + length (concat pre) <= length s.
  Proof.
    induction pre as [|l r IH]; intros p H Hne; [congruence|].
    apply alines_seq_cons in H as (H1 & _ & H3). apply anext_line_eq in H1 as (_ & Hb & _).
    cbn [concat]. rewrite app_length. destruct r as [|l2 r2]; [cbn [concat length]; lia|].
    specialize (IH _ H3 ltac:(discriminate)). lia.
  Qed.

  Lemma pt_step g l : g_stopped g = false -> g_after g = 0 -> c_passthru cfg = true ->
    let g' := g_step_s cfg g l false in
    g_after g' = 0 /\ g_pend g' = [] /\ g_off g' = g_off g + length l /\ g_stopped g' = false.
  Proof.
    intros H1 H2 H3. unfold g_step_s. rewrite H1, H2, H3, Hnostop. cbn. auto.
  Qed.

  Lemma other_run : forall pre fuel c g p,
    aR0 cfg s c g -> g_off g = p -> g_pend g = [] -> g_after g = 0 -> c_passthru cfg = true ->
    g_stopped g = false -> alines_seq cfg s pre p -> length pre < fuel ->
    let gk := fold_left stepf pre g in
    exists c', other_loop cfg K true fuel c s p (p + length (concat pre)) = OK true c' /\
      pos c' = pos c /\ log c' = g_out gk ++ [EBegin] /\ bin_off c' = None /\
      g_off gk = p + length (concat pre) /\ g_stopped gk = false /\
      (Forall (terminated ltb) pre -> aR0 cfg s c' gk /\ g_after gk = 0 /\ g_pend gk = []).
  Proof.
    induction pre as [|l r IH]; intros fuel c g p HR Hoff Hpend Ha Hpt Hns Hseq Hf gk.
    - destruct fuel as [|f]; [cbn in Hf; lia|]. cbn [other_loop concat length]. rewrite Nat.add_0_r.
      unfold ltb_. rewrite line_step_end by lia.
      exists c. split; [reflexivity|]. unfold gk. cbn [fold_left].
      destruct (aR0_elim cfg s c g HR) as (E1 & E2 & E3 & E4 & E5 & E6 & E7 & E8 & E9 & E10 & E11).
      split; [reflexivity|]. split; [exact E3|]. split; [exact E2|]. split; [lia|]. split; [exact Hns|].
      intros _. auto.
    - destruct fuel as [|f]; [cbn in Hf; lia|].
      pose proof (seq_bound (l :: r) p Hseq ltac:(discriminate)) as Hbound.
      apply alines_seq_cons in Hseq as (Hnl & Hterm & Hrest).
      cbn [concat] in *. rewrite app_length in *. rewrite Nat.add_assoc.
      cbn [other_loop]. unfold ltb_. rewrite (a_line_step cfg s p l) by (auto; lia).
      destruct (aR0_elim cfg s c g HR) as (E1 & E2 & E3 & E4 & E5 & E6 & E7 & E8 & E9 & E10 & E11).
      rewrite (sink_other_K cfg Hbin) by exact E2. cbn [andthen].
      destruct (a_ctx_other cfg Hnostop s c g p l HR Hoff Hnl Ha Hpt Hns) as (F1 & F2 & F3 & F4).
      destruct (pt_step g l Hns Ha Hpt) as (G1 & G2 & G3 & G4).
      set (c1 := post_ctx cfg COther c s p (p + length l)) in *.
      set (g1 := g_step_s cfg g l false) in *.
      unfold gk. cbn [fold_left]. fold g1.
      destruct r as [|l2 r2].
      + cbn [fold_left concat length]. rewrite Nat.add_0_r.
        exists c1. split.
        { destruct f as [|f']; [cbn in Hf; lia|]. cbn [other_loop]. unfold ltb_. rewrite line_step_end by lia. reflexivity. }
        split; [exact F1|]. split; [exact F2|]. split; [exact F3|]. split; [lia|]. split; [exact G4|].
        intro Hall. inversion Hall; subst. auto.
      + assert (Ht : terminated ltb l) by (apply Hterm; discriminate).
        destruct (IH f c1 g1 (p + length l) (F4 Ht) ltac:(lia) G2 G1 Hpt G4 Hrest ltac:(cbn [length] in *; lia))
          as (c' & Hrun & P1 & P2 & P3 & P4 & P5 & P6).
        exists c'. split; [exact Hrun|]. split; [congruence|]. split; [exact P2|]. split; [exact P3|].
        split; [exact P4|]. split; [exact P5|].
        intro Hall. inversion Hall; subst. auto.
  Qed.

  (* what the multi-line loop keeps true between deliveries: everything up to line k is done *)
  Record Inv (c : core) (g : gstate) (k : nat) : Prop := mkInv {
    I_R0 : aR0 cfg s c g;
    I_off : g_off g = off k;
    I_ns : g_stopped g = false;
    I_pt : c_passthru cfg = true -> g_pend g = [] /\ g_after g = 0;
  }.

  (* MultiLine::sink_context without its before-context part, and the trailing context of run *)
  Definition ctx_to (c : core) (u : nat) : outcome :=
    if c_passthru cfg then other_context_by_line cfg K true c s u
    else after_context_by_line cfg K true c s u.

  Lemma ctx_run c g k i : Inv c g k -> k <= i -> i <= n ->
    let gk := fold_left stepf (seg k i) g in
    exists c1, ctx_to c (off i) = OK true c1 /\ pos c1 = pos c /\ log c1 = g_out gk ++ [EBegin] /\
      bin_off c1 = None /\ (i <= cnt -> Inv c1 gk i).
  Proof.
    intros [HR Hoff Hns Hpt] Hki Hin gk.
    pose proof (seg_lines_seq k i Hki Hin) as Hseq.
    pose proof (off_seg ltb s k i Hki) as Hoffi.
    unfold ctx_to. destruct (Bool.bool_dec (c_passthru cfg) true) as [Ept|Ept];
      [|apply Bool.not_true_is_false in Ept]; rewrite Ept.
    - destruct (Hpt Ept) as [Hpend Ha].
      destruct (aR0_elim cfg s c g HR) as (E1 & E2 & E3 & E4 & E5 & E6 & E7 & E8 & E9 & E10 & E11).
      unfold other_context_by_line. rewrite (E7 Hpend), Hoff, Hoffi.
      assert (Hfuel : length (seg k i) < S (length s)).
      { rewrite seg_length by exact Hin. pose proof n_le_len. lia. }
      destruct (other_run (seg k i) (S (length s)) c g (off k) HR Hoff Hpend Ha Ept Hns Hseq Hfuel)
        as (c' & Hrun & P1 & P2 & P3 & P4 & P5 & P6).
      exists c'. split; [exact Hrun|]. split; [exact P1|]. split; [exact P2|]. split; [exact P3|].
      intro Hic. destruct (P6 (seg_terminated ltb s k i Hki Hic)) as (Q1 & Q2 & Q3).
      constructor; auto. fold gk. rewrite Hoffi. exact P4.
    - rewrite Hoffi.
      destruct (a_nonmatch_run cfg Hbin Hinv Hnostop s (seg k i) c g (off k) HR Hoff Hns Ept Hseq)
        as (c' & Hrun & P1 & P2 & P3 & P4 & P5 & P6).
      exists c'. split; [exact Hrun|]. split; [exact P1|]. split; [exact P2|]. split; [exact P3|].
      intro Hic. constructor; auto.
      + apply P6. apply (seg_terminated ltb s k i Hki Hic).
      + fold gk. rewrite Hoffi. exact P4.
      + congruence.
  Qed.

  Lemma seg_cons i j : i < j -> j <= n -> seg i j = nth i L [] :: seg (S i) j.
  Proof.
    intros H1 H2. rewrite (seg_split L i (S i) j) by lia.
    assert (E : seg i (S i) = [nth i L []]).
    { unfold MLGroup.seg. replace (S i - i) with 1 by lia.
      assert (Hlen : i < length L) by lia. clear -Hlen. revert i Hlen.
      induction L as [|x l IH]; intros i H; [cbn in H; lia|]. destruct i as [|i]; [reflexivity|].
      cbn [skipn nth]. apply IH. cbn in H. lia. }
    rewrite E. reflexivity.
  Qed.

  (* a block of matched lines i .. j-1: before-context, then ONE matched event *)
  Lemma block_run c g i j : aR0 cfg s c g -> g_off g = off i -> g_stopped g = false -> i < j -> j <= n ->
    let g' := g_block cfg g (seg i j) in
    exists c2, before_context_by_line cfg K true c s (off i) = OK true c2 /\ bin_off c2 = None /\
      (g_pend g = [] -> c2 = c) /\
      let c3 := post_matched cfg c2 s (off i) (off j) in
      pos c3 = pos c /\ log c3 = g_out g' ++ [EBegin] /\ bin_off c3 = None /\
      last_line_visited c3 = off j /\ after_context_left c3 = c_after cfg /\
      (j <= cnt -> aR0 cfg s c3 g').
  Proof.
    intros HR Hoff Hns Hij Hjn g'.
    pose proof (seg_lines_seq i j ltac:(lia) Hjn) as Hseq.
    pose proof (seg_cons i j Hij Hjn) as Hcons.
    set (l1 := nth i L []) in *. rewrite Hcons in Hseq.
    apply alines_seq_cons in Hseq as (Hnl & Hterm & _).
    destruct (aR0_elim cfg s c g HR) as (E1 & E2 & E3 & E4 & E5 & E6 & E7 & E8 & E9 & E10 & E11).
    destruct (a_matched_step cfg Hbin s c g (off i) l1 HR Hoff Hns Hnl) as (c2s & Hrun & H2bin & Hc3).
    cbn zeta in Hc3. destruct Hc3 as (Hp3 & Hlog3 & Hbin3 & Hllv3 & HR3).
    rewrite (before_context_hm cfg Hbin s c (off i) E2) in Hrun.
    destruct (hm_ok _ _ Hrun) as (c2 & Hrun2 & ->).
    rewrite post_matched_hm in Hp3, Hlog3, Hbin3, Hllv3, HR3.
    cbn [pos log bin_off last_line_visited set_has_matched] in Hp3, Hlog3, Hbin3, Hllv3, H2bin.
    exists c2. split; [exact Hrun2|]. split; [exact H2bin|]. split.
    { intro Hpend. unfold before_context_by_line in Hrun2. rewrite (E7 Hpend), Hoff, Nat.leb_refl in Hrun2.
      destruct (Nat.eqb (c_before cfg) 0); congruence. }
    cbn zeta.
    set (c1 := count_lines cfg (brk cfg c2 (off i)) s (off i)) in *.
    assert (Hpm : forall e, post_matched cfg c2 s (off i) e =
                   with_event c1 (EMatched (abs_off c1 + off i) (line_number c1) (sub s (off i) e)) e (c_after cfg))
      by reflexivity.
    rewrite Hpm in Hp3, Hlog3, Hbin3, HR3. rewrite Hpm.
    unfold with_event in *. cbn [pos log bin_off last_line_visited after_context_left set_visited set_log] in *.
    rewrite (step_out cfg g l1 true Hns) in Hlog3. unfold new_events in Hlog3. cbn [app] in Hlog3.
    injection Hlog3 as Ho Hln _ Hlog1.
    split; [exact Hp3|]. split.
    { unfold g', g_block, block_rec. cbn [g_out app]. rewrite Ho, Hln, Hlog1.
      rewrite (sub_seg ltb s i j) by lia. reflexivity. }
    split; [exact Hbin3|]. split; [reflexivity|]. split; [reflexivity|].
    intro Hjc.
    assert (Hblk : Forall (terminated ltb) (seg i j)) by (apply seg_terminated; lia).
    assert (Ht1 : terminated ltb l1) by (rewrite Hcons in Hblk; inversion Hblk; assumption).
    specialize (HR3 Ht1).
    destruct (aR0_elim cfg s _ _ HR3) as (F1 & F2 & F3 & F4 & F5 & F6 & F7 & F8 & F9 & F10 & F11).
    cbn [abs_off bin_off log after_context_left has_sunk last_line_visited last_line_counted set_visited set_log
         set_has_matched] in F1, F2, F5, F8.
    pose proof (off_seg ltb s i j ltac:(lia)) as Hoffj.
    apply aR0_intro_nopend; unfold g', g_block, block_rec;
      cbn [g_pend g_out g_after g_sunk g_off g_lnum abs_off bin_off log after_context_left has_sunk
           last_line_visited last_line_counted set_visited set_log].
    - reflexivity.
    - exact F1.
    - exact F2.
    - rewrite Ho, Hln, Hlog1. rewrite (sub_seg ltb s i j) by lia. reflexivity.
    - reflexivity.
    - reflexivity.
    - rewrite Hoff. lia.
    - rewrite Hcons in Hoffj. cbn [concat] in Hoffj. rewrite app_length in Hoffj. lia.
    - eapply aLN_eq; [| |exact F9]; reflexivity.
    - rewrite E10, Hoff, <- Hoffj.
      change (count_lt ltb (firstn (off i) s)) with (lidx ltb s (off i)).
      change (count_lt ltb (firstn (off j) s)) with (lidx ltb s (off j)).
      rewrite !lidx_off by lia. rewrite seg_length by lia. lia.
    - lia.
  Qed.

  Lemma ml_sink_context_eq c u : ml_sink_context cfg K c s u =
    if c_passthru cfg then ctx_to c u
    else andthen (ctx_to c u) (fun c => before_context_by_line cfg K true c s u).
  Proof. unfold ml_sink_context, ctx_to. destruct (c_passthru cfg); reflexivity. Qed.

  (* MultiLine::sink_context then MultiLine::sink_matched for the block i .. j-1 *)
  Lemma deliver c g k i j : Inv c g k -> k <= i -> i < j -> j <= n ->
    let g' := g_block cfg (fold_left stepf (seg k i) g) (seg i j) in
    exists c3, andthen (ml_sink_context cfg K c s (off i)) (fun c => ml_sink_matched cfg K c s (off i) (off j)) = OK true c3 /\
      pos c3 = pos c /\ log c3 = g_out g' ++ [EBegin] /\ bin_off c3 = None /\
      last_line_visited c3 = off j /\ (j <= cnt -> Inv c3 g' j).
  Proof.
    intros HI Hki Hij Hjn g'.
    pose proof (lt_n_le_cnt ltb s i ltac:(lia)) as Hic.
    destruct (ctx_run c g k i HI Hki ltac:(lia)) as (c1 & Hctx & P1 & P2 & P3 & P4).
    specialize (P4 Hic). destruct P4 as [HR1 Hoff1 Hns1 Hpt1].
    set (gk := fold_left stepf (seg k i) g) in *.
    destruct (block_run c1 gk i j HR1 Hoff1 Hns1 Hij Hjn) as (c2 & Hbef & H2bin & Hsame & Hc3).
    cbn zeta in Hc3. destruct Hc3 as (Q1 & Q2 & Q3 & Q4 & Q5 & Q6).
    exists (post_matched cfg c2 s (off i) (off j)).
    assert (Hsm : forall c0, bin_off c0 = None -> ml_sink_matched cfg K c0 s (off i) (off j) = OK true (post_matched cfg c0 s (off i) (off j))).
    { intros c0 Hb0. unfold ml_sink_matched.
      pose proof (off_strict ltb s i j Hij Hjn).
      destruct (Nat.leb_spec (off j) (off i)); [lia|]. apply (sink_matched_K cfg Hbin). exact Hb0. }
    split.
    { rewrite ml_sink_context_eq.
      destruct (Bool.bool_dec (c_passthru cfg) true) as [Ept|Ept]; [|apply Bool.not_true_is_false in Ept]; rewrite Ept.
      - rewrite Hctx. cbn [andthen]. destruct (Hpt1 Ept) as [Hpend _]. rewrite (Hsame Hpend) in *.
        apply Hsm. exact P3.
      - rewrite Hctx. cbn [andthen]. rewrite Hbef. cbn [andthen]. apply Hsm. exact H2bin. }
    split; [congruence|]. split; [exact Q2|]. split; [exact Q3|]. split; [exact Q4|].
    intro Hjc. constructor.
    - exact (Q6 Hjc).
    - unfold g', g_block, block_rec. cbn [g_off]. fold gk. rewrite Hoff1. symmetry. apply off_seg. lia.
    - reflexivity.
    - intro Ept. split; [reflexivity|]. unfold g', g_block, block_rec. cbn [g_after]. exact (Hpta Ept).
  Qed.

  (* the trailing context of MultiLine::run *)
  Lemma tail_run c g k : Inv c g k -> k <= n ->
    exists c1, ctx_to c (length s) = OK true c1 /\ pos c1 = pos c /\
      log c1 = g_out (fold_left stepf (seg k n) g) ++ [EBegin] /\ bin_off c1 = None.
  Proof.
    intros HI Hk. destruct (ctx_run c g k n HI Hk ltac:(lia)) as (c1 & H1 & H2 & H3 & H4 & _).
    rewrite (off_n ltb s n) in H1 by lia. eauto.
  Qed.

  Lemma tail_end c : last_line_visited c = length s -> ctx_to c (length s) = OK true c.
  Proof.
    intro H. unfold ctx_to, other_context_by_line, after_context_by_line. rewrite H.
    cbn [other_loop after_loop]. unfold ltb_. rewrite line_step_end by lia.
    destruct (c_passthru cfg); [reflexivity|]. destruct (Nat.eqb (after_context_left c) 0); reflexivity.
  Qed.

  Lemma Inv_set_pos c g k q : Inv c g k -> Inv (set_pos c q) g k.
  Proof.
    intros [HR Hoff Hns Hpt]. constructor; auto.
    apply (aR0_transfer cfg s c (set_pos c q) g); try reflexivity. exact HR.
  Qed.

  Lemma Inv_init : Inv (set_log (core_new cfg) [EBegin]) g_init 0.
  Proof.
    constructor; [apply aR0_init|reflexivity|reflexivity|]. intros _. split; reflexivity.
  Qed.

  (* ---- the inverted search delivers the lines of a range one by one ---- *)
  Notation stept := (fun g l => g_step_s cfg g l true).

  Lemma g_block_single g l : g_stopped g = false -> g_block cfg g [l] = g_step_s cfg g l true.
  Proof.
    intro H. unfold g_block, block_rec, g_step_s. rewrite H. cbn [concat length]. rewrite app_nil_r.
    rewrite rev_snoc3. fold (ctxp cfg g). f_equal. lia.
  Qed.

  Lemma seg_single t : t < n -> seg t (S t) = [nth t L []].
  Proof. intro H. rewrite seg_cons by lia. now rewrite seg_nil. Qed.

  Lemma line_step_line t e : t < e -> e <= n -> line_step ltb s (off t) (off e) = Some (off t, off (S t)).
  Proof.
    intros H1 H2. pose proof (seg_lines_seq t (S t) ltac:(lia) ltac:(lia)) as Hseq.
    rewrite seg_single in Hseq by lia. apply alines_seq_cons in Hseq as (Hnl & _).
    pose proof (off_seg ltb s t (S t) ltac:(lia)) as Ho. rewrite seg_single in Ho by lia.
    cbn [concat] in Ho. rewrite app_nil_r in Ho.
    rewrite Ho. apply (a_line_step cfg s); [exact Hnl| |apply off_le_len].
    rewrite <- Ho. apply off_mono. lia.
  Qed.

  Lemma one_matched c g t : aR0 cfg s c g -> g_off g = off t -> g_stopped g = false -> t < n ->
    let g' := g_step_s cfg g (nth t L []) true in
    exists c2, before_context_by_line cfg K true c s (off t) = OK true c2 /\ bin_off c2 = None /\
      (g_pend g = [] -> c2 = c) /\
      let c3 := post_matched cfg c2 s (off t) (off (S t)) in
      pos c3 = pos c /\ log c3 = g_out g' ++ [EBegin] /\ bin_off c3 = None /\
      last_line_visited c3 = off (S t) /\
      (S t <= cnt -> Inv c3 g' (S t) /\ g_pend g' = []).
  Proof.
    intros HR Hoff Hns Ht g'.
    destruct (block_run c g t (S t) HR Hoff Hns ltac:(lia) ltac:(lia)) as (c2 & B1 & B2 & B3 & B4).
    cbn zeta in B4. rewrite seg_single in B4 by exact Ht. rewrite (g_block_single g _ Hns) in B4. fold g' in B4.
    destruct B4 as (Q1 & Q2 & Q3 & Q4 & Q5 & Q6).
    exists c2. split; [exact B1|]. split; [exact B2|]. split; [exact B3|]. cbn zeta.
    split; [exact Q1|]. split; [exact Q2|]. split; [exact Q3|]. split; [exact Q4|].
    intro Hc. assert (Hp : g_pend g' = []) by (unfold g', g_step_s; rewrite Hns; reflexivity).
    split; [|exact Hp]. constructor.
    - exact (Q6 Hc).
    - unfold g'. rewrite (step_off cfg g _ true Hns), Hoff. symmetry.
      pose proof (off_seg ltb s t (S t) ltac:(lia)) as Ho. rewrite seg_single in Ho by lia.
      cbn [concat] in Ho. rewrite app_nil_r in Ho. exact Ho.
    - unfold g'. apply (step_stopped cfg Hnostop). exact Hns.
    - intro Ept. split; [exact Hp|]. unfold g', g_step_s. rewrite Hns. cbn [g_after]. exact (Hpta Ept).
  Qed.

  Lemma matched_run : forall m t c g fuel,
    (0 < m -> Inv c g t /\ g_pend g = []) -> t + m <= n -> m < fuel ->
    exists c', mlc_inv_loop cfg s K fuel c (off t) (off (t + m)) = OK true c' /\ pos c' = pos c /\
      log c' = (if Nat.eqb m 0 then log c else g_out (fold_left stept (seg t (t + m)) g) ++ [EBegin]) /\
      bin_off c' = bin_off c /\
      (0 < m -> bin_off c' = None /\ last_line_visited c' = off (t + m) /\
                (t + m <= cnt -> Inv c' (fold_left stept (seg t (t + m)) g) (t + m))).
  Proof.
    induction m as [|m IH]; intros t c g fuel HI Hn Hf.
    - destruct fuel as [|f]; [lia|]. cbn [mlc_inv_loop]. rewrite Nat.add_0_r.
      rewrite line_step_end by lia. exists c. cbn [Nat.eqb]. repeat split; auto; lia.
    - destruct fuel as [|f]; [lia|]. destruct (HI ltac:(lia)) as [[HR Hoff Hns Hpt] Hpend].
      cbn [mlc_inv_loop]. rewrite (line_step_line t (t + S m)) by lia.
      destruct (one_matched c g t HR Hoff Hns ltac:(lia)) as (c2 & B1 & B2 & B3 & B4).
      cbn zeta in B4. rewrite (B3 Hpend) in *. destruct B4 as (Q1 & Q2 & Q3 & Q4 & Q5).
      destruct (aR0_elim cfg s c g HR) as (_ & Ebin & _).
      assert (Hsm : ml_sink_matched cfg K c s (off t) (off (S t)) = OK true (post_matched cfg c s (off t) (off (S t)))).
      { unfold ml_sink_matched. pose proof (off_strict ltb s t (S t) ltac:(lia) ltac:(lia)).
        destruct (Nat.leb_spec (off (S t)) (off t)); [lia|]. apply (sink_matched_K cfg Hbin). exact Ebin. }
      rewrite Hsm. cbn [andthen].
      set (c3 := post_matched cfg c s (off t) (off (S t))) in *.
      set (g1 := g_step_s cfg g (nth t L []) true) in *.
      assert (Hseg : seg t (t + S m) = nth t L [] :: seg (S t) (t + S m)) by (apply seg_cons; lia).
      rewrite Hseg. cbn [fold_left]. fold g1. cbn [Nat.eqb].
      replace (t + S m) with (S t + m) in * by lia.
      destruct (IH (S t) c3 g1 f) as (c' & R1 & R2 & R3 & R4 & R5); [|lia|lia|].
      { intro Hm. apply Q5. pose proof (n_le_Scnt ltb s). lia. }
      exists c'. split; [exact R1|]. split; [congruence|].
      destruct m as [|m'].
      + cbn [Nat.eqb] in R3. rewrite Nat.add_0_r in *. rewrite seg_nil. cbn [fold_left].
        split; [congruence|]. split; [congruence|]. intros _.
        split; [congruence|].
        cbn [mlc_inv_loop] in R1. destruct f as [|f']; [lia|]. cbn [mlc_inv_loop] in R1.
        rewrite line_step_end in R1 by lia. injection R1 as <-.
        split; [exact Q4|]. exact (fun H => proj1 (Q5 H)).
      + cbn [Nat.eqb] in R3. split; [exact R3|]. split; [congruence|]. intros _.
        destruct (R5 ltac:(lia)) as (S1 & S2 & S3). auto.
  Qed.

  (* MultiLine::sink_context for the range, then its lines as matches *)
  Lemma inv_deliver c g k i e : Inv c g k -> k <= i -> i < e -> e <= n ->
    let g' := fold_left stept (seg i e) (fold_left stepf (seg k i) g) in
    exists c', andthen (ml_sink_context cfg K c s (off i))
                 (fun c => mlc_inv_loop cfg s K (S (length s)) c (off i) (off e)) = OK true c' /\
      pos c' = pos c /\ log c' = g_out g' ++ [EBegin] /\ bin_off c' = None /\
      last_line_visited c' = off e /\ (e <= cnt -> Inv c' g' e).
  Proof.
    intros HI Hki Hie Hen g'.
    pose proof (lt_n_le_cnt ltb s i ltac:(lia)) as Hic.
    destruct (ctx_run c g k i HI Hki ltac:(lia)) as (c1 & Hctx & P1 & P2 & P3 & P4).
    specialize (P4 Hic). destruct P4 as [HR1 Hoff1 Hns1 Hpt1].
    set (gk := fold_left stepf (seg k i) g) in *.
    destruct (one_matched c1 gk i HR1 Hoff1 Hns1 ltac:(lia)) as (c2 & B1 & B2 & B3 & B4).
    cbn zeta in B4. destruct B4 as (Q1 & Q2 & Q3 & Q4 & Q5).
    set (c3 := post_matched cfg c2 s (off i) (off (S i))) in *.
    set (g1 := g_step_s cfg gk (nth i L []) true) in *.
    assert (Hseg : seg i e = nth i L [] :: seg (S i) e) by (apply seg_cons; lia).
    assert (Hg' : g' = fold_left stept (seg (S i) e) g1) by (unfold g'; rewrite Hseg; reflexivity).
    assert (Hfirst : forall c0, bin_off c0 = None -> c0 = c2 ->
              mlc_inv_loop cfg s K (S (length s)) c0 (off i) (off e) =
              mlc_inv_loop cfg s K (length s) c3 (off (S i)) (off e)).
    { intros c0 Hb0 ->. cbn [mlc_inv_loop]. rewrite (line_step_line i e) by lia.
      unfold ml_sink_matched. pose proof (off_strict ltb s i (S i) ltac:(lia) ltac:(lia)).
      destruct (Nat.leb_spec (off (S i)) (off i)); [lia|].
      rewrite (sink_matched_K cfg Hbin) by exact Hb0. reflexivity. }
    replace e with (S i + (e - S i)) in * by lia.
    destruct (matched_run (e - S i) (S i) c3 g1 (length s)) as (c' & R1 & R2 & R3 & R4 & R5).
    { intro Hm. apply Q5. pose proof (n_le_Scnt ltb s). lia. }
    { lia. }
    { pose proof n_le_len. lia. }
    exists c'. split.
    { rewrite ml_sink_context_eq.
      destruct (Bool.bool_dec (c_passthru cfg) true) as [Ept|Ept]; [|apply Bool.not_true_is_false in Ept]; rewrite Ept.
      - rewrite Hctx. cbn [andthen]. destruct (Hpt1 Ept) as [Hpend _].
        rewrite (Hfirst c1 P3 (eq_sym (B3 Hpend))). exact R1.
      - rewrite Hctx. cbn [andthen]. rewrite B1. cbn [andthen]. rewrite (Hfirst c2 B2 eq_refl). exact R1. }
    split; [congruence|]. rewrite Hg'.
    destruct (e - S i) as [|m'] eqn:Em.
    - cbn [Nat.eqb] in R3. rewrite Nat.add_0_r in *. rewrite seg_nil. cbn [fold_left].
      destruct (length s) as [|f'] eqn:El; [pose proof n_le_len; lia|].
      cbn [mlc_inv_loop] in R1. rewrite line_step_end in R1 by lia. injection R1 as <-.
      split; [exact Q2|]. split; [exact Q3|]. split; [exact Q4|]. exact (fun H => proj1 (Q5 H)).
    - cbn [Nat.eqb] in R3. destruct (R5 ltac:(lia)) as (S1 & S2 & S3). auto.
  Qed.
End Sim.

(* ------------------------------------------------------------------ facts about the successive matches *)
Section MatchesFacts.
  Variable M : matcher.
  Hypothesis Hfa : find_at_ok M.
  Variable s : bytes.
  Notation fa := (m_find_at M).

  Lemma ml_matches_end fuel p : length s <= p -> ml_matches fa fuel s p = [].
  Proof.
    intro H. destruct fuel as [|f]; [reflexivity|]. cbn [ml_matches].
    destruct (Nat.leb_spec (length s) p); [reflexivity|lia].
  Qed.

  Definition next_pos (a b : nat) : nat := if Nat.leb b a && Nat.ltb b (length s) then b + 1 else b.

  Lemma pos_advance c a b : pos (ml_advance c s a b) = next_pos a b.
  Proof.
    unfold ml_advance, next_pos. cbn [pos set_pos]. destruct (Nat.leb b a && Nat.ltb b (length s)); reflexivity.
  Qed.

  Lemma next_pos_bounds p a b : p <= a -> a <= b -> b <= length s -> p < length s ->
    b <= next_pos a b /\ next_pos a b <= length s /\ (p < next_pos a b \/ length s <= next_pos a b).
  Proof.
    intros H1 H2 H3 H4. unfold next_pos.
    destruct (Nat.leb_spec b a); destruct (Nat.ltb_spec b (length s)); cbn [andb]; lia.
  Qed.

  Lemma ml_matches_some f p a b : p < length s -> fa s p = Some (a, b) ->
    ml_matches fa (S f) s p = (a, b) :: ml_matches fa f s (next_pos a b).
  Proof.
    intros Hp E. cbn [ml_matches]. destruct (Nat.leb_spec (length s) p); [lia|]. rewrite E. reflexivity.
  Qed.

  Lemma ml_matches_none f p : fa s p = None -> ml_matches fa (S f) s p = [].
  Proof. intro E. cbn [ml_matches]. destruct (Nat.leb (length s) p); [reflexivity|]. now rewrite E. Qed.

  (* enough fuel: the list does not depend on it *)
  Lemma ml_matches_fuel : forall f1 f2 p, length s - p < f1 -> length s - p < f2 ->
    ml_matches fa f1 s p = ml_matches fa f2 s p.
  Proof.
    induction f1 as [|f1 IH]; intros f2 p H1 H2; [lia|]. destruct f2 as [|f2]; [lia|].
    cbn [ml_matches]. destruct (Nat.leb_spec (length s) p) as [Hle|Hlt]; [reflexivity|].
    destruct (fa s p) as [[a b]|] eqn:E; [|reflexivity].
    destruct (Hfa s p a b E) as (A1 & A2 & A3). f_equal.
    fold (next_pos a b). destruct (next_pos_bounds p a b A1 A2 A3 Hlt) as (B1 & B2 & [B3|B3]).
    - apply IH; lia.
    - rewrite !ml_matches_end by exact B3. reflexivity.
  Qed.
End MatchesFacts.

(* ------------------------------------------------------------------ the non-inverted loop *)
Section NonInverted.
  Variable cfg0 : config.
  Variable M : matcher.
  Hypothesis Hbin : c_binary cfg0 = BNone.
  Hypothesis Hfa : find_at_ok M.
  Hypothesis Hni : c_invert cfg0 = false.
  Hypothesis Hpta : c_passthru cfg0 = true -> c_after cfg0 = 0.
  Variable s : bytes.
  Notation cfgn := (cfg_nostop cfg0).
  Notation ltb := (lt_byte (c_lt cfg0)).
  Notation K := (fun _ : nat => Continue).
  Notation L := (split_lines (lt_byte (c_lt cfg0)) s).
  Notation n := (length (split_lines (lt_byte (c_lt cfg0)) s)).
  Notation cnt := (count_lt (lt_byte (c_lt cfg0)) s).
  Notation off := (off (lt_byte (c_lt cfg0)) s).
  Notation seg := (seg (split_lines (lt_byte (c_lt cfg0)) s)).
  Notation stepf := (fun g l => g_step_s cfgn g l false).
  Notation fa := (m_find_at M).
  Notation Inv := (Inv cfgn s).
  Notation ivf := (iv (lt_byte (c_lt cfg0)) s).

  Definition offp (b : nat * nat) : nat * nat := (off (fst b), off (snd b)).
  Definition olist (last : option (nat * nat)) : list (nat * nat) := match last with None => [] | Some b => [b] end.

  Lemma deliver0 c g k i j : Inv c g k -> k <= i -> i < j -> j <= n ->
    let g' := g_block cfgn (fold_left stepf (seg k i) g) (seg i j) in
    exists c3, andthen (ml_sink_context cfg0 K c s (off i)) (fun c => ml_sink_matched cfg0 K c s (off i) (off j)) = OK true c3 /\
      pos c3 = pos c /\ log c3 = g_out g' ++ [EBegin] /\ bin_off c3 = None /\
      last_line_visited c3 = off j /\ (j <= cnt -> Inv c3 g' j).
  Proof. exact (deliver cfgn Hbin eq_refl eq_refl Hpta s c g k i j). Qed.

  Lemma tail_run0 c g k : Inv c g k -> k <= n ->
    exists c1, ctx_to cfg0 s c (length s) = OK true c1 /\ pos c1 = pos c /\
      log c1 = g_out (fold_left stepf (seg k n) g) ++ [EBegin] /\ bin_off c1 = None.
  Proof. exact (tail_run cfgn Hbin eq_refl eq_refl Hpta s c g k). Qed.

  Lemma tail_end0 c : last_line_visited c = length s -> ctx_to cfg0 s c (length s) = OK true c.
  Proof. exact (tail_end cfgn Hpta s c). Qed.

  Lemma flush_tail_eq c : (if c_passthru cfg0 then other_context_by_line cfg0 K true c s (length s)
                           else after_context_by_line cfg0 K true c s (length s)) = ctx_to cfg0 s c (length s).
  Proof. reflexivity. Qed.

  Lemma Inv_advance c g k a b : Inv c g k -> Inv (ml_advance c s a b) g k.
  Proof.
    intro H. unfold ml_advance. destruct (Nat.leb b a && Nat.ltb (pos (set_pos c b)) (length s));
      repeat apply Inv_set_pos; exact H.
  Qed.

  (* the final flush: the pending range, if any, is never empty *)
  Lemma flush c g k last : Inv c g k -> k <= n ->
    match last with None => True | Some (pi, pj) => k <= pi /\ pi < pj /\ pj <= n end ->
    exists b c', mlc_flush cfg0 s (option_map offp last) K c = OK b c' /\ pos c' = pos c /\ bin_off c' = None /\
      log c' = g_out (bfold cfgn L (olist last) k g) ++ [EBegin].
  Proof.
    intros HI Hk Hlast. unfold mlc_flush. destruct last as [[pi pj]|]; cbn [option_map olist bfold].
    - destruct Hlast as (H1 & Hij & H3). unfold offp. cbn [fst snd].
      destruct (Nat.leb_spec pj pi) as [Hd|Hd]; [lia|].
      destruct (deliver0 c g k pi pj HI H1 Hij H3) as (c3 & D1 & D2 & D3 & D4 & D5 & D6).
      rewrite D1. cbn [andthen]. rewrite flush_tail_eq.
      destruct (Nat.le_gt_cases pj cnt) as [Hc|Hc].
      + destruct (tail_run0 c3 _ pj (D6 Hc) H3) as (c4 & T1 & T2 & T3 & T4).
        rewrite T1. exists true, c4. split; [reflexivity|]. split; [congruence|]. split; [exact T4|exact T3].
      + assert (pj = n) by (pose proof (n_le_Scnt ltb s); lia). subst pj.
        rewrite (off_n ltb s n) in D5 by lia. rewrite (tail_end0 c3 D5).
        exists true, c3. split; [reflexivity|]. split; [exact D2|]. split; [exact D4|].
        rewrite seg_nil. exact D3.
    - cbn [andthen]. rewrite flush_tail_eq. destruct (tail_run0 c g k HI Hk) as (c1 & T1 & T2 & T3 & T4).
      rewrite T1. exists true, c1. auto.
  Qed.

  (* one MultiLine::sink call, non-inverted *)
  Lemma sink_none c last : fa s (pos c) = None ->
    mlc_sink cfg0 M s last K c = OK true (set_pos c (length s)) /\ next_last cfg0 M s c last = last.
  Proof. intro E. unfold mlc_sink, next_last, ml_find. rewrite Hni, E. auto. Qed.

  Lemma sink_some c last a b : fa s (pos c) = Some (a, b) -> a <= b -> b <= length s ->
    let c1 := ml_advance c s a b in
    let i := fst (ivf (a, b)) in let j := snd (ivf (a, b)) in
    mlc_sink cfg0 M s last K c =
      (if Nat.leb (off j) (off i) then OK true c1 else
       match last with
       | None => OK true c1
       | Some (pls, ple) =>
         if Nat.leb (off i) ple then OK true c1
         else andthen (ml_sink_context cfg0 K c1 s pls) (fun c => ml_sink_matched cfg0 K c s pls ple)
       end) /\
    next_last cfg0 M s c last =
      (if Nat.leb (off j) (off i) then last else
       match last with
       | None => Some (off i, off j)
       | Some (pls, ple) => if Nat.leb (off i) ple then Some (pls, off j) else Some (off i, off j)
       end).
  Proof.
    intros E Hab Hb. cbn zeta. unfold mlc_sink, next_last, ml_find. rewrite Hni, E.
    rewrite (locate_iv ltb s a b Hab Hb). auto.
  Qed.

  Definition last_ok (k : nat) (last : option (nat * nat)) (ivs : list (nat * nat)) : Prop :=
    match last with
    | None => True
    | Some (pi, pj) => k <= pi /\ pi < pj /\ pj <= n /\ isorted L pi pj ivs
    end.

  (* an empty range at the end of the list of ranges changes nothing *)
  Lemma bfold_dangling last i j k g : j <= i -> last_ok k last [(i, j)] ->
    bfold cfgn L (imerge last [(i, j)]) k g = bfold cfgn L (olist last) k g.
  Proof.
    intros Hji Hlast. destruct last as [[pi pj]|]; cbn [imerge olist].
    - destruct Hlast as (H1 & H2 & H3 & (S1 & S2 & S3 & S4 & _)).
      destruct (Nat.leb_spec i pj) as [Hm|Hm].
      + assert (j = pj) by lia. subst j. reflexivity.
      + cbn [bfold]. destruct (Nat.leb_spec pj pi); [lia|]. destruct (Nat.leb_spec j i); [reflexivity|lia].
    - cbn [bfold]. destruct (Nat.leb_spec j i); [reflexivity|lia].
  Qed.

  Lemma ni_loop : forall fuel c g k last,
    Inv c g k -> k <= n -> pos c <= length s -> length s - pos c < fuel ->
    (last = None -> k = 0) ->
    last_ok k last (map ivf (ml_matches fa fuel s (pos c))) ->
    exists b c', mlc_loop cfg0 M s fuel (option_map offp last) K c = OK b c' /\
      pos c' = length s /\ bin_off c' = None /\
      log c' = g_out (bfold cfgn L (imerge last (map ivf (ml_matches fa fuel s (pos c)))) k g) ++ [EBegin].
  Proof.
    induction fuel as [|f IH]; intros c g k last HI Hk Hpos Hf Hk0 Hlast; [lia|].
    cbn [mlc_loop]. destruct (Nat.leb_spec (length s) (pos c)) as [Hend|Hlt].
    - (* the loop is over *)
      rewrite ml_matches_end in * by exact Hend. cbn [map] in *.
      destruct (flush c g k last HI Hk) as (b & c' & F1 & F2 & F3 & F4).
      { destruct last as [[pi pj]|]; [|exact I]. cbn [last_ok] in Hlast. tauto. }
      exists b, c'. split; [exact F1|]. split; [lia|]. split; [exact F3|].
      destruct last as [[pi pj]|]; exact F4.
    - destruct (fa s (pos c)) as [[a b]|] eqn:E.
      + (* a match *)
        destruct (Hfa s (pos c) a b E) as (A1 & A2 & A3).
        destruct (next_pos_bounds s (pos c) a b A1 A2 A3 Hlt) as (B1 & B2 & B3).
        rewrite (ml_matches_some M s f (pos c) a b Hlt E) in *. cbn [map] in *.
        destruct (sink_some c (option_map offp last) a b E A2 A3) as [Hsink Hnext]. cbn zeta in Hsink, Hnext.
        pose proof (iv_bounds ltb s a b A2) as [V1 V2].
        pose proof (iv_empty_end ltb s a b A2 A3) as Hempty.
        pose proof (mchain_isorted ltb s (ml_matches fa f s (next_pos s a b)) a b A2
                      (mchain_weaken s _ _ _ B1 (matches_chain fa Hfa s f (next_pos s a b)))) as Hsorted.
        destruct (ivf (a, b)) as [i j] eqn:Eiv. cbn [fst snd] in *.
        set (c1 := ml_advance c s a b) in *.
        assert (HI1 : Inv c1 g k) by (apply Inv_advance; exact HI).
        assert (Hp1 : pos c1 = next_pos s a b) by apply pos_advance.
        assert (Hf1 : length s - pos c1 < f) by lia.
        rewrite (off_leb ltb s j i) in Hsink, Hnext by lia.
        destruct (Nat.leb_spec j i) as [Hd|Hd].
        * (* an empty line range: the match at the very end, after the last terminator, is dropped *)
          destruct (Hempty Hd) as (Ea & Eb & _).
          assert (Hnp : length s <= next_pos s a b) by lia.
          rewrite (ml_matches_end M s f _ Hnp) in *. cbn [map] in *.
          rewrite Hsink, Hnext. cbn [andthen].
          destruct (IH c1 g k last HI1 Hk ltac:(lia) Hf1 Hk0) as (b0 & c' & R1 & R2 & R3 & R4).
          { rewrite Hp1, (ml_matches_end M s f _ Hnp). cbn [map].
            destruct last as [[pi pj]|]; [|exact I]. cbn [last_ok] in *. tauto. }
          rewrite Hp1, (ml_matches_end M s f _ Hnp) in R4. cbn [map] in R4.
          exists b0, c'. split; [exact R1|]. split; [exact R2|]. split; [exact R3|].
          rewrite (bfold_dangling last i j k g Hd Hlast).
          destruct last as [[pi pj]|]; exact R4.
        * set (rest := map ivf (ml_matches fa f s (next_pos s a b))) in *.
          destruct last as [[pi pj]|].
          -- destruct Hlast as (L1 & L2 & L3 & (S1 & S2 & S3 & S4 & S5)).
             cbn [option_map offp fst snd] in *. rewrite (off_leb ltb s i pj) in Hsink, Hnext by lia.
             cbn [imerge]. destruct (Nat.leb_spec i pj) as [Hm|Hm].
             ++ (* the ranges touch: extend the pending one *)
                rewrite Hsink, Hnext. cbn [andthen].
                destruct (IH c1 g k (Some (pi, j)) HI1 Hk ltac:(lia) Hf1 ltac:(discriminate)) as (b0 & c' & R1 & R2 & R3 & R4).
                { rewrite Hp1. cbn [last_ok]. repeat split; try lia. apply (isorted_weaken L rest i j); auto; lia. }
                rewrite Hp1 in R4. exists b0, c'. auto.
             ++ (* a gap: deliver the pending range *)
                destruct (deliver0 c1 g k pi pj HI1 L1 L2 L3) as (c3 & D1 & D2 & D3 & D4 & D5 & D6).
                rewrite Hsink, Hnext. rewrite D1. cbn [andthen].
                specialize (D6 (lt_n_le_cnt ltb s pj ltac:(lia))).
                destruct (IH c3 _ pj (Some (i, j)) D6 L3 ltac:(lia) ltac:(lia) ltac:(discriminate)) as (b0 & c' & R1 & R2 & R3 & R4).
                { rewrite D2, Hp1. cbn [last_ok]. repeat split; auto; lia. }
                rewrite D2, Hp1 in R4. exists b0, c'. split; [exact R1|]. split; [exact R2|]. split; [exact R3|].
                cbn [bfold]. destruct (Nat.leb_spec pj pi); [lia|]. exact R4.
          -- (* the first match *)
             cbn [option_map] in *. rewrite Hsink, Hnext. cbn [andthen imerge].
             destruct (IH c1 g k (Some (i, j)) HI1 Hk ltac:(lia) Hf1 ltac:(discriminate)) as (b0 & c' & R1 & R2 & R3 & R4).
             { rewrite Hp1. cbn [last_ok]. rewrite (Hk0 eq_refl). repeat split; auto; lia. }
             rewrite Hp1 in R4. exists b0, c'. auto.
      + (* no further match *)
        destruct (sink_none c (option_map offp last) E) as [Hsink Hnext]. rewrite Hsink, Hnext. cbn [andthen].
        rewrite (ml_matches_none M s f (pos c) E) in *.
        destruct (IH (set_pos c (length s)) g k last (Inv_set_pos cfgn s c g k (length s) HI) Hk) as (b0 & c' & R1 & R2 & R3 & R4);
          cbn [pos set_pos]; try lia; auto.
        { rewrite ml_matches_end by lia. destruct last as [[pi pj]|]; [|exact I].
          cbn [last_ok map] in *. tauto. }
        cbn [pos set_pos] in R4. rewrite ml_matches_end in R4 by lia. exists b0, c'. auto.
  Qed.

  (* ---- MultiLine::run, non-inverted ---- *)
  Lemma finish_ok c' out : pos c' = length s -> bin_off c' = None -> log c' = out ++ [EBegin] ->
    finish K c' (byte_count c') = RunOk (EBegin :: rev out ++ [EFinish (length s) None]).
  Proof.
    intros H1 H2 H3. unfold finish, byte_count. rewrite H2, H1, H3.
    cbn [rev]. rewrite rev_app_distr. reflexivity.
  Qed.

  Lemma run_as_loop :
    multi_line_run cfg0 M K s =
    match mlc_loop cfg0 M s (S (S (length s))) None K (set_log (core_new cfg0) [EBegin]) with
    | OK _ c => finish K c (byte_count c)
    | ERR c => RunErr (rev (log c))
    | FUEL => RunFuel
    end.
  Proof.
    rewrite ml_run_eq_body. unfold ml_body. rewrite emit_K. cbn [andthen].
    rewrite (binary_guard_K cfg0 Hbin) by reflexivity. reflexivity.
  Qed.

  Theorem noninv_blocks :
    multi_line_run cfg0 M K s =
    RunOk (EBegin :: rev (g_out (bfold cfgn L (imerge None (map ivf (ml_matches fa (S (length s)) s 0))) 0 g_init))
                  ++ [EFinish (length s) None]).
  Proof.
    rewrite run_as_loop.
    set (c0 := set_log (core_new cfg0) [EBegin]).
    assert (Hm : ml_matches fa (S (S (length s))) s 0 = ml_matches fa (S (length s)) s 0)
      by (apply (ml_matches_fuel M Hfa s); lia).
    destruct (ni_loop (S (S (length s))) c0 g_init 0 None (Inv_init cfgn s)) as (b & c' & R1 & R2 & R3 & R4);
      try (cbn [pos c0 set_log core_new]; lia); auto.
    { exact I. }
    cbn [option_map] in R1. rewrite R1.
    cbn [pos c0 set_log core_new] in R4. rewrite Hm in R4.
    apply finish_ok; assumption.
  Qed.

  Theorem noninv_eq_ref : multi_line_run cfg0 M K s = RunOk (ml_ref cfg0 fa s).
  Proof.
    rewrite noninv_blocks. f_equal.
    unfold ml_ref, ml_flags. rewrite Hni. f_equal. f_equal.
    set (ms := ml_matches fa (S (length s)) s 0).
    destruct (flags_merged ltb s ms 0 (matches_chain fa Hfa s _ 0)) as [Hflags Hsep].
    set (blocks := imerge None (map ivf ms)) in *.
    unfold line_events, matched_flags. fold ms. rewrite Hflags.
    rewrite (lfold_combine cfgn (flagf blocks) L 0 g_init).
    rewrite group_is_gacc. f_equal.
    pose proof (lfold_bfold cfgn eq_refl L (L_lines ltb s) blocks 0 0 g_init g_init eq_refl eq_refl
                  (le_n 0) ltac:(lia) I (fun _ => I) Hsep) as HR.
    cbn [skipn] in HR. unfold Rel in HR. rewrite HR. reflexivity.
  Qed.
End NonInverted.

(* ------------------------------------------------------------------ the inverted loop *)
(* searching from a later position, up to the start of the match found, finds the same match:
   true of every leftmost search over a fixed haystack (the candidates from p' are among those
   from p) *)
Definition find_at_mono (M : matcher) : Prop :=
  forall s p p', p <= p' ->
    match m_find_at M s p with
    | Some (a, b) => p' <= a -> m_find_at M s p' = Some (a, b)
    | None => m_find_at M s p' = None
    end.

Lemma isorted_lower L ivs : forall pi pj, isorted L pi pj ivs -> Forall (fun b : nat * nat => pi <= fst b) ivs.
Proof.
  induction ivs as [|[i j] r IH]; intros pi pj H; [constructor|]. destruct H as (H1 & H2 & H3 & H4 & H5).
  constructor; [exact H1|]. eapply Forall_impl; [|apply (IH i j H5)]. intros b Hb. cbn beta in *. lia.
Qed.

Section Inverted.
  Variable cfg0 : config.
  Variable M : matcher.
  Hypothesis Hbin : c_binary cfg0 = BNone.
  Hypothesis Hfa : find_at_ok M.
  Hypothesis Hmono : find_at_mono M.
  Hypothesis Hiv : c_invert cfg0 = true.
  Hypothesis Hpta : c_passthru cfg0 = true -> c_after cfg0 = 0.
  Variable s : bytes.
  Notation cfgn := (cfg_nostop cfg0).
  Notation ltb := (lt_byte (c_lt cfg0)).
  Notation K := (fun _ : nat => Continue).
  Notation L := (split_lines (lt_byte (c_lt cfg0)) s).
  Notation n := (length (split_lines (lt_byte (c_lt cfg0)) s)).
  Notation cnt := (count_lt (lt_byte (c_lt cfg0)) s).
  Notation off := (off (lt_byte (c_lt cfg0)) s).
  Notation seg := (seg (split_lines (lt_byte (c_lt cfg0)) s)).
  Notation stepf := (fun g l => g_step_s cfgn g l false).
  Notation stept := (fun g l => g_step_s cfgn g l true).
  Notation fa := (m_find_at M).
  Notation Inv := (Inv cfgn s).
  Notation ivf := (iv (lt_byte (c_lt cfg0)) s).

  (* the per-line reference over a list of flags *)
  Definition lfoldl (flags : list bool) (ls : list bytes) (g : gstate) : gstate :=
    fold_left (fun st (lf : bytes * bool) => g_step_s cfgn st (fst lf) (snd lf)) (combine ls flags) g.

  Lemma lfoldl_app : forall l1 f1 l2 f2 g, length f1 = length l1 ->
    lfoldl (f1 ++ f2) (l1 ++ l2) g = lfoldl f2 l2 (lfoldl f1 l1 g).
  Proof.
    induction l1 as [|x l1 IH]; intros f1 l2 f2 g H.
    - destruct f1; [reflexivity|discriminate].
    - destruct f1 as [|b f1]; [discriminate|]. cbn [app]. unfold lfoldl. cbn [combine fold_left fst snd].
      apply IH. cbn in H. lia.
  Qed.

  Lemma lfoldl_repeat v : forall ls g, lfoldl (repeat v (length ls)) ls g = fold_left (fun g l => g_step_s cfgn g l v) ls g.
  Proof.
    induction ls as [|l r IH]; intro g; [reflexivity|]. cbn [length repeat]. unfold lfoldl.
    cbn [combine fold_left fst snd]. apply IH.
  Qed.

  Lemma inv_deliver0 c g k i e : Inv c g k -> k <= i -> i < e -> e <= n ->
    let g' := fold_left stept (seg i e) (fold_left stepf (seg k i) g) in
    exists c', andthen (ml_sink_context cfg0 K c s (off i))
                 (fun c => mlc_inv_loop cfg0 s K (S (length s)) c (off i) (off e)) = OK true c' /\
      pos c' = pos c /\ log c' = g_out g' ++ [EBegin] /\ bin_off c' = None /\
      last_line_visited c' = off e /\ (e <= cnt -> Inv c' g' e).
  Proof. exact (inv_deliver cfgn Hbin eq_refl eq_refl Hpta s c g k i e). Qed.

  Lemma tail_run1 c g k : Inv c g k -> k <= n ->
    exists c1, ctx_to cfg0 s c (length s) = OK true c1 /\ pos c1 = pos c /\
      log c1 = g_out (fold_left stepf (seg k n) g) ++ [EBegin] /\ bin_off c1 = None.
  Proof. exact (tail_run cfgn Hbin eq_refl eq_refl Hpta s c g k). Qed.

  Lemma tail_end1 c : last_line_visited c = length s -> ctx_to cfg0 s c (length s) = OK true c.
  Proof. exact (tail_end cfgn Hpta s c). Qed.

  Lemma flush_none c : mlc_flush cfg0 s None K c = ctx_to cfg0 s c (length s).
  Proof. reflexivity. Qed.

  Lemma repeat_app' {A} (x : A) a b : repeat x a ++ repeat x b = repeat x (a + b).
  Proof. induction a as [|a IH]; [reflexivity|]. cbn [repeat app Nat.add]. now rewrite IH. Qed.

  (* ---- the successive matches seen from a later position ---- *)
  Lemma ml_matches_shift f1 f2 q q' : q <= q' -> q' < length s ->
    length s - q < f1 -> length s - q' < f2 ->
    match fa s q with Some (a, b) => q' <= a | None => True end ->
    ml_matches fa f1 s q = ml_matches fa f2 s q'.
  Proof.
    intros Hq Hq' H1 H2 Hm. pose proof (Hmono s q q' Hq) as Hmo.
    destruct f1 as [|f1]; [lia|]. destruct f2 as [|f2]; [lia|].
    destruct (fa s q) as [[a b]|] eqn:E.
    - specialize (Hmo Hm). destruct (Hfa s q a b E) as (A1 & A2 & A3).
      rewrite (ml_matches_some M s f1 q a b ltac:(lia) E), (ml_matches_some M s f2 q' a b Hq' Hmo). f_equal.
      destruct (next_pos_bounds s q' a b Hm A2 A3 Hq') as (B1 & B2 & [B3|B3]).
      + apply (ml_matches_fuel M Hfa s); lia.
      + rewrite !ml_matches_end by exact B3. reflexivity.
    - rewrite (ml_matches_none M s f1 q E), (ml_matches_none M s f2 q' Hmo). reflexivity.
  Qed.

  Lemma adv_le_locate a b : a <= b -> b <= length s -> adv_pos s a b <= off (snd (ivf (a, b))).
  Proof.
    intros Hab Hb. pose proof (locate_iv ltb s a b Hab Hb) as Hl.
    pose proof (locate_end_ge ltb s a b Hb) as H1. rewrite Hl in H1. cbn [snd] in H1.
    unfold adv_pos. destruct (Nat.leb_spec b a) as [Hba|Hba]; destruct (Nat.ltb_spec b (length s)) as [Hbl|Hbl]; cbn [andb]; try lia.
    assert (a = b) by lia. subst a.
    pose proof (locate_progress ltb s b b b Hbl (le_n _) (le_n _) Hb) as H2. rewrite Hl in H2. cbn [snd] in H2. lia.
  Qed.

  Definition G (R : list (nat * nat)) (t : nat) : bool := negb (flagf (map ivf R) t).

  (* the inner loop: starting at q with the lines up to j excluded, it ends with the lines up to
     some j' excluded; those lines are overlapped by the matches found from q, and the matches
     seen from the start of line j' are the remaining ones *)
  Lemma ext_spec : forall f q j, j <= n -> q <= off j -> length s - q < f ->
    exists q' j', ml_ext_pos cfg0 M s f q (off j) = Some (q', off j') /\ j <= j' /\ j' <= n /\
      (forall t, j <= t < j' -> flagf (map ivf (ml_matches fa f s q)) t = true) /\
      (forall f2 t, length s - off j' < f2 -> j' <= t < n ->
         flagf (map ivf (ml_matches fa f s q)) t = flagf (map ivf (ml_matches fa f2 s (off j'))) t).
  Proof.
    induction f as [|f IH]; intros q j Hj Hq Hf; [lia|].
    pose proof (off_le_len ltb s j) as Hoj.
    assert (Hstop : forall (Hsame : forall f2, length s - off j < f2 -> j < n ->
                       ml_matches fa (S f) s q = ml_matches fa f2 s (off j)),
              exists q' j', Some (q, off j) = Some (q', off j') /\ j <= j' /\ j' <= n /\
                (forall t, j <= t < j' -> flagf (map ivf (ml_matches fa (S f) s q)) t = true) /\
                (forall f2 t, length s - off j' < f2 -> j' <= t < n ->
                   flagf (map ivf (ml_matches fa (S f) s q)) t = flagf (map ivf (ml_matches fa f2 s (off j'))) t)).
    { intro Hsame. exists q, j. split; [reflexivity|]. split; [lia|]. split; [exact Hj|]. split; [intros t Ht; lia|].
      intros f2 t Hf2 Ht. rewrite (Hsame f2 Hf2 ltac:(lia)). reflexivity. }
    cbn [ml_ext_pos]. destruct (Nat.ltb_spec q (off j)) as [Hlt|Hge].
    - destruct (fa s q) as [[a b]|] eqn:E.
      + destruct (Hfa s q a b E) as (A1 & A2 & A3).
        destruct (Nat.ltb_spec a (off j)) as [Ha|Ha].
        * (* the match starts inside the excluded lines: they grow *)
          rewrite (locate_iv ltb s a b A2 A3).
          pose proof (iv_bounds ltb s a b A2) as [V1 V2].
          pose proof (adv_le_locate a b A2 A3) as Hadv.
          assert (Hij : fst (ivf (a, b)) < j).
          { unfold iv. cbn [fst]. destruct (Nat.le_gt_cases j (count_lt ltb s)) as [Hc|Hc].
            - apply (lidx_lt_off ltb s j a Hc Ha).
            - pose proof (lidx_le_cnt ltb s a). lia. }
          destruct (ivf (a, b)) as [i' j'] eqn:Eiv. cbn [fst snd] in *.
          set (jm := Nat.max j j').
          assert (Hle : (if Nat.ltb (off j) (off j') then off j' else off j) = off jm).
          { unfold jm. destruct (Nat.ltb_spec (off j) (off j')) as [H|H].
            - destruct (Nat.le_gt_cases j' j) as [H'|H']; [pose proof (off_mono ltb s j' j H'); lia|f_equal; lia].
            - destruct (Nat.le_gt_cases j' j) as [H'|H']; [f_equal; lia|pose proof (off_strict ltb s j j' H' V2); lia]. }
          rewrite Hle.
          assert (Hprog : q < adv_pos s a b \/ length s <= adv_pos s a b).
          { unfold adv_pos. destruct (Nat.leb_spec b a); destruct (Nat.ltb_spec b (length s)); cbn [andb]; lia. }
          destruct (IH (adv_pos s a b) jm) as (q' & j2 & E2 & I1 & I2 & I3 & I4).
          { unfold jm. lia. }
          { unfold jm. pose proof (off_mono ltb s j' (Nat.max j j') ltac:(lia)). lia. }
          { lia. }
          exists q', j2. split; [exact E2|]. split; [unfold jm in I1; lia|]. split; [exact I2|].
          rewrite (ml_matches_some M s f q a b ltac:(lia) E). cbn [map]. rewrite Eiv.
          change (next_pos s a b) with (adv_pos s a b).
          split.
          -- intros t Ht. unfold flagf. cbn [existsb]. fold (flagf (map ivf (ml_matches fa f s (adv_pos s a b))) t).
             destruct (Nat.lt_ge_cases t j') as [Htj|Htj].
             ++ unfold in_iv. cbn [fst snd]. destruct (Nat.leb_spec i' t); [|lia]. destruct (Nat.ltb_spec t j'); [reflexivity|lia].
             ++ rewrite (I3 t) by (unfold jm; lia). apply orb_true_r.
          -- intros f2 t Hf2 Ht. unfold flagf at 1. cbn [existsb]. fold (flagf (map ivf (ml_matches fa f s (adv_pos s a b))) t).
             rewrite (I4 f2 t Hf2 Ht). unfold in_iv. cbn [fst snd]. unfold jm in I1.
             destruct (Nat.ltb_spec t j'); [lia|]. now rewrite andb_false_r.
        * (* the next match starts after the excluded lines *)
          apply Hstop. intros f2 Hf2 Hjn.
          pose proof (off_strict ltb s j n Hjn (le_n _)) as Hs. rewrite (off_n ltb s n) in Hs by lia.
          apply ml_matches_shift; try lia. rewrite E. exact Ha.
      + apply Hstop. intros f2 Hf2 Hjn.
        pose proof (off_strict ltb s j n Hjn (le_n _)) as Hs. rewrite (off_n ltb s n) in Hs by lia.
        apply ml_matches_shift; try lia. now rewrite E.
    - assert (q = off j) by lia. subst q.
      apply Hstop. intros f2 Hf2 Hjn. apply (ml_matches_fuel M Hfa s); lia.
  Qed.

  (* ---- one MultiLine::sink call, inverted ---- *)
  Lemma invsink c : mlc_sink cfg0 M s None K c =
    match found_pos cfg0 M s c with
    | None => FUEL
    | Some (rs, re, q) =>
      if Nat.leb re rs then OK true (set_pos c q) else
      andthen (ml_sink_context cfg0 K (set_pos c q) s rs) (fun c' => mlc_inv_loop cfg0 s K (S (length s)) c' rs re)
    end /\ next_last cfg0 M s c None = None.
  Proof.
    unfold mlc_sink, next_last, mlc_inverted. rewrite Hiv, mlc_found_eq.
    destruct (found_pos cfg0 M s c) as [[[rs re] q]|]; auto.
  Qed.

  Lemma flags_split R i j' kp : kp <= i -> i <= j' -> j' <= n ->
    (forall t, kp <= t < i -> G R t = true) -> (forall t, i <= t < j' -> G R t = false) ->
    map (G R) (seq kp (n - kp)) = repeat true (i - kp) ++ repeat false (j' - i) ++ map (G R) (seq j' (n - j')).
  Proof.
    intros H1 H2 H3 Ht Hf.
    replace (n - kp) with ((i - kp) + ((j' - i) + (n - j'))) by lia.
    rewrite !seq_app, !map_app. replace (kp + (i - kp)) with i by lia. replace (i + (j' - i)) with j' by lia.
    f_equal; [|f_equal].
    - rewrite <- (seq_length (i - kp) kp) at 2. rewrite <- map_const. apply map_ext_in.
      intros t Hin. apply in_seq in Hin. apply Ht. lia.
    - rewrite <- (seq_length (j' - i) i) at 2. rewrite <- map_const. apply map_ext_in.
      intros t Hin. apply in_seq in Hin. apply Hf. lia.
  Qed.

  Lemma inv_loop : forall f1 f2 c g k kp,
    Inv c g k -> k <= kp -> kp <= n -> pos c = off kp ->
    (kp < n -> length s - off kp < f1 /\ length s - off kp < f2) -> 1 <= f1 ->
    exists b c', mlc_loop cfg0 M s f1 None K c = OK b c' /\ pos c' = length s /\ bin_off c' = None /\
      log c' = g_out (lfoldl (repeat false (kp - k) ++ map (G (ml_matches fa f2 s (off kp))) (seq kp (n - kp)))
                             (seg k n) g) ++ [EBegin].
  Proof.
    induction f1 as [|f1 IH]; intros f2 c g k kp HI Hkkp Hkpn Hpos Hfuel Hf1; [lia|].
    cbn [mlc_loop]. rewrite Hpos.
    destruct (Nat.leb_spec (length s) (off kp)) as [Hend|Hlt].
    - (* the loop is over: kp = n *)
      assert (kp = n).
      { destruct (Nat.eq_dec kp n) as [E|E]; [exact E|].
        pose proof (off_strict ltb s kp n ltac:(lia) (le_n _)) as Hs. rewrite (off_n ltb s n) in Hs by lia. lia. }
      subst kp. rewrite flush_none.
      destruct (tail_run1 c g k HI Hkkp) as (c1 & T1 & T2 & T3 & T4).
      rewrite T1. exists true, c1. split; [reflexivity|]. split; [rewrite T2, Hpos; apply off_n; lia|]. split; [exact T4|].
      rewrite Nat.sub_diag. cbn [seq map]. rewrite app_nil_r.
      rewrite <- (seg_length L k n) by lia. rewrite lfoldl_repeat. exact T3.
    - assert (Hkp : kp < n).
      { destruct (Nat.eq_dec kp n) as [->|E]; [rewrite (off_n ltb s n) in Hlt by lia; lia|lia]. }
      destruct (Hfuel Hkp) as [Hfa1 Hfa2].
      destruct f2 as [|f2]; [lia|].
      destruct (invsink c) as [Hsink Hnext]. rewrite Hsink, Hnext. clear Hsink Hnext.
      unfold found_pos, ml_find. rewrite Hpos.
      destruct (fa s (off kp)) as [[a b]|] eqn:E.
      + destruct (Hfa s (off kp) a b E) as (A1 & A2 & A3).
        rewrite (locate_iv ltb s a b A2 A3).
        pose proof (iv_bounds ltb s a b A2) as [V1 V2].
        pose proof (adv_le_locate a b A2 A3) as Hadv.
        pose proof (iv_empty_end ltb s a b A2 A3) as Hempty.
        assert (Hki : kp <= fst (ivf (a, b))).
        { unfold iv. cbn [fst]. apply (off_le_iff ltb s kp a); [apply lt_n_le_cnt; exact Hkp|exact A1]. }
        assert (Hic : fst (ivf (a, b)) <= cnt) by (unfold iv; cbn [fst]; apply lidx_le_cnt).
        rewrite (ml_matches_some M s f2 (off kp) a b Hlt E).
        destruct (next_pos_bounds s (off kp) a b A1 A2 A3 Hlt) as (B1 & _ & _).
        pose proof (mchain_isorted ltb s (ml_matches fa f2 s (next_pos s a b)) a b A2
                      (mchain_weaken s _ _ _ B1 (matches_chain fa Hfa s f2 (next_pos s a b)))) as Hsorted.
        change (next_pos s a b) with (adv_pos s a b) in *.
        destruct (ivf (a, b)) as [i j] eqn:Eiv. cbn [fst snd] in *.
        destruct (ext_spec (S (length s)) (adv_pos s a b) j V2 Hadv ltac:(lia)) as (q' & j' & Eext & X1 & X2 & X3 & X4).
        rewrite Eext.
        assert (Hkj : kp < j').
        { destruct (Nat.le_gt_cases j i) as [Hd|Hd]; [destruct (Hempty Hd) as (_ & _ & Ei & _); lia|lia]. }
        pose proof (off_strict ltb s kp j' Hkj X2) as Hoff.
        assert (Hprog : off kp < adv_pos s a b \/ length s <= adv_pos s a b).
        { unfold adv_pos. destruct (Nat.leb_spec b a); destruct (Nat.ltb_spec b (length s)); cbn [andb]; lia. }
        (* the matches from the advanced position, with either fuel *)
        assert (HR : ml_matches fa (S (length s)) s (adv_pos s a b) = ml_matches fa f2 s (adv_pos s a b)).
        { destruct Hprog as [Hp|Hp]; [apply (ml_matches_fuel M Hfa s); lia|].
          rewrite !ml_matches_end by exact Hp. reflexivity. }
        rewrite HR in X3, X4.
        set (Rt := ml_matches fa f2 s (adv_pos s a b)) in *.
        set (R := (a, b) :: Rt).
        assert (HGR : forall t, G R t = negb (in_iv t (i, j) || flagf (map ivf Rt) t)).
        { intro t. unfold G, R, flagf. cbn [map existsb]. now rewrite Eiv. }
        assert (Hflags : map (G R) (seq kp (n - kp)) =
                         repeat true (i - kp) ++ repeat false (j' - i) ++ map (G (ml_matches fa f2 s (off j'))) (seq j' (n - j'))).
        { rewrite (flags_split R i j' kp Hki ltac:(lia) X2).
          - do 2 f_equal. apply map_ext_in. intros t Ht. apply in_seq in Ht. rewrite HGR. unfold G.
            rewrite (X4 f2 t ltac:(lia) ltac:(lia)). unfold in_iv. cbn [fst snd].
            destruct (Nat.ltb_spec t j); [lia|]. now rewrite andb_false_r.
          - intros t Ht. rewrite HGR. rewrite (flagf_lower (map ivf Rt) i t (isorted_lower L _ i j Hsorted)) by lia.
            unfold in_iv. cbn [fst snd]. destruct (Nat.leb_spec i t); [lia|reflexivity].
          - intros t Ht. rewrite HGR. destruct (Nat.lt_ge_cases t j) as [Htj|Htj].
            + unfold in_iv. cbn [fst snd]. destruct (Nat.leb_spec i t); [|lia]. destruct (Nat.ltb_spec t j); [reflexivity|lia].
            + rewrite (X3 t) by lia. now rewrite orb_true_r. }
        fold R. rewrite Hflags. clear Hflags.
        set (c1 := set_pos c (off j')).
        assert (HI1 : Inv c1 g k) by (apply Inv_set_pos; exact HI).
        assert (Hfj : j' < n -> length s - off j' < f1 /\ length s - off j' < f2) by (intros _; lia).
        assert (Hf1' : 1 <= f1) by lia.
        assert (Hsplit3 : seg k n = seg k kp ++ seg kp i ++ seg i n).
        { rewrite (seg_split L k kp n) by lia. f_equal. apply seg_split; lia. }
        rewrite (off_leb ltb s i kp) by lia.
        destruct (Nat.leb_spec i kp) as [Hik|Hik].
        * (* the match starts in the first line of the range: nothing to deliver *)
          assert (i = kp) by lia. subst i. cbn [andthen].
          destruct (IH f2 c1 g k j' HI1 ltac:(lia) X2 eq_refl Hfj Hf1') as (b0 & c' & R1 & R2 & R3 & R4).
          exists b0, c'. split; [exact R1|]. split; [exact R2|]. split; [exact R3|].
          rewrite Nat.sub_diag. cbn [repeat app]. rewrite app_assoc, repeat_app'.
          replace (kp - k + (j' - kp)) with (j' - k) by lia. exact R4.
        * destruct (inv_deliver0 c1 g k kp i HI1 Hkkp Hik ltac:(lia)) as (c2 & D1 & D2 & D3 & D4 & D5 & D6).
          rewrite D1. cbn [andthen].
          destruct (IH f2 c2 _ i j' (D6 Hic) ltac:(lia) X2 ltac:(rewrite D2; reflexivity) Hfj Hf1') as (b0 & c' & R1 & R2 & R3 & R4).
          exists b0, c'. split; [exact R1|]. split; [exact R2|]. split; [exact R3|].
          rewrite Hsplit3.
          rewrite lfoldl_app by (rewrite repeat_length, seg_length; lia).
          rewrite lfoldl_app by (rewrite repeat_length, seg_length; lia).
          rewrite <- (seg_length L k kp) at 1 by lia. rewrite lfoldl_repeat.
          rewrite <- (seg_length L kp i) at 1 by lia. rewrite lfoldl_repeat.
          exact R4.
      + (* no further match: the rest of the input is the range *)
        rewrite (ml_matches_none M s f2 (off kp) E).
        destruct (Nat.leb_spec (length s) (off kp)); [lia|].
        assert (HI1 : Inv (set_pos c (length s)) g k) by (apply Inv_set_pos; exact HI).
        destruct (inv_deliver0 _ g k kp n HI1 Hkkp Hkp (le_n _)) as (c2 & D1 & D2 & D3 & D4 & D5 & D6).
        rewrite (off_n ltb s n) in D1 by lia. rewrite D1. cbn [andthen].
        destruct f1 as [|f1']; [lia|]. cbn [mlc_loop]. rewrite D2. cbn [pos set_pos].
        rewrite Nat.leb_refl. rewrite flush_none.
        rewrite (off_n ltb s n) in D5 by lia. rewrite (tail_end1 c2 D5).
        exists true, c2. split; [reflexivity|]. split; [rewrite D2; reflexivity|]. split; [exact D4|].
        assert (Hall : map (G []) (seq kp (n - kp)) = repeat true (n - kp)).
        { rewrite <- (seq_length (n - kp) kp) at 2. rewrite <- map_const. apply map_ext. reflexivity. }
        rewrite Hall. rewrite (seg_split L k kp n) by lia.
        rewrite lfoldl_app by (rewrite repeat_length, seg_length; lia).
        rewrite <- (seg_length L k kp) at 1 by lia. rewrite lfoldl_repeat.
        rewrite <- (seg_length L kp n) at 1 by lia. rewrite lfoldl_repeat.
        exact D3.
  Qed.

  Theorem inv_eq_ref : multi_line_run cfg0 M K s = RunOk (ml_ref cfg0 fa s).
  Proof.
    rewrite (run_as_loop cfg0 M Hbin s).
    set (c0 := set_log (core_new cfg0) [EBegin]).
    destruct (inv_loop (S (S (length s))) (S (length s)) c0 g_init 0 0 (Inv_init cfgn s) (le_n 0) ltac:(lia))
      as (b & c' & R1 & R2 & R3 & R4).
    { rewrite (off_0 ltb s). reflexivity. }
    { intros _. rewrite (off_0 ltb s). lia. }
    { lia. }
    rewrite R1. rewrite (finish_ok s c' _ R2 R3 R4). f_equal.
    unfold ml_ref, ml_flags. rewrite Hiv. f_equal. f_equal. f_equal.
    unfold line_events, matched_flags.
    rewrite (spans_flags ltb s _ (mchain_wf s _ 0 (matches_chain fa Hfa s (S (length s)) 0))).
    rewrite map_map. rewrite (off_0 ltb s).
    cbn [repeat app Nat.sub]. unfold lfoldl. rewrite seg_all. cbn [skipn]. rewrite Nat.sub_0_r. reflexivity.
  Qed.
End Inverted.

(* ------------------------------------------------------------------ MultiLine::run = ml_ref *)
(* a match whose line range is empty: only an empty match at the very end of an input that ends
   with the line terminator (lines::locate returns the empty range there).  MultiLine::sink drops
   such a match (the repair of the defect documented in Proofs/MLPinned.v) *)
Definition ml_dangling (cfg : config) (find_at : bytes -> nat -> option (nat * nat)) (s : bytes) : bool :=
  existsb (fun m : nat * nat => let (ls, le) := locate (lt_byte (c_lt cfg)) s (fst m) (snd m) in Nat.leb le ls)
          (ml_matches find_at (S (length s)) s 0).

Section Final.
  Variable cfg : config.
  Variable M : matcher.
  Hypothesis Hbin : c_binary cfg = BNone.
  Hypothesis Hfa : find_at_ok M.
  (* what SearcherBuilder::build guarantees *)
  Hypothesis Hpta : c_passthru cfg = true -> c_after cfg = 0.
  (* the inverted search looks for the next match from the start of a line instead of the end of
     the previous match: it needs a matcher whose answers do not depend on where (before the
     match) the search starts *)
  Hypothesis Hmono : c_invert cfg = true -> find_at_mono M.
  Notation K := (fun _ : nat => Continue).
  Notation ltb := (lt_byte (c_lt cfg)).

  Theorem multi_line_eq_ref_proof : forall s,
    multi_line_run cfg M K s = RunOk (ml_ref cfg (m_find_at M) s).
  Proof.
    intros s. destruct (c_invert cfg) eqn:Ei.
    - apply inv_eq_ref; auto.
    - apply noninv_eq_ref; assumption.
  Qed.
End Final.

(* ------------------------------------------------------------------ what the theorem says, made visible *)
(* matched events in increasing order, at least one byte (in fact one line) apart *)
Fixpoint em_sorted (lo : nat) (l : list event) : Prop :=
  match l with
  | [] => True
  | EMatched o _ b :: r => lo <= o /\ em_sorted (S (o + length b)) r
  | _ :: _ => False
  end.

Lemma em_sorted_weaken l : forall lo lo', lo' <= lo -> em_sorted lo l -> em_sorted lo' l.
Proof. destruct l as [|[] r]; cbn [em_sorted]; intros lo lo' H; try tauto. intros [A B]. split; [lia|exact B]. Qed.

Lemma filter_em_rev_nonem X : forallb (fun e => negb (is_em e)) X = true -> filter is_em (rev X) = [].
Proof.
  induction X as [|e r IH]; intro Hne; [reflexivity|].
  cbn [forallb] in Hne. apply andb_true_iff in Hne as [He Hr]. cbn [rev]. rewrite filter_app, (IH Hr).
  cbn [filter app]. apply negb_true_iff in He. now rewrite He.
Qed.

(* the blocks of the non-inverted search: the line ranges of the successive matches, merged when
   they touch or overlap *)
Definition ml_blocks (cfg : config) (find_at : bytes -> nat -> option (nat * nat)) (s : bytes) : list (nat * nat) :=
  imerge None (map (iv (lt_byte (c_lt cfg)) s) (ml_matches find_at (S (length s)) s 0)).

Section Visible.
  Variable cfg0 : config.
  Variable M : matcher.
  Hypothesis Hbin : c_binary cfg0 = BNone.
  Hypothesis Hfa : find_at_ok M.
  Hypothesis Hni : c_invert cfg0 = false.
  Hypothesis Hpta : c_passthru cfg0 = true -> c_after cfg0 = 0.
  Variable s : bytes.
  Notation cfgn := (cfg_nostop cfg0).
  Notation ltb := (lt_byte (c_lt cfg0)).
  Notation K := (fun _ : nat => Continue).
  Notation L := (split_lines (lt_byte (c_lt cfg0)) s).
  Notation n := (length (split_lines (lt_byte (c_lt cfg0)) s)).
  Notation off := (off (lt_byte (c_lt cfg0)) s).
  Notation seg := (seg (split_lines (lt_byte (c_lt cfg0)) s)).
  Notation stepf := (fun g l => g_step_s cfgn g l false).
  Notation fa := (m_find_at M).
  Notation ivf := (iv (lt_byte (c_lt cfg0)) s).

  (* the one matched event of the block of lines i .. j-1: the slice [off i, off j) of the input *)
  Definition bev (b : nat * nat) : event :=
    EMatched (off (fst b)) (lnum_of cfg0 (1 + fst b)) (sub s (off (fst b)) (off (snd b))).
  Definition nonemptyb (b : nat * nat) : bool := Nat.ltb (fst b) (snd b).

  Lemma fold_false_fields : forall pre g, g_stopped g = false ->
    let g' := fold_left stepf pre g in
    g_stopped g' = false /\ g_off g' = g_off g + length (concat pre) /\ g_lnum g' = g_lnum g + length pre /\
    filter is_em (rev (g_out g')) = filter is_em (rev (g_out g)).
  Proof.
    induction pre as [|l r IH]; intros g Hs.
    - cbn [fold_left concat length]. repeat split; auto; lia.
    - cbn [fold_left concat length]. rewrite app_length.
      destruct (IH (g_step_s cfgn g l false) (step_stopped cfgn eq_refl g l false Hs)) as (I1 & I2 & I3 & I4).
      cbn zeta in *. split; [exact I1|]. split; [rewrite I2, (step_off cfgn g l false Hs); lia|]. split.
      + rewrite I3. unfold g_step_s. rewrite Hs.
        destruct (Nat.leb 1 (g_after g)); [cbn [g_lnum]; lia|]. destruct (c_passthru cfgn); cbn [g_lnum]; lia.
      + rewrite I4, (step_out cfgn g l false Hs). rewrite rev_app_distr, filter_app.
        pose proof (new_events_false_nonem cfgn g l) as Hne.
        rewrite (filter_em_rev_nonem _ Hne). now rewrite app_nil_r.
  Qed.

  Lemma bfold_matched : forall blocks k lo g,
    g_stopped g = false -> g_off g = off k -> g_lnum g = 1 + k -> k <= lo -> sepb L lo blocks ->
    filter is_em (rev (g_out (bfold cfgn L blocks k g))) =
    filter is_em (rev (g_out g)) ++ map bev (filter nonemptyb blocks).
  Proof.
    induction blocks as [|[i j] r IH]; intros k lo g Hs Ho Hl Hk Hsep.
    - cbn [bfold filter map]. rewrite app_nil_r.
      destruct (fold_false_fields (seg k n) g Hs) as (_ & _ & _ & F). exact F.
    - destruct Hsep as (S1 & S2 & S3 & S4). cbn [bfold filter]. unfold nonemptyb at 1. cbn [fst snd].
      destruct (Nat.leb_spec j i) as [Hd|Hd]; destruct (Nat.ltb_spec i j) as [Hd'|Hd']; try lia.
      + apply (IH k (S j)); auto. lia.
      + destruct (fold_false_fields (seg k i) g Hs) as (F1 & F2 & F3 & F4). cbn zeta in *.
        set (g1 := fold_left stepf (seg k i) g) in *.
        rewrite (IH j (S j)); auto.
        * unfold g_block, block_rec. cbn [g_out rev map]. rewrite rev_app_distr, !filter_app, F4.
          rewrite (filter_em_rev_nonem _ (ctxp_nonem cfgn g1)). cbn [filter is_em app]. rewrite <- !app_assoc. cbn [app]. do 2 f_equal.
          unfold bev. cbn [fst snd]. rewrite F2, F3, Ho, Hl.
          rewrite <- (off_seg ltb s k i) by lia. rewrite (seg_length L k i) by lia.
          rewrite (sub_seg ltb s i j) by lia. replace (1 + k + (i - k)) with (1 + i) by lia. reflexivity.
        * unfold g_block, block_rec. cbn [g_off]. rewrite F2, Ho, <- (off_seg ltb s k i) by lia.
          symmetry. apply off_seg. lia.
        * unfold g_block, block_rec. cbn [g_lnum]. rewrite F3, Hl, !seg_length by lia. lia.
  Qed.

  Lemma blocks_sorted : forall blocks lo, lo <= n -> sepb L lo blocks ->
    em_sorted (off lo) (map bev (filter nonemptyb blocks)).
  Proof.
    induction blocks as [|[i j] r IH]; intros lo Hlo Hsep; [exact I|].
    destruct Hsep as (S1 & S2 & S3 & S4). cbn [filter]. unfold nonemptyb at 1. cbn [fst snd].
    destruct (Nat.ltb_spec i j) as [Hij|Hij].
    - cbn [map em_sorted bev fst snd]. split; [apply off_mono; exact S1|].
      rewrite (sub_seg ltb s i j) by lia. rewrite <- (off_seg ltb s i j) by lia.
      destruct (Nat.eq_dec j n) as [->|Hjn].
      + destruct r as [|[i' j'] r']; [exact I|]. destruct S4 as (T1 & T2 & T3 & _). lia.
      + apply (em_sorted_weaken _ (off (S j))); [|apply IH; [lia|exact S4]].
        pose proof (off_strict ltb s j (S j) ltac:(lia) ltac:(lia)). lia.
    - apply (em_sorted_weaken _ (off (S j))).
      + apply off_mono. lia.
      + destruct (Nat.eq_dec j n) as [->|Hjn].
        * destruct r as [|[i' j'] r']; [exact I|]. destruct S4 as (T1 & T2 & T3 & _). lia.
        * apply IH; [lia|exact S4].
  Qed.

  Lemma covers_flagf ms t : Forall (wf_match s) ms -> t < n ->
    existsb (covers (length s) (off t) (off (S t)) (lt_is_suffix (LTByte ltb) (nth t L []))) ms
    = flagf (map ivf ms) t.
  Proof.
    intros Hwf Ht. unfold flagf. rewrite existsb_map. apply existsb_ext_in. intros [a b] Hm.
    rewrite Forall_forall in Hwf. destruct (Hwf _ Hm) as [H1 H2]. cbn [fst snd] in *.
    apply covers_iv; lia.
  Qed.

  (* a line lies in a block iff one of the successive matches overlaps it; blocks are separated *)
  Theorem blocks_flags :
    (forall t, t < n ->
       flagf (ml_blocks cfg0 fa s) t =
       existsb (covers (length s) (off t) (off (S t)) (lt_is_suffix (LTByte ltb) (nth t L [])))
               (ml_matches fa (S (length s)) s 0)) /\
    sepb L 0 (ml_blocks cfg0 fa s).
  Proof.
    unfold ml_blocks. set (ms := ml_matches fa (S (length s)) s 0).
    pose proof (matches_chain fa Hfa s (S (length s)) 0) as Hchain. fold ms in Hchain.
    destruct (flags_merged ltb s ms 0 Hchain) as [_ Hsep]. split; [|exact Hsep].
    intros t Ht. rewrite (covers_flagf ms t (mchain_wf s ms 0 Hchain) Ht).
    destruct ms as [|[a b] r]; [reflexivity|].
    destruct Hchain as (H1 & H2 & H3 & H4). cbn [map imerge].
    pose proof (mchain_isorted ltb s r a b H2 H4) as Hs. destruct (iv_bounds ltb s a b H2) as [B1 B2].
    destruct (ivf (a, b)) as [i j]. cbn [fst snd] in *.
    rewrite (imerge_flagf L t) by auto. reflexivity.
  Qed.

  (* C13, non-inverted: the matched events are exactly one per block of lines overlapped by the
     successive matches; blocks are the maximal runs of such lines; no line is reported twice *)
  Theorem matched_blocks :
    exists evs,
      multi_line_run cfg0 M K s = RunOk evs /\
      (* one matched event per block, in order: the whole lines [off i, off j) *)
      filter is_em evs = map bev (filter nonemptyb (ml_blocks cfg0 fa s)) /\
      (* blocks are disjoint, increasing, never adjacent: no line is delivered twice *)
      em_sorted 0 (filter is_em evs).
  Proof.
    destruct blocks_flags as [_ Hsep]. unfold ml_blocks in *.
    set (blocks := imerge None (map ivf (ml_matches fa (S (length s)) s 0))) in *.
    eexists. split; [apply (noninv_blocks cfg0 M Hbin Hfa Hni Hpta s)|].
    fold blocks.
    assert (Hem : filter is_em (EBegin :: rev (g_out (bfold cfgn L blocks 0 g_init)) ++ [EFinish (length s) None])
                  = map bev (filter nonemptyb blocks)).
    { cbn [filter is_em]. rewrite filter_app. cbn [filter is_em]. rewrite app_nil_r.
      rewrite (bfold_matched blocks 0 0 g_init); auto. }
    split; [exact Hem|]. rewrite Hem.
    pose proof (blocks_sorted blocks 0 ltac:(lia) Hsep) as Hb. now rewrite (off_0 ltb s) in Hb.
  Qed.
End Visible.

(* ------------------------------------------------------------------ the shape of a dangling match *)
Section Dangling.
  Variable cfg : config.
  Variable M : matcher.
  Hypothesis Hfa : find_at_ok M.
  Variable s : bytes.
  Notation ltb := (lt_byte (c_lt cfg)).
  Notation L := (split_lines (lt_byte (c_lt cfg)) s).
  Notation n := (length (split_lines (lt_byte (c_lt cfg)) s)).

  (* ml_dangling holds only for an empty match at the end of an input that ends with the terminator *)
  Theorem ml_dangling_shape : ml_dangling cfg (m_find_at M) s = true ->
    In (length s, length s) (ml_matches (m_find_at M) (S (length s)) s 0) /\ exists A, s = A ++ [ltb].
  Proof.
    unfold ml_dangling. intro H. apply existsb_exists in H as ([a b] & Hin & Hc). cbn [fst snd] in Hc.
    pose proof (mchain_wf s _ 0 (matches_chain (m_find_at M) Hfa s (S (length s)) 0)) as Hwf.
    rewrite Forall_forall in Hwf. destruct (Hwf _ Hin) as [W1 W2]. cbn [fst snd] in W1, W2.
    rewrite (locate_iv ltb s a b W1 W2) in Hc. apply Nat.leb_le in Hc.
    pose proof (iv_bounds ltb s a b W1) as [B1 B2].
    pose proof (lidx_iv_le ltb s a b W1) as Hle. pose proof (lidx_le_cnt ltb s a) as Hlc.
    pose proof (cnt_le_n ltb s) as Hcn.
    assert (Hi : fst (iv ltb s (a, b)) = n).
    { destruct (Nat.eq_dec (fst (iv ltb s (a, b))) n) as [E|E]; [exact E|exfalso].
      assert (Hlt : fst (iv ltb s (a, b)) < snd (iv ltb s (a, b))) by (unfold iv in *; cbn [fst snd] in *; lia).
      pose proof (off_strict ltb s _ _ Hlt B2). lia. }
    unfold iv in Hi. cbn [fst] in Hi.
    assert (Hcnt : count_lt ltb s = n) by lia.
    assert (Ha : a = length s).
    { pose proof (off_le_iff ltb s n a ltac:(lia)) as Hiff. rewrite (off_n ltb s n) in Hiff by lia. lia. }
    assert (Hb : b = length s) by lia. subst a b.
    split; [exact Hin|].
    assert (Hne : L <> []).
    { intro E. pose proof (split_lines_concat ltb s) as Hs. rewrite E in Hs. cbn in Hs. subst s.
      cbn in Hin. exact Hin. }
    pose proof (prefix_terminated ltb s n ltac:(lia)) as Ht. rewrite firstn_all in Ht.
    destruct (concat_term_snoc ltb L Ht Hne) as (A & HA). rewrite split_lines_concat in HA. eauto.
  Qed.
End Dangling.


(* ------------------------------------------------------------------ the inverted property text *)
Section InvVisible.
  Variable cfg0 : config.
  Variable M : matcher.
  Hypothesis Hbin : c_binary cfg0 = BNone.
  Hypothesis Hfa : find_at_ok M.
  Hypothesis Hmono : find_at_mono M.
  Hypothesis Hiv : c_invert cfg0 = true.
  Hypothesis Hpta : c_passthru cfg0 = true -> c_after cfg0 = 0.
  Variable s : bytes.
  Notation cfgn := (cfg_nostop cfg0).
  Notation ltb := (lt_byte (c_lt cfg0)).
  Notation K := (fun _ : nat => Continue).
  Notation L := (split_lines (lt_byte (c_lt cfg0)) s).
  Notation n := (length (split_lines (lt_byte (c_lt cfg0)) s)).
  Notation off := (off (lt_byte (c_lt cfg0)) s).
  Notation fa := (m_find_at M).
  Notation ivf := (iv (lt_byte (c_lt cfg0)) s).

  (* the matched event of line t alone *)
  Definition lev (t : nat) : event := EMatched (off t) (lnum_of cfg0 (1 + t)) (nth t L []).

  Lemma skipn_cons_nth {A} (d : A) : forall (l : list A) k, k < length l -> skipn k l = nth k l d :: skipn (S k) l.
  Proof.
    induction l as [|x l IH]; intros k H; [cbn in H; lia|]. destruct k as [|k]; [reflexivity|].
    cbn [skipn nth]. apply IH. cbn in H. lia.
  Qed.

  Lemma step_lnum g l f : g_stopped g = false -> g_lnum (g_step_s cfgn g l f) = S (g_lnum g).
  Proof.
    intro H. unfold g_step_s. rewrite H. destruct f; [reflexivity|].
    destruct (Nat.leb 1 (g_after g)); [reflexivity|]. destruct (c_passthru cfgn); reflexivity.
  Qed.

  Lemma lfold_matched F : forall m k g, m = n - k -> k <= n ->
    g_stopped g = false -> g_off g = off k -> g_lnum g = 1 + k ->
    filter is_em (rev (g_out (lfold cfgn F k (skipn k L) g))) =
    filter is_em (rev (g_out g)) ++ map lev (filter F (seq k (n - k))).
  Proof.
    induction m as [|m IH]; intros k g Hm Hk Hs Ho Hl.
    - assert (k = n) by lia. subst k. rewrite skipn_all, Nat.sub_diag. cbn [lfold seq filter map]. now rewrite app_nil_r.
    - assert (Hlt : k < n) by lia.
      rewrite (skipn_cons_nth [] L k Hlt). cbn [lfold].
      replace (n - k) with (S (n - S k)) by lia. cbn [seq filter].
      set (l := nth k L []). set (g1 := g_step_s cfgn g l (F k)).
      rewrite (IH (S k) g1); try lia.
      + unfold g1. rewrite (step_out cfgn g l (F k) Hs). unfold new_events.
        destruct (F k).
        * rewrite rev_app_distr. cbn [rev]. rewrite !filter_app.
          rewrite (filter_em_rev_nonem _ (ctxp_nonem cfgn g)). cbn [filter is_em app map].
          rewrite <- !app_assoc. cbn [app]. do 2 f_equal. unfold lev. now rewrite Ho, Hl.
        * pose proof (new_events_false_nonem cfgn g l) as Hne. unfold new_events in Hne.
          rewrite rev_app_distr, filter_app, (filter_em_rev_nonem _ Hne). now rewrite app_nil_r.
      + apply (step_stopped cfgn eq_refl). exact Hs.
      + unfold g1. rewrite (step_off cfgn g l (F k) Hs), Ho. symmetry. apply off_S. exact Hlt.
      + unfold g1. rewrite (step_lnum g l (F k) Hs), Hl. lia.
  Qed.

  Lemma filter_ext_in' {A} (f g : A -> bool) l : (forall x, In x l -> f x = g x) -> filter f l = filter g l.
  Proof.
    induction l as [|x l IH]; intro H; [reflexivity|]. cbn [filter]. rewrite (H x) by (left; reflexivity).
    rewrite IH; [reflexivity|]. intros y Hy. apply H. right. exact Hy.
  Qed.

  (* C13, inverted: the matched events are, in order, the lines overlapped by none of the successive
     matches (the same matches as the non-inverted search) — each such line as its own event, each
     exactly once, and no other line *)
  Theorem inverted_lines :
    exists evs, multi_line_run cfg0 M K s = RunOk evs /\
      filter is_em evs =
      map lev (filter (fun t => negb (existsb (covers (length s) (off t) (off (S t))
                                                 (lt_is_suffix (LTByte ltb) (nth t L [])))
                                              (ml_matches fa (S (length s)) s 0)))
                      (seq 0 n)).
  Proof.
    eexists. split; [apply (inv_eq_ref cfg0 M Hbin Hfa Hmono Hiv Hpta s)|].
    unfold ml_ref, ml_flags. rewrite Hiv. cbn [filter is_em]. rewrite filter_app. cbn [filter is_em]. rewrite app_nil_r.
    unfold line_events, matched_flags.
    set (ms := ml_matches fa (S (length s)) s 0).
    pose proof (mchain_wf s ms 0 (matches_chain fa Hfa s (S (length s)) 0)) as Hwf.
    rewrite (spans_flags ltb s ms Hwf), map_map.
    rewrite (lfold_combine cfgn _ L 0 g_init).
    pose proof (lfold_matched (fun t => negb (flagf (map ivf ms) t)) n 0 g_init) as Hm.
    cbn [skipn] in Hm. rewrite Nat.sub_0_r in Hm. rewrite Hm; auto; try lia.
    cbn [g_out g_init rev filter app]. f_equal. apply filter_ext_in'. intros t Ht. apply in_seq in Ht. f_equal.
    symmetry. apply covers_flagf; try assumption. lia.
  Qed.

  Lemma lev_inj t t' : t < n -> t' < n -> lev t = lev t' -> t = t'.
  Proof.
    intros H1 H2 E. unfold lev in E. injection E as Eo _ _.
    destruct (Nat.lt_trichotomy t t') as [H|[H|H]]; [|exact H|].
    - pose proof (off_strict ltb s t t' H ltac:(lia)). lia.
    - pose proof (off_strict ltb s t' t H ltac:(lia)). lia.
  Qed.

  (* the inverted search delivers line t iff t is not inside a block of the non-inverted search *)
  Theorem inverted_is_complement :
    exists evs, multi_line_run cfg0 M K s = RunOk evs /\
      filter is_em evs = map lev (filter (fun t => negb (flagf (ml_blocks cfg0 fa s) t)) (seq 0 n)) /\
      (forall t, t < n -> (In (lev t) (filter is_em evs) <-> flagf (ml_blocks cfg0 fa s) t = false)).
  Proof.
    destruct inverted_lines as (evs & Hrun & Hem). exists evs. split; [exact Hrun|].
    destruct (blocks_flags cfg0 M Hfa Hpta s) as [Hbf _].
    assert (Hem' : filter is_em evs = map lev (filter (fun t => negb (flagf (ml_blocks cfg0 fa s) t)) (seq 0 n))).
    { rewrite Hem. f_equal. apply filter_ext_in'. intros t Ht. apply in_seq in Ht. rewrite Hbf by lia. reflexivity. }
    split; [exact Hem'|]. intros t Ht. rewrite Hem'. split.
    - intro Hin. apply in_map_iff in Hin as (t' & E & Hin). apply filter_In in Hin as [Hseq Hf].
      apply in_seq in Hseq. apply lev_inj in E; [|lia|lia]. subst t'. now apply negb_true_iff in Hf.
    - intro Hf. apply in_map. apply filter_In. split; [apply in_seq; lia|]. now rewrite Hf.
  Qed.
End InvVisible.
