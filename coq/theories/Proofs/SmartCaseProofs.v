(* Proofs/SmartCaseProofs.v — the AstAnalysis model computes the documented smart-case rule. *)
From Coq Require Import Setoid.
From RG Require Import Base.Bytes Model.SmartCase Spec.SmartCase.

(* induction principles for the nested types *)
Section ClsInd.
  Variable P : cls -> Prop.
  Hypothesis Hother : forall t, P (COther t).
  Hypothesis Hlit : forall c, P (CLit c).
  Hypothesis Hrange : forall s e, P (CRange s e).
  Hypothesis Hbr : forall n k, P k -> P (CBracketed n k).
  Hypothesis Hun : forall items, Forall P items -> P (CUnion items).
  Hypothesis Hop : forall l r, P l -> P r -> P (CBinOp l r).
  Fixpoint cls_ind2 (k : cls) : P k :=
    match k with
    | COther t => Hother t
    | CLit c => Hlit c
    | CRange s e => Hrange s e
    | CBracketed n k' => Hbr n k' (cls_ind2 k')
    | CUnion items =>
      Hun items ((fix go (l : list cls) : Forall P l :=
                    match l with
                    | [] => Forall_nil P
                    | x :: t => Forall_cons x (cls_ind2 x) (go t)
                    end) items)
    | CBinOp l r => Hop l r (cls_ind2 l) (cls_ind2 r)
    end.
End ClsInd.

Section SastInd.
  Variable P : sast -> Prop.
  Hypothesis Hother : forall t, P (SOther t).
  Hypothesis Hlit : forall c, P (SLit c).
  Hypothesis Hclass : forall n k, P (SClass n k).
  Hypothesis Hrep : forall t, P t -> P (SRep t).
  Hypothesis Hgroup : forall t, P t -> P (SGroup t).
  Hypothesis Halt : forall l, Forall P l -> P (SAlt l).
  Hypothesis Hconcat : forall l, Forall P l -> P (SConcat l).
  Fixpoint sast_ind2 (t : sast) : P t :=
    match t with
    | SOther x => Hother x
    | SLit c => Hlit c
    | SClass n k => Hclass n k
    | SRep t' => Hrep t' (sast_ind2 t')
    | SGroup t' => Hgroup t' (sast_ind2 t')
    | SAlt l =>
      Halt l ((fix go (l : list sast) : Forall P l :=
                 match l with
                 | [] => Forall_nil P
                 | x :: r => Forall_cons x (sast_ind2 x) (go r)
                 end) l)
    | SConcat l =>
      Hconcat l ((fix go (l : list sast) : Forall P l :=
                    match l with
                    | [] => Forall_nil P
                    | x :: r => Forall_cons x (sast_ind2 x) (go r)
                    end) l)
    end.
End SastInd.

(* the literal lists are the occurrence relations *)
Lemma cls_lits_spec : forall k c, In c (cls_lits k) <-> ClsLit c k.
Proof.
  induction k as [t | c0 | s e | n k IHk | items IHitems | l r IHl IHr] using cls_ind2; intros c;
    cbn [cls_lits].
  - split; [intros [] | intros Hc; inversion Hc].
  - split.
    + intros [Hc | []]. subst. constructor.
    + intros Hc. inversion Hc; subst. now left.
  - split.
    + intros [Hc | [Hc | []]]; subst; constructor.
    + intros Hc. inversion Hc; subst; cbn [In]; auto.
  - rewrite IHk. split.
    + intros Hc. now constructor.
    + intros Hc. now inversion Hc; subst.
  - rewrite in_flat_map. rewrite Forall_forall in IHitems. split.
    + intros [x [Hx Hc]]. apply CL_union with x; [exact Hx|]. now apply IHitems.
    + intros Hc. inversion Hc as [| | | |c' k' it' Hin Hk| |]; subst.
      exists k'. split; [exact Hin|]. now apply IHitems.
  - rewrite in_app_iff, IHl, IHr. split.
    + intros [Hc | Hc]; [now apply CL_op_l | now apply CL_op_r].
    + intros Hc. inversion Hc; subst; auto.
Qed.

Lemma pat_lits_spec : forall t c, In c (pat_lits t) <-> PatLit c t.
Proof.
  induction t as [x | c0 | n k | t IHt | t IHt | l IHl | l IHl] using sast_ind2; intros c;
    cbn [pat_lits].
  - split; [intros [] | intros Hc; inversion Hc].
  - split.
    + intros [Hc | []]. subst. constructor.
    + intros Hc. inversion Hc; subst. now left.
  - rewrite cls_lits_spec. split.
    + intros Hc. now constructor.
    + intros Hc. now inversion Hc; subst.
  - rewrite IHt. split; [intros Hc; now constructor | intros Hc; now inversion Hc; subst].
  - rewrite IHt. split; [intros Hc; now constructor | intros Hc; now inversion Hc; subst].
  - rewrite in_flat_map. rewrite Forall_forall in IHl. split.
    + intros [x [Hx Hc]]. apply PL_alt with x; [exact Hx|]. now apply IHl.
    + intros Hc. inversion Hc as [| | | |c' t' l' Hin Ht|]; subst.
      exists t'. split; [exact Hin|]. now apply IHl.
  - rewrite in_flat_map. rewrite Forall_forall in IHl. split.
    + intros [x [Hx Hc]]. apply PL_concat with x; [exact Hx|]. now apply IHl.
    + intros Hc. inversion Hc as [| | | | |c' t' l' Hin Ht]; subst.
      exists t'. split; [exact Hin|]. now apply IHl.
Qed.

Section WithUpper.
  Variable upper : N -> bool.

  (* what seeing the literals [l] does to the state *)
  Definition absorb (a : analysis) (l : list N) : analysis :=
    mkAn (any_uppercase a || existsb upper l) (any_literal a || negb (match l with [] => true | _ => false end)).

  Lemma absorb_nil : forall a, absorb a [] = a.
  Proof. intros [u l]. unfold absorb. cbn. now rewrite !orb_false_r. Qed.

  Lemma absorb_app : forall a l1 l2, absorb (absorb a l1) l2 = absorb a (l1 ++ l2).
  Proof.
    intros [u l] l1 l2. unfold absorb. cbn [any_uppercase any_literal].
    rewrite existsb_app. f_equal.
    - now rewrite orb_assoc.
    - destruct l1, l2; cbn; now rewrite ?orb_false_r, ?orb_true_r.
  Qed.

  Lemma absorb_done : forall a l, an_done a = true -> absorb a l = a.
  Proof.
    intros [u l] x Hd. unfold an_done in Hd. cbn in Hd. apply andb_prop in Hd as [Hu Hl]. subst.
    reflexivity.
  Qed.

  Lemma from_lit_absorb : forall a c, from_ast_literal upper a c = absorb a [c].
  Proof. intros [u l] c. unfold from_ast_literal, absorb. cbn. now rewrite orb_false_r, orb_true_r. Qed.

  Lemma fold_absorb : forall (A : Type) (f : analysis -> A -> analysis) (g : A -> list N) (items : list A),
    Forall (fun x => forall a, f a x = absorb a (g x)) items ->
    forall a, fold_left f items a = absorb a (flat_map g items).
  Proof.
    intros A f g items HF. induction HF as [| x items Hx _ IH]; intros a; cbn [fold_left flat_map].
    - now rewrite absorb_nil.
    - now rewrite Hx, IH, absorb_app.
  Qed.

  Lemma from_class_absorb : forall k a, from_class upper a k = absorb a (cls_lits k).
  Proof.
    induction k as [t | c0 | s e | n k IHk | items IHitems | l r IHl IHr] using cls_ind2; intros a;
      cbn [from_class cls_lits]; destruct (an_done a) eqn:Hd; try (now rewrite absorb_done).
    - now rewrite absorb_nil.
    - apply from_lit_absorb.
    - rewrite !from_lit_absorb. now rewrite absorb_app.
    - apply IHk.
    - now apply fold_absorb.
    - now rewrite IHl, IHr, absorb_app.
  Qed.

  Lemma from_ast_impl_absorb : forall t a, from_ast_impl upper a t = absorb a (pat_lits t).
  Proof.
    induction t as [x | c0 | n k | t IHt | t IHt | l IHl | l IHl] using sast_ind2; intros a;
      cbn [from_ast_impl pat_lits]; destruct (an_done a) eqn:Hd; try (now rewrite absorb_done).
    - now rewrite absorb_nil.
    - apply from_lit_absorb.
    - apply from_class_absorb.
    - apply IHt.
    - apply IHt.
    - now apply fold_absorb.
    - now apply fold_absorb.
  Qed.

  Lemma from_ast_lits : forall t,
    from_ast upper t = mkAn (existsb upper (pat_lits t)) (negb (match pat_lits t with [] => true | _ => false end)).
  Proof. intros t. unfold from_ast. now rewrite from_ast_impl_absorb. Qed.

  (* AstAnalysis meets its documentation: any_literal / any_uppercase *)
  Lemma analysis_meets_doc_proof : forall t,
    (any_literal (from_ast upper t) = true <-> exists c, PatLit c t) /\
    (any_uppercase (from_ast upper t) = true <-> exists c, PatLit c t /\ upper c = true).
  Proof.
    intros t. rewrite from_ast_lits. cbn [any_literal any_uppercase]. split.
    - destruct (pat_lits t) as [| c l] eqn:Hl.
      + split; [discriminate|]. intros [c Hc]. apply pat_lits_spec in Hc. rewrite Hl in Hc. destruct Hc.
      + split; [|reflexivity]. intros _. exists c. apply pat_lits_spec. rewrite Hl. now left.
    - rewrite existsb_exists. split.
      + intros [c [Hin Hu]]. exists c. split; [now apply pat_lits_spec | exact Hu].
      + intros [c [Hc Hu]]. exists c. split; [now apply pat_lits_spec | exact Hu].
  Qed.

  (* the decision is the documented one *)
  Lemma smart_decision_meets_doc_proof : forall icase smart t,
    smart_decision upper icase smart t = true <-> case_insensitive_spec upper icase smart t.
  Proof.
    intros icase smart t. unfold smart_decision, is_case_insensitive, case_insensitive_spec, all_lowercase.
    destruct (analysis_meets_doc_proof t) as [Hlit Hup].
    destruct icase; [split; auto|].
    destruct smart; cbn [negb].
    - rewrite andb_true_iff, negb_true_iff, Hlit. split.
      + intros [Hex Hnu]. right. split; [reflexivity|]. split; [exact Hex|].
        intros c Hc. destruct (upper c) eqn:Hu; [|reflexivity].
        assert (Ht : any_uppercase (from_ast upper t) = true) by (apply Hup; now exists c).
        rewrite Ht in Hnu. discriminate.
      + intros [Hf | [_ [Hex Hall]]]; [discriminate|]. split; [exact Hex|].
        destruct (any_uppercase (from_ast upper t)) eqn:Ht; [|reflexivity].
        destruct (proj1 Hup eq_refl) as [c [Hc Hu]]. rewrite (Hall c Hc) in Hu. discriminate.
    - split; [discriminate|]. intros [Hf | [Hf _]]; discriminate.
  Qed.

  (* consequence used against the seeded defect class: ANY uppercase literal occurrence — in
     particular the end of a class range whose start is not a letter — makes -S case sensitive *)
  Lemma uppercase_literal_forces_sensitive_proof : forall t c,
    PatLit c t -> upper c = true -> smart_decision upper false true t = false.
  Proof.
    intros t c Hc Hu. destruct (smart_decision upper false true t) eqn:Hd; [|reflexivity].
    apply smart_decision_meets_doc_proof in Hd as [Hf | [_ [_ Hall]]]; [discriminate|].
    rewrite (Hall c Hc) in Hu. discriminate.
  Qed.
End WithUpper.

(* `x[0-Z]` with 'Z' uppercase: sensitive; `x[0-9]`: insensitive; `\w`: sensitive (no literal) *)
Lemma range_end_example_proof :
  smart_decision ascii_upper false true (SConcat [SLit 120; SClass false (CUnion [CRange 48 90])]) = false /\
  smart_decision ascii_upper false true (SConcat [SLit 120; SClass true (CUnion [CRange 48 57])]) = true /\
  smart_decision ascii_upper false true (SOther 5) = false.
Proof. vm_compute. auto. Qed.

Lemma range_end_is_literal_proof : PatLit 90 (SConcat [SLit 120; SClass false (CUnion [CRange 48 90])]).
Proof.
  apply PL_concat with (SClass false (CUnion [CRange 48 90])); [right; left; reflexivity|].
  apply PL_class, CL_union with (CRange 48 90); [left; reflexivity | apply CL_range_end].
Qed.
