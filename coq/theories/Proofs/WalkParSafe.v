(* Proofs/WalkParSafe.v — the safety invariant of Model/WalkPar.v (nothing lost, nothing duplicated) *)
From Coq Require Import List Arith Bool Lia Permutation.
Import ListNotations.
From RG Require Import Model.WalkPar Spec.WalkParSpec Proofs.WalkParBase Proofs.WalkParVariant.

(* ---- multisets of ids by counting ---- *)
Definition occ (x : nat) (l : list nat) : nat := count_occ Nat.eq_dec l x.

Lemma perm_occ : forall a b, Permutation a b <-> forall x, occ x a = occ x b.
Proof. intros. apply (Permutation_count_occ Nat.eq_dec). Qed.

Lemma occ_app : forall x a b, occ x (a ++ b) = occ x a + occ x b.
Proof. intros. apply count_occ_app. Qed.

Lemma occ_nil : forall x, occ x [] = 0.
Proof. reflexivity. Qed.

Lemma occ_cons : forall x y l, occ x (y :: l) = occ x [y] + occ x l.
Proof. intros. change (y :: l) with ([y] ++ l). apply occ_app. Qed.

Lemma occ_perm : forall x a b, Permutation a b -> occ x a = occ x b.
Proof. intros x a b P. apply perm_occ. auto. Qed.

Lemma occ_flat_map_upd : forall A (g : A -> list nat) (l : list A) i y d x, i < length l ->
  occ x (flat_map g (upd l i y)) + occ x (g (nth i l d)) = occ x (flat_map g l) + occ x (g y).
Proof.
  intros A g l i y d x Hi. rewrite <- !occ_app. apply occ_perm. apply flat_map_upd. auto.
Qed.

Lemma deq_ids_cons : forall resp m d, deq_ids resp (m :: d) = msg_ids resp m ++ deq_ids resp d.
Proof. reflexivity. Qed.

Lemma deq_ids_app : forall resp a b, deq_ids resp (a ++ b) = deq_ids resp a ++ deq_ids resp b.
Proof. intros. unfold deq_ids. apply flat_map_app. Qed.

Lemma occ_deq_ids_perm : forall resp x a b, Permutation a b -> occ x (deq_ids resp a) = occ x (deq_ids resp b).
Proof.
  intros resp x a b P. induction P; rewrite ?deq_ids_cons, ?occ_app in *; try lia; try reflexivity.
Qed.

Lemma hand_after_push : forall resp ts, hand_ids resp (after_push ts) = flat_map (reach_ids resp) ts.
Proof. intros resp [|t ts]; reflexivity. Qed.

Lemma hand_after_recv : forall resp c m, hand_ids resp (after_recv c m) = msg_ids resp m.
Proof. intros resp [|] m; reflexivity. Qed.

Lemma hand_steal_next : forall resp c vs, hand_ids resp (steal_next c vs) = [].
Proof. intros resp [|] [|v vs]; reflexivity. Qed.

Lemma quit_side_after_recv : forall c m, quit_side (after_recv c m) = is_quit m.
Proof. intros [|] [t|]; reflexivity. Qed.

Lemma needs_empty_after_recv : forall c m, needs_empty (after_recv c m) = false.
Proof. intros [|] m; reflexivity. Qed.

Lemma in_upd : forall A (l : list A) i x y, In y (upd l i x) -> y = x \/ In y l.
Proof.
  induction l as [|h t IH]; intros [|i] x y H; cbn in *; auto.
  - destruct H; auto.
  - destruct H as [H|H]; auto. destruct (IH _ _ _ H); auto.
Qed.

(* ---- what one own step does, locally ---- *)

Lemma own_vict : forall resp n w a q p d e, own_step resp n w a q p d = Some e ->
  (forall c vs, p = PSteal c vs -> ~ In w vs) -> forall c vs, e_pc e = PSteal c vs -> ~ In w vs.
Proof.
  intros resp n w a q p d e H Hv c vs E.
  destruct p as [c0|c0 vs0|v| | |m|t|ts| |l|]; cbn [own_step] in H.
  - destruct d; inversion H; subst; cbn in E.
    + inversion E; subst. apply victims_not_self.
    + destruct c0; discriminate.
  - destruct vs0 as [|v0 vs0]; inversion H; subst; cbn in E.
    + destruct c0; discriminate.
    + destruct vs0; [destruct c0; discriminate|]. cbn in E. inversion E; subst.
      intros I. apply (Hv c (v0 :: n0 :: vs0) eq_refl). right. auto.
  - inversion H; subst; cbn in E. destruct (if q then Some Quit else v) as [[|]|]; discriminate.
  - inversion H; subst; cbn in E. destruct (a - 1 =? 0); discriminate.
  - inversion H; subst; discriminate.
  - inversion H; subst; discriminate.
  - destruct t. inversion H; subst; cbn in E. destruct (resp id); try discriminate. destruct kids; discriminate.
  - destruct ts as [|t [|t2 ts]]; inversion H; subst; discriminate.
  - inversion H; subst; discriminate.
  - inversion H; subst; discriminate.
  - discriminate.
Qed.

Lemma own_empty : forall resp n w a q p d e, own_step resp n w a q p d = Some e ->
  (needs_empty p = true -> d = []) -> needs_empty (e_pc e) = true -> e_deq e = [].
Proof.
  intros resp n w a q p d e H Hd E.
  destruct p as [c0|c0 vs0|v| | |m|t|ts| |l|]; cbn [own_step] in H.
  - destruct d; inversion H; subst; cbn in *; auto. rewrite needs_empty_after_recv in E. discriminate.
  - destruct vs0; inversion H; subst; cbn in *; auto.
  - inversion H; subst; cbn in *. destruct q; [discriminate|]. destruct v as [[|]|]; try discriminate. auto.
  - inversion H; subst; cbn in *. auto.
  - inversion H; subst; cbn in *. auto.
  - inversion H; subst; discriminate.
  - destruct t. inversion H; subst; cbn in E. destruct (resp id); try discriminate. destruct kids; discriminate.
  - destruct ts as [|t [|t2 ts]]; inversion H; subst; discriminate.
  - inversion H; subst; discriminate.
  - inversion H; subst; discriminate.
  - discriminate.
Qed.

Lemma own_cons : forall resp n w a q p d e, own_step resp n w a q p d = Some e ->
  exists drop, (q = false -> drop = []) /\
    forall x, occ x (e_visit e) + occ x (hand_ids resp (e_pc e)) + occ x (deq_ids resp (e_deq e)) + occ x drop
              = occ x (hand_ids resp p) + occ x (deq_ids resp d).
Proof.
  intros resp n w a q p d e H.
  destruct p as [c0|c0 vs0|v| | |m|t|ts| |l|]; cbn [own_step] in H.
  - destruct d; inversion H; subst; exists []; split; auto; intros x; cbn [e_visit e_pc e_deq hand_ids];
      rewrite ?hand_after_recv, ?deq_ids_cons, ?occ_app, ?occ_nil; lia.
  - destruct vs0; inversion H; subst; exists []; split; auto; intros x; cbn [e_visit e_pc e_deq];
      rewrite ?hand_steal_next; destruct c0; cbn [recv_none hand_ids]; rewrite ?occ_nil; lia.
  - inversion H; subst. cbn [e_visit e_pc e_deq]. destruct q.
    + exists (hand_ids resp (PCheck v)). split; [discriminate|]. intros x. cbn [hand_ids]. rewrite !occ_nil. lia.
    + exists []. split; auto. intros x. destruct v as [[t|]|]; cbn [hand_ids msg_ids]; rewrite ?occ_nil; lia.
  - inversion H; subst. exists []. split; auto; try (intros x; cbn [e_visit e_pc e_deq];
    destruct (a - 1 =? 0); cbn [hand_ids]; rewrite ?occ_nil; lia).
  - inversion H; subst. exists []. split; auto.
  - inversion H; subst. exists []. split; auto.
  - destruct t as [y kids]. inversion H; subst. exists []. split; auto. intros x. cbn [e_visit e_pc e_deq].
    cbn [hand_ids reach_ids]. destruct (resp y).
    + rewrite (occ_cons x y (flat_map (reach_ids resp) kids)), hand_after_push, !occ_nil. lia.
    + cbn [hand_ids]. rewrite !occ_nil. lia.
    + cbn [hand_ids]. rewrite !occ_nil. lia.
  - destruct ts as [|t ts]; inversion H; subst; exists []; split; auto; try (intros x; cbn [e_visit e_pc e_deq];
      rewrite ?hand_after_push, ?deq_ids_cons; cbn [hand_ids flat_map msg_ids]; rewrite ?occ_app, ?occ_nil; lia).
  - inversion H; subst. exists []. split; auto.
  - inversion H; subst. exists []. split; auto; try (intros x; cbn [e_visit e_pc e_deq hand_ids];
    rewrite deq_ids_cons; cbn [msg_ids]; rewrite ?occ_app, ?occ_nil; lia).
  - discriminate.
Qed.

Lemma own_quit : forall resp n w a q p d e, own_step resp n w a q p d = Some e ->
  (e_quit e = true -> q = true \/ p = PSetQuit)
  /\ (e_pc e = PSetQuit -> exists x, In x (e_visit e) /\ resp x = WQuit).
Proof.
  intros resp n w a q p d e H.
  destruct p as [c0|c0 vs0|v| | |m|t|ts| |l|]; cbn [own_step] in H.
  - destruct d; inversion H; subst; cbn; split; auto; try discriminate. destruct c0; discriminate.
  - destruct vs0 as [|? [|? ?]]; inversion H; subst; cbn; split; auto; destruct c0; discriminate.
  - inversion H; subst; cbn; split; auto. destruct (if q then Some Quit else v) as [[|]|]; discriminate.
  - inversion H; subst; cbn; split; auto. destruct (a - 1 =? 0); discriminate.
  - inversion H; subst; cbn; split; auto; discriminate.
  - inversion H; subst; cbn; split; auto; discriminate.
  - destruct t as [y kids]. inversion H; subst; cbn [e_quit e_pc e_visit]; split; auto.
    destruct (resp y) eqn:R; try discriminate.
    + destruct kids; discriminate.
    + intros _. exists y. split; [left|]; auto.
  - destruct ts as [|? [|? ?]]; inversion H; subst; cbn; split; auto; discriminate.
  - inversion H; subst; cbn; split; auto; discriminate.
  - inversion H; subst; cbn; split; auto; discriminate.
  - discriminate.
Qed.

Lemma own_side : forall resp n w a p d e, own_step resp n w a false p d = Some e -> e_quit e = false ->
  Forall (fun m => is_quit m = quit_side p) d -> (needs_empty p = true -> d = []) ->
  Forall (fun m => is_quit m = quit_side (e_pc e)) (e_deq e).
Proof.
  intros resp n w a p d e H Hq Hs Hd.
  destruct p as [c0|c0 vs0|v| | |m|t|ts| |l|]; cbn [own_step] in H.
  - destruct d as [|m d']; inversion H; subst; cbn [e_pc e_deq]; auto.
    inversion Hs; subst. rewrite quit_side_after_recv.
    assert (Q : quit_side (PRecv c0) = false) by (destruct c0; reflexivity). rewrite Q in *.
    rewrite H2. auto.
  - rewrite (Hd eq_refl) in *. destruct vs0; inversion H; subst; cbn [e_deq]; auto.
  - inversion H; subst; cbn [e_pc e_deq]. destruct v as [[t|]|]; auto.
  - rewrite (Hd eq_refl) in *. inversion H; subst; cbn [e_deq]; auto.
  - rewrite (Hd eq_refl) in *. inversion H; subst; cbn [e_deq]; auto.
  - inversion H; subst; cbn [e_pc e_deq]. destruct m; auto.
  - destruct t as [y kids]. inversion H; subst; cbn [e_pc e_deq].
    assert (Q : quit_side (match resp y with WContinue => after_push kids | WSkip => PRecv Top | WQuit => PSetQuit end)
                = false) by (destruct (resp y); auto; destruct kids; auto).
    rewrite Q. auto.
  - destruct ts as [|t ts]; inversion H; subst; cbn [e_pc e_deq]; auto.
    assert (Q : quit_side (after_push ts) = false) by (destruct ts; auto). rewrite Q.
    constructor; auto.
  - inversion H; subst. discriminate.
  - inversion H; subst; cbn [e_pc e_deq]. constructor; auto.
  - discriminate.
Qed.

(* ---- the invariant is preserved ---- *)

Section Preserve.
  Variable resp : nat -> walk_state.
  Variable f : forest.

  Lemma safe_own : forall s w s', SafeInv resp f s -> step resp s (Own w) = Some s' -> SafeInv resp f s'.
  Proof.
    intros s w s' I H. apply step_own_inv in H. destruct H as (p & e & Hp & He & ->).
    destruct I as [Ilen Ivict Iempty Icons Iquit Iside].
    pose proof (nth_error_lt _ _ _ _ Hp) as Hw.
    assert (Hwd : w < length (deq s)) by lia.
    set (d := nth w (deq s) []) in *.
    split; cbn [deq pcs active quit_now visited].
    - rewrite !length_upd. auto.
    - intros w' c vs E. destruct (Nat.eq_dec w' w) as [->|Hne].
      + rewrite nth_error_upd_eq in E by auto. inversion E.
        eapply own_vict; eauto. intros c1 vs1 ->. eapply Ivict; eauto.
      + rewrite nth_error_upd_neq in E by auto. eauto.
    - intros w' p' E N. destruct (Nat.eq_dec w' w) as [->|Hne].
      + rewrite nth_error_upd_eq in E by auto. inversion E; subst.
        rewrite nth_upd_eq by auto. eapply own_empty; eauto.
      + rewrite nth_error_upd_neq in E by auto. rewrite nth_upd_neq by auto. eauto.
    - destruct Icons as (dropped & P & Hdr).
      destruct (own_cons _ _ _ _ _ _ _ _ He) as (drop & Hdrop & Hocc).
      exists (dropped ++ drop). split.
      + apply perm_occ. intros x. rewrite <- (occ_perm x _ _ P).
        unfold pend. cbn [pcs deq]. rewrite !occ_app.
        pose proof (occ_flat_map_upd _ (hand_ids resp) (pcs s) w (e_pc e) PExit x Hw) as E1.
        rewrite (nth_error_nth _ _ _ _ PExit Hp) in E1.
        pose proof (occ_flat_map_upd _ (deq_ids resp) (deq s) w (e_deq e) [] x Hwd) as E2.
        fold d in E2. specialize (Hocc x). lia.
      + intros Q. assert (Q0 : quit_now s = false).
        { destruct (quit_now s) eqn:Q0; auto. destruct (own_quit _ _ _ _ _ _ _ _ He) as [_ _].
          (* quit_now never goes back to false *)
          destruct p; cbn [own_step] in He;
            repeat match goal with
                   | H : match ?x with _ => _ end = Some _ |- _ => destruct x
                   end; inversion He; subst; cbn in Q; try discriminate. }
        rewrite (Hdr Q0), (Hdrop Q0). auto.
    - intros [Q|Q].
      + destruct (own_quit _ _ _ _ _ _ _ _ He) as [Hq _]. destruct (Hq Q) as [Q0| ->].
        * destruct (Iquit (or_introl Q0)) as (x & Ix & Rx). exists x. split; auto. apply in_or_app; auto.
        * destruct Iquit as (x & Ix & Rx).
          { right. eapply nth_error_In; eauto. }
          exists x. split; auto. apply in_or_app; auto.
      + apply in_upd in Q. destruct Q as [Q|Q].
        * destruct (own_quit _ _ _ _ _ _ _ _ He) as [_ Hq]. destruct (Hq (eq_sym Q)) as (x & Ix & Rx).
          exists x. split; auto. apply in_or_app; auto.
        * destruct (Iquit (or_intror Q)) as (x & Ix & Rx). exists x. split; auto. apply in_or_app; auto.
    - intros Q w' p' E.
      assert (Q0 : quit_now s = false).
      { destruct (quit_now s) eqn:Q0; auto.
        destruct p; cbn [own_step] in He;
          repeat match goal with
                 | H : match ?x with _ => _ end = Some _ |- _ => destruct x
                 end; inversion He; subst; cbn in Q; try discriminate. }
      destruct (Nat.eq_dec w' w) as [->|Hne].
      + rewrite nth_error_upd_eq in E by auto. inversion E; subst.
        rewrite nth_upd_eq by auto. rewrite Q0 in He. eapply own_side; eauto.
      + rewrite nth_error_upd_neq in E by auto. rewrite nth_upd_neq by auto. eauto.
  Qed.

  Lemma safe_steal : forall s w mask k s', SafeInv resp f s -> step resp s (Steal w mask k) = Some s' -> SafeInv resp f s'.
  Proof.
    intros s w mask k s' I H. apply step_steal_inv in H.
    destruct H as (c & v & vs & taken & kept & m & Hp & Hs & Hm & ->).
    destruct I as [Ilen Ivict Iempty Icons Iquit Iside].
    pose proof (nth_error_lt _ _ _ _ Hp) as Hw.
    assert (Hwd : w < length (deq s)) by lia.
    assert (Hvw : v <> w). { intros ->. apply (Ivict w c (w :: vs) Hp). left; auto. }
    assert (Hv : v < length (deq s)).
    { destruct (Nat.lt_ge_cases v (length (deq s))); auto.
      rewrite nth_overflow in Hs by lia. cbn in Hs. inversion Hs; subst. destruct k; discriminate. }
    assert (Hown : nth w (deq s) [] = []) by (apply (Iempty w _ Hp); reflexivity).
    rewrite (nth_upd_neq _ (deq s) v w kept []) by auto. rewrite Hown, app_nil_r.
    pose proof (split_mask_perm _ _ _ _ _ Hs) as P1.
    pose proof (remove_nth_perm _ _ _ _ Hm) as P2.
    set (moved := remove_nth k taken) in *.
    split; cbn [deq pcs active quit_now visited].
    - rewrite !length_upd. auto.
    - intros w' c' vs' E. destruct (Nat.eq_dec w' w) as [->|Hne].
      + rewrite nth_error_upd_eq in E by auto. inversion E. destruct c; discriminate.
      + rewrite nth_error_upd_neq in E by auto. eauto.
    - intros w' p' E N. destruct (Nat.eq_dec w' w) as [->|Hne].
      + rewrite nth_error_upd_eq in E by auto. inversion E; subst.
        rewrite needs_empty_after_recv in N. discriminate.
      + rewrite nth_error_upd_neq in E by auto. rewrite nth_upd_neq by auto.
        destruct (Nat.eq_dec w' v) as [->|Hne2].
        * rewrite nth_upd_eq by auto. rewrite (Iempty v p' E N) in Hs. cbn in Hs. inversion Hs; subst.
          destruct k; discriminate.
        * rewrite nth_upd_neq by auto. eauto.
    - destruct Icons as (dropped & P & Hdr). exists dropped. split; auto.
      apply perm_occ. intros x. rewrite <- (occ_perm x _ _ P).
      unfold pend. cbn [pcs deq]. rewrite !occ_app.
      pose proof (occ_flat_map_upd _ (hand_ids resp) (pcs s) w (after_recv c m) PExit x Hw) as E1.
      rewrite (nth_error_nth _ _ _ _ PExit Hp) in E1. rewrite hand_after_recv in E1. cbn [hand_ids] in E1.
      pose proof (occ_flat_map_upd _ (deq_ids resp) (deq s) v kept [] x Hv) as E2.
      assert (Hwd1 : w < length (upd (deq s) v kept)) by (rewrite length_upd; auto).
      pose proof (occ_flat_map_upd _ (deq_ids resp) (upd (deq s) v kept) w moved [] x Hwd1) as E3.
      rewrite (nth_upd_neq _ (deq s) v w kept []) in E3 by auto. rewrite Hown in E3.
      pose proof (occ_deq_ids_perm resp x _ _ P1) as O1. rewrite deq_ids_app, occ_app in O1.
      pose proof (occ_deq_ids_perm resp x _ _ P2) as O2. rewrite deq_ids_cons, occ_app in O2.
      fold moved in O2. cbn [deq_ids flat_map] in E3. rewrite occ_nil in *. lia.
    - intros [Q|Q]; [eauto|]. apply in_upd in Q. destruct Q as [Q|Q]; [destruct c; discriminate|eauto].
    - intros Q w' p' E.
      assert (Hpv : exists pv, nth_error (pcs s) v = Some pv).
      { destruct (nth_error (pcs s) v) eqn:X; eauto. apply nth_error_None in X. lia. }
      destruct Hpv as (pv & Hpv).
      pose proof (Iside Q v pv Hpv) as Sv. rewrite Forall_forall in Sv.
      destruct (split_mask_in _ _ _ _ _ Hs) as [Tin Kin].
      destruct (Nat.eq_dec w' w) as [->|Hne].
      + rewrite nth_error_upd_eq in E by auto. inversion E; subst.
        rewrite nth_upd_eq by (rewrite length_upd; auto).
        rewrite quit_side_after_recv. apply Forall_forall. intros y Hy.
        assert (Iy : In y taken) by (apply (Permutation_in y (Permutation_sym P2)); right; auto).
        assert (Im : In m taken) by (apply (Permutation_in m (Permutation_sym P2)); left; auto).
        rewrite (Sv y (Tin y Iy)), (Sv m (Tin m Im)). auto.
      + rewrite nth_error_upd_neq in E by auto. rewrite nth_upd_neq by auto.
        destruct (Nat.eq_dec w' v) as [->|Hne2].
        * rewrite nth_upd_eq by auto. rewrite Hpv in E. inversion E; subst.
          apply Forall_forall. intros y Hy. apply Sv. auto.
        * rewrite nth_upd_neq by auto. eauto.
  Qed.

  Lemma safe_step : forall s c s', SafeInv resp f s -> step resp s c = Some s' -> SafeInv resp f s'.
  Proof. intros s [w|w mask k] s' I H; [eapply safe_own|eapply safe_steal]; eauto. Qed.
End Preserve.

(* ---- the initial state ---- *)

Lemma distribute_length : forall n roots i d, length (distribute n i roots d) = length d.
Proof. intros n roots. induction roots as [|t r IH]; intros i d; cbn; auto. rewrite IH, length_upd. auto. Qed.

Lemma distribute_occ : forall resp n roots i d x, 1 <= n -> length d = n ->
  occ x (flat_map (deq_ids resp) (distribute n i roots d))
  = occ x (flat_map (deq_ids resp) d) + occ x (ids_under_skip resp roots).
Proof.
  intros resp n roots. induction roots as [|t r IH]; intros i d x Hn Hd; cbn [distribute ids_under_skip flat_map].
  - rewrite occ_nil. lia.
  - assert (Hi : i mod n < length d) by (rewrite Hd; apply Nat.mod_upper_bound; lia).
    rewrite IH by (rewrite ?length_upd; auto).
    pose proof (occ_flat_map_upd _ (deq_ids resp) d (i mod n) (Work t :: nth (i mod n) d []) [] x Hi) as E.
    rewrite deq_ids_cons, occ_app in E. cbn [msg_ids] in E.
    fold (ids_under_skip resp r). rewrite occ_app. lia.
Qed.

Lemma distribute_work : forall n roots i d, 1 <= n -> length d = n ->
  (forall w, Forall (fun m => is_quit m = false) (nth w d [])) ->
  forall w, Forall (fun m => is_quit m = false) (nth w (distribute n i roots d) []).
Proof.
  intros n roots. induction roots as [|t r IH]; intros i d Hn Hd Hall w; cbn [distribute]; auto.
  assert (Hi : i mod n < length d) by (rewrite Hd; apply Nat.mod_upper_bound; lia).
  apply IH; auto; [rewrite length_upd; auto|]. intros w'.
  destruct (Nat.eq_dec w' (i mod n)) as [->|Hne].
  - rewrite nth_upd_eq by auto. constructor; auto.
  - rewrite nth_upd_neq by auto. auto.
Qed.

Lemma nthreads_pos : forall n, 1 <= nthreads n.
Proof. intros n. unfold nthreads. destruct (n =? 0) eqn:E; [lia|]. apply Nat.eqb_neq in E. lia. Qed.

Lemma flat_map_repeat_nil : forall A B (g : A -> list B) a k, g a = [] -> flat_map g (repeat a k) = [].
Proof. intros A B g a k H. induction k; cbn; auto. rewrite H, IHk. auto. Qed.

Lemma nth_error_repeat : forall A (a : A) k i x, nth_error (repeat a k) i = Some x -> x = a.
Proof. intros A a k i x H. apply nth_error_In in H. apply repeat_spec in H. auto. Qed.

Lemma safe_init : forall resp n f, SafeInv resp f (init n f).
Proof.
  intros resp n f. unfold init. pose proof (nthreads_pos n) as Hn. set (k := nthreads n) in *.
  split; cbn [deq pcs active quit_now visited].
  - rewrite distribute_length, !repeat_length. auto.
  - intros w c vs E. apply nth_error_repeat in E. discriminate.
  - intros w p E N. apply nth_error_repeat in E. subst. discriminate.
  - exists []. split; auto. apply perm_occ. intros x. unfold pend. cbn [pcs deq app]. rewrite app_nil_r.
    rewrite flat_map_repeat_nil by reflexivity. cbn [app].
    rewrite distribute_occ by (rewrite ?repeat_length; auto).
    rewrite flat_map_repeat_nil by reflexivity. rewrite occ_nil. lia.
  - intros [Q|Q]; [discriminate|]. apply repeat_spec in Q. discriminate.
  - intros _ w p E. apply nth_error_repeat in E. subst. cbn [quit_side].
    apply distribute_work; auto; [rewrite repeat_length; auto|].
    intros w'. destruct (Nat.lt_ge_cases w' k).
    + rewrite nth_repeat. auto. (* nth of repeat *)
    + rewrite nth_overflow by (rewrite repeat_length; auto). auto.
Qed.

Theorem safe_reach : forall resp n f s, reach resp (init n f) s -> SafeInv resp f s.
Proof.
  intros resp n f s [cs H]. revert H. generalize (safe_init resp n f). generalize (init n f).
  induction cs as [|c r IH]; intros s0 I H; cbn in H.
  - inversion H; subst; auto.
  - destruct (step resp s0 c) as [s1|] eqn:E; [|discriminate]. apply (IH s1); auto. eapply safe_step; eauto.
Qed.

(* ---- consequences ---- *)

Lemma all_exited_pend : forall resp f s, SafeInv resp f s -> quit_now s = false -> all_exited s ->
  pend resp s = [].
Proof.
  intros resp f s I Q A. unfold pend.
  assert (H1 : flat_map (hand_ids resp) (pcs s) = []).
  { unfold all_exited in A. induction A as [|p l Hp Hl IH]; cbn; auto. subst. cbn. auto. }
  rewrite H1. cbn [app].
  assert (H2 : forall w, deq_ids resp (nth w (deq s) []) = []).
  { intros w. destruct (nth_error (pcs s) w) as [p|] eqn:E.
    - pose proof (si_side _ _ _ I Q w p E) as S.
      unfold all_exited in A. rewrite Forall_forall in A. rewrite (A p (nth_error_In _ _ E)) in S.
      cbn [quit_side] in S. induction S as [|m l Hm Hl IH]; cbn; auto.
      destruct m; [discriminate|]. auto.
    - apply nth_error_None in E. rewrite nth_overflow by (rewrite (si_len _ _ _ I); auto). auto. }
  clear - H2. revert H2. generalize (deq s). induction l as [|d l IH]; intros H; cbn; auto.
  rewrite (H 0 : deq_ids resp d = []). cbn. apply IH. intros w. apply (H (S w)).
Qed.

Theorem final_visits_all_once_proof : forall resp n f s,
  reach resp (init n f) s -> all_exited s -> (forall x, resp x <> WQuit) ->
  Permutation (visited s) (ids_under_skip resp f).
Proof.
  intros resp n f s R A NQ. pose proof (safe_reach _ _ _ _ R) as I.
  assert (Q : quit_now s = false).
  { destruct (quit_now s) eqn:Q; auto. destruct (si_quit _ _ _ I (or_introl Q)) as (x & _ & Rx).
    exfalso. apply (NQ x). auto. }
  destruct (si_cons _ _ _ I) as (dropped & P & Hd). rewrite (Hd Q) in P.
  rewrite (all_exited_pend _ _ _ I Q A) in P. rewrite !app_nil_r in P. auto.
Qed.

(* visited is always a sub-multiset of what a complete walk visits *)
Theorem visited_submultiset_proof : forall resp n f s, reach resp (init n f) s ->
  exists rest, Permutation (visited s ++ rest) (ids_under_skip resp f).
Proof.
  intros resp n f s R. pose proof (safe_reach _ _ _ _ R) as I.
  destruct (si_cons _ _ _ I) as (dropped & P & _). exists (pend resp s ++ dropped). auto.
Qed.

(* reachable ids are a sub-multiset of all ids *)
Fixpoint skipped_ids (resp : nat -> walk_state) (t : tree) : list nat :=
  match t with
  | Node x kids =>
      match resp x with
      | WContinue => flat_map (skipped_ids resp) kids
      | _ => flat_map tree_ids kids
      end
  end.

Lemma reach_skipped_occ : forall resp t x,
  occ x (reach_ids resp t) + occ x (skipped_ids resp t) = occ x (tree_ids t).
Proof.
  intros resp. fix IH 1. intros [y kids] x. cbn [reach_ids skipped_ids tree_ids].
  rewrite (occ_cons x y (flat_map tree_ids kids)), (occ_cons x y).
  assert (L : occ x (flat_map (reach_ids resp) kids) + occ x (flat_map (skipped_ids resp) kids)
              = occ x (flat_map tree_ids kids)).
  { induction kids as [|k r IHr]; cbn [flat_map]; auto. rewrite !occ_app. pose proof (IH k x). lia. }
  destruct (resp y); rewrite ?occ_nil; lia.
Qed.

Lemma under_skip_sub : forall resp f, exists rest, Permutation (ids_under_skip resp f ++ rest) (forest_ids f).
Proof.
  intros resp f. exists (flat_map (skipped_ids resp) f). apply perm_occ. intros x.
  unfold ids_under_skip, forest_ids. rewrite occ_app.
  induction f as [|t r IH]; cbn [flat_map]; auto. rewrite !occ_app. pose proof (reach_skipped_occ resp t x). lia.
Qed.

Lemma NoDup_app_l : forall A (a b : list A), NoDup (a ++ b) -> NoDup a.
Proof. intros A a b H. induction a as [|x a IH]; [constructor|]. inversion H; subst. constructor; auto.
  intros I. apply H2. apply in_or_app; auto. Qed.

Theorem after_quit_no_duplicates_proof : forall resp n f s,
  NoDup (forest_ids f) -> reach resp (init n f) s -> NoDup (visited s).
Proof.
  intros resp n f s ND R.
  destruct (visited_submultiset_proof _ _ _ _ R) as (rest & P).
  destruct (under_skip_sub resp f) as (rest2 & P2).
  apply (NoDup_app_l _ _ rest). apply (Permutation_NoDup (Permutation_sym P)).
  apply (NoDup_app_l _ _ rest2). apply (Permutation_NoDup (Permutation_sym P2)). auto.
Qed.

Theorem busy_steps_bounded_proof : forall resp n f cs s,
  run resp (init n f) cs = Some s -> busy_steps resp (init n f) cs <= mu (init n f).
Proof.
  intros resp n f cs s H.
  pose proof (busy_bound resp cs (init n f) s (si_len _ _ _ (safe_init resp n f)) H). lia.
Qed.

(* ---- the root loop of WalkParallel::visit ---- *)

Lemma pre_loop_no_quit : forall eresp roots stack, (forall k, eresp k <> WQuit) ->
  pre_loop eresp roots stack = Some (stack ++ good_roots roots).
Proof.
  intros eresp roots. induction roots as [|[t|k] r IH]; intros stack NQ; cbn [pre_loop good_roots flat_map].
  - rewrite app_nil_r. auto.
  - rewrite IH by auto. rewrite <- app_assoc. auto.
  - specialize (NQ k) as Q. destruct (eresp k); try congruence; rewrite IH by auto; auto.
Qed.

Theorem visit_roots_all_once_proof : forall eresp resp n roots,
  (forall k, eresp k <> WQuit) -> (forall x, resp x <> WQuit) ->
  match visit_start eresp n roots with
  | Some s0 => s0 = init n (good_roots roots) /\
               forall s, reach resp s0 s -> all_exited s ->
                         Permutation (visited s) (ids_under_skip resp (good_roots roots))
  | None => good_roots roots = []
  end.
Proof.
  intros eresp resp n roots NQe NQ. unfold visit_start. rewrite pre_loop_no_quit by auto. cbn [app].
  unfold start. destruct (good_roots roots) as [|t f] eqn:E; auto.
  split; auto. intros s R A. eapply final_visits_all_once_proof; eauto.
Qed.
