(* Proofs/MLPrefix.v — the prefix law (property C16) for MultiLine::run.
   The multi-line loop carries `last_match` besides the core; its evolution does not depend on
   the sink's replies, so the loop is re-expressed as a core action indexed by `last`
   (the mlc_ functions), shown equal to the ml_ functions of the model, and the compositional law `Good` is
   proved for it. *)
From RG Require Import Base.Bytes Model.Lines Model.SearcherCore Model.Glue Proofs.PrefixLaw Proofs.PrefixCore
  Proofs.MLInvExt.

(* the whole-run statement from a Good body, for any strategy *)
Section RunLaw.
  Variable body : action.
  Variable c0 : core.
  Variable run : (nat -> reply) -> run_result.
  Hypothesis Hc0 : log c0 = [].
  Hypothesis Gbody : Good body.
  Hypothesis Hrun : forall r, run r =
    match body r c0 with
    | ERR c => RunErr (rev (log c))
    | FUEL => RunFuel
    | OK _ c => finish r c (byte_count c)
    end.

  Lemma run_prefix_law : forall (r : nat -> reply) (evs : list event),
    run K = RunOk evs ->
    (quiet r 0 (length evs) -> run r = RunOk evs) /\
    (forall k, S k < length evs -> quiet r 0 k -> r k <> Continue ->
       match r k with
       | Stop => exists n b, run r =
                   (match r (S k) with Fail => RunErr | _ => RunOk end) (firstn (S k) evs ++ [EFinish n b])
       | _ => run r = RunErr (firstn (S k) evs)
       end).
  Proof.
    intros r evs HK.
    pose proof (Gbody r c0) as G.
    rewrite Hrun in HK.
    destruct (body K c0) as [b cK| |] eqn:EK; [|contradiction|discriminate].
    destruct G as ((ext & Hext) & Gq & Gcut).
    rewrite Hc0 in *. cbn [length] in *.
    unfold finish in HK. cbn beta in HK. injection HK as HK.
    assert (Hlen : length evs = S (length (log cK))).
    { rewrite <- HK. cbn [rev]. rewrite app_length, rev_length. cbn. lia. }
    split.
    - intro Q. rewrite Hrun.
      rewrite Gq by (intros i Hi; apply Q; lia).
      unfold finish. rewrite (Q (length (log cK))) by lia. rewrite <- HK. reflexivity.
    - intros k Hk Q Hr. rewrite Hrun.
      destruct (Gcut k ltac:(lia) Q Hr) as (c' & Hlog & Hres).
      assert (Hlenc : length (log c') = S k).
      { rewrite Hlog, skipn_length. lia. }
      assert (Hfirst : rev (log c') = firstn (S k) evs).
      { rewrite <- HK. cbn [rev]. rewrite firstn_app, rev_length.
        replace (S k - length (log cK)) with 0 by lia. rewrite firstn_O, app_nil_r.
        rewrite firstn_rev. now rewrite Hlog. }
      destruct (r k) eqn:Erk; [contradiction| |].
      + rewrite Hres. unfold finish. rewrite Hlenc.
        exists (byte_count c'), (bin_off c'). cbn [rev]. rewrite Hfirst.
        destruct (r (S k)); reflexivity.
      + rewrite Hres. now rewrite Hfirst.
  Qed.
End RunLaw.

Section ML.
  Variable cfg : config.
  Variable M : matcher.
  Variable s : bytes.

  Notation ltb_ := (lt_byte (c_lt cfg)).

  Definition next_last (c : core) (last : option (nat * nat)) : option (nat * nat) :=
    if c_invert cfg then last else
    match ml_find M c s with
    | None => last
    | Some (a, b) =>
      let (ls, le) := locate ltb_ s a b in
      if Nat.leb le ls then last else
      match last with
      | None => Some (ls, le)
      | Some (pls, ple) => if Nat.leb ls ple then Some (pls, le) else Some (ls, le)
      end
    end.

  Fixpoint mlc_inv_loop (r : nat -> reply) (fuel : nat) (c : core) (p re : nat) : outcome :=
    match fuel with
    | 0 => FUEL
    | S fuel' =>
      match line_step ltb_ s p re with
      | None => OK true c
      | Some (a, b) => andthen (ml_sink_matched cfg r c s a b) (fun c => mlc_inv_loop r fuel' c b re)
      end
    end.

  (* the range to deliver and the core after the search for the lines to exclude *)
  Definition mlc_found (c : core) : option (nat * nat * core) :=
    match ml_find M c s with
    | None => Some (pos c, length s, set_pos c (length s))
    | Some (a, b) =>
      let (ls, le) := locate ltb_ s a b in
      match ml_inv_extend cfg M (S (length s)) (ml_advance c s a b) s le with
      | Some (c', le') => Some (pos c, ls, set_pos c' le')
      | None => None
      end
    end.

  Definition mlc_inverted (r : nat -> reply) (c : core) : outcome :=
    match mlc_found c with
    | None => FUEL
    | Some (rs, re, c) =>
      if Nat.leb re rs then OK true c else
      andthen (ml_sink_context cfg r c s rs) (fun c => mlc_inv_loop r (S (length s)) c rs re)
    end.

  Definition mlc_sink (last : option (nat * nat)) (r : nat -> reply) (c : core) : outcome :=
    if c_invert cfg then mlc_inverted r c else
    match ml_find M c s with
    | None => OK true (set_pos c (length s))
    | Some (a, b) =>
      let c := ml_advance c s a b in
      let (ls, le) := locate ltb_ s a b in
      if Nat.leb le ls then OK true c else
      match last with
      | None => OK true c
      | Some (pls, ple) =>
        if Nat.leb ls ple then OK true c
        else andthen (ml_sink_context cfg r c s pls) (fun c => ml_sink_matched cfg r c s pls ple)
      end
    end.

  Definition lift_ml (o : outcome) (l : option (nat * nat)) : ml_outcome :=
    match o with
    | OK b c => MOK b {| ml_core := c; ml_last := l |}
    | ERR c => MERR c
    | FUEL => MFUEL
    end.

  Lemma inv_loop_eq r last : forall fuel c p re,
    ml_inv_loop cfg r last fuel c s p re = lift_ml (mlc_inv_loop r fuel c p re) last.
  Proof.
    induction fuel as [|f IH]; intros c p re; cbn [ml_inv_loop mlc_inv_loop]; [reflexivity|].
    destruct (line_step ltb_ s p re) as [[a b]|]; [|reflexivity].
    destruct (ml_sink_matched cfg r c s a b) as [[|] c'| |]; cbn [ml_lift andthen lift_ml]; try reflexivity.
    apply IH.
  Qed.

  Lemma ml_sink_eq r m :
    ml_sink cfg M r m s = lift_ml (mlc_sink (ml_last m) r (ml_core m)) (next_last (ml_core m) (ml_last m)).
  Proof.
    unfold ml_sink, mlc_sink, next_last. destruct (c_invert cfg).
    - unfold ml_sink_matched_inverted, mlc_inverted, mlc_found.
      destruct (ml_find M (ml_core m) s) as [[a b]|].
      + destruct (locate ltb_ s a b) as [ls le].
        destruct (ml_inv_extend cfg M (S (length s)) (ml_advance (ml_core m) s a b) s le) as [[c' le']|]; [|reflexivity].
        destruct (Nat.leb ls (pos (ml_core m))); [reflexivity|].
        destruct (ml_sink_context cfg r (set_pos c' le') s (pos (ml_core m))) as [[|] c''| |];
          cbn [ml_lift andthen lift_ml]; try reflexivity.
        apply inv_loop_eq.
      + destruct (Nat.leb (length s) (pos (ml_core m))); [reflexivity|].
        destruct (ml_sink_context cfg r (set_pos (ml_core m) (length s)) s (pos (ml_core m))) as [[|] c'| |];
          cbn [ml_lift andthen lift_ml]; try reflexivity.
        apply inv_loop_eq.
    - destruct (ml_find M (ml_core m) s) as [[a b]|]; [|reflexivity].
      destruct (locate ltb_ s a b) as [ls le].
      destruct (Nat.leb le ls); [reflexivity|].
      destruct (ml_last m) as [[pls ple]|]; [|reflexivity].
      destruct (Nat.leb ls ple); [reflexivity|].
      destruct (ml_sink_context cfg r (ml_advance (ml_core m) s a b) s pls) as [[|] c'| |];
        cbn [ml_lift andthen lift_ml]; try reflexivity.
  Qed.

  (* the final flush and the trailing context, as in MultiLine::run after the loop *)
  Definition mlc_flush (last : option (nat * nat)) (r : nat -> reply) (c : core) : outcome :=
    andthen (match last with
             | None => OK true c
             | Some (pls, ple) => andthen (ml_sink_context cfg r c s pls) (fun c => ml_sink_matched cfg r c s pls ple)
             end)
            (fun c => if c_passthru cfg then other_context_by_line cfg r true c s (length s)
                      else after_context_by_line cfg r true c s (length s)).

  Fixpoint mlc_loop (fuel : nat) (last : option (nat * nat)) (r : nat -> reply) (c : core) : outcome :=
    match fuel with
    | 0 => FUEL
    | S fuel' =>
      if Nat.leb (length s) (pos c) then mlc_flush last r c
      else andthen (mlc_sink last r c) (fun c' => mlc_loop fuel' (next_last c last) r c')
    end.

  (* ml_loop followed by the flush = mlc_loop *)
  Definition after_ml_loop (r : nat -> reply) (o : ml_outcome) : outcome :=
    match o with
    | MERR c => ERR c
    | MFUEL => FUEL
    | MOK false m => OK false (ml_core m)
    | MOK true m => mlc_flush (ml_last m) r (ml_core m)
    end.

  Lemma ml_loop_eq r : forall fuel m,
    after_ml_loop r (ml_loop cfg M r fuel m s) = mlc_loop fuel (ml_last m) r (ml_core m).
  Proof.
    induction fuel as [|f IH]; intro m; cbn [ml_loop mlc_loop]; [reflexivity|].
    destruct (Nat.leb (length s) (pos (ml_core m))); [reflexivity|].
    rewrite ml_sink_eq.
    destruct (mlc_sink (ml_last m) r (ml_core m)) as [[|] c'| |]; cbn [lift_ml andthen after_ml_loop]; try reflexivity.
    rewrite IH. reflexivity.
  Qed.

  (* ---- Good ---- *)
  Lemma good_ml_sink_context rs : Good (fun r c => ml_sink_context cfg r c s rs).
  Proof.
    unfold ml_sink_context. destruct (c_passthru cfg).
    - apply good_other_context.
    - apply (good_andthen (fun r c => after_context_by_line cfg r true c s rs)
                          (fun r c => before_context_by_line cfg r true c s rs)).
      + apply good_after_context.
      + apply good_before_context.
  Qed.

  Lemma good_ml_sink_matched rs re : Good (fun r c => ml_sink_matched cfg r c s rs re).
  Proof.
    unfold ml_sink_matched. destruct (Nat.leb re rs).
    - exact (good_ret (fun _ => false) (fun c => c) (fun _ => eq_refl)).
    - apply good_sink_matched.
  Qed.

  Lemma good_ctx_then_matched pls ple :
    Good (fun r c => andthen (ml_sink_context cfg r c s pls) (fun c => ml_sink_matched cfg r c s pls ple)).
  Proof.
    apply (good_andthen (fun r c => ml_sink_context cfg r c s pls) (fun r c => ml_sink_matched cfg r c s pls ple)).
    - apply good_ml_sink_context.
    - apply good_ml_sink_matched.
  Qed.

  Lemma good_inv_loop re : forall fuel p, Good (fun r c => mlc_inv_loop r fuel c p re).
  Proof.
    induction fuel as [|f IH]; intro p; [apply good_fuel|].
    cbn [mlc_inv_loop]. destruct (line_step ltb_ s p re) as [[a b]|].
    - apply (good_andthen (fun r c => ml_sink_matched cfg r c s a b) (fun r c => mlc_inv_loop r f c b re)).
      + apply good_ml_sink_matched.
      + apply IH.
    - exact (good_ret (fun _ => true) (fun c => c) (fun _ => eq_refl)).
  Qed.

  Lemma good_dep (F : core -> action) : (forall c0, Good (F c0)) -> Good (fun r c => F c r c).
  Proof. intros H r c. exact (H c r c). Qed.

  (* the decisions of mlc_found depend on the position only; the core keeps everything else *)
  Definition found_pos (c0 : core) : option (nat * nat * nat) :=
    match ml_find M c0 s with
    | None => Some (pos c0, length s, length s)
    | Some (a, b) =>
      let (ls, le) := locate ltb_ s a b in
      match ml_ext_pos cfg M s (S (length s)) (adv_pos s a b) le with
      | Some (q, le') => Some (pos c0, ls, le')
      | None => None
      end
    end.

  Lemma mlc_found_eq c : mlc_found c =
    match found_pos c with Some (rs, re, q) => Some (rs, re, set_pos c q) | None => None end.
  Proof.
    unfold mlc_found, found_pos. destruct (ml_find M c s) as [[a b]|]; [|reflexivity].
    destruct (locate ltb_ s a b) as [ls le]. rewrite ml_inv_extend_eq, ml_advance_eq. cbn [pos set_pos].
    destruct (ml_ext_pos cfg M s (S (length s)) (adv_pos s a b) le) as [[q le']|]; reflexivity.
  Qed.

  Lemma good_inverted : Good mlc_inverted.
  Proof.
    apply (good_ext (fun r c =>
      match found_pos c with
      | None => FUEL
      | Some (rs, re, q) =>
        if Nat.leb re rs then OK true (set_pos c q) else
        andthen (ml_sink_context cfg r (set_pos c q) s rs) (fun c => mlc_inv_loop r (S (length s)) c rs re)
      end)).
    { intros r c. unfold mlc_inverted. rewrite mlc_found_eq. destruct (found_pos c) as [[[rs re] q]|]; reflexivity. }
    apply (good_dep (fun c0 r c =>
      match found_pos c0 with
      | None => FUEL
      | Some (rs, re, q) =>
        if Nat.leb re rs then OK true (set_pos c q) else
        andthen (ml_sink_context cfg r (set_pos c q) s rs) (fun c => mlc_inv_loop r (S (length s)) c rs re)
      end)).
    intro c0. destruct (found_pos c0) as [[[rs re] q]|]; [|apply good_fuel].
    destruct (Nat.leb re rs).
    - exact (good_ret (fun _ => true) (fun c => set_pos c q) (fun _ => eq_refl)).
    - apply (good_pre (fun c => set_pos c q)
               (fun r c => andthen (ml_sink_context cfg r c s rs) (fun c => mlc_inv_loop r (S (length s)) c rs re))).
      + reflexivity.
      + apply (good_andthen (fun r c => ml_sink_context cfg r c s rs) (fun r c => mlc_inv_loop r (S (length s)) c rs re)).
        * apply good_ml_sink_context.
        * apply good_inv_loop.
  Qed.

  Lemma good_mlc_sink last : Good (mlc_sink last).
  Proof.
    unfold mlc_sink. destruct (c_invert cfg); [apply good_inverted|].
    apply (good_dep (fun c0 r c =>
      match ml_find M c0 s with
      | None => OK true (set_pos c (length s))
      | Some (a, b) =>
        let c := ml_advance c s a b in
        let (ls, le) := locate ltb_ s a b in
        if Nat.leb le ls then OK true c else
        match last with
        | None => OK true c
        | Some (pls, ple) =>
          if Nat.leb ls ple then OK true c
          else andthen (ml_sink_context cfg r c s pls) (fun c => ml_sink_matched cfg r c s pls ple)
        end
      end)).
    intro c0. destruct (ml_find M c0 s) as [[a b]|].
    - cbv zeta. destruct (locate ltb_ s a b) as [ls le].
      assert (Hadv : forall c, log (ml_advance c s a b) = log c).
      { intro c. unfold ml_advance. destruct (_ && _); reflexivity. }
      destruct (Nat.leb le ls); [exact (good_ret (fun _ => true) (fun c => ml_advance c s a b) Hadv)|].
      destruct last as [[pls ple]|].
      + destruct (Nat.leb ls ple).
        * exact (good_ret (fun _ => true) (fun c => ml_advance c s a b) Hadv).
        * apply (good_pre (fun c => ml_advance c s a b)
                   (fun r c => andthen (ml_sink_context cfg r c s pls) (fun c => ml_sink_matched cfg r c s pls ple)) Hadv).
          apply good_ctx_then_matched.
      + exact (good_ret (fun _ => true) (fun c => ml_advance c s a b) Hadv).
    - exact (good_ret (fun _ => true) (fun c => set_pos c (length s)) (fun _ => eq_refl)).
  Qed.

  Lemma good_flush last : Good (mlc_flush last).
  Proof.
    unfold mlc_flush.
    apply (good_andthen
             (fun r c => match last with
                         | None => OK true c
                         | Some (pls, ple) => andthen (ml_sink_context cfg r c s pls) (fun c => ml_sink_matched cfg r c s pls ple)
                         end)
             (fun r c => if c_passthru cfg then other_context_by_line cfg r true c s (length s)
                         else after_context_by_line cfg r true c s (length s))).
    - destruct last as [[pls ple]|].
      + apply good_ctx_then_matched.
      + exact (good_ret (fun _ => true) (fun c => c) (fun _ => eq_refl)).
    - destruct (c_passthru cfg); [apply good_other_context|apply good_after_context].
  Qed.

  Lemma good_mlc_loop : forall fuel last, Good (mlc_loop fuel last).
  Proof.
    induction fuel as [|f IH]; intro last; [apply good_fuel|].
    cbn [mlc_loop].
    apply (good_if (fun c => Nat.leb (length s) (pos c)) (mlc_flush last)
                   (fun r c => andthen (mlc_sink last r c) (fun c' => mlc_loop f (next_last c last) r c'))).
    - apply good_flush.
    - apply (good_dep (fun c0 r c => andthen (mlc_sink last r c) (fun c' => mlc_loop f (next_last c0 last) r c'))).
      intro c0.
      apply (good_andthen (mlc_sink last) (mlc_loop f (next_last c0 last))).
      + apply good_mlc_sink.
      + apply IH.
  Qed.

  Definition ml_body : action := fun r c =>
    andthen (emit r c EBegin)
      (fun c => binary_guard cfg r true c s 0 (Nat.min (length s) default_buffer_capacity)
                  (fun c => mlc_loop (S (S (length s))) None r c)).

  Lemma good_ml_body : Good ml_body.
  Proof.
    unfold ml_body.
    apply (good_andthen (fun r c => emit r c EBegin)); [apply good_emit|].
    apply (good_guard cfg true s 0 (Nat.min (length s) default_buffer_capacity)
             (fun r c => mlc_loop (S (S (length s))) None r c)).
    apply good_mlc_loop.
  Qed.

  Lemma ml_run_eq_body r :
    multi_line_run cfg M r s =
    match ml_body r (core_new cfg) with
    | ERR c => RunErr (rev (log c))
    | FUEL => RunFuel
    | OK _ c => finish r c (byte_count c)
    end.
  Proof.
    unfold multi_line_run, ml_body.
    destruct (emit r (core_new cfg) EBegin) as [[|] c| |]; cbn [andthen]; try reflexivity.
    unfold binary_guard.
    destruct (detect_binary cfg r c s 0 (Nat.min (length s) default_buffer_capacity)) as [[|] c'| |]; try reflexivity.
    change (mlc_loop (S (S (length s))) None r c')
      with (mlc_loop (S (S (length s))) (ml_last {| ml_core := c'; ml_last := None |}) r (ml_core {| ml_core := c'; ml_last := None |})).
    rewrite <- ml_loop_eq.
    destruct (ml_loop cfg M r (S (S (length s))) {| ml_core := c'; ml_last := None |} s) as [[|] m| |];
      cbn [after_ml_loop]; try reflexivity.
    unfold mlc_flush.
    destruct (match ml_last m with
              | Some (pls, ple) => andthen (ml_sink_context cfg r (ml_core m) s pls) (fun c0 => ml_sink_matched cfg r c0 s pls ple)
              | None => OK true (ml_core m)
              end) as [[|] c''| |]; cbn [andthen]; try reflexivity.
  Qed.

  Theorem stop_is_prefix_multi_line_proof : forall (r : nat -> reply) (evs : list event),
    multi_line_run cfg M K s = RunOk evs ->
    (quiet r 0 (length evs) -> multi_line_run cfg M r s = RunOk evs) /\
    (forall k, S k < length evs -> quiet r 0 k -> r k <> Continue ->
       match r k with
       | Stop => exists n b, multi_line_run cfg M r s =
                   (match r (S k) with Fail => RunErr | _ => RunOk end) (firstn (S k) evs ++ [EFinish n b])
       | _ => multi_line_run cfg M r s = RunErr (firstn (S k) evs)
       end).
  Proof.
    apply (run_prefix_law ml_body (core_new cfg) (fun r => multi_line_run cfg M r s)).
    - reflexivity.
    - apply good_ml_body.
    - apply ml_run_eq_body.
  Qed.
End ML.
