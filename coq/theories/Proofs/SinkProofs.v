(* Proofs/SinkProofs.v — find_iter_at_in_context and record_matches compute the submatches of the
   reported range; the clean-up branches after them are dead; generic facts about feeding a sink. *)
From RG Require Import Base.Bytes Base.BytesFacts Model.MatchIter Model.Replace Model.Sink Model.Summary
  Model.Standard Model.Json Spec.ReplaceSpec Spec.ModesSpec Proofs.ReplaceProofs.

Section Cut.
  Context {St : Type}.
  Variable g : nat * nat -> St -> St.
  Variable re : nat.

  Lemma fold_until_cut : forall (l : list (nat * nat)) st,
    fold_until (fun m st => if Nat.leb re (fst m) then (st, false) else (g m st, true)) l st
    = fold_left (fun st m => g m st) (take_while (starts_before re) l) st.
  Proof.
    induction l as [|m l IH]; intro st; cbn [fold_until take_while]; [reflexivity|].
    unfold starts_before at 1. destruct (Nat.leb_spec re (fst m)) as [H|H].
    - replace (Nat.ltb (fst m) re) with false by (symmetry; apply Nat.ltb_ge; lia). reflexivity.
    - replace (Nat.ltb (fst m) re) with true by (symmetry; apply Nat.ltb_lt; lia).
      cbn [fold_left]. apply IH.
  Qed.
End Cut.

Section Find.
  Variable find_at : bytes -> nat -> option (nat * nat).
  Variable env : senv.

  Lemma successive_total buf rs re :
    range_ok find_at env buf re -> exists l, successive find_at env buf rs re = Some l.
  Proof.
    intro Hok. unfold successive, all_matches.
    apply (matches_from_total _ _ _ Hok). lia.
  Qed.

  Lemma fold_push rs : forall (l : list (nat * nat)) acc,
    fold_left (fun acc m => fst (push_rel rs m acc)) l acc = acc ++ map (rel rs) l.
  Proof.
    induction l as [|m l IH]; intro acc; cbn [fold_left map]; [now rewrite app_nil_r|].
    rewrite IH. unfold push_rel, rel. cbn [fst]. now rewrite <- app_assoc.
  Qed.

  Lemma fold_count : forall (l : list (nat * nat)) n,
    fold_left (fun n m => fst (count_cb m n)) l n = n + length l.
  Proof.
    induction l as [|m l IH]; intro n; cbn [fold_left length]; [lia|].
    rewrite IH. unfold count_cb. cbn [fst]. lia.
  Qed.

  (* find_iter_at_in_context with the closure of record_matches yields the submatches *)
  Lemma find_iter_push buf rs re l :
    successive find_at env buf rs re = Some l ->
    find_iter_at_in_context find_at env buf rs re (push_rel rs) [] = Some (submatches_of buf rs re l).
  Proof.
    intro Hl. unfold find_iter_at_in_context, iter_at. unfold successive, all_matches in Hl.
    rewrite (iter_loop_fold _ _ _ _ _ _ _ _ l Hl).
    unfold push_rel at 1.
    rewrite (fold_until_cut (fun m acc => acc ++ [(fst m - rs, snd m - rs)]) re l []).
    f_equal. unfold submatches_of.
    pose proof (fold_push rs (take_while (starts_before re) l) []) as H. cbn [app] in H.
    rewrite <- H. reflexivity.
  Qed.

  (* ... and with the closure of SummarySink::matched their number *)
  Lemma find_iter_count buf rs re l :
    successive find_at env buf rs re = Some l ->
    find_iter_at_in_context find_at env buf rs re count_cb 0 = Some (length (submatches_of buf rs re l)).
  Proof.
    intro Hl. unfold find_iter_at_in_context, iter_at. unfold successive, all_matches in Hl.
    rewrite (iter_loop_fold _ _ _ _ _ _ _ _ l Hl).
    unfold count_cb at 1.
    rewrite (fold_until_cut (fun _ n => n + 1) re l 0).
    f_equal. unfold submatches_of. rewrite map_length.
    pose proof (fold_count (take_while (starts_before re) l) 0) as H. cbn [Nat.add] in H.
    rewrite <- H. reflexivity.
  Qed.

  (* every submatch starts inside the range: relative start < re - rs *)
  Lemma submatches_start_lt buf rs re l m :
    In m (submatches_of buf rs re l) -> fst m < re.
  Proof.
    unfold submatches_of. intros Hin. apply in_map_iff in Hin as (a & <- & Ha).
    assert (starts_before re a = true) as Hs.
    { pose proof (take_while_all (starts_before re) l) as Hall.
      rewrite forallb_forall in Hall. now apply Hall. }
    unfold starts_before in Hs. apply Nat.ltb_lt in Hs. unfold rel. cbn [fst]. lia.
  Qed.

  Lemma last_of_rev {A} (l : list A) x rest : rev l = x :: rest -> In x l.
  Proof. intro H. apply in_rev. rewrite H. now left. Qed.
End Find.

Section Dead.
  Variable find_at : bytes -> nat -> option (nat * nat).
  Variable env : senv.

  (* StandardSink::record_matches: the "don't report empty matches appearing at the end" branch
     never fires (it compares a range-relative start with the absolute range end) *)
  Lemma record_matches_eq cfg buf rs re l :
    needs_match_granularity cfg = true ->
    successive find_at env buf rs re = Some l ->
    record_matches find_at cfg env buf rs re = Some (submatches_of buf rs re l).
  Proof.
    intros Hg Hl. unfold record_matches. rewrite Hg. cbn [negb].
    rewrite (find_iter_push find_at env buf rs re l Hl).
    destruct (rev (submatches_of buf rs re l)) as [|[s e] rest] eqn:Er; [reflexivity|].
    destruct (Nat.eqb s e && Nat.leb re s) eqn:Ec; [|reflexivity].
    exfalso. apply andb_true_iff in Ec as [_ Hle]. apply Nat.leb_le in Hle.
    pose proof (last_of_rev _ _ _ Er) as Hin.
    pose proof (submatches_start_lt buf rs re l _ Hin) as Hlt. cbn [fst] in Hlt. lia.
  Qed.

  Lemma record_matches_off cfg buf rs re :
    needs_match_granularity cfg = false -> record_matches find_at cfg env buf rs re = Some [].
  Proof. intro Hg. unfold record_matches. now rewrite Hg. Qed.

  (* JSONSink::record_matches: same branch, comparing with the buffer length: dead as well *)
  Lemma json_record_matches_eq buf rs re l :
    re <= length buf ->
    successive find_at env buf rs re = Some l ->
    json_record_matches find_at env buf rs re = Some (submatches_of buf rs re l).
  Proof.
    intros Hb Hl. unfold json_record_matches.
    rewrite (find_iter_push find_at env buf rs re l Hl).
    destruct (rev (submatches_of buf rs re l)) as [|[s e] rest] eqn:Er; [reflexivity|].
    destruct (Nat.eqb s e && Nat.leb (length buf) s) eqn:Ec; [|reflexivity].
    exfalso. apply andb_true_iff in Ec as [_ Hle]. apply Nat.leb_le in Hle.
    pose proof (last_of_rev _ _ _ Er) as Hin.
    pose proof (submatches_start_lt buf rs re l _ Hin) as Hlt. cbn [fst] in Hlt. lia.
  Qed.
End Dead.

(* ---- feeding a sink whose steps all answer Go ---- *)
Section FeedAll.
  Context {T : Type}.
  Variable step : sevent -> T -> option (T * reply).
  Variable Inv : T -> Prop.
  Variable OK : sevent -> Prop.
  Variable next : sevent -> T -> T.
  Hypothesis Hstep : forall e s, Inv s -> OK e -> step e s = Some (next e s, Go) /\ Inv (next e s).

  Lemma feed_all : forall evs k s, Forall OK evs -> Inv s ->
    feed step evs k s = Some (fold_left (fun s e => next e s) evs s, Go, k + length evs) /\
    Inv (fold_left (fun s e => next e s) evs s).
  Proof.
    induction evs as [|e evs IH]; intros k s Hok Hinv; cbn [feed fold_left length].
    - rewrite Nat.add_0_r. auto.
    - inversion Hok as [|? ? He Hrest]; subst.
      destruct (Hstep e s Hinv He) as [-> Hinv'].
      destruct (IH (S k) (next e s) Hrest Hinv') as [-> Hi]. split; [|exact Hi].
      do 2 f_equal. lia.
  Qed.
End FeedAll.

(* ---- feeding a sink that counts Matched events against a limit ---- *)
Section FeedLimit.
  Context {T : Type}.
  Variable step : sevent -> T -> option (T * reply).
  Variable mc : T -> nat.
  Variable limit : option nat.
  Variable Inv : T -> Prop.
  Variable OK : sevent -> Prop.

  Definition reached (n : nat) : bool :=
    match limit with None => false | Some L => Nat.leb L n end.

  Hypothesis Hm : forall m s, Inv s -> OK (SMatched m) -> reached (mc s) = false ->
    exists s', step (SMatched m) s = Some (s', reply_of (negb (reached (mc s + 1)))) /\
               mc s' = mc s + 1 /\ Inv s'.
  Hypothesis Ho : forall e s, is_matched e = false -> Inv s -> OK e -> reached (mc s) = false ->
    exists s', step e s = Some (s', Go) /\ mc s' = mc s /\ Inv s'.

  Lemma feed_limit : forall evs k s, Forall OK evs -> Inv s -> reached (mc s) = false ->
    exists s' rp k', feed step evs k s = Some (s', rp, k') /\ rp <> Fail /\ Inv s' /\
      mc s' = match limit with
              | None => mc s + count_matched evs
              | Some L => Nat.min L (mc s + count_matched evs)
              end.
  Proof.
    induction evs as [|e evs IH]; intros k s Hok Hinv Hr; cbn [feed].
    - exists s, Go, k. repeat split; [discriminate|exact Hinv|].
      unfold count_matched. cbn. unfold reached in Hr. destruct limit as [L|]; [|lia].
      apply Nat.leb_gt in Hr. lia.
    - inversion Hok as [|? ? He Hrest]; subst.
      destruct e as [m|c| |off].
      + destruct (Hm m s Hinv He Hr) as (s' & -> & Hmc & Hinv').
        destruct (reached (mc s + 1)) eqn:Er'; cbn [negb reply_of].
        * exists s', Halt, k. repeat split; [discriminate|exact Hinv'|].
          unfold reached in Hr, Er'. destruct limit as [L|]; [|discriminate].
          apply Nat.leb_gt in Hr. apply Nat.leb_le in Er'. unfold count_matched. cbn [filter is_matched length]. lia.
        * destruct (IH (S k) s' Hrest Hinv') as (s2 & rp & k2 & -> & Hrp & Hinv2 & Hmc2); [now rewrite Hmc|].
          exists s2, rp, k2. repeat split; [exact Hrp|exact Hinv2|]. rewrite Hmc2, Hmc.
          unfold count_matched. cbn [filter is_matched length]. destruct limit; lia.
      + destruct (Ho (SContext c) s eq_refl Hinv He Hr) as (s' & -> & Hmc & Hinv').
        destruct (IH (S k) s' Hrest Hinv') as (s2 & rp & k2 & -> & Hrp & Hinv2 & Hmc2); [now rewrite Hmc|].
        exists s2, rp, k2. repeat split; [exact Hrp|exact Hinv2|]. now rewrite Hmc2, Hmc.
      + destruct (Ho SBreak s eq_refl Hinv He Hr) as (s' & -> & Hmc & Hinv').
        destruct (IH (S k) s' Hrest Hinv') as (s2 & rp & k2 & -> & Hrp & Hinv2 & Hmc2); [now rewrite Hmc|].
        exists s2, rp, k2. repeat split; [exact Hrp|exact Hinv2|]. now rewrite Hmc2, Hmc.
      + destruct (Ho (SBinary off) s eq_refl Hinv He Hr) as (s' & -> & Hmc & Hinv').
        destruct (IH (S k) s' Hrest Hinv') as (s2 & rp & k2 & -> & Hrp & Hinv2 & Hmc2); [now rewrite Hmc|].
        exists s2, rp, k2. repeat split; [exact Hrp|exact Hinv2|]. now rewrite Hmc2, Hmc.
  Qed.
End FeedLimit.

(* quantities that grow by a per-event weight along a stream every step of which answers Go *)
Section FeedSum.
  Context {T : Type}.
  Variable Inv : T -> Prop.
  Variable OK : sevent -> Prop.
  Variable next : sevent -> T -> T.
  Variable q : T -> nat.
  Variable wt : sevent -> nat.
  Hypothesis Hinv : forall e s, Inv s -> OK e -> Inv (next e s).
  Hypothesis Hq : forall e s, Inv s -> OK e -> q (next e s) = q s + wt e.

  Lemma fold_sum : forall evs s, Forall OK evs -> Inv s ->
    q (fold_left (fun s e => next e s) evs s) = q s + list_sum (map wt evs).
  Proof.
    induction evs as [|e evs IH]; intros s Hok Hi; cbn [fold_left map]; [cbn; lia|].
    change (list_sum (wt e :: map wt evs)) with (wt e + list_sum (map wt evs)).
    inversion Hok as [|? ? He Hrest]; subst.
    rewrite IH; [|exact Hrest|apply Hinv; assumption]. rewrite Hq by assumption. lia.
  Qed.
End FeedSum.

(* ---- a quantity that grows by a per-event weight, along a sink that counts Matched events against
   a limit: at the end it has grown by the weights of the consumed prefix ---- *)
Section FeedLimitSum.
  Context {T : Type}.
  Variable step : sevent -> T -> option (T * reply).
  Variable mc : T -> nat.
  Variable limit : option nat.
  Variable Inv : T -> Prop.
  Variable OK : sevent -> Prop.
  Variable q : T -> nat.
  Variable wt : sevent -> nat.

  Hypothesis Hm : forall m s, Inv s -> OK (SMatched m) -> limit_reached limit (mc s) = false ->
    exists s', step (SMatched m) s = Some (s', reply_of (negb (limit_reached limit (mc s + 1)))) /\
               mc s' = mc s + 1 /\ Inv s' /\ q s' = q s + wt (SMatched m).
  Hypothesis Ho : forall e s, is_matched e = false -> Inv s -> OK e -> limit_reached limit (mc s) = false ->
    exists s', step e s = Some (s', Go) /\ mc s' = mc s /\ Inv s' /\ q s' = q s + wt e.

  Lemma feed_limit_sum : forall evs k s, Forall OK evs -> Inv s -> limit_reached limit (mc s) = false ->
    exists s' rp k', feed step evs k s = Some (s', rp, k') /\ rp <> Fail /\ Inv s' /\
      q s' = q s + list_sum (map wt (consumed_from limit (mc s) evs)).
  Proof.
    induction evs as [|e evs IH]; intros k s Hok Hinv Hr; cbn [feed consumed_from].
    - exists s, Go, k. repeat split; [discriminate|exact Hinv|cbn; lia].
    - inversion Hok as [|? ? He Hrest]; subst.
      destruct e as [m|c| |off]; cbn [is_matched].
      + destruct (Hm m s Hinv He Hr) as (s' & -> & Hmc & Hinv' & Hq).
        destruct (limit_reached limit (mc s + 1)) eqn:Er'; cbn [negb reply_of].
        * exists s', Halt, k. repeat split; [discriminate|exact Hinv'|]. rewrite Hq. cbn. lia.
        * destruct (IH (S k) s' Hrest Hinv') as (s2 & rp & k2 & -> & Hrp & Hinv2 & Hq2); [now rewrite Hmc|].
          exists s2, rp, k2. repeat split; [exact Hrp|exact Hinv2|]. rewrite Hq2, Hq, Hmc.
          change (list_sum (map wt (SMatched m :: ?l))) with (wt (SMatched m) + list_sum (map wt l)). cbn [map list_sum]. 
          change (list_sum (wt (SMatched m) :: ?l)) with (wt (SMatched m) + list_sum l). lia.
      + destruct (Ho (SContext c) s eq_refl Hinv He Hr) as (s' & -> & Hmc & Hinv' & Hq).
        destruct (IH (S k) s' Hrest Hinv') as (s2 & rp & k2 & -> & Hrp & Hinv2 & Hq2); [now rewrite Hmc|].
        exists s2, rp, k2. repeat split; [exact Hrp|exact Hinv2|]. rewrite Hq2, Hq, Hmc. cbn [map].
        change (list_sum (wt (SContext c) :: ?l)) with (wt (SContext c) + list_sum l). lia.
      + destruct (Ho SBreak s eq_refl Hinv He Hr) as (s' & -> & Hmc & Hinv' & Hq).
        destruct (IH (S k) s' Hrest Hinv') as (s2 & rp & k2 & -> & Hrp & Hinv2 & Hq2); [now rewrite Hmc|].
        exists s2, rp, k2. repeat split; [exact Hrp|exact Hinv2|]. rewrite Hq2, Hq, Hmc. cbn [map].
        change (list_sum (wt SBreak :: ?l)) with (wt SBreak + list_sum l). lia.
      + destruct (Ho (SBinary off) s eq_refl Hinv He Hr) as (s' & -> & Hmc & Hinv' & Hq).
        destruct (IH (S k) s' Hrest Hinv') as (s2 & rp & k2 & -> & Hrp & Hinv2 & Hq2); [now rewrite Hmc|].
        exists s2, rp, k2. repeat split; [exact Hrp|exact Hinv2|]. rewrite Hq2, Hq, Hmc. cbn [map].
        change (list_sum (wt (SBinary off) :: ?l)) with (wt (SBinary off) + list_sum l). lia.
  Qed.
End FeedLimitSum.
