(* Proofs/GitignoreProofs.v — file level: the last matching line of an ignore file decides *)
From RG Require Import Base.Bytes Base.BytesFacts Model.Glob Model.GlobSet Spec.GlobSem Spec.GlobSetSem
  Model.Gitignore Proofs.GlobSetProofs.

Definition dflt_iglob : iglob := mk_iglob false false [] dflt_glob.

Definition dir_ok (g : iglob) (is_dir : bool) : bool := negb (ig_only_dir g) || is_dir.

Definition verdict_of (o : option iglob) : verdict :=
  match o with
  | Some g => if ig_whitelist g then VWhitelist else VIgnore
  | None => VNone
  end.

Definition pick (globs : list iglob) (is_dir : bool) (ms : list nat) : verdict :=
  match find (fun i => match nth_error globs i with
                       | Some g => dir_ok g is_dir
                       | None => false end) (rev ms) with
  | Some i => verdict_of (nth_error globs i)
  | None => VNone
  end.

Lemma matched_stripped_pick re globs path is_dir :
  matched_stripped re globs path is_dir =
  match globs with [] => VNone | _ => pick globs is_dir (set_matches re (map ig_glob globs) path) end.
Proof.
  unfold matched_stripped, pick, verdict_of, dir_ok. destruct globs; [reflexivity|].
  destruct (find _ _); [|reflexivity]. destruct (nth_error _ _); reflexivity.
Qed.

Lemma find_ext_in {A} (f g : A -> bool) l : (forall x, In x l -> f x = g x) -> find f l = find g l.
Proof.
  induction l as [|a l IH]; intro H; [reflexivity|]. cbn. rewrite (H a (or_introl eq_refl)).
  destruct (g a); [reflexivity|]. apply IH. intros x Hx. apply H. now right.
Qed.

Lemma pick_filter (Q : iglob -> bool) is_dir : forall globs,
  pick globs is_dir (filter (fun i => Q (nth i globs dflt_iglob)) (seq 0 (length globs))) =
  verdict_of (find (fun g => Q g && dir_ok g is_dir) (rev globs)).
Proof.
  induction globs as [|g globs IH] using rev_ind; [reflexivity|].
  rewrite rev_app_distr. cbn [rev app find]. rewrite app_length. cbn [length].
  rewrite Nat.add_comm. cbn [Nat.add]. rewrite seq_S, filter_app. cbn [Nat.add filter].
  assert (Hn : nth (length globs) (globs ++ [g]) dflt_iglob = g) by (rewrite app_nth2, Nat.sub_diag; [reflexivity|lia]).
  rewrite Hn.
  assert (Hf : filter (fun i => Q (nth i (globs ++ [g]) dflt_iglob)) (seq 0 (length globs)) =
               filter (fun i => Q (nth i globs dflt_iglob)) (seq 0 (length globs))).
  { apply filter_ext_in. intros i Hi. apply in_seq in Hi. rewrite app_nth1 by lia. reflexivity. }
  rewrite Hf. set (A := filter (fun i => Q (nth i globs dflt_iglob)) (seq 0 (length globs))) in *.
  assert (HA : forall i, In i (rev A) -> i < length globs).
  { intros i Hi. apply in_rev in Hi. apply filter_In in Hi as [Hi _]. apply in_seq in Hi. lia. }
  assert (Hrest : pick (globs ++ [g]) is_dir A = pick globs is_dir A).
  { unfold pick.
    rewrite (find_ext_in _ (fun i => match nth_error globs i with Some g0 => dir_ok g0 is_dir | None => false end)).
    - destruct (find _ (rev A)) eqn:E; [|reflexivity]. apply find_some in E as [E _]. apply HA in E.
      now rewrite nth_error_app1.
    - intros i Hi. apply HA in Hi. now rewrite nth_error_app1. }
  destruct (Q g) eqn:Eq; cbn [andb].
  - unfold pick at 1. rewrite rev_app_distr. cbn [rev app find].
    assert (Hne : nth_error (globs ++ [g]) (length globs) = Some g)
      by (rewrite nth_error_app2, Nat.sub_diag; [reflexivity|lia]).
    rewrite Hne. destruct (dir_ok g is_dir) eqn:Ed.
    + rewrite Hne. reflexivity.
    + fold (pick (globs ++ [g]) is_dir A). rewrite Hrest. apply IH.
  - rewrite app_nil_r, Hrest. apply IH.
Qed.

(* the line of an ignore file that decides an entry: its glob matches and its directory-only flag admits it *)
Definition line_hit (g : iglob) (path : bytes) (is_dir : bool) : bool :=
  re_spec (ig_glob g) path && dir_ok g is_dir.

Theorem matched_stripped_last_match_proof globs path is_dir :
  matched_stripped re_spec globs path is_dir =
  verdict_of (find (fun g => line_hit g path is_dir) (rev globs)).
Proof.
  rewrite matched_stripped_pick. destruct globs as [|g0 gs]; [reflexivity|]. set (globs := g0 :: gs).
  rewrite set_eq_members_proof, map_length.
  rewrite (filter_ext _ (fun i => re_spec (ig_glob (nth i globs dflt_iglob)) path)).
  - apply (pick_filter (fun g => re_spec (ig_glob g) path)).
  - intro i. unfold re_spec. change dflt_glob with (ig_glob dflt_iglob). now rewrite map_nth.
Qed.

(* matched_path_or_any_parents: the first verdict on the way up decides *)
Lemma parents_up_spec re globs ps :
  parents_up re globs ps =
  match find (fun p => match matched_stripped re globs (join p) true with VNone => false | _ => true end) ps with
  | Some p => matched_stripped re globs (join p) true
  | None => VNone
  end.
Proof.
  induction ps as [|p ps IH]; [reflexivity|]. cbn [parents_up find].
  destruct (matched_stripped re globs (join p) true) eqn:E; [exact IH|cbn; now rewrite E|cbn; now rewrite E].
Qed.

(* chain of ignore files: the nearest file with a verdict decides; files that are not ancestors are skipped *)
Lemma chain_verdict_skip re d globs igs path is_dir :
  comps_prefix d path = None ->
  chain_verdict re ((d, globs) :: igs) path is_dir = chain_verdict re igs path is_dir.
Proof. intro H. cbn [chain_verdict]. now rewrite H. Qed.

Lemma chain_verdict_nearest re d globs igs path rel is_dir :
  comps_prefix d path = Some rel -> rel <> [] ->
  chain_verdict re ((d, globs) :: igs) path is_dir =
  match matched_stripped re globs (join rel) is_dir with
  | VNone => chain_verdict re igs path is_dir
  | v => v
  end.
Proof. intros H Hr. cbn [chain_verdict]. rewrite H. destruct rel; [congruence|reflexivity]. Qed.

(* pruning: an entry below a skipped directory is never visited, whatever the ignore files say about it *)
Lemma ancestors_ok_prefix re igs : forall rest pre c,
  rest <> [] -> skipped re igs (pre ++ [c]) true = true -> ancestors_ok re igs pre (c :: rest) = false.
Proof.
  intros rest pre c Hr Hs. destruct rest as [|r0 rest]; [congruence|]. cbn [ancestors_ok]. now rewrite Hs.
Qed.

Theorem pruned_below_ignored_dir_proof re igs c rest is_dir :
  rest <> [] -> skipped re igs [c] true = true -> visited re igs (c :: rest) is_dir = false.
Proof.
  intros Hr Hs. unfold visited. rewrite (ancestors_ok_prefix re igs rest [] c Hr Hs). reflexivity.
Qed.
