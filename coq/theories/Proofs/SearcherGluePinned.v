(* Proofs/SearcherGluePinned.v — the behaviour of Searcher::search_file_maybe_path BEFORE the repair
   of finding D22 (e67305d), pinned as a definition so that the finding stays documented by a
   theorem (Props/C02.v config_check_skipped_by_multi_line_file_pinned_refuted).
   Pre-repair, the branch of search_file_maybe_path that reads the whole file on to the heap for a
   multi-line search (no memory map) did not call check_config: with a matcher whose
   line_terminator() differs from the Searcher's, search_slice, search_reader and the memory-mapped
   file returned the configuration error while the heap-read file was searched. *)
From RG Require Import Base.Bytes Model.Lines Model.SearcherCore Model.Glue Model.ReadByLine Model.SearcherGlue.

Section Pinned.
  Variable cfg : config.
  Variable M : matcher.
  Variable enc_set bom_sniffing : bool.
  Variable decode : bytes -> bytes.

  (* search_file_maybe_path as it was: no check_config in the multi-line branch; the rest is
     Model/SearcherGlue.v search_file_m verbatim *)
  Definition search_file_m_pinned (reply_of : nat -> reply) (st : searcher_state) (mmap_ok : bool) (s : bytes)
                                  (hist : list read_step) : run_result * searcher_state :=
    if mmap_ok then search_slice_m cfg M enc_set bom_sniffing decode reply_of st s else
    if multi_line_with_matcher cfg M then
      let st := fill_multi_line st (decode s) in
      (multi_line_run cfg M reply_of (ss_ml st), st)
    else search_reader_m cfg M decode reply_of st s hist.

  Definition search_pinned (reply_of : nat -> reply) (st : searcher_state) (src : source) : run_result * searcher_state :=
    match src with
    | SrcSlice s => search_slice_m cfg M enc_set bom_sniffing decode reply_of st s
    | SrcReader s hist => search_reader_m cfg M decode reply_of st s hist
    | SrcFile mmap_ok s hist => search_file_m_pinned reply_of st mmap_ok s hist
    end.

  (* when the configuration check passes nothing changed *)
  Lemma search_pinned_same reply_of st src : check_config cfg M = true ->
    search_pinned reply_of st src = search cfg M enc_set bom_sniffing decode reply_of st src.
  Proof.
    intro H. destruct src as [s|s h|m s h]; [reflexivity|reflexivity|].
    cbn [search_pinned search]. unfold search_file_m_pinned, search_file_m. rewrite H. reflexivity.
  Qed.
End Pinned.
