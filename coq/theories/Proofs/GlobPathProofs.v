(* Proofs/GlobPathProofs.v — pathutil::{file_name, file_name_ext} and Candidate::new:
   the basename is what follows the last '/', the extension what starts at the last '.' of it *)
From RG Require Import Base.Bytes Base.BytesFacts Model.Glob Spec.GlobSem Proofs.GlobSemProofs.

Definition has (b : N) (s : bytes) : bool := existsb (N.eqb b) s.

Lemma has_app b x y : has b (x ++ y) = has b x || has b y.
Proof. apply existsb_app. Qed.

Lemma has_cons b c y : has b (c :: y) = (b =? c)%N || has b y.
Proof. reflexivity. Qed.

Lemma has_split b s : has b s = true -> exists x y, s = x ++ b :: y /\ has b y = false.
Proof.
  induction s as [|c s IH]; [discriminate|]. rewrite has_cons. intro H.
  destruct (has b s) eqn:E.
  - destruct (IH eq_refl) as (x & y & -> & Hy). exists (c :: x), y. auto.
  - rewrite orb_false_r in H. apply N.eqb_eq in H. subst c. exists [], s. auto.
Qed.

Lemma last_occ_unique b : forall x1 y1 x2 y2 : bytes,
  x1 ++ b :: y1 = x2 ++ b :: y2 -> has b y1 = false -> has b y2 = false -> x1 = x2 /\ y1 = y2.
Proof.
  induction x1 as [|c x1 IH]; intros y1 x2 y2 H H1 H2; destruct x2 as [|d x2]; cbn in H.
  - injection H as ->. auto.
  - injection H as <- ->. rewrite has_app, has_cons, N.eqb_refl, orb_true_r in H1. discriminate.
  - injection H as -> <-. rewrite has_app, has_cons, N.eqb_refl, orb_true_r in H2. discriminate.
  - injection H as -> H. destruct (IH _ _ _ H H1 H2) as [-> ->]. auto.
Qed.

Lemma rfind_none b s : rfind_byte b s = None <-> has b s = false.
Proof.
  induction s as [|c s IH]; cbn [rfind_byte]; [tauto|]. rewrite has_cons.
  destruct (rfind_byte b s) eqn:E.
  - split; [discriminate|]. intro H. apply orb_false_iff in H as [_ H]. apply IH in H. discriminate.
  - assert (Hs : has b s = false) by now apply IH. rewrite Hs, orb_false_r, (N.eqb_sym b c).
    destruct (c =? b)%N; split; auto; discriminate.
Qed.

Lemma rfind_some b s i :
  rfind_byte b s = Some i -> exists x y, s = x ++ b :: y /\ length x = i /\ has b y = false.
Proof.
  revert i; induction s as [|c s IH]; intros i; cbn [rfind_byte]; [discriminate|].
  destruct (rfind_byte b s) eqn:E.
  - intro H; injection H as <-. destruct (IH _ eq_refl) as (x & y & -> & <- & Hy).
    exists (c :: x), y. auto.
  - apply rfind_none in E. destruct (c =? b)%N eqn:Ec; [|discriminate].
    intro H; injection H as <-. apply N.eqb_eq in Ec. subst c. exists [], s. auto.
Qed.

(* ---- is_suffix_of ---- *)
Lemma is_suffix_of_iff suf s : is_suffix_of suf s = true <-> exists z, s = z ++ suf.
Proof.
  unfold is_suffix_of. rewrite andb_true_iff, bytes_eqb_eq, Nat.leb_le. split.
  - intros [Hl H]. exists (firstn (length s - length suf) s). rewrite <- H at 2.
    now rewrite firstn_skipn.
  - intros (z & ->). rewrite app_length. split; [lia|].
    replace (length z + length suf - length suf) with (length z) by lia.
    apply skipn_app_len.
Qed.

(* ---- basename ---- *)
Lemma after_last_slash_cons b r :
  after_last_slash (b :: r) =
  if has 47 r then after_last_slash r else if (b =? 47)%N then r else b :: r.
Proof.
  unfold after_last_slash. cbn [rfind_byte]. destruct (rfind_byte 47 r) eqn:E.
  - assert (has 47 r = true) as ->.
    { destruct (has 47 r) eqn:F; [reflexivity|]. apply rfind_none in F. congruence. }
    reflexivity.
  - apply rfind_none in E. rewrite E. destruct (b =? 47)%N; reflexivity.
Qed.

Lemma after_last_slash_decomp p :
  exists pre, p = pre ++ after_last_slash p /\ has 47 (after_last_slash p) = false /\
              (pre = [] \/ exists q, pre = q ++ [47%N]).
Proof.
  unfold after_last_slash. destruct (rfind_byte 47 p) eqn:E.
  - apply rfind_some in E as (x & y & -> & <- & Hy). exists (x ++ [47%N]).
    replace (x ++ 47%N :: y) with ((x ++ [47%N]) ++ y) by now rewrite <- app_assoc.
    replace (length x + 1) with (length (x ++ [47%N])) by (rewrite app_length; reflexivity).
    rewrite skipn_app_len. eauto.
  - apply rfind_none in E. exists []. cbn. auto.
Qed.

Lemma basename_new p : c_basename (candidate_new p) = after_last_slash p.
Proof. destruct p; reflexivity. Qed.

Lemma bytes_eqb_has b l q : bytes_eqb l q = true -> has b q = has b l.
Proof. intro H. apply bytes_eqb_eq in H. now subst. Qed.

Lemma after_some_slash_noslash k r : has 47 r = false -> after_some_slash k r = false.
Proof.
  induction r as [|c r IH]; [reflexivity|]. rewrite has_cons. intro H.
  apply orb_false_iff in H as [H1 H2]. cbn [after_some_slash]. rewrite N.eqb_sym, H1, IH by assumption.
  reflexivity.
Qed.

(* the meaning of "(?:/?|.*/)lit$" for a separator-free literal is: the basename is lit *)
Lemma basename_lit_eq lit p :
  has 47 lit = false ->
  bytes_eqb lit p || after_some_slash (bytes_eqb lit) p = bytes_eqb lit (after_last_slash p).
Proof.
  intro Hl. induction p as [|b r IH]; [cbn; now rewrite orb_false_r|].
  rewrite after_last_slash_cons. cbn [after_some_slash].
  assert (Hk : forall q, has 47 q = true -> bytes_eqb lit q = false).
  { intros q Hq. destruct (bytes_eqb lit q) eqn:E; [|reflexivity].
    apply (bytes_eqb_has 47) in E. congruence. }
  destruct (has 47 r) eqn:Hr.
  - rewrite (Hk (b :: r)) by (rewrite has_cons, Hr; apply orb_true_r).
    rewrite (Hk r Hr), andb_false_r. cbn [orb]. rewrite <- IH, (Hk r Hr). reflexivity.
  - rewrite after_some_slash_noslash, orb_false_r by assumption.
    destruct (b =? 47)%N eqn:Eb.
    + rewrite (Hk (b :: r)) by (rewrite has_cons, N.eqb_sym, Eb; reflexivity). reflexivity.
    + now rewrite orb_false_r.
Qed.

(* ---- extension ---- *)
Lemma suffix_within (z s pre bn : bytes) :
  z ++ s = pre ++ bn -> has 47 s = false -> has 47 bn = false ->
  (pre = [] \/ exists q, pre = q ++ [47%N]) -> exists z', bn = z' ++ s.
Proof.
  intros H Hs Hbn [->|(q & ->)].
  - exists z. now cbn in H.
  - rewrite <- app_assoc in H. cbn in H.
    destruct (has 47 z) eqn:Hz.
    + apply has_split in Hz as (z1 & z2 & -> & Hz2). rewrite <- app_assoc in H. cbn in H.
      apply last_occ_unique in H as [_ H]; [| now rewrite has_app, Hz2, Hs | assumption].
      exists z2. now symmetry.
    + assert (F : has 47 (z ++ s) = false) by now rewrite has_app, Hz, Hs.
      rewrite H, has_app, has_cons, N.eqb_refl, orb_true_r in F. discriminate.
Qed.

Lemma ext_new p :
  c_ext (candidate_new p) =
  match file_name_ext (after_last_slash p) with Some e => e | None => [] end.
Proof. destruct p; reflexivity. Qed.

Lemma file_name_ext_spec bn :
  (has 46 bn = false /\ file_name_ext bn = None) \/
  (exists x y, bn = x ++ 46%N :: y /\ has 46 y = false /\ file_name_ext bn = Some (46%N :: y)).
Proof.
  unfold file_name_ext. destruct bn as [|c bn']; [left; auto|]. set (bn := c :: bn').
  destruct (rfind_byte 46 bn) eqn:E.
  - right. apply rfind_some in E as (x & y & Hb & <- & Hy). exists x, y. rewrite Hb.
    now rewrite skipn_app_len.
  - left. apply rfind_none in E. auto.
Qed.

(* a path ends with ".cs" (cs free of '.' and '/') iff its candidate extension is ".cs" *)
Lemma ext_eq_suffix cs p :
  has 46 cs = false -> has 47 cs = false ->
  bytes_eqb (46%N :: cs) (c_ext (candidate_new p)) = is_suffix_of (46%N :: cs) p.
Proof.
  intros Hd Hs. apply bool_eq_iff. rewrite bytes_eqb_eq, is_suffix_of_iff, ext_new.
  destruct (after_last_slash_decomp p) as (pre & Hp & Hbn & Hpre).
  set (bn := after_last_slash p) in *.
  destruct (file_name_ext_spec bn) as [[Hnd ->]|(x & y & Hb & Hy & ->)]; split.
  - discriminate.
  - intros (z & Hz). rewrite Hp in Hz. symmetry in Hz.
    apply suffix_within in Hz as (z' & Hz'); auto.
    rewrite Hz', has_app, has_cons, N.eqb_refl, orb_true_r in Hnd. discriminate.
  - intro H. injection H as <-. exists (pre ++ x). rewrite <- app_assoc, <- Hb. exact Hp.
  - intros (z & Hz). rewrite Hp in Hz. symmetry in Hz.
    apply suffix_within in Hz as (z' & Hz'); auto.
    rewrite Hb in Hz'. apply last_occ_unique in Hz' as [_ ->]; auto.
Qed.
