(* Proofs/GlobClassProofs.v — the glob parser (Model/Glob.v parse_class) on the rendering of a documented bracket
   expression (Spec/GlobClassSyntax.v) pushes exactly the documented class token; the documented glob syntax with
   these classes as items parses to the documented tokens; every class token the parser ever produces is
   well-formed (non-empty, ascending ranges), so the regex of a parsed glob is never the one invalid piece of a set. *)
From RG Require Import Base.Bytes Model.Glob Spec.GlobSyntax Spec.GlobClassSyntax Proofs.GlobParseProofs
  Proofs.GlobRenderProofs.

(* ---- the members after the first ---- *)
Lemma class_loop_members ms : forall ranges pv cu tail,
  forallb member_ok ms = true ->
  exists pv' cu', class_loop (flat_map render_member ms ++ tail) pv cu ranges false false
                  = class_loop tail pv' cu' (ranges ++ ms) false false.
Proof.
  induction ms as [|[lo hi] ms IH]; intros ranges pv cu tail Hok.
  - cbn [flat_map app]. rewrite app_nil_r. eauto.
  - cbn [forallb] in Hok. apply andb_true_iff in Hok as [Hm Hok]. unfold member_ok in Hm. cbn [fst snd] in Hm.
    apply andb_true_iff in Hm as [Hm Hle]. apply andb_true_iff in Hm as [Hlo Hhi].
    apply class_char_neq in Hlo as [Hlo1 Hlo2]. apply class_char_neq in Hhi as [Hhi1 Hhi2]. apply N.leb_le in Hle.
    cbn [flat_map]. unfold render_member at 1. cbn [fst snd]. destruct (lo =? hi)%N eqn:E.
    + apply N.eqb_eq in E. subst hi. cbn [app class_loop]. rewrite Hlo1, Hlo2.
      destruct (IH (ranges ++ [(lo, lo)]) cu (Some lo) tail Hok) as (pv' & cu' & ->).
      rewrite <- app_assoc. cbn [app]. eauto.
    + cbn [app class_loop]. rewrite Hlo1, Hlo2. cbn [class_loop]. change ((45 =? 93)%N) with false.
      change ((45 =? 45)%N) with true. cbv iota.
      destruct (ranges ++ [(lo, lo)]) as [|r0 rr] eqn:Er; [destruct ranges; discriminate|]. rewrite <- Er.
      cbn [class_loop]. rewrite Hhi1, Hhi2. unfold add_to_last_range. rewrite rev_app_distr. cbn [rev app].
      assert (Hlt : (hi <? lo)%N = false) by (apply N.ltb_ge; exact Hle). rewrite Hlt. cbn [bind].
      rewrite rev_involutive.
      destruct (IH (ranges ++ [(lo, hi)]) (Some 45%N) (Some hi) tail Hok) as (pv' & cu' & ->).
      rewrite <- app_assoc. cbn [app]. eauto.
Qed.

(* one unfolding of class_loop on a cons, as an equation (keeps cbn from unfolding further) *)
Lemma class_loop_cons c cs pv cu ranges first in_range :
  class_loop (c :: cs) pv cu ranges first in_range =
    if (c =? 93)%N then
      if first then class_loop cs cu (Some c) (ranges ++ [(93, 93)%N]) false in_range
      else Ok (ranges, in_range, cs, cu, Some c)
    else if (c =? 45)%N then
      if first then class_loop cs cu (Some c) (ranges ++ [(45, 45)%N]) false in_range
      else if in_range then
        bind (add_to_last_range ranges 45) (fun r => class_loop cs cu (Some c) r false false)
      else
        match ranges with
        | [] => Err Panic
        | _ => class_loop cs cu (Some c) ranges false true
        end
    else
      if in_range then
        bind (add_to_last_range ranges c) (fun r => class_loop cs cu (Some c) r false false)
      else class_loop cs cu (Some c) (ranges ++ [(c, c)]) false false.
Proof. reflexivity. Qed.

(* ---- the first member: `]` and `-` stand for themselves ---- *)
Lemma class_loop_first m pv cu tail :
  first_member_ok m = true ->
  exists pv' cu', class_loop (render_member m ++ tail) pv cu [] true false
                  = class_loop tail pv' cu' [m] false false.
Proof.
  destruct m as [lo hi]. unfold first_member_ok, render_member. cbn [fst snd]. intro H.
  destruct (lo =? hi)%N eqn:E.
  - apply N.eqb_eq in E. subst hi. cbn [app]. rewrite class_loop_cons.
    destruct (lo =? 93)%N eqn:E93.
    + apply N.eqb_eq in E93. subst lo. cbn [app]. eauto.
    + destruct (lo =? 45)%N eqn:E45.
      * apply N.eqb_eq in E45. subst lo. cbn [app]. eauto.
      * cbn [app]. eauto.
  - apply andb_true_iff in H as [H Hlt]. apply andb_true_iff in H as [H45 Hhi].
    apply negb_true_iff in H45. apply class_char_neq in Hhi as [Hhi1 Hhi2]. apply N.ltb_lt in Hlt.
    assert (Hnlt : (hi <? lo)%N = false) by (apply N.ltb_ge; lia).
    cbn [app]. rewrite class_loop_cons, H45.
    assert (Hrest : forall pv1 cu1, exists pv' cu',
              class_loop (45%N :: hi :: tail) pv1 cu1 [(lo, lo)] false false = class_loop tail pv' cu' [(lo, hi)] false false).
    { intros pv1 cu1. rewrite class_loop_cons. change ((45 =? 93)%N) with false. change ((45 =? 45)%N) with true. cbv iota.
      rewrite class_loop_cons, Hhi1, Hhi2. unfold add_to_last_range. cbn [rev app]. rewrite Hnlt. cbn [bind rev app]. eauto. }
    destruct (lo =? 93)%N eqn:E93.
    + apply N.eqb_eq in E93. subst lo. cbn [app]. apply Hrest.
    + cbn [app]. apply Hrest.
Qed.

(* ---- the end of the class: an optional last `-`, then `]` ---- *)
Lemma class_loop_end (dash : bool) ranges first pv cu rest :
  (first = false <-> ranges <> []) -> (dash = true \/ first = false) ->
  exists pv', class_loop ((if dash then [45%N] else []) ++ 93%N :: rest) pv cu ranges first false
              = Ok (if first then [(45, 45)%N] else ranges, if first then false else dash, rest, pv', Some 93%N).
Proof.
  intros Hfr Hne. destruct dash; cbn [app].
  - rewrite class_loop_cons. change ((45 =? 93)%N) with false. change ((45 =? 45)%N) with true. cbv iota.
    destruct first.
    + assert (ranges = []) as ->.
      { destruct ranges; [reflexivity|]. exfalso. assert (true = false) by (apply Hfr; discriminate). discriminate. }
      cbn [app]. rewrite class_loop_cons. change ((93 =? 93)%N) with true. cbv iota. eauto.
    + destruct ranges as [|r0 rr]; [exfalso; now apply (proj1 Hfr)|].
      rewrite class_loop_cons. change ((93 =? 93)%N) with true. cbv iota. eauto.
  - destruct Hne as [Hd|Hf]; [discriminate|]. subst first.
    rewrite class_loop_cons. change ((93 =? 93)%N) with true. cbv iota. eauto.
Qed.

Lemma render_neg_peek n body :
  exists q, forall stk pv cu,
    (match peek (mk_parser stk (render_neg n ++ body) pv cu) with
     | Some c => if (c =? 33)%N || (c =? 94)%N then (true, bump (mk_parser stk (render_neg n ++ body) pv cu))
                 else (false, mk_parser stk (render_neg n ++ body) pv cu)
     | None => (false, mk_parser stk (render_neg n ++ body) pv cu)
     end) = q stk pv cu.
Proof. eexists. intros. reflexivity. Qed.

Theorem parse_class_documented_proof d top stk rest pv cu :
  dclass_ok d = true ->
  exists pv',
    parse_class (mk_parser (top :: stk) (render_dclass_body d ++ rest) pv cu)
    = Ok (mk_parser ((top ++ [dclass_token d]) :: stk) rest pv' (Some 93%N)).
Proof.
  intro Hok. destruct d as [n ms dash]. unfold dclass_ok in Hok. cbn [dc_neg dc_members dc_dash_last] in Hok.
  apply andb_true_iff in Hok as [Hms Hneg].
  unfold render_dclass_body, dclass_token, dclass_ranges. cbn [dc_neg dc_members dc_dash_last].
  rewrite <- !app_assoc. change ([93%N] ++ rest) with (93%N :: rest).
  (* the loop, from any prev/cur *)
  assert (Hloop : forall pv0 cu0, exists pv',
             class_loop (flat_map render_member ms ++ (if dash then [45%N] else []) ++ 93%N :: rest) pv0 cu0 [] true false
             = Ok (if dash then match ms with [] => [(45, 45)%N] | _ => ms end else ms,
                   if dash then match ms with [] => false | _ => true end else false, rest, pv', Some 93%N)).
  { intros pv0 cu0. destruct ms as [|m ms'].
    - assert (dash = true) as -> by exact Hms. cbn [flat_map app].
      destruct (class_loop_end true [] true pv0 cu0 rest) as (pv' & E); [split; [discriminate|congruence]|now left|].
      cbn [app] in E. rewrite E. eauto.
    - apply andb_true_iff in Hms as [Hm Hms']. cbn [flat_map]. rewrite <- app_assoc.
      destruct (class_loop_first m pv0 cu0 (flat_map render_member ms' ++ (if dash then [45%N] else []) ++ 93%N :: rest) Hm)
        as (pv1 & cu1 & ->).
      destruct (class_loop_members ms' [m] pv1 cu1 ((if dash then [45%N] else []) ++ 93%N :: rest) Hms') as (pv2 & cu2 & ->).
      cbn [app].
      destruct (class_loop_end dash (m :: ms') false pv2 cu2 rest) as (pv' & E);
        [split; [discriminate|reflexivity]|now right|].
      rewrite E. destruct dash; eauto. }
  assert (Hfin : forall (neg : bool) q pv0 cu0,
             chars q = flat_map render_member ms ++ (if dash then [45%N] else []) ++ 93%N :: rest ->
             stack q = top :: stk -> prev q = pv0 -> cur q = cu0 ->
             exists pv',
               bind (class_loop (chars q) (prev q) (cur q) [] true false)
                    (fun x => let '(ranges, in_range, cs, pv, cu) := x in
                              let ranges := if in_range then ranges ++ [(45, 45)%N] else ranges in
                              push_token (mk_parser (stack q) cs pv cu) (TClass neg ranges))
               = Ok (mk_parser ((top ++ [TClass neg (ms ++ (if dash then [(45, 45)%N] else []))]) :: stk) rest pv' (Some 93%N))).
  { intros neg q pv0 cu0 Hc Hs _ _. rewrite Hc, Hs. destruct (Hloop (prev q) (cur q)) as (pv' & ->). cbn [bind].
    exists pv'. unfold push_token, set_stack. cbn [stack chars prev cur].
    destruct dash; [destruct ms|]; cbn [app]; rewrite ?app_nil_r; reflexivity. }
  unfold parse_class, peek. cbn [chars].
  destruct n; cbn [render_neg app is_neg].
  - (* no complement mark: the first character is not one *)
    assert (Hhd : match hd_error (flat_map render_member ms ++ (if dash then [45%N] else []) ++ 93%N :: rest) with
                  | Some c => ((c =? 33) || (c =? 94))%N = false | None => True end).
    { destruct ms as [|[lo hi] ms'].
      - cbn [flat_map app]. destruct dash; reflexivity.
      - cbn [flat_map]. unfold starts_like_complement in Hneg. cbn [dc_members fst] in Hneg. apply negb_true_iff in Hneg.
        unfold render_member. cbn [fst snd]. destruct (lo =? hi)%N; cbn [app hd_error]; exact Hneg. }
    destruct (flat_map render_member ms ++ (if dash then [45%N] else []) ++ 93%N :: rest) as [|c0 r0] eqn:Etxt.
    + destruct ms as [|[lo hi] ms']; [destruct dash; discriminate|].
      cbn [flat_map] in Etxt. unfold render_member in Etxt. cbn [fst snd] in Etxt. destruct (lo =? hi)%N; discriminate.
    + cbn [hd_error] in *. rewrite Hhd. rewrite <- Etxt in *.
      apply (Hfin false (mk_parser (top :: stk) _ pv cu) pv cu); reflexivity.
  - apply (Hfin true (bump (mk_parser (top :: stk) (33%N :: _) pv cu)) cu (Some 33%N)); reflexivity.
  - apply (Hfin true (bump (mk_parser (top :: stk) (94%N :: _) pv cu)) cu (Some 94%N)); reflexivity.
Qed.

(* ---- the class as an item of a glob ---- *)
Lemma run_dclass o ts d cs pv cu :
  dclass_ok d = true ->
  parse_all o (st ts (render_dclass d ++ cs) pv cu) = parse_all o (st (ts ++ [dclass_token d]) cs None (Some 93%N)).
Proof.
  intro Hok. destruct (parse_class_documented_proof d ts [] cs cu (Some 91%N) Hok) as (pv' & Hpc).
  rewrite (parse_all_prev o _ _ None pv').
  unfold render_dclass. cbn [app].
  apply (parse_all_step o _ 91%N (render_dclass_body d ++ cs)); [reflexivity|].
  unfold st, step, bump. cbn [chars stack cur].
  change ((91 =? 63)%N) with false. change ((91 =? 42)%N) with false. change ((91 =? 91)%N) with true. cbv iota.
  exact Hpc.
Qed.

Lemma xitem_head_no_star i r : xitem_ok i = true -> i <> XI IStar -> starts_no_star (render_xitem i ++ r).
Proof.
  destruct i as [i|d]; cbn [xitem_ok render_xitem]; intros H Hn.
  - apply item_head_no_star; [assumption|]. intros ->. now apply Hn.
  - unfold starts_no_star, render_dclass. cbn. discriminate.
Qed.

Lemma run_xcomp o its : forall ts rest pv cu,
  backslash_escape o = true -> forallb xitem_ok its = true -> no_adjacent_xstar its = true ->
  starts_no_star rest ->
  exists pv' cu', parse_all o (st ts (render_xcomp its ++ rest) pv cu)
                  = parse_all o (st (ts ++ xcomp_toks its) rest pv' cu').
Proof.
  induction its as [|i its IH]; intros ts rest pv cu Hb Hok Hadj Hrest.
  - cbn [render_xcomp flat_map app xcomp_toks map]. rewrite app_nil_r. eauto.
  - cbn [forallb] in Hok. apply andb_true_iff in Hok as [Hi Hok].
    assert (Hadj' : no_adjacent_xstar its = true).
    { destruct i as [[]|]; try exact Hadj. destruct its as [|[[]|]]; try exact Hadj; discriminate. }
    cbn [render_xcomp flat_map xcomp_toks map]. fold (render_xcomp its). fold (xcomp_toks its). rewrite <- app_assoc.
    assert (Hnext : i = XI IStar -> starts_no_star (render_xcomp its ++ rest)).
    { intros ->. destruct its as [|j its']; [exact Hrest|]. cbn [render_xcomp flat_map]. rewrite <- app_assoc.
      cbn [forallb] in Hok. apply andb_true_iff in Hok as [Hj _]. apply xitem_head_no_star; [assumption|].
      intros ->. discriminate. }
    assert (Hgo : forall pv1 cu1, exists pv' cu',
               parse_all o (st (ts ++ [xitem_tok i]) (render_xcomp its ++ rest) pv1 cu1) =
               parse_all o (st (ts ++ xitem_tok i :: xcomp_toks its) rest pv' cu')).
    { intros pv1 cu1. destruct (IH (ts ++ [xitem_tok i]) rest pv1 cu1 Hb Hok Hadj' Hrest) as (pv' & cu' & E).
      rewrite <- app_assoc in E. eauto. }
    destruct i as [[c|c| | |ms]|d]; cbn [render_xitem render_item app xitem_tok item_tok xitem_ok] in *.
    + rewrite run_plain by (left; exact Hi). apply Hgo.
    + rewrite run_esc by assumption. apply Hgo.
    + rewrite run_any. apply Hgo.
    + rewrite run_star by (now apply Hnext). apply Hgo.
    + rewrite <- app_assoc. cbn [app]. rewrite run_class by assumption. apply Hgo.
    + rewrite run_dclass by assumption. apply Hgo.
Qed.

Definition render_xafter (ps : list xpiece) : list N := flat_map (fun p => 47%N :: render_xpiece p) ps.

Lemma render_xglob_cons p r : render_xglob (p :: r) = render_xpiece p ++ render_xafter r.
Proof.
  revert p; induction r as [|q r IH]; intro p.
  - cbn. now rewrite app_nil_r.
  - change (render_xglob (p :: q :: r)) with (render_xpiece p ++ 47%N :: render_xglob (q :: r)).
    rewrite IH. reflexivity.
Qed.

Lemma render_xafter_starts ps : starts_no_star (render_xafter ps).
Proof. destruct ps; cbn; discriminate. Qed.

Lemma xpiece_ok_comp its : xpiece_ok (XPComp its) = true -> forallb xitem_ok its = true /\ no_adjacent_xstar its = true.
Proof. cbn. intro H. apply andb_true_iff in H as [H _]. now apply andb_true_iff in H. Qed.

Lemma run_xafter_n o n : forall ps ts pv cu,
  length ps <= n -> backslash_escape o = true ->
  forallb xpiece_ok ps = true -> no_adjacent_dstar_x ps = true ->
  exists pv' cu', parse_all o (st ts (render_xafter ps) pv cu) = parse_all o (st (ts ++ xafter_piece ps) [] pv' cu').
Proof.
  induction n as [|n IH]; intros ps ts pv cu Hlen Hb Hok Hadj.
  { destruct ps; [|cbn in Hlen; lia]. cbn. rewrite app_nil_r. eauto. }
  destruct ps as [|p r]; [cbn; rewrite app_nil_r; eauto|].
  cbn [length] in Hlen. cbn [forallb] in Hok. apply andb_true_iff in Hok as [Hp Hok].
  destruct p as [its|].
  - apply xpiece_ok_comp in Hp as [Hits Hadjs]. assert (Hadj' : no_adjacent_dstar_x r = true) by exact Hadj.
    cbn [render_xafter flat_map render_xpiece xafter_piece]. fold (render_xafter r). rewrite <- app_comm_cons.
    rewrite run_plain by now right.
    destruct (run_xcomp o its (ts ++ [TLit 47]) (render_xafter r) cu (Some 47%N) Hb Hits Hadjs (render_xafter_starts r))
      as (pv1 & cu1 & ->).
    destruct (IH r ((ts ++ [TLit 47]) ++ xcomp_toks its) pv1 cu1 ltac:(lia) Hb Hok Hadj') as (pv2 & cu2 & ->).
    rewrite <- !app_assoc. cbn [app]. eauto.
  - destruct r as [|[its|] r'].
    + cbn [render_xafter flat_map render_xpiece xafter_piece app]. rewrite run_dstar_end. eauto.
    + cbn [forallb] in Hok. apply andb_true_iff in Hok as [Hp2 Hok']. apply xpiece_ok_comp in Hp2 as [Hits Hadjs].
      assert (Hadj' : no_adjacent_dstar_x r' = true) by exact Hadj. cbn [length] in Hlen.
      cbn [render_xafter flat_map render_xpiece xafter_piece app]. fold (render_xafter r').
      rewrite run_dstar_mid.
      destruct (run_xcomp o its (ts ++ [TRecZeroOrMore]) (render_xafter r') (Some 42%N) (Some 47%N) Hb Hits Hadjs
                          (render_xafter_starts r')) as (pv1 & cu1 & ->).
      destruct (IH r' ((ts ++ [TRecZeroOrMore]) ++ xcomp_toks its) pv1 cu1 ltac:(lia) Hb Hok' Hadj') as (pv2 & cu2 & ->).
      rewrite <- !app_assoc. cbn [app]. eauto.
    + discriminate.
Qed.

Theorem xbuild_render_proof o ps :
  backslash_escape o = true -> xglob_ok ps = true ->
  build o (render_xglob ps) = Some (Ok (xglob_tokens ps)).
Proof.
  intros Hb Hok. unfold xglob_ok in Hok. apply andb_true_iff in Hok as [Hok Hne]. apply andb_true_iff in Hok as [Hps Hadj].
  destruct ps as [|p r]; [discriminate|]. clear Hne. rewrite build_parse_all, render_xglob_cons.
  cbn [forallb] in Hps. apply andb_true_iff in Hps as [Hp Hr].
  assert (Hfin : forall ts pv cu, match parse_all o (st ts [] pv cu) with
                                  | None => None | Some (Err e) => Some (Err e)
                                  | Some (Ok p0) => match stack p0 with [] => Some (Err UnopenedAlternates)
                                                                | [ts0] => Some (Ok ts0) | _ => Some (Err UnclosedAlternates) end
                                  end = Some (Ok ts)).
  { intros. rewrite parse_all_end by reflexivity. reflexivity. }
  destruct p as [its|].
  - apply xpiece_ok_comp in Hp as [Hits Hadjs]. assert (Hadj' : no_adjacent_dstar_x r = true) by exact Hadj.
    cbn [render_xpiece xglob_tokens].
    destruct (run_xcomp o its [] (render_xafter r) None None Hb Hits Hadjs (render_xafter_starts r)) as (pv1 & cu1 & ->).
    destruct (run_xafter_n o (length r) r ([] ++ xcomp_toks its) pv1 cu1 (le_n _) Hb Hr Hadj') as (pv2 & cu2 & ->).
    cbn [app]. apply Hfin.
  - destruct r as [|[its|] r'].
    + cbn [render_xpiece render_xafter flat_map app xglob_tokens]. rewrite run_dstar_lone. apply Hfin.
    + cbn [forallb] in Hr. apply andb_true_iff in Hr as [Hp2 Hr']. apply xpiece_ok_comp in Hp2 as [Hits Hadjs].
      assert (Hadj' : no_adjacent_dstar_x r' = true) by exact Hadj.
      cbn [render_xpiece render_xafter flat_map app xglob_tokens]. fold (render_xafter r').
      rewrite run_dstar_lead.
      destruct (run_xcomp o its [TRecPrefix] (render_xafter r') (Some 42%N) (Some 47%N) Hb Hits Hadjs (render_xafter_starts r'))
        as (pv1 & cu1 & ->).
      destruct (run_xafter_n o (length r') r' ([TRecPrefix] ++ xcomp_toks its) pv1 cu1 (le_n _) Hb Hr' Hadj') as (pv2 & cu2 & ->).
      cbn [app]. apply Hfin.
    + discriminate.
Qed.

(* ---- the classes of Spec/GlobSyntax.v are instances ---- *)
Lemma member_ok_first m : member_ok m = true -> first_member_ok m = true.
Proof.
  destruct m as [lo hi]. unfold member_ok, first_member_ok. cbn [fst snd]. intro H.
  apply andb_true_iff in H as [H Hle]. apply andb_true_iff in H as [Hlo Hhi].
  destruct (lo =? hi)%N eqn:E; [reflexivity|]. rewrite Hhi. apply class_char_neq in Hlo as [_ Hlo]. rewrite Hlo.
  cbn [negb andb]. apply N.ltb_lt. apply N.leb_le in Hle. apply N.eqb_neq in E. lia.
Qed.

Theorem class_syntax_conservative_proof ms :
  item_ok (IClass ms) = true ->
  dclass_ok (dclass_of_members ms) = true /\
  render_dclass (dclass_of_members ms) = render_item (IClass ms) /\
  dclass_token (dclass_of_members ms) = item_tok (IClass ms).
Proof.
  intro H. cbn [item_ok] in H. apply andb_true_iff in H as [Hms Hf].
  destruct ms as [|m ms']; [discriminate|]. cbn [forallb] in Hms. apply andb_true_iff in Hms as [Hm Hms].
  split; [|split].
  - unfold dclass_ok, dclass_of_members, starts_like_complement. cbn [dc_members dc_neg].
    rewrite (member_ok_first m Hm), Hms, Hf. reflexivity.
  - unfold render_dclass, render_dclass_body, dclass_of_members. cbn [dc_members dc_neg dc_dash_last render_neg render_item app].
    reflexivity.
  - unfold dclass_token, dclass_ranges, dclass_of_members. cbn [dc_members dc_neg dc_dash_last is_neg item_tok].
    now rewrite app_nil_r.
Qed.

(* ---- every class token the parser produces is well-formed ---- *)
Definition stack_wf (s : list (list token)) : bool := forallb toks_wf s.
Definition ranges_wf (rs : list (N * N)) : bool := forallb (fun r => (fst r <=? snd r)%N) rs.

Lemma toks_wf_app a b : toks_wf (a ++ b) = toks_wf a && toks_wf b.
Proof. apply forallb_app. Qed.

Lemma push_token_wf p t p' :
  stack_wf (stack p) = true -> tok_wf t = true -> push_token p t = Ok p' -> stack_wf (stack p') = true.
Proof.
  unfold push_token. destruct (stack p) as [|top rest]; [discriminate|]. intros Hs Ht H. injection H as <-.
  cbn [set_stack stack stack_wf forallb] in *. apply andb_true_iff in Hs as [Ha Hb].
  rewrite Hb, toks_wf_app, Ha. cbn [toks_wf forallb]. now rewrite Ht.
Qed.

Lemma pop_token_wf p t p' :
  stack_wf (stack p) = true -> pop_token p = Ok (t, p') -> tok_wf t = true /\ stack_wf (stack p') = true.
Proof.
  unfold pop_token. destruct (stack p) as [|top rest]; [discriminate|].
  destruct (rev top) as [|t0 r] eqn:Er; [discriminate|].
  intros Hs H. injection H as <- <-. cbn [set_stack stack stack_wf forallb] in *. apply andb_true_iff in Hs as [Ha Hb].
  assert (Etop : top = rev r ++ [t0]) by (rewrite <- (rev_involutive top), Er; reflexivity).
  rewrite Etop, toks_wf_app in Ha. apply andb_true_iff in Ha as [Ha1 Ha2]. cbn [toks_wf forallb] in Ha2.
  apply andb_true_iff in Ha2 as [Ha2 _]. split; [exact Ha2|]. now rewrite Ha1, Hb.
Qed.

Lemma push2stars_wf p p' : stack_wf (stack p) = true -> push2stars p = Ok p' -> stack_wf (stack p') = true.
Proof.
  unfold push2stars, bind. destruct (push_token p TStar) as [q|] eqn:E; [|discriminate]. intros Hs H.
  apply (push_token_wf q TStar p'); [|reflexivity|exact H]. apply (push_token_wf p TStar q); [exact Hs|reflexivity|exact E].
Qed.

Lemma star_tail_wf b p p' : stack_wf (stack p) = true -> star_tail b p = Ok p' -> stack_wf (stack p') = true.
Proof.
  unfold star_tail, bind. destruct (pop_token p) as [[t q]|] eqn:E; [|discriminate]. intros Hs H.
  apply (pop_token_wf _ _ _ Hs) in E as [_ Hq].
  destruct t; try destruct b; (eapply push_token_wf; [exact Hq| |exact H]); reflexivity.
Qed.

Lemma parse_star_wf p p' : stack_wf (stack p) = true -> parse_star p = Ok p' -> stack_wf (stack p') = true.
Proof.
  intro Hs. rewrite parse_star_eq. cbv zeta. destruct (negb (opt_is (peek p) 42)).
  { intro H. eapply push_token_wf; [exact Hs| |exact H]; reflexivity. }
  assert (Hq : stack_wf (stack (bump p)) = true) by now rewrite bump_stack.
  set (q := bump p) in *. unfold bind.
  destruct (have_tokens q) as [ht|]; [|discriminate]. destruct (negb ht).
  { destruct (negb _).
    - intro H. (eapply push2stars_wf; [|exact H]); assumption.
    - destruct (push_token q TRecPrefix) eqn:E; [|discriminate]. intro H. injection H as <-.
      rewrite bump_stack. eapply push_token_wf; [exact Hq| |exact E]; reflexivity. }
  destruct (_ && _).
  { intro H. (eapply push2stars_wf; [|exact H]); assumption. }
  assert (Hbq : stack_wf (stack (bump q)) = true) by now rewrite bump_stack.
  destruct (peek q) as [c|].
  - destruct (_ && _); [|destruct (is_sep c)]; intro H.
    + (eapply star_tail_wf; [|exact H]); assumption.
    + (eapply star_tail_wf; [|exact H]); assumption.
    + (eapply push2stars_wf; [|exact H]); assumption.
  - intro H. (eapply star_tail_wf; [|exact H]); assumption.
Qed.

Lemma add_to_last_range_wf ranges c r :
  ranges_wf ranges = true -> add_to_last_range ranges c = Ok r -> ranges_wf r = true /\ r <> [].
Proof.
  unfold add_to_last_range. destruct (rev ranges) as [|[lo hi] rr] eqn:Er; [discriminate|].
  destruct (c <? lo)%N eqn:Ec; [discriminate|]. intros Hw H. injection H as <-.
  assert (E : ranges = rev rr ++ [(lo, hi)]) by (rewrite <- (rev_involutive ranges), Er; reflexivity).
  rewrite E in Hw. unfold ranges_wf in *. rewrite forallb_app in *. apply andb_true_iff in Hw as [Hw _]. rewrite Hw.
  cbn [forallb fst snd andb]. split; [|destruct (rev rr); discriminate].
  apply N.ltb_ge in Ec. rewrite andb_true_r. now apply N.leb_le.
Qed.

Lemma class_loop_wf cs : forall pv cu ranges first in_range rs ir cs' pv' cu',
  ranges_wf ranges = true -> (first = false -> ranges <> []) ->
  class_loop cs pv cu ranges first in_range = Ok (rs, ir, cs', pv', cu') ->
  ranges_wf rs = true /\ rs <> [].
Proof.
  induction cs as [|c cs IH]; intros pv cu ranges first in_range rs ir cs' pv' cu' Hw Hf; [discriminate|].
  rewrite class_loop_cons.
  assert (Hsnoc : forall x, (fst x <=? snd x)%N = true ->
                            ranges_wf (ranges ++ [x]) = true /\ (false = false -> ranges ++ [x] <> [])).
  { intros x Hx. unfold ranges_wf in *. rewrite forallb_app, Hw. cbn [forallb]. rewrite Hx. split; [reflexivity|].
    intros _. destruct ranges; discriminate. }
  destruct (c =? 93)%N.
  { destruct first.
    - destruct (Hsnoc (93, 93)%N eq_refl) as [A B]. intro H. eapply IH; [exact A|exact B|exact H].
    - intro H. injection H as <- _ _ _ _. split; [exact Hw|now apply Hf]. }
  destruct (c =? 45)%N.
  { destruct first.
    - destruct (Hsnoc (45, 45)%N eq_refl) as [A B]. intro H. eapply IH; [exact A|exact B|exact H].
    - destruct in_range.
      + unfold bind. destruct (add_to_last_range ranges 45) as [r|] eqn:Ea; [|discriminate].
        destruct (add_to_last_range_wf _ _ _ Hw Ea) as [A B]. intro H. eapply IH; [exact A|intros _; exact B|exact H].
      + destruct ranges as [|r0 rr]; [discriminate|]. intro H. eapply IH; [exact Hw|intros _; discriminate|exact H]. }
  destruct in_range.
  - unfold bind. destruct (add_to_last_range ranges c) as [r|] eqn:Ea; [|discriminate].
    destruct (add_to_last_range_wf _ _ _ Hw Ea) as [A B]. intro H. eapply IH; [exact A|intros _; exact B|exact H].
  - destruct (Hsnoc (c, c) (N.leb_refl c)) as [A B]. intro H. eapply IH; [exact A|exact B|exact H].
Qed.

Lemma class_tok_wf neg rs : ranges_wf rs = true -> rs <> [] -> tok_wf (TClass neg rs) = true.
Proof. intros A B. cbn [tok_wf]. fold (ranges_wf rs). rewrite A. destruct rs; [now elim B|reflexivity]. Qed.

Lemma parse_class_wf p p' : stack_wf (stack p) = true -> parse_class p = Ok p' -> stack_wf (stack p') = true.
Proof.
  intro Hs. unfold parse_class.
  set (np := match peek p with
             | Some c => if (c =? 33)%N || (c =? 94)%N then (true, bump p) else (false, p)
             | None => (false, p) end).
  assert (Hq : stack (snd np) = stack p).
  { unfold np. destruct (peek p); [destruct (_ || _)|]; cbn [snd]; [apply bump_stack|reflexivity|reflexivity]. }
  destruct np as [negated q]. cbn [snd] in Hq. unfold bind.
  destruct (class_loop (chars q) (prev q) (cur q) [] true false) as [[[[[rs ir] cs'] pv'] cu']|e] eqn:E; [|discriminate].
  apply class_loop_wf in E as [A B]; [|reflexivity|discriminate].
  intro H. eapply push_token_wf; [| |exact H].
  - cbn [stack]. now rewrite Hq.
  - destruct ir; apply class_tok_wf; try assumption.
    + unfold ranges_wf in *. rewrite forallb_app, A. reflexivity.
    + destruct rs; discriminate.
Qed.

Lemma pop_alts_wf s : forall alts s' alts',
  stack_wf s = true -> stack_wf alts = true -> pop_alts s alts = (s', alts') ->
  stack_wf s' = true /\ stack_wf alts' = true.
Proof.
  induction s as [|top rest IH]; intros alts s' alts' Hs Ha H.
  - cbn in H. injection H as <- <-. auto.
  - cbn [pop_alts] in H. destruct rest as [|r0 rr].
    + injection H as <- <-. auto.
    + cbn [stack_wf forallb] in Hs. apply andb_true_iff in Hs as [Ht Hr]. eapply IH; [exact Hr| |exact H].
      unfold stack_wf in *. rewrite forallb_app, Ha. cbn [forallb]. now rewrite Ht.
Qed.

Lemma step_wf o c p p' : stack_wf (stack p) = true -> step o c p = Ok p' -> stack_wf (stack p') = true.
Proof.
  intro Hs. unfold step.
  destruct (c =? 63)%N. { intro H. eapply push_token_wf; [exact Hs| |exact H]; reflexivity. }
  destruct (c =? 42)%N. { now apply parse_star_wf. }
  destruct (c =? 91)%N. { now apply parse_class_wf. }
  destruct (c =? 123)%N.
  { unfold push_alternate. destruct (Nat.ltb _ _); [discriminate|]. intro H. injection H as <-.
    cbn [set_stack stack stack_wf forallb toks_wf andb]. exact Hs. }
  destruct (c =? 125)%N.
  { unfold pop_alternate. destruct (pop_alts (stack p) []) as [s alts] eqn:E. intro H.
    destruct (pop_alts_wf (stack p) [] s alts Hs eq_refl E) as [A B].
    eapply push_token_wf; [| |exact H]; [exact A|exact B]. }
  destruct (c =? 44)%N.
  { unfold parse_comma. destruct (Nat.leb _ _).
    - intro H. eapply push_token_wf; [exact Hs| |exact H]; reflexivity.
    - intro H. injection H as <-. cbn [set_stack stack stack_wf forallb toks_wf andb]. exact Hs. }
  destruct (c =? 92)%N.
  { unfold parse_backslash. destruct (backslash_escape o).
    - destruct (cur (bump p)) eqn:Ec; [|discriminate]. intro H.
      eapply push_token_wf; [| |exact H]; [now rewrite bump_stack|reflexivity].
    - intro H. eapply push_token_wf; [exact Hs| |exact H]; reflexivity. }
  intro H. eapply push_token_wf; [exact Hs| |exact H]; reflexivity.
Qed.

Lemma parse_loop_wf o : forall fuel p p',
  stack_wf (stack p) = true -> parse_loop fuel o p = Some (Ok p') -> stack_wf (stack p') = true.
Proof.
  induction fuel as [|f IH]; intros p p' Hs H; [discriminate|]. cbn [parse_loop] in H.
  assert (Hb : stack_wf (stack (bump p)) = true) by now rewrite bump_stack.
  destruct (cur (bump p)) as [c|].
  - destruct (step o c (bump p)) as [q|e] eqn:Es; [|discriminate]. eapply IH; [|exact H]. eapply step_wf; [|exact Es]. exact Hb.
  - injection H as <-. exact Hb.
Qed.

Theorem build_tokens_wf_proof o g ts : build o g = Some (Ok ts) -> toks_wf ts = true.
Proof.
  unfold build, build_fuel. destruct (parse_loop _ o _) as [[p|e]|] eqn:E; try discriminate.
  apply parse_loop_wf in E; [|reflexivity].
  destruct (stack p) as [|t0 [|]]; try discriminate. intro H. injection H as <-.
  cbn [stack_wf forallb] in E. now apply andb_true_iff in E as [E _].
Qed.
