(* Proofs/GitLineGitProofs.v — git's line reader (Spec/GitSem.v git_parse_line) on the text of a grammar line *)
From RG Require Import Base.Bytes Base.BytesFacts Model.Glob Model.GlobSet Model.Gitignore Spec.GlobSyntax Spec.GitSem
  Spec.GitLineSyntax Proofs.GlobSemProofs Proofs.GlobPathProofs Proofs.GlobParseProofs Proofs.GlobRenderProofs
  Proofs.GitLineRgProofs.

Definition plainu (b : N) : unit := (b, false).

Definition item_units (i : gitem) : list unit :=
  match i with
  | IPlain c => [plainu c]
  | IEsc c => [(c, true)]
  | IAny => [plainu 63]
  | IStar => [plainu 42]
  | IClass ms => plainu 91 :: map plainu (flat_map render_member ms) ++ [plainu 93]
  end%N.
Definition comp_units (its : list gitem) : list unit := flat_map item_units its.
Definition piece_units (p : gpiece) : list unit :=
  match p with PComp its => comp_units its | PDStar => [plainu 42; plainu 42]%N end.
Definition after_units (r : list gpiece) : list unit := flat_map (fun q => plainu 47 :: piece_units q) r.
Definition glob_units (ps : list gpiece) : list unit :=
  match ps with [] => [] | p :: r => piece_units p ++ after_units r end.

(* ---- dangling, to_units ---- *)
Lemma dangling_spaces n : dangling (repeat 32%N n) = false.
Proof. induction n; [reflexivity|]. cbn [repeat dangling]. change ((32 =? 92)%N) with false. exact IHn. Qed.

Lemma dangling_clean T : forall s, esc_clean T = true -> dangling (T ++ s) = dangling s.
Proof.
  induction T as [T IH] using list_len_ind. intros s H. destruct T as [|x r]; [reflexivity|].
  cbn [app esc_clean dangling] in *. destruct (x =? 92)%N.
  - destruct r as [|y r']; [discriminate|]. cbn [app]. apply IH; [cbn; lia|exact H].
  - destruct (x =? 32)%N; [discriminate|]. apply IH; [cbn; lia|exact H].
Qed.

Lemma to_units_clean T : forall s, esc_clean T = true -> to_units (T ++ s) = to_units T ++ to_units s.
Proof.
  induction T as [T IH] using list_len_ind. intros s H. destruct T as [|x r]; [reflexivity|].
  cbn [app esc_clean to_units] in *. destruct (x =? 92)%N.
  - destruct r as [|y r']; [discriminate|]. cbn [app]. rewrite IH; [reflexivity|cbn; lia|exact H].
  - destruct (x =? 32)%N; [discriminate|]. rewrite IH; [reflexivity|cbn; lia|exact H].
Qed.

Lemma to_units_spaces n : to_units (repeat 32%N n) = repeat (plainu 32) n.
Proof. induction n; [reflexivity|]. cbn [repeat to_units]. change ((32 =? 92)%N) with false. now rewrite IHn. Qed.

Lemma to_units_plain s : avoid [92%N] s = true -> to_units s = map plainu s.
Proof.
  induction s as [|b r IH]; [reflexivity|]. cbn [avoid forallb existsb]. intro H. apply andb_true_iff in H as [H1 H2].
  apply negb_true_iff in H1. rewrite orb_false_r in H1. cbn [to_units map]. rewrite H1. now rewrite IH.
Qed.

Lemma to_units_item i : item_lok i = true -> to_units (render_item i) = item_units i.
Proof.
  destruct i as [c|c| | |ms]; cbn [item_lok render_item item_units]; intro H; try reflexivity.
  - unfold plain_safe, plain_ok in H. split_orbs. cbn [to_units]. use_eqbs. reflexivity.
  - apply andb_true_iff in H as [H _]. apply andb_true_iff in H as [H _]. apply members_avoid in H.
    assert (Ha : avoid [92%N] (91%N :: flat_map render_member ms ++ [93%N]) = true).
    { change (91%N :: flat_map render_member ms ++ [93%N]) with ([91%N] ++ flat_map render_member ms ++ [93%N]).
      rewrite !avoid_app. cbn [avoid forallb existsb]. change ((91 =? 92)%N) with false. change ((93 =? 92)%N) with false.
      cbn [negb orb andb]. rewrite andb_true_r. eapply avoid_weaken; [|exact H]. intros b Hb. cbn in *.
      destruct (b =? 92)%N; [reflexivity|discriminate]. }
    rewrite (to_units_plain _ Ha). cbn [map]. now rewrite map_app.
Qed.

Lemma to_units_comp its : forallb item_lok its = true -> to_units (render_comp its) = comp_units its.
Proof.
  induction its as [|i its IH]; [reflexivity|]. cbn [forallb render_comp flat_map comp_units]. intro H.
  apply andb_true_iff in H as [Hi H]. fold (render_comp its). fold (comp_units its).
  destruct (item_avoid i Hi) as [C _]. now rewrite (to_units_clean _ _ C), (to_units_item i Hi), IH.
Qed.

Lemma to_units_piece p : piece_lok p = true -> to_units (render_piece p) = piece_units p.
Proof. destruct p as [its|]; [apply to_units_comp|reflexivity]. Qed.

Lemma to_units_after r : forallb piece_lok r = true -> to_units (render_after r) = after_units r.
Proof.
  induction r as [|q r IH]; [reflexivity|]. cbn [forallb render_after after_units flat_map]. intro H.
  apply andb_true_iff in H as [Hq H]. fold (render_after r). fold (after_units r).
  destruct (piece_avoid q Hq) as [C _]. cbn [app to_units]. change ((47 =? 92)%N) with false. cbv iota.
  rewrite (to_units_clean _ _ C), (to_units_piece q Hq), IH by assumption. reflexivity.
Qed.

Lemma to_units_glob ps : forallb piece_lok ps = true -> to_units (render_glob ps) = glob_units ps.
Proof.
  destruct ps as [|p r]; [reflexivity|]. cbn [forallb glob_units]. intro H. apply andb_true_iff in H as [Hp H].
  rewrite render_glob_cons. destruct (piece_avoid p Hp) as [C _].
  now rewrite (to_units_clean _ _ C), (to_units_piece p Hp), (to_units_after r H).
Qed.

(* ---- trailing blanks ---- *)
Lemma dts_spaces n : drop_trailing_spaces (repeat (plainu 32) n) = [].
Proof. induction n; [reflexivity|]. cbn [repeat drop_trailing_spaces]. now rewrite IHn. Qed.

Lemma dts_app_nil U V : drop_trailing_spaces V = [] -> drop_trailing_spaces (U ++ V) = drop_trailing_spaces U.
Proof. intro H. induction U as [|x U IH]; [exact H|]. cbn [app drop_trailing_spaces]. now rewrite IH. Qed.

Lemma dts_keep U u : raw u 32 = false -> drop_trailing_spaces (U ++ [u]) = U ++ [u].
Proof.
  intro H. induction U as [|x U IH]; cbn [app drop_trailing_spaces].
  - now rewrite H.
  - rewrite IH. destruct (U ++ [u]) eqn:E; [destruct U; discriminate|reflexivity].
Qed.

(* ---- first / last unit, separators ---- *)
Definition ulast_ok (U : list unit) : bool :=
  match rev U with u :: _ => negb (raw u 32) && negb (raw u 47) | [] => false end.
Definition no_raw_slash (U : list unit) : bool := forallb (fun u => negb (raw u 47)) U.

Lemma ulast_app a t : t <> [] -> ulast_ok (a ++ t) = ulast_ok t.
Proof.
  intro H. unfold ulast_ok. rewrite rev_app_distr. destruct (rev t) eqn:E; [|reflexivity].
  exfalso. apply H. rewrite <- (rev_involutive t), E. reflexivity.
Qed.

Lemma map_plainu_noslash s : avoid [47%N] s = true -> no_raw_slash (map plainu s) = true.
Proof.
  induction s as [|b r IH]; [reflexivity|]. cbn [avoid forallb existsb map no_raw_slash]. intro H.
  apply andb_true_iff in H as [H1 H2]. rewrite orb_false_r in H1. unfold raw, plainu. cbn [fst snd negb andb].
  rewrite H1. exact (IH H2).
Qed.

Lemma item_units_facts i : item_lok i = true ->
  item_units i <> [] /\ ulast_ok (item_units i) = true /\ no_raw_slash (item_units i) = true /\
  (exists u r, item_units i = u :: r /\ raw u 33 = false /\ raw u 47 = false).
Proof.
  destruct i as [c|c| | |ms]; cbn [item_lok item_units]; intro H.
  - unfold plain_safe, plain_ok in H. split_orbs.
    repeat split; try discriminate; unfold ulast_ok, no_raw_slash, raw, plainu; cbn; use_eqbs; try reflexivity.
    eexists; eexists; split; [reflexivity|]. unfold raw; cbn. use_eqbs. auto.
  - repeat split; try discriminate; try reflexivity. eexists; eexists; split; [reflexivity|]. auto.
  - repeat split; try discriminate; try reflexivity. eexists; eexists; split; [reflexivity|]. auto.
  - repeat split; try discriminate; try reflexivity. eexists; eexists; split; [reflexivity|]. auto.
  - apply andb_true_iff in H as [H _]. apply andb_true_iff in H as [H _]. apply members_avoid in H.
    repeat split; try discriminate.
    + change (plainu 91 :: map plainu (flat_map render_member ms) ++ [plainu 93])
        with ((plainu 91 :: map plainu (flat_map render_member ms)) ++ [plainu 93]).
      rewrite ulast_app by discriminate. reflexivity.
    + cbn [no_raw_slash forallb]. unfold no_raw_slash. rewrite forallb_app. cbn [forallb].
      fold (no_raw_slash (map plainu (flat_map render_member ms))). rewrite map_plainu_noslash; [reflexivity|].
      eapply avoid_weaken; [|exact H]. intros b Hb. cbn in *. destruct (b =? 47)%N; [now rewrite !orb_true_r|discriminate].
    + eexists; eexists; split; [reflexivity|]. auto.
Qed.

Lemma comp_units_facts its : forallb item_lok its = true -> its <> [] ->
  comp_units its <> [] /\ ulast_ok (comp_units its) = true /\ no_raw_slash (comp_units its) = true /\
  (exists u r, comp_units its = u :: r /\ raw u 33 = false /\ raw u 47 = false).
Proof.
  intros Hl Hne. assert (Hns : no_raw_slash (comp_units its) = true).
  { clear Hne. induction its as [|i its IH]; [reflexivity|]. cbn [forallb comp_units flat_map] in *.
    apply andb_true_iff in Hl as [Hi Hl]. unfold no_raw_slash. rewrite forallb_app.
    destruct (item_units_facts i Hi) as (_ & _ & N1 & _). unfold no_raw_slash in N1. rewrite N1. exact (IH Hl). }
  destruct its as [|i0 its0]; [congruence|].
  assert (Hfirst : exists u r, comp_units (i0 :: its0) = u :: r /\ raw u 33 = false /\ raw u 47 = false).
  { cbn [forallb] in Hl. apply andb_true_iff in Hl as [Hi _]. destruct (item_units_facts i0 Hi) as (_ & _ & _ & u & r & E & F).
    cbn [comp_units flat_map]. rewrite E. cbn [app]. eauto. }
  destruct (exists_last (l := i0 :: its0)) as (its' & j & E); [discriminate|]. rewrite E in *.
  rewrite forallb_app in Hl. apply andb_true_iff in Hl as [_ Hj]. cbn [forallb] in Hj. rewrite andb_true_r in Hj.
  destruct (item_units_facts j Hj) as (N1 & L1 & _ & _).
  assert (Ecu : comp_units (its' ++ [j]) = comp_units its' ++ item_units j).
  { unfold comp_units. rewrite flat_map_app. cbn. now rewrite app_nil_r. }
  rewrite Ecu in *. repeat split; try assumption.
  - intro F. apply app_eq_nil in F as [_ F]. congruence.
  - now rewrite ulast_app.
Qed.

Lemma piece_units_facts p : piece_ok p = true -> piece_lok p = true ->
  piece_units p <> [] /\ ulast_ok (piece_units p) = true /\ no_raw_slash (piece_units p) = true /\
  (exists u r, piece_units p = u :: r /\ raw u 33 = false /\ raw u 47 = false).
Proof.
  destruct p as [its|]; cbn [piece_ok piece_lok piece_units]; intros Hok Hl.
  - apply andb_true_iff in Hok as [_ Hne]. apply comp_units_facts; [assumption|]. now destruct its.
  - repeat split; try discriminate; try reflexivity. eexists; eexists; split; [reflexivity|]. auto.
Qed.

(* ---- the whole pattern in units ---- *)
Lemma after_units_snoc r q : after_units (r ++ [q]) = after_units r ++ plainu 47 :: piece_units q.
Proof. unfold after_units. rewrite flat_map_app. cbn. now rewrite app_nil_r. Qed.

Lemma glob_units_first ps : glob_ok ps = true -> forallb piece_lok ps = true ->
  exists u r, glob_units ps = u :: r /\ raw u 33 = false /\ raw u 47 = false.
Proof.
  intros Hg Hl. destruct (glob_ok_parts ps Hg) as (Hok & _ & Hne). destruct ps as [|p r]; [congruence|].
  cbn [forallb] in Hok, Hl. apply andb_true_iff in Hok as [Hp _]. apply andb_true_iff in Hl as [Hlp _].
  destruct (piece_units_facts p Hp Hlp) as (_ & _ & _ & u & r0 & E & F). cbn [glob_units]. rewrite E. cbn [app]. eauto.
Qed.

Lemma glob_units_last ps : glob_ok ps = true -> forallb piece_lok ps = true -> ulast_ok (glob_units ps) = true.
Proof.
  intros Hg Hl. destruct (glob_ok_parts ps Hg) as (Hok & _ & Hne). destruct (exists_last Hne) as (init & q & ->).
  rewrite forallb_app in Hok, Hl. apply andb_true_iff in Hok as [_ Hq]. apply andb_true_iff in Hl as [_ Hlq].
  cbn [forallb] in Hq, Hlq. rewrite andb_true_r in Hq, Hlq.
  destruct (piece_units_facts q Hq Hlq) as (N1 & L1 & _ & _).
  destruct init as [|p r]; [cbn [app glob_units after_units flat_map]; now rewrite app_nil_r|].
  cbn [app glob_units]. rewrite after_units_snoc.
  change (piece_units p ++ after_units r ++ plainu 47 :: piece_units q)
    with (piece_units p ++ after_units r ++ [plainu 47] ++ piece_units q).
  now rewrite !app_assoc, ulast_app.
Qed.

Lemma split_units_noslash a : forall rest cur, no_raw_slash a = true ->
  split_units (a ++ rest) cur = split_units rest (cur ++ a).
Proof.
  induction a as [|u a IH]; intros rest cur H; [now rewrite app_nil_r|].
  cbn [no_raw_slash forallb] in H. apply andb_true_iff in H as [Hu H]. apply negb_true_iff in Hu.
  cbn [app split_units]. rewrite Hu. rewrite (IH rest (cur ++ [u]) H). now rewrite <- app_assoc.
Qed.

Lemma split_after r : forall cur, forallb piece_ok r = true -> forallb piece_lok r = true ->
  split_units (after_units r) cur = cur :: map piece_units r.
Proof.
  induction r as [|q r IH]; intros cur Hok Hl; [reflexivity|].
  cbn [forallb] in Hok, Hl. apply andb_true_iff in Hok as [Hq Hok]. apply andb_true_iff in Hl as [Hlq Hl].
  destruct (piece_units_facts q Hq Hlq) as (_ & _ & Nq & _).
  cbn [after_units flat_map]. fold (after_units r). cbn [app split_units]. change (raw (plainu 47) 47) with true. cbv iota.
  rewrite (split_units_noslash _ _ _ Nq), (IH _ Hok Hl). reflexivity.
Qed.

Lemma split_glob ps : glob_ok ps = true -> forallb piece_lok ps = true ->
  split_units (glob_units ps) [] = map piece_units ps.
Proof.
  intros Hg Hl. destruct (glob_ok_parts ps Hg) as (Hok & _ & Hne). destruct ps as [|p r]; [congruence|].
  cbn [forallb] in Hok, Hl. apply andb_true_iff in Hok as [Hp Hok]. apply andb_true_iff in Hl as [Hlp Hl].
  destruct (piece_units_facts p Hp Hlp) as (_ & _ & Np & _).
  cbn [glob_units map]. rewrite (split_units_noslash _ _ _ Np), (split_after _ _ Hok Hl). reflexivity.
Qed.

Lemma after_units_has_slash r : forallb piece_ok r = true -> forallb piece_lok r = true ->
  existsb (fun u => raw u 47) (after_units r) = match r with [] => false | _ => true end.
Proof. destruct r; reflexivity. Qed.

Lemma existsb_noslash a : no_raw_slash a = true -> existsb (fun u => raw u 47) a = false.
Proof.
  induction a as [|u a IH]; [reflexivity|]. cbn [no_raw_slash forallb existsb]. intro H. apply andb_true_iff in H as [Hu H].
  apply negb_true_iff in Hu. rewrite Hu. exact (IH H).
Qed.

Lemma glob_units_anchored ps : glob_ok ps = true -> forallb piece_lok ps = true ->
  existsb (fun u => raw u 47) (glob_units ps) = match ps with _ :: _ :: _ => true | _ => false end.
Proof.
  intros Hg Hl. destruct (glob_ok_parts ps Hg) as (Hok & _ & Hne). destruct ps as [|p r]; [congruence|].
  cbn [forallb] in Hok, Hl. apply andb_true_iff in Hok as [Hp Hok]. apply andb_true_iff in Hl as [Hlp Hl].
  destruct (piece_units_facts p Hp Hlp) as (_ & _ & Np & _).
  cbn [glob_units]. rewrite existsb_app, (existsb_noslash _ Np). destruct r; reflexivity.
Qed.

(* ---- one component ---- *)
Definition item_wtok (i : gitem) : wtok :=
  match i with
  | IPlain c | IEsc c => WLit c
  | IAny => WAny
  | IStar => WStar
  | IClass ms => WClass false ms
  end.

Lemma members_first ms : forallb member_safe ms = true ->
  match flat_map render_member ms with
  | x :: _ => (x =? 45)%N = false /\ (x =? 33)%N = false /\ (x =? 94)%N = false
  | [] => ms = []
  end.
Proof.
  destruct ms as [|[lo hi] ms]; [reflexivity|]. cbn [forallb flat_map]. intro H. apply andb_true_iff in H as [Hm _].
  unfold member_safe in Hm. cbn [fst snd] in Hm. apply andb_true_iff in Hm as [Hm _]. apply andb_true_iff in Hm as [Hlo _].
  unfold class_safe in Hlo. split_orbs. unfold render_member at 1. cbn [fst snd]. destruct (lo =? hi)%N; cbn [app]; auto.
Qed.

Lemma members_avoid93 ms : forallb member_safe ms = true -> avoid [93%N] (flat_map render_member ms) = true.
Proof.
  induction ms as [|[lo hi] ms IH]; [reflexivity|]. cbn [forallb flat_map]. intro H. apply andb_true_iff in H as [Hm H].
  unfold member_safe in Hm. cbn [fst snd] in Hm. apply andb_true_iff in Hm as [Hm _]. apply andb_true_iff in Hm as [Hlo Hhi].
  rewrite avoid_app, (IH H), andb_true_r. unfold render_member. cbn [fst snd].
  unfold class_safe in Hlo, Hhi. split_orbs. destruct (lo =? hi)%N; cbn; use_eqbs; reflexivity.
Qed.

Lemma class_members_render ms : forallb member_safe ms = true -> class_members (flat_map render_member ms) = ms.
Proof.
  induction ms as [|[lo hi] ms IH]; [reflexivity|]. cbn [forallb flat_map]. intro H. apply andb_true_iff in H as [Hm H].
  pose proof (members_first ms H) as Hfst. specialize (IH H).
  unfold render_member at 1. cbn [fst snd]. destruct (lo =? hi)%N eqn:E.
  - apply N.eqb_eq in E. subst hi. cbn [app].
    destruct (flat_map render_member ms) as [|x rest] eqn:Er.
    + subst ms. reflexivity.
    + destruct Hfst as (Hx & _). destruct rest as [|y r'].
      * cbn [class_members] in *. now rewrite IH.
      * change (class_members (lo :: x :: y :: r')) with
          (if (x =? 45)%N then (lo, y) :: class_members r' else (lo, lo) :: class_members (x :: y :: r')).
        rewrite Hx. now rewrite IH.
  - cbn [app]. change (class_members (lo :: 45%N :: hi :: flat_map render_member ms)) with
      (if (45 =? 45)%N then (lo, hi) :: class_members (flat_map render_member ms)
       else (lo, lo) :: class_members (45%N :: hi :: flat_map render_member ms)).
    change ((45 =? 45)%N) with true. cbv iota. now rewrite IH.
Qed.

Lemma take_class_run s : forall rest first acc,
  avoid [93%N] s = true -> (s = [] -> first = false) ->
  take_class (map plainu s ++ plainu 93 :: rest) first acc = Some (acc ++ s, rest).
Proof.
  induction s as [|b s IH]; intros rest first acc Ha Hf.
  - rewrite (Hf eq_refl). cbn. now rewrite app_nil_r.
  - cbn [avoid forallb existsb] in Ha. apply andb_true_iff in Ha as [Hb Ha]. apply negb_true_iff in Hb. rewrite orb_false_r in Hb.
    change (avoid [93%N] s = true) in Ha.
    cbn [map app take_class]. change (raw (plainu b) 93) with (negb false && (b =? 93)%N). cbn [negb andb]. rewrite Hb. cbn [andb].
    change (fst (plainu b)) with b. rewrite (IH rest false (acc ++ [b]) Ha ltac:(reflexivity)). now rewrite <- app_assoc.
Qed.

Lemma parse_comp_items its : forall fuel,
  forallb item_lok its = true -> length (comp_units its) < fuel ->
  parse_comp fuel (comp_units its) = map item_wtok its.
Proof.
  induction its as [|i its IH]; intros fuel Hl Hf.
  - destruct fuel; reflexivity.
  - cbn [forallb] in Hl. apply andb_true_iff in Hl as [Hi Hl]. cbn [comp_units flat_map] in *. fold (comp_units its) in *.
    rewrite app_length in Hf. destruct fuel as [|f]; [lia|].
    destruct i as [c|c| | |ms]; cbn [item_units app parse_comp map item_wtok item_lok length] in *.
    + unfold plain_safe, plain_ok in Hi. split_orbs. unfold raw, plainu. cbn [fst snd negb andb]. use_eqbs.
      rewrite IH by (assumption || lia). reflexivity.
    + unfold raw. cbn [fst snd negb andb]. rewrite IH by (assumption || lia). reflexivity.
    + unfold raw, plainu. cbn [fst snd negb andb]. change ((63 =? 42)%N) with false. change ((63 =? 63)%N) with true. cbv iota.
      rewrite IH by (assumption || lia). reflexivity.
    + unfold raw, plainu. cbn [fst snd negb andb]. change ((42 =? 42)%N) with true. cbv iota.
      rewrite IH by (assumption || lia). reflexivity.
    + apply andb_true_iff in Hi as [Hi _]. apply andb_true_iff in Hi as [Hms Hne].
      change (raw (plainu 91) 42) with false. change (raw (plainu 91) 63) with false. change (raw (plainu 91) 91) with true.
      cbv iota. rewrite <- app_assoc. cbn [app].
      destruct ms as [|[lo hi] ms']; [discriminate|]. set (ms := (lo, hi) :: ms') in *.
      pose proof (members_first ms Hms) as Hfirst.
      destruct (flat_map render_member ms) as [|x s'] eqn:Es; [unfold ms in Hfirst; discriminate|].
      destruct Hfirst as (_ & E33 & E94). cbn [map app].
      change (raw (plainu x) 33) with (negb false && (x =? 33)%N). change (raw (plainu x) 94) with (negb false && (x =? 94)%N).
      cbn [negb andb]. rewrite E33, E94. cbn [orb].
      change (plainu x :: map plainu s' ++ plainu 93 :: comp_units its) with (map plainu (x :: s') ++ plainu 93 :: comp_units its).
      rewrite <- Es.
      rewrite (take_class_run (flat_map render_member ms) (comp_units its) true []).
      * cbn [app]. rewrite (class_members_render ms Hms). rewrite IH; [reflexivity|assumption|].
        cbn [length] in Hf. rewrite app_length in Hf. cbn [length] in Hf. lia.
      * now apply members_avoid93.
      * rewrite Es. discriminate.
Qed.

Lemma is_dstar_first u r : raw u 42 = false -> is_dstar (u :: r) = false.
Proof. intro H. destruct r as [|b [|c r']]; cbn [is_dstar]; rewrite ?H; reflexivity. Qed.

Lemma item_units_not_star i : item_lok i = true -> i <> IStar ->
  exists u r, item_units i = u :: r /\ raw u 42 = false.
Proof.
  destruct i as [c|c| | |ms]; cbn [item_lok item_units]; intros H Hn; try congruence;
    eexists; eexists; (split; [reflexivity|]); try reflexivity.
  unfold plain_safe, plain_ok in H. split_orbs. unfold raw, plainu. cbn [fst snd negb andb]. assumption.
Qed.

Lemma is_dstar_comp its : forallb item_lok its = true -> no_adjacent_star its = true ->
  is_dstar (comp_units its) = false.
Proof.
  intros Hl Ha. destruct its as [|i its]; [reflexivity|].
  cbn [forallb] in Hl. apply andb_true_iff in Hl as [Hi Hl]. cbn [comp_units flat_map]. fold (comp_units its).
  destruct i as [c|c| | |ms].
  5: { destruct (item_units_not_star (IClass ms) Hi ltac:(discriminate)) as (u & r & -> & Hu). cbn [app]. now apply is_dstar_first. }
  1-3: (destruct (item_units_not_star _ Hi ltac:(discriminate)) as (u & r & E & Hu); rewrite E; cbn [app]; now apply is_dstar_first).
  cbn [item_units app]. destruct its as [|j its']; [reflexivity|].
  cbn [forallb] in Hl. apply andb_true_iff in Hl as [Hj _]. cbn [comp_units flat_map]. fold (comp_units its').
  destruct (item_units_not_star j Hj) as (u & r & E & Hu); [intros ->; discriminate|].
  rewrite E. cbn [app]. destruct (r ++ comp_units its') as [|x y]; cbn [is_dstar]; [|reflexivity].
  rewrite Hu. apply andb_false_r.
Qed.

(* ---- the pattern as git component patterns ---- *)
Definition piece_cpat (p : gpiece) : cpat :=
  match p with PComp its => CSimple (map item_wtok its) | PDStar => CDStar end.
Definition piece_cpat_simple (p : gpiece) : cpat :=
  match p with PComp its => CSimple (map item_wtok its) | PDStar => CSimple [WStar; WStar] end.
Definition git_cps (lead : bool) (ps : list gpiece) : list cpat :=
  if lead || match ps with _ :: _ :: _ => true | _ => false end then map piece_cpat ps
  else CDStar :: map piece_cpat_simple ps.

Lemma piece_anchored_cpat p : piece_ok p = true -> piece_lok p = true ->
  (if is_dstar (piece_units p) then CDStar else CSimple (parse_comp (S (length (piece_units p))) (piece_units p)))
  = piece_cpat p.
Proof.
  destruct p as [its|]; [|reflexivity]. cbn [piece_ok piece_lok piece_units piece_cpat]. intros Hok Hl.
  apply andb_true_iff in Hok as [Hok _]. apply andb_true_iff in Hok as [_ Ha].
  rewrite (is_dstar_comp its Hl Ha), parse_comp_items by (assumption || lia). reflexivity.
Qed.

Lemma piece_simple_cpat p : piece_lok p = true ->
  CSimple (parse_comp (S (length (piece_units p))) (piece_units p)) = piece_cpat_simple p.
Proof.
  destruct p as [its|]; [|reflexivity]. cbn [piece_lok piece_units piece_cpat_simple]. intro Hl.
  rewrite parse_comp_items by (assumption || lia). reflexivity.
Qed.

(* ---- git_parse_line in stages ---- *)
Definition gstage_neg (us : list unit) : bool * list unit :=
  match us with u :: r => if raw u 33 then (true, r) else (false, us) | [] => (false, us) end.
Definition gstage_dir (us : list unit) : bool * list unit :=
  match rev us with u :: r => if raw u 47 then (true, rev r) else (false, us) | [] => (false, us) end.
Definition gstage_lead (us : list unit) : list unit :=
  match us with u :: r => if raw u 47 then r else us | [] => us end.

Lemma git_parse_stages line :
  git_parse_line line =
  if dangling line then None else
  if is_comment line then None else
  let '(neg, us) := gstage_neg (drop_trailing_spaces (to_units line)) in
  match us with
  | [] => None
  | _ =>
    let '(dironly, us) := gstage_dir us in
    let anchored := existsb (fun u => raw u 47) us in
    let comps := split_units (gstage_lead us) [] in
    Some (mk_gpat neg dironly
      (if anchored then map (fun c => if is_dstar c then CDStar else CSimple (parse_comp (S (length c)) c)) comps
       else CDStar :: map (fun c => CSimple (parse_comp (S (length c)) c)) comps))
  end.
Proof.
  unfold git_parse_line, gstage_neg, gstage_dir, gstage_lead.
  destruct (dangling line); [reflexivity|]. destruct (is_comment line); [reflexivity|].
  destruct (drop_trailing_spaces (to_units line)) as [|u r]; [reflexivity|].
  destruct (raw u 33).
  - destruct r as [|u2 r2]; [reflexivity|]. destruct (rev (u2 :: r2)) as [|x y]; [reflexivity|]. destruct (raw x 47); reflexivity.
  - destruct (rev (u :: r)) as [|x y]; [reflexivity|]. destruct (raw x 47); reflexivity.
Qed.

Definition core_units (gl : gline) : list unit :=
  (if gl_neg gl then [plainu 33] else []) ++ (if gl_lead gl then [plainu 47] else []) ++
  glob_units (gl_pieces gl) ++ (if gl_dir gl then [plainu 47] else []).

Lemma to_units_core gl : gline_ok gl = true -> to_units (line_core gl) = core_units gl.
Proof.
  intro H. apply gline_ok_parts in H as (Hg & Hl & _). unfold line_core, core_units.
  rewrite to_units_clean by (destruct (gl_neg gl); reflexivity).
  rewrite to_units_clean by (destruct (gl_lead gl); reflexivity).
  rewrite to_units_clean by (now apply glob_clean). rewrite (to_units_glob _ Hl).
  destruct (gl_neg gl), (gl_lead gl), (gl_dir gl); reflexivity.
Qed.

Lemma ulast_split U : ulast_ok U = true -> exists U' u, U = U' ++ [u] /\ raw u 32 = false /\ raw u 47 = false.
Proof.
  unfold ulast_ok. destruct (rev U) as [|u r] eqn:E; [discriminate|]. intro H. apply andb_true_iff in H as [H1 H2].
  apply negb_true_iff in H1, H2. exists (rev r), u. repeat split; try assumption.
  rewrite <- (rev_involutive U), E. reflexivity.
Qed.

Theorem git_parse_render_proof gl :
  gline_ok gl = true ->
  git_parse_line (render_line gl) = Some (mk_gpat (gl_neg gl) (gl_dir gl) (git_cps (gl_lead gl) (gl_pieces gl))).
Proof.
  intro Hok. pose proof (gline_ok_parts gl Hok) as (Hg & Hl & Hf).
  destruct (glob_ok_parts _ Hg) as (Hpok & _ & Hne).
  rewrite git_parse_stages, render_line_core.
  rewrite (dangling_clean _ _ (line_core_clean gl Hok)), dangling_spaces.
  destruct (line_core_first gl Hok) as (b & rest & Ecore & E35).
  assert (Hc : is_comment (line_core gl ++ repeat 32%N (gl_blanks gl)) = false) by (rewrite Ecore; exact E35).
  rewrite Hc. rewrite (to_units_clean _ _ (line_core_clean gl Hok)), to_units_spaces, (to_units_core gl Hok).
  set (GU := glob_units (gl_pieces gl)).
  destruct (glob_units_first _ Hg Hl) as (g0 & grest & EGU & G33 & G47). fold GU in EGU.
  destruct (ulast_split _ (glob_units_last _ Hg Hl)) as (G' & gu & EGL & L32 & L47). fold GU in EGL.
  (* trailing blanks *)
  assert (Hdts : drop_trailing_spaces (core_units gl ++ repeat (plainu 32) (gl_blanks gl)) = core_units gl).
  { rewrite (dts_app_nil _ _ (dts_spaces _)). unfold core_units. fold GU. destruct (gl_dir gl).
    - rewrite !app_assoc. now apply dts_keep.
    - rewrite app_nil_r, EGL, !app_assoc. now apply dts_keep. }
  rewrite Hdts. unfold core_units. fold GU.
  (* negation *)
  assert (Hneg : gstage_neg ((if gl_neg gl then [plainu 33] else []) ++ (if gl_lead gl then [plainu 47] else []) ++
                             GU ++ (if gl_dir gl then [plainu 47] else []))
                 = (gl_neg gl, (if gl_lead gl then [plainu 47] else []) ++ GU ++ (if gl_dir gl then [plainu 47] else []))).
  { destruct (gl_neg gl); [reflexivity|]. cbn [app]. destruct (gl_lead gl); [reflexivity|].
    cbn [app]. rewrite EGU. cbn [app gstage_neg]. now rewrite G33. }
  rewrite Hneg.
  set (Y := (if gl_lead gl then [plainu 47] else []) ++ GU).
  assert (HY : (if gl_lead gl then [plainu 47] else []) ++ GU ++ (if gl_dir gl then [plainu 47] else [])
               = Y ++ (if gl_dir gl then [plainu 47] else [])) by (unfold Y; now rewrite app_assoc).
  rewrite HY.
  assert (HYne : exists y0 yr, Y ++ (if gl_dir gl then [plainu 47] else []) = y0 :: yr).
  { unfold Y. rewrite EGU. destruct (gl_lead gl); cbn [app]; eauto. }
  destruct HYne as (y0 & yr & EY). rewrite EY. rewrite <- EY.
  (* directory-only *)
  assert (Hdir : gstage_dir (Y ++ (if gl_dir gl then [plainu 47] else [])) = (gl_dir gl, Y)).
  { unfold gstage_dir. destruct (gl_dir gl).
    - rewrite rev_app_distr. cbn [rev app]. change (raw (plainu 47) 47) with true. cbv iota. now rewrite rev_involutive.
    - rewrite app_nil_r. unfold Y. rewrite EGL, app_assoc, rev_app_distr. cbn [rev app]. now rewrite L47. }
  rewrite Hdir.
  (* anchoring *)
  assert (Hanch : existsb (fun u => raw u 47) Y = gl_lead gl || match gl_pieces gl with _ :: _ :: _ => true | _ => false end).
  { unfold Y. rewrite existsb_app. unfold GU. rewrite (glob_units_anchored _ Hg Hl). destruct (gl_lead gl); reflexivity. }
  assert (Hlead : gstage_lead Y = GU).
  { unfold Y. destruct (gl_lead gl); [reflexivity|]. cbn [app]. rewrite EGU. cbn [gstage_lead]. now rewrite G47. }
  cbv zeta. rewrite Hanch, Hlead. unfold GU. rewrite (split_glob _ Hg Hl). rewrite !map_map.
  unfold git_cps. f_equal. f_equal.
  destruct (gl_lead gl || match gl_pieces gl with _ :: _ :: _ => true | _ => false end).
  - apply map_ext_in. intros p Hin. rewrite forallb_forall in Hpok, Hl. now apply piece_anchored_cpat; [apply Hpok|apply Hl].
  - f_equal. apply map_ext_in. intros p Hin. rewrite forallb_forall in Hl. apply piece_simple_cpat. now apply Hl.
Qed.
