(* Proofs/LinesProofs.v — facts connecting Model/Lines.v to lists of lines *)
From RG Require Import Base.Bytes Base.BytesFacts Model.Lines Spec.GrepSpec.

Ltac len := cbn [length] in *; rewrite ?app_length in *; cbn [length] in *; lia.

Section L.
  Variable ltb : byte.

  (* a complete line: a body without the terminator byte, then the terminator *)
  Definition terminated (l : bytes) : Prop :=
    exists body, l = body ++ [ltb] /\ forallb (fun x => negb (ltb =? x)%N) body = true.
  (* a trailing partial line: non-empty, no terminator byte *)
  Definition partial (l : bytes) : Prop :=
    l <> [] /\ forallb (fun x => negb (ltb =? x)%N) l = true.

  Definition no_lt (l : bytes) : Prop := forallb (fun x => negb (ltb =? x)%N) l = true.

  Lemma terminated_nonempty l : terminated l -> l <> [].
  Proof. intros (b & -> & _). destruct b; discriminate. Qed.

  Lemma terminated_length l : terminated l -> 1 <= length l.
  Proof. intros (b & -> & _). len. Qed.

  Lemma find_byte_nolt l : no_lt l -> find_byte ltb l = None.
  Proof. intro H. apply find_index_none. exact H. Qed.

  Lemma find_byte_app_nolt pre rest : no_lt pre ->
    find_byte ltb (pre ++ rest) = option_map (fun i => length pre + i) (find_byte ltb rest).
  Proof.
    unfold find_byte, memchr, no_lt. induction pre as [|x pre IH]; cbn [app forallb find_index length]; intro H.
    - destruct (find_index _ rest); reflexivity.
    - apply andb_true_iff in H as [Hx Hp]. apply negb_true_iff in Hx. rewrite Hx.
      rewrite IH by exact Hp. destruct (find_index _ rest); reflexivity.
  Qed.

  Lemma find_byte_terminated l rest : terminated l -> find_byte ltb (l ++ rest) = Some (length l - 1).
  Proof.
    intros (b & -> & Hb). rewrite <- app_assoc. rewrite find_byte_app_nolt by exact Hb.
    cbn [app]. unfold find_byte, memchr. cbn [find_index]. rewrite N.eqb_refl. cbn. f_equal. len.
  Qed.

  (* line_step on  pre ++ l ++ rest  at  |pre|  with end bound covering l *)
  Lemma line_step_terminated pre l rest en : terminated l ->
    length pre + length l <= en ->
    line_step ltb (pre ++ l ++ rest) (length pre) en = Some (length pre, length pre + length l).
  Proof.
    intros Ht Hen. unfold line_step.
    assert (Hl := terminated_length l Ht).
    assert (Hsk : skipn (length pre) (firstn en (pre ++ l ++ rest)) = l ++ firstn (en - length pre - length l) rest).
    { rewrite firstn_app. rewrite firstn_all2 by lia. rewrite skipn_app. rewrite skipn_all. cbn [app].
      replace (length pre - length pre) with 0 by lia. cbn [skipn].
      rewrite firstn_app. rewrite firstn_all2 by lia. reflexivity. }
    rewrite Hsk. rewrite find_byte_terminated by exact Ht. f_equal. f_equal. lia.
  Qed.

  Lemma line_step_partial pre l : partial l ->
    line_step ltb (pre ++ l) (length pre) (length (pre ++ l)) = Some (length pre, length (pre ++ l)).
  Proof.
    intros [Hne Hn]. unfold line_step. rewrite firstn_all.
    rewrite skipn_app, skipn_all. replace (length pre - length pre) with 0 by lia. cbn [skipn app].
    rewrite find_byte_nolt by exact Hn.
    destruct (Nat.ltb_spec (length pre) (length (pre ++ l))) as [H|H]; [reflexivity|].
    destruct l; [congruence|]. len.
  Qed.

  Lemma line_step_end buf en p : en <= p -> line_step ltb buf p en = None.
  Proof.
    intro H. unfold line_step.
    assert (Hl : length (firstn en buf) <= en) by (rewrite firstn_length; lia).
    rewrite skipn_all2 by lia. unfold find_byte, memchr. cbn [find_index].
    destruct (Nat.ltb_spec p (length (firstn en buf))); [lia|reflexivity].
  Qed.

  Lemma sub_mid {A} (pre l rest : list A) :
    sub (pre ++ l ++ rest) (length pre) (length pre + length l) = l.
  Proof.
    unfold sub. rewrite skipn_app, skipn_all. replace (length pre - length pre) with 0 by lia.
    cbn [skipn app]. replace (length pre + length l - length pre) with (length l) by lia.
    rewrite firstn_app. rewrite firstn_all. replace (length l - length l) with 0 by lia. cbn. apply app_nil_r.
  Qed.

  Lemma count_lt_app a b : count_lt ltb (a ++ b) = count_lt ltb a + count_lt ltb b.
  Proof. unfold count_lt. rewrite filter_app, app_length. reflexivity. Qed.

  Lemma count_lt_nolt l : no_lt l -> count_lt ltb l = 0.
  Proof.
    unfold count_lt, no_lt. induction l as [|x l IH]; cbn [forallb filter]; intro H; [reflexivity|].
    apply andb_true_iff in H as [Hx Hl]. apply negb_true_iff in Hx. rewrite Hx. now apply IH.
  Qed.

  Lemma count_lt_terminated l : terminated l -> count_lt ltb l = 1.
  Proof.
    intros (b & -> & Hb). rewrite count_lt_app, count_lt_nolt by exact Hb.
    unfold count_lt. cbn. now rewrite N.eqb_refl.
  Qed.

  Lemma count_lt_concat ls : Forall terminated ls -> count_lt ltb (concat ls) = length ls.
  Proof.
    induction 1 as [|l ls Hl Hls IH]; [reflexivity|].
    cbn [concat length]. rewrite count_lt_app, count_lt_terminated, IH by assumption. reflexivity.
  Qed.

  (* ---- split_lines ---- *)
  Lemma split_lines_concat s : concat (split_lines ltb s) = s.
  Proof.
    induction s as [|b r IH]; [reflexivity|]. cbn [split_lines].
    destruct (b =? ltb)%N; [cbn; now rewrite IH|].
    destruct (split_lines ltb r) as [|l ls]; cbn in *; [now rewrite <- IH|now rewrite <- IH].
  Qed.

  (* the shape of a split: complete lines, then possibly one partial line *)
  Inductive lines_shape : list bytes -> Prop :=
  | LSnil : lines_shape []
  | LSlast l : partial l -> lines_shape [l]
  | LScons l ls : terminated l -> lines_shape ls -> lines_shape (l :: ls).

  Lemma split_lines_shape s : lines_shape (split_lines ltb s).
  Proof.
    induction s as [|b r IH]; [constructor|]. cbn [split_lines].
    destruct (N.eqb_spec b ltb) as [->|Hb].
    - apply LScons; [|exact IH]. exists []. split; reflexivity.
    - assert (Hnb : negb (ltb =? b)%N = true) by (apply negb_true_iff, N.eqb_neq; congruence).
      inversion IH as [E|l Hp E|l ls Ht Hs E].
      + apply LSlast. split; [discriminate|]. cbn. now rewrite Hnb.
      + apply LSlast. destruct Hp as [Hne Hn]. split; [discriminate|]. cbn. now rewrite Hnb.
      + apply LScons; [|exact Hs]. destruct Ht as (body & -> & Hbody).
        exists (b :: body). split; [reflexivity|]. cbn. now rewrite Hnb.
  Qed.

  Lemma shape_lengths ls : lines_shape ls -> Forall (fun l => 1 <= length l) ls.
  Proof.
    induction 1 as [|l Hp|l ls Ht Hs IH].
    - constructor.
    - constructor; [|constructor]. destruct Hp as [Hne _]. destruct l; [congruence|cbn; lia].
    - constructor; [|exact IH]. now apply terminated_length.
  Qed.

  Lemma lines_count_le ls : Forall (fun l : bytes => 1 <= length l) ls -> length ls <= length (concat ls).
  Proof.
    induction 1 as [|l ls Hl _ IH]; [cbn; lia|]. cbn [concat length]. rewrite app_length. lia.
  Qed.

  (* ---- rfind_byte / preceding ---- *)
  Lemma rfind_nolt l : no_lt l -> rfind_byte ltb l = None.
  Proof.
    unfold no_lt. induction l as [|x l IH]; cbn [forallb rfind_byte]; intro H; [reflexivity|].
    apply andb_true_iff in H as [Hx Hl]. rewrite IH by exact Hl.
    apply negb_true_iff in Hx. rewrite N.eqb_sym in Hx. now rewrite Hx.
  Qed.

  Lemma rfind_app_term a body : no_lt body -> rfind_byte ltb (a ++ ltb :: body) = Some (length a).
  Proof.
    intro Hb. induction a as [|x a IH]; cbn [app rfind_byte length].
    - rewrite rfind_nolt by exact Hb. now rewrite N.eqb_refl.
    - now rewrite IH.
  Qed.

  Lemma firstn_app_exact {A} (a b : list A) : firstn (length a) (a ++ b) = a.
  Proof. rewrite firstn_app, firstn_all. replace (length a - length a) with 0 by lia. cbn. apply app_nil_r. Qed.

  Lemma Forall_app_inv {A} (P : A -> Prop) a b : Forall P (a ++ b) -> Forall P a /\ Forall P b.
  Proof. intro H. apply Forall_app in H. exact H. Qed.

  Lemma concat_firstn_le {A} (l : list (list A)) k : length (concat (firstn k l)) <= length (concat l).
  Proof.
    revert k; induction l as [|x l IH]; intros [|k]; cbn [firstn concat length]; try lia.
    rewrite !app_length. specialize (IH k). lia.
  Qed.

  Lemma preceding_loop_lines : forall count ls body rest,
    Forall terminated ls -> no_lt body ->
    preceding_loop ltb (concat ls ++ body ++ rest) (length (concat ls) + length body) count
    = length (concat (firstn (length ls - count) ls)).
  Proof.
    induction count as [|c IH]; intros ls body rest Hls Hb.
    - destruct (rev ls) as [|l rl] eqn:Er.
      + apply (f_equal (@rev _)) in Er. rewrite rev_involutive in Er. subst ls. cbn [rev concat app length Nat.add].
        cbn [preceding_loop]. rewrite firstn_app_exact. now rewrite rfind_nolt.
      + apply (f_equal (@rev _)) in Er. rewrite rev_involutive in Er. cbn [rev] in Er. subst ls.
        apply Forall_app_inv in Hls as [Hls' Hl]. inversion Hl as [|? ? Ht _]; subst.
        destruct Ht as (bl & -> & Hbl).
        rewrite Nat.sub_0_r, firstn_all.
        cbn [preceding_loop].
        replace (length (concat (rev rl ++ [bl ++ [ltb]])) + length body)
          with (length (concat (rev rl ++ [bl ++ [ltb]]) ++ body)) by len.
        rewrite app_assoc, firstn_app_exact.
        rewrite concat_app. cbn [concat]. rewrite app_nil_r. rewrite <- !app_assoc. cbn [app].
        rewrite app_assoc. rewrite rfind_app_term by exact Hb. f_equal. len.
    - destruct (rev ls) as [|l rl] eqn:Er.
      + apply (f_equal (@rev _)) in Er. rewrite rev_involutive in Er. subst ls. cbn [rev concat app length Nat.add].
        cbn [preceding_loop]. rewrite firstn_app_exact. now rewrite rfind_nolt.
      + apply (f_equal (@rev _)) in Er. rewrite rev_involutive in Er. cbn [rev] in Er. subst ls.
        apply Forall_app_inv in Hls as [Hls' Hl]. inversion Hl as [|? ? Ht _]; subst.
        destruct Ht as (bl & -> & Hbl).
        cbn [preceding_loop].
        replace (length (concat (rev rl ++ [bl ++ [ltb]])) + length body)
          with (length (concat (rev rl ++ [bl ++ [ltb]]) ++ body)) by len.
        rewrite app_assoc, firstn_app_exact.
        rewrite concat_app. cbn [concat]. rewrite app_nil_r. rewrite <- !app_assoc. cbn [app].
        rewrite (app_assoc (concat (rev rl)) bl). rewrite rfind_app_term by exact Hb.
        assert (Hn : length (rev rl ++ [bl ++ [ltb]]) - S c = length (rev rl) - c)
          by (rewrite app_length; cbn [length]; lia).
        rewrite ?app_length. cbn [length]. rewrite ?firstn_app.
        replace (length (rev rl) + 1 - S c) with (length (rev rl) - c) by lia.
        replace (length (rev rl) - c - length (rev rl)) with 0 by lia.
        cbn [firstn]. rewrite ?app_nil_r.
        destruct (Nat.eqb_spec (length (concat (rev rl)) + length bl) 0) as [E0|E0].
        * assert (Hc : concat (rev rl) = []) by (destruct (concat (rev rl)); [reflexivity|cbn in E0; lia]).
          pose proof (concat_firstn_le (rev rl) (length (rev rl) - c)) as Hlen.
          rewrite Hc in Hlen. cbn in Hlen. lia.
        * apply (IH (rev rl) bl (ltb :: body ++ rest) Hls' Hbl).
  Qed.

  Lemma preceding_lines ls count : Forall terminated ls ->
    preceding ltb (concat ls) count = length (concat (firstn (length ls - S count) ls)).
  Proof.
    intro Hls. unfold preceding, preceding_by_pos.
    destruct (rev ls) as [|l rl] eqn:Er.
    - apply (f_equal (@rev _)) in Er. rewrite rev_involutive in Er. subst ls. reflexivity.
    - apply (f_equal (@rev _)) in Er. rewrite rev_involutive in Er. cbn [rev] in Er. subst ls.
      apply Forall_app_inv in Hls as [Hls' Hl]. inversion Hl as [|? ? Ht _]; subst.
      destruct Ht as (bl & -> & Hbl).
      rewrite concat_app. cbn [concat]. rewrite app_nil_r.
      set (buf := concat (rev rl) ++ bl ++ [ltb]).
      assert (Hlen : length buf = length (concat (rev rl)) + length bl + 1) by (unfold buf; len).
      destruct (Nat.eqb_spec (length buf) 0) as [E|E]; [lia|].
      assert (Hnth : nth_error buf (length buf - 1) = Some ltb).
      { unfold buf. rewrite app_assoc. rewrite nth_error_app2 by len.
        replace (length ((concat (rev rl) ++ bl) ++ [ltb]) - 1 - length (concat (rev rl) ++ bl)) with 0 by len.
        reflexivity. }
      rewrite Hnth, N.eqb_refl.
      replace (length buf - 1) with (length (concat (rev rl)) + length bl) by lia.
      unfold buf. rewrite (preceding_loop_lines count (rev rl) bl [ltb] Hls' Hbl).
      rewrite app_length. cbn [length].
      replace (length (rev rl) + 1 - S count) with (length (rev rl) - count) by lia.
      rewrite firstn_app. replace (length (rev rl) - count - length (rev rl)) with 0 by lia.
      cbn [firstn]. now rewrite app_nil_r.
  Qed.
End L.
