(* Run/RunC15.v — entry points of the C15/C08 top-level model for the correspondence driver.
   kind 1501: a whole run.  case =
     (parse mode smode patterns_empty max_count_zero quiet stats sort threads one_file avail
      implicit messages stats_text sep lineterm setup_ok items)
     parse: 0 Err / 1 Special / 2 Ok;  mode: 0 search 1 files 2 types 3 generate;  smode: 0..5
     sort: () | ((reverse kind));  threads: () | (n)
     items: (0 id) walker error | (1) skipped entry | (2 id res out print)   res: 0 match 1 nomatch 2 err 3 pipe
                                                                              print: 0 ok 1 pipe 2 err
   result = (status out ((kind id) ...) (done ids) driver threads)
   kind 1502: the generated decision table for given low-level arguments (threads, driver, quit, stats, collects) *)
From RG Require Import Base.Bytes Base.Val Model.CliTypes Gen.DecisionsCli Model.MainRun.

Definition dec_smode (n : N) : search_mode :=
  match n with
  | 0 => SMStandard | 1 => SMFilesWithMatches | 2 => SMFilesWithoutMatch | 3 => SMCount | 4 => SMCountMatches
  | _ => SMJSON
  end%N.
Definition dec_mode (m sm : N) : mode :=
  match m with 0 => MSearch (dec_smode sm) | 1 => MFiles | 2 => MTypes | _ => MGenerate end%N.
Definition dec_skind (n : N) : sort_kind :=
  match n with 0 => SKPath | 1 => SKLastModified | 2 => SKLastAccessed | _ => SKCreated end%N.
Definition dec_sort (v : val) : option sort_mode :=
  as_option (fun p => {| sm_reverse := as_bool (fld 0 p); sm_kind := dec_skind (as_N (fld 1 p)) |}) v.
Definition dec_res (n : N) : sres := match n with 0 => SMatch | 1 => SNoMatch | 2 => SErr | _ => SPipe end%N.
Definition dec_pres (n : N) : pres := match n with 0 => POk | 1 => PPipe | _ => PErr end%N.
Definition dec_item (v : val) : item :=
  match as_N (fld 0 v) with
  | 0%N => IErr (as_N (fld 1 v))
  | 1%N => ISkip
  | _ => IHay {| h_id := as_N (fld 1 v); h_res := dec_res (as_N (fld 2 v)); h_out := as_bytes (fld 3 v);
                 h_print := dec_pres (as_N (fld 4 v)) |}
  end.

Definition dec_low (v : val) : low :=
  {| l_mode := dec_mode (as_N (fld 1 v)) (as_N (fld 2 v));
     l_patterns_empty := as_bool (fld 3 v); l_max_count_zero := as_bool (fld 4 v);
     l_quiet := as_bool (fld 5 v); l_stats := as_bool (fld 6 v);
     l_sort := dec_sort (fld 7 v); l_threads := as_option as_N (fld 8 v);
     l_one_file := as_bool (fld 9 v); l_avail := as_N (fld 10 v) |}.

Definition dec_base (v : val) : cfg :=
  {| c_quiet := false; c_quit_after_match := false;
     c_implicit_path := as_bool (fld 11 v); c_messages := as_bool (fld 12 v);
     c_stats := Some (as_bytes (fld 13 v)); c_collects := false;
     c_sep := as_option as_bytes (fld 14 v); c_lineterm := as_bytes (fld 15 v);
     c_setup_ok := as_bool (fld 16 v) |}.

Definition enc_diag (d : diag) : val :=
  match d with
  | DgWalk id => VL [VN 0%N; VN id]
  | DgFile id => VL [VN 1%N; VN id]
  | DgPrint id => VL [VN 2%N; VN id]
  | DgNothingSearched => VL [VN 3%N; VN 0%N]
  | DgFatal => VL [VN 4%N; VN 0%N]
  end.
Definition enc_driver (d : driver) : N :=
  match d with DNone => 0 | DSearch => 1 | DSearchParallel => 2 | DFiles => 3 | DFilesParallel => 4
             | DTypes => 5 | DGenerate => 6 end%N.

Definition run_case (v : val) : val :=
  let p := match as_N (fld 0 v) with 0%N => ParseErr | 1%N => ParseSpecial | _ => ParseOk end in
  let l := dec_low v in
  let o := run_model p l (dec_base v) (map dec_item (as_list (fld 17 v))) in
  VL [ VN (o_status o); of_bytes (o_out o); VL (map enc_diag (o_diags o)); VL (map VN (o_done o));
       VN (enc_driver (choose_driver (l_mode l) (matches_possible (l_patterns_empty l) (l_max_count_zero l))
                         (low_threads l)));
       VN (low_threads l) ].

(* the decisions alone, same argument layout *)
Definition run_decisions (v : val) : val :=
  let l := dec_low v in
  let c := cfg_of_low l (dec_base v) in
  VL [ VN (low_threads l);
       VN (enc_driver (choose_driver (l_mode l) (matches_possible (l_patterns_empty l) (l_max_count_zero l))
                         (low_threads l)));
       of_bool (c_quit_after_match c); of_bool (stats_is_some (l_mode l) (l_stats l)); of_bool (c_collects c);
       of_bool (walk_sorted_by_name (l_sort l)); of_bool (printer_owns_separator (low_threads l)) ].

(* exit_code on the eight flag combinations: (matched quiet errored) *)
Definition run_exit (v : val) : val :=
  VN (exit_code (as_bool (fld 0 v)) (as_bool (fld 1 v)) (as_bool (fld 2 v))).

Definition entry (k : N) (v : val) : option val :=
  match k with
  | 1501%N => Some (run_case v)
  | 1502%N => Some (run_decisions v)
  | 1503%N => Some (run_exit v)
  | _ => None
  end.
