(* Run/RunC06.v — entry point of the C06 walker models for the correspondence driver.
   case = (fs roots cfg fuel)
     fs    = list of inode: (0 size dev) | (1 ((name ino) ...) dev) | (2 target_opt len dev)
     roots = list of (path ino)
     cfg   = (max_depth_opt max_filesize_opt follow same_fs has_filter filter_names hidden rules d5 d15)
     rules = list of (dir_ino ((name dir_only) ...))      -- the .ignore file of that directory
   result = (serial parallel), each an option of the list of outputs
     output = (0 path depth type path_is_symlink) | (1 child_path) | (2 path) *)
From RG Require Import Base.Bytes Base.Val Model.Walk.

Definition decode_inode (v : val) : inode :=
  let k := as_N (fld 0 v) in
  if (k =? 0)%N then {| i_kind := FFile (as_N (fld 1 v)); i_dev := as_N (fld 2 v) |}
  else if (k =? 1)%N then
    {| i_kind := FDir (map (fun p => (as_bytes (fld 0 p), as_nat (fld 1 p))) (as_list (fld 1 v))); i_dev := as_N (fld 2 v) |}
  else {| i_kind := FLink (as_option as_nat (fld 1 v)) (as_N (fld 2 v)); i_dev := as_N (fld 3 v) |}.

Definition base_name (p : bytes) : bytes :=
  (fix go (l acc : bytes) : bytes :=
     match l with [] => acc | c :: r => if (c =? SLASH)%N then go r r else go r acc end) p p.

Definition rules_t := list (nat * list (bytes * bool)).

Definition run_skip (fs : fsys) (hidden : bool) (rules : rules_t) (ig : igstack) (e : dent) : bool :=
  let name := base_name (de_path e) in
  (hidden && match name with c :: _ => (c =? 46)%N | [] => false end) ||
  existsb (fun a =>
    match resolve fs (snd a) with
    | None => false
    | Some ino =>
      existsb (fun r => Nat.eqb (fst r) ino &&
                 existsb (fun nr => bytes_eqb (fst nr) name && (negb (snd nr) || de_is_dir e)) (snd r)) rules
    end) ig.

Definition run_filter (names : list bytes) (e : dent) : bool :=
  negb (existsb (bytes_eqb (base_name (de_path e))) names).

Definition ty_code (t : ftype) : N := match t with TyFile => 0 | TyDir => 1 | TySymlink => 2 end.
Definition of_out (o : out) : val :=
  match o with
  | OEntry e => VL [VN 0; of_bytes (de_path e); of_nat (de_depth e); VN (ty_code (de_ty e));
                    of_bool (de_is_symlink e || de_follow e)]
  | OLoop c => VL [VN 1; of_bytes c]
  | OIoErr p => VL [VN 2; of_bytes p]
  end.

Definition run_walks (v : val) : val :=
  let fs := map decode_inode (as_list (fld 0 v)) in
  let roots := map (fun p => (as_bytes (fld 0 p), as_nat (fld 1 p))) (as_list (fld 1 v)) in
  let c := fld 2 v in
  let max_depth := as_option as_nat (fld 0 c) in
  let max_filesize := as_option as_N (fld 1 c) in
  let follow := as_bool (fld 2 c) in
  let same_fs := as_bool (fld 3 c) in
  let has_filter := as_bool (fld 4 c) in
  let filter := run_filter (map as_bytes (as_list (fld 5 c))) in
  let rules := map (fun r => (as_nat (fld 0 r), map (fun nr => (as_bytes (fld 0 nr), as_bool (fld 1 nr))) (as_list (fld 1 r))))
                   (as_list (fld 7 c)) in
  let skip := run_skip fs (as_bool (fld 6 c)) rules in
  let d5 := as_bool (fld 8 c) in
  let d15 := as_bool (fld 9 c) in
  let fuel := as_nat (fld 3 v) in
  VL [ of_option (of_list of_out)
         (serial_walk_with fs max_depth max_filesize follow same_fs has_filter filter skip d5 d15 fuel roots);
       of_option (of_list of_out)
         (par_walk fs max_depth max_filesize follow same_fs has_filter filter skip fuel roots) ].

Definition entry (k : N) (v : val) : option val :=
  match k with
  | 601%N => Some (run_walks v)
  | _ => None
  end.
