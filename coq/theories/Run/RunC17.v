(* Run/RunC17.v — entry points of the C17 models for the correspondence driver *)
From RG Require Import Base.Bytes Base.Val Model.Decode.

(* label ids of the harness: 0 utf-8, 1 utf-16le, 2 utf-16be, 3 latin1 (windows-1252), 4 shift_jis *)
Definition dec_label (n : nat) : enc :=
  match n with 0 => Utf8 | 1 => Utf16le | 2 => Utf16be | _ => OtherEnc (N.of_nat n) end.
Definition dec_mode (m l : val) : encoding_mode :=
  match as_nat m with 0 => EncAuto | 1 => EncSome (dec_label (as_nat l)) | _ => EncDisabled end.
Definition enc_enc (e : option enc) : val :=
  match e with
  | None => VL []
  | Some Utf8 => VL [of_nat 0] | Some Utf16le => VL [of_nat 1] | Some Utf16be => VL [of_nat 2]
  | Some (OtherEnc n) => VL [VN n]
  end.

(* kind 1701: (big_endian chunks) -> (streamed whole) *)
Definition run_decoder (v : val) : val :=
  let be := as_bool (fld 0 v) in
  let chunks := map as_bytes (as_list (fld 1 v)) in
  VL [of_bytes (u16_stream be u16_init chunks); of_bytes (utf16_to_utf8 be (concat chunks))].

(* kind 1703: (mode label input) -> (searched-bytes-option needs_transcoding effective_decoder) *)
Definition run_searched (v : val) : val :=
  let m := dec_mode (fld 0 v) (fld 1 v) in
  let input := as_bytes (fld 2 v) in
  let c := enc_config_of m in
  VL [of_option of_bytes (searched_bytes m input);
      of_bool (slice_needs_transcoding c input);
      enc_enc (effective_decoder (decode_settings_of c) input)].

(* kind 1705: (chunks) -> (streamed whole): the UTF-8 decoder with BOM removal *)
Definition run_decoder8 (v : val) : val :=
  let chunks := map as_bytes (as_list (fld 0 v)) in
  VL [of_bytes (u8_stream u8_init chunks); of_bytes (utf8_to_utf8 (concat chunks))].

Definition entry (k : N) (v : val) : option val :=
  match k with
  | 1701%N => Some (run_decoder v)
  | 1703%N => Some (run_searched v)
  | 1705%N => Some (run_decoder8 v)
  | _ => None
  end.
