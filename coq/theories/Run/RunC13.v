(* Run/RunC13.v — the multi-line reference (kind 1301; the model itself runs through kind 301), and
   the multi-line model and reference with a TABULATED matcher (kind 1303): the harness tabulates the
   real regex engine's find_at over the input, so model, reference and code see the same matches. *)
From RG Require Import Base.Bytes Base.Val Model.Lines Model.SearcherCore Model.Glue Model.ScriptedMatcher
  Spec.GrepSpec Spec.MultiLineSpec Run.RunC03.

Definition run_ml_ref (v : val) : val :=
  let cfg := decode_cfg (fld 0 v) in
  let M := decode_matcher cfg (fld 1 v) in
  of_result (RunOk (ml_ref cfg (m_find_at M) (as_bytes (fld 2 v)))).

(* table[p] = () | (a b) *)
Definition decode_entry (v : val) : option (nat * nat) :=
  match as_list v with
  | a :: b :: _ => Some (as_nat a, as_nat b)
  | _ => None
  end.

Definition table_matcher (t : list (option (nat * nat))) : matcher :=
  {| m_is_match := fun _ => false; m_find_candidate := fun _ => None; m_line_term := None;
     m_nonmatching := fun _ => false;
     m_find_at := fun _ p => nth p t None |}.

(* case: (cfg table input reply) -> (model-run reference) *)
Definition run_ml_table (v : val) : val :=
  let cfg := decode_cfg (fld 0 v) in
  let M := table_matcher (map decode_entry (as_list (fld 1 v))) in
  let s := as_bytes (fld 2 v) in
  VL [of_result (multi_line_run cfg M (decode_reply (fld 3 v)) s);
      of_result (RunOk (ml_ref cfg (m_find_at M) s))].

Definition entry (k : N) (v : val) : option val :=
  match k with
  | 1301%N => Some (run_ml_ref v)
  | 1303%N => Some (run_ml_table v)
  | _ => None
  end.
