(* Run/RunC13.v — the multi-line reference (kind 1301); the model itself runs through kind 301 *)
From RG Require Import Base.Bytes Base.Val Model.Lines Model.SearcherCore Model.Glue Model.ScriptedMatcher
  Spec.GrepSpec Spec.MultiLineSpec Run.RunC03.

Definition run_ml_ref (v : val) : val :=
  let cfg := decode_cfg (fld 0 v) in
  let M := decode_matcher cfg (fld 1 v) in
  of_result (RunOk (ml_ref cfg (m_find_at M) (as_bytes (fld 2 v)))).

Definition entry (k : N) (v : val) : option val :=
  match k with
  | 1301%N => Some (run_ml_ref v)
  | _ => None
  end.
