(* Run/RunC11.v — entry points of the C11 models (and the regex semantics) for the correspondence
   driver.  HIR value syntax: see harness/src/c11.rs. *)
From RG Require Import Base.Bytes Base.Val Spec.RegexSem Model.RegexTables Model.RegexBuild Model.RegexLiteral.

Definition look_of_N (k : N) : look :=
  nth_N [LStart; LEnd; LStartLF; LEndLF; LStartCRLF; LEndCRLF; LWordAscii; LWordAsciiNegate;
         LWordUnicode; LWordUnicodeNegate; LWordStartAscii; LWordEndAscii; LWordStartUnicode;
         LWordEndUnicode; LWordStartHalfAscii; LWordEndHalfAscii; LWordStartHalfUnicode;
         LWordEndHalfUnicode] k LStart.
Definition N_of_look (l : look) : N :=
  match l with
  | LStart => 0 | LEnd => 1 | LStartLF => 2 | LEndLF => 3 | LStartCRLF => 4 | LEndCRLF => 5
  | LWordAscii => 6 | LWordAsciiNegate => 7 | LWordUnicode => 8 | LWordUnicodeNegate => 9
  | LWordStartAscii => 10 | LWordEndAscii => 11 | LWordStartUnicode => 12 | LWordEndUnicode => 13
  | LWordStartHalfAscii => 14 | LWordEndHalfAscii => 15 | LWordStartHalfUnicode => 16
  | LWordEndHalfUnicode => 17
  end%N.

Definition decode_ranges (v : val) : list (N * N) :=
  map (fun r => (as_N (fld 0 r), as_N (fld 1 r))) (as_list v).

Fixpoint decode_hir (v : val) : hir :=
  match v with
  | VL (VN t :: args) =>
    if (t =? 1)%N then HLit (as_bytes (nth 0 args (VN 0)))
    else if (t =? 2)%N then HClassB (decode_ranges (nth 0 args (VN 0)))
    else if (t =? 3)%N then HClassU (decode_ranges (nth 0 args (VN 0)))
    else if (t =? 4)%N then HLook (look_of_N (as_N (nth 0 args (VN 0))))
    else if (t =? 5)%N then
      match args with
      | [mn; mx; g; sub] => HRep (as_nat mn) (as_option as_nat mx) (as_bool g) (decode_hir sub)
      | _ => HEmpty
      end
    else if (t =? 6)%N then
      match args with [sub] => HCap (decode_hir sub) | _ => HEmpty end
    else if (t =? 7)%N then
      match args with [VL subs] => HConcat (map decode_hir subs) | _ => HEmpty end
    else if (t =? 8)%N then
      match args with [VL subs] => HAlt (map decode_hir subs) | _ => HEmpty end
    else HEmpty
  | _ => HEmpty
  end.

Definition encode_ranges (rs : list (N * N)) : val := VL (map (fun r => VL [VN (fst r); VN (snd r)]) rs).

Fixpoint encode_hir (h : hir) : val :=
  match h with
  | HEmpty => VL [VN 0]
  | HLit b => VL [VN 1; of_bytes b]
  | HClassB rs => VL [VN 2; encode_ranges rs]
  | HClassU rs => VL [VN 3; encode_ranges rs]
  | HLook l => VL [VN 4; VN (N_of_look l)]
  | HRep mn mx g sub => VL [VN 5; of_nat mn; of_option of_nat mx; of_bool g; encode_hir sub]
  | HCap sub => VL [VN 6; encode_hir sub]
  | HConcat hs => VL [VN 7; VL (map encode_hir hs)]
  | HAlt hs => VL [VN 8; VL (map encode_hir hs)]
  end.

(* options: (lt ban crlf unicode word whole_line ...) as in harness/src/c11.rs `builder` *)
Definition decode_config (o : val) : rconfig :=
  {| c_line_terminator :=
       if as_bool (fld 2 o) then Some RTCrlf
       else match as_list (fld 0 o) with [] => None | b :: _ => Some (RTByte (as_N b)) end;
     c_ban := as_option as_N (fld 1 o);
     c_crlf := as_bool (fld 2 o);
     c_unicode := as_bool (fld 3 o);
     c_word := as_bool (fld 4 o);
     c_whole_line := as_bool (fld 5 o) |}.

Definition encode_err (e : rerr) : val :=
  match e with
  | ENotAllowed b => VL [VN 1; VN 1; VN b]
  | EInvalidLineTerminator b => VL [VN 1; VN 2; VN b]
  | EBanned b => VL [VN 1; VN 3; VN b]
  end.
Definition encode_lt (lt : option rterm) : val :=
  match lt with None => VL [] | Some RTCrlf => VL [VN 1] | Some (RTByte b) => VL [VN 0; VN b] end.

(* 1101: (options translated) -> (0 final adv_lt) | (1 kind byte); the rebuild between the two CRLF passes is
   done by the harness: CRLF cases are driven pass by pass through kind 1107 (see tools/props/C11.py) *)
Definition run_build (v : val) : val :=
  match build (fun h => h) (decode_config (fld 0 v)) (decode_hir (fld 1 v)) with
  | inr e => encode_err e
  | inl (f, lt) => VL [VN 0; encode_hir f; encode_lt lt]
  end.

Definition all_bytes : list N := map N.of_nat (seq 0 256).
Definition encode_seq (s : seq_t) : val :=
  of_option (fun ls => VL (map (fun l => VL [of_bytes (l_bytes l); of_bool (l_exact l)]) ls)) s.

(* 1102: (options accelerated final) -> (nmb (rawseq prefix) untagged inner_literals has_fast adv_lt) *)
Definition run_passes (v : val) : val :=
  let c := decode_config (fld 0 v) in
  let h := decode_hir (fld 2 v) in
  let t := extract extractor_new h in
  let inner := inner_literals c (as_bool (fld 1 v)) h in
  VL [ VL (map (fun b => of_bool (non_matching_bytes h b)) all_bytes);
       VL [encode_seq (t_seq t); of_bool (t_prefix t)];
       encode_seq (extract_untagged extractor_new h);
       encode_seq inner;
       of_bool (match fast_line_literals inner with Some _ => true | None => false end);
       encode_lt (advertised_terminator c h) ].

(* 1103: (final lines) -> per line the list of (start (ends..)) with a non-empty end list *)
Definition run_lines (v : val) : val :=
  let h := decode_hir (fld 0 v) in
  VL (map (fun l => VL (map (fun p => VL [of_nat (fst p); VL (map of_nat (snd p))])
                            (all_matches_sem h (as_bytes l))))
          (as_list (fld 1 v))).

(* 1105: (k haystack) -> look verdict at every offset 0..len *)
Definition run_look (v : val) : val :=
  let s := as_bytes (fld 1 v) in
  VL (map (fun at_ => of_bool (look_matches (look_of_N (as_N (fld 0 v))) s at_)) (seq 0 (S (length s)))).

(* 1107: (hir crlf byte banbyte) -> (strip_result ban_result) on an arbitrary (normalised) HIR *)
Definition run_strip_ban (v : val) : val :=
  let h := decode_hir (fld 0 v) in
  let lt := if as_bool (fld 1 v) then RTCrlf else RTByte (as_N (fld 2 v)) in
  VL [ match strip_from_match (fun h => h) h lt with inl h' => VL [VN 0; encode_hir h'] | inr e => encode_err e end;
       match ban_check (as_N (fld 3 v)) h with None => VL [VN 0] | Some e => encode_err e end ].

(* 1190: (cps bytes) -> (is_word_cp per cp, rank per byte) *)
Definition run_tables (v : val) : val :=
  VL [ VL (map (fun c => if is_scalar (as_N c) then of_bool (is_word_cp (as_N c)) else VN 2) (as_list (fld 0 v)));
       VL (map (fun b => VN (rank (as_N b))) (as_list (fld 1 v))) ].

(* 1111: (options patterns) -> (is_fixed_strings  wrap(fixed_hir)) ; options as for 1101, with icase = field 6,
   smart = field 7, fixed = field 8 *)
Definition run_fixed (v : val) : val :=
  let o := fld 0 v in
  let c := decode_config o in
  let pats := map as_bytes (as_list (fld 1 v)) in
  VL [ of_bool (is_fixed_strings (as_bool (fld 6 o)) (as_bool (fld 7 o)) (as_bool (fld 8 o)) (c_line_terminator c) pats);
       encode_hir (wrap c (fixed_hir pats)) ].

Definition entry (k : N) (v : val) : option val :=
  if (k =? 1101)%N then Some (run_build v)
  else if (k =? 1102)%N then Some (run_passes v)
  else if (k =? 1103)%N then Some (run_lines v)
  else if (k =? 1105)%N then Some (run_look v)
  else if (k =? 1107)%N then Some (run_strip_ban v)
  else if (k =? 1111)%N then Some (run_fixed v)
  else if (k =? 1190)%N then Some (run_tables v)
  else None.
