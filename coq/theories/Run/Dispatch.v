(* Run/Dispatch.v — one entry for the OCaml driver: kind number -> model function *)
From RG Require Import Base.Bytes Base.Val.
From RG Require Run.RunC19.

Definition dispatch (k : N) (v : val) : val :=
  match k with
  | 1901%N => RunC19.run_interpolate v
  | 1902%N => RunC19.run_replace v
  | _ => VL []
  end.
