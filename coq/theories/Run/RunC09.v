(* Run/RunC09.v — kind 901: the standard printer with --max-columns / --max-columns-preview / --trim
   (Model/StandardCols.v) for the correspondence driver.

   case  := (env tables files modes gtable)      env tables files: as in Run/RunC10.v
   mode  := (1 <the 14 fields of a standard mode of RunC10> max_columns preview trim)     max_columns := () | (n)
   gtable:= list of (bytes ends)    ends = the `end` of every grapheme of `bytes` (bstr, tabulated by the harness)
   result:= list over modes of (out per_file)    per_file := list of (completed match_count)
            (77) for a mode whose output depends on a byte string missing from gtable; () out of fuel *)
From RG Require Import Base.Bytes Base.Val Model.MatchIter Model.Replace Model.Sink Model.Standard
  Model.StandardCols Run.RunC10.

Definition dec_gtable (v : val) : list (bytes * list nat) :=
  map (fun t => (as_bytes (fld 0 t), map as_nat (as_list (fld 1 t)))) (as_list v).

(* a byte string that is not in the table gets `miss` *)
Definition table_gends (tbl : list (bytes * list nat)) (miss : list nat) (s : bytes) : list nat :=
  match find (fun t => bytes_eqb (fst t) s) tbl with
  | Some t => snd t
  | None => miss
  end.

Definition dec_colcfg (v : val) : colcfg :=
  mkCol (as_option as_nat (fld 15 v)) (as_bool (fld 16 v)) (as_bool (fld 17 v)).

Section RunCols.
  Variable gends : bytes -> list nat.
  Variable find_at : bytes -> nat -> option (nat * nat).
  Variable env : senv.

  Fixpoint run_cols_files (cfg : stdconfig) (cc : colcfg) (files : list file_case) (w : wtr) (acc : list val)
    : option (wtr * list val) :=
    match files with
    | [] => Some (w, acc)
    | f :: r =>
      match standard_run_c gends find_at cfg cc env (fc_path f) w (fc_events f) (fc_fin f) with
      | None => None
      | Some (s, completed) =>
        run_cols_files cfg cc r (sd_wtr s) (acc ++ [VL [of_bool completed; of_nat (sd_match_count s)]])
      end
    end.

  Definition run_cols_mode (files : list file_case) (mode : val) : val :=
    match run_cols_files (dec_stdconfig mode) (dec_colcfg mode) files w_new [] with
    | Some (w, acc) => VL [of_bytes (w_out w); VL acc]
    | None => VL []
    end.
End RunCols.

Fixpoint val_eqb (a b : val) {struct a} : bool :=
  match a, b with
  | VN x, VN y => (x =? y)%N
  | VL l, VL m =>
    (fix go (l : list val) (m : list val) : bool :=
       match l, m with
       | [], [] => true
       | x :: l', y :: m' => val_eqb x y && go l' m'
       | _, _ => false
       end) l m
  | _, _ => false
  end.

(* the model is run with two different answers for byte strings missing from the grapheme table (no grapheme /
   one grapheme ending at 4999, beyond any generated line): an output that depends on a missing entry is reported as (77) *)
Definition run_cols (v : val) : val :=
  let env := dec_env (fld 0 v) in
  let tbls := dec_tables (fld 1 v) in
  let files := map dec_file (as_list (fld 2 v)) in
  let gt := dec_gtable (fld 4 v) in
  VL (map (fun mode =>
             let r1 := run_cols_mode (table_gends gt []) (table_find_at tbls) env files mode in
             let r2 := run_cols_mode (table_gends gt [4999]) (table_find_at tbls) env files mode in
             if val_eqb r1 r2 then r1 else VL [VN 77%N])
          (as_list (fld 3 v))).

Definition entry (k : N) (v : val) : option val :=
  match k with
  | 901%N => Some (run_cols v)
  | _ => None
  end.
