(* Run/RunC18.v — entry points of the C18 model for the correspondence driver.
   kind 1801: search through a command with a byte-counting consumer.
     case = (open_ok spawn_ok out err ok_full ok_early want limit decompress raw)
       want  = size of every read request;  limit = () read to EOF | (n) stop once >= n bytes were consumed
       decompress = 0: search_preprocessor, 1: search_decompress (raw = the file's own bytes)
     result = (kind fed)   kind: 0 Ok, 1 EOpen, 2 ESpawn, 3 ECommand, 4 EClose, 9 out of fuel
   kind 1802: selection.  case = (is_stdin pre_is_some globs_empty glob_is_ignore search_zip has_command)
     result = strategy: 0 stdin 1 preprocess 2 decompress 3 path
   kind 1803: close_is_error on (stdout_open wait_success eof stderr_is_empty)
   kind 1804: flag state machine.  case = list of events: (0 CMD) --pre CMD | (1) --no-pre | (2) -z | (3) --no-search-zip
     result = (model_pre model_zip spec_pre spec_zip); pre = () | (CMD) *)
From Coq Require Import List.
From RG Require Import Base.Bytes Base.Val Model.CliTypes Gen.DecisionsCli Model.Process Model.PreZipFlags Model.PreZipGen Spec.PreZipSpec.

Definition bc_wants (want : nat) (_ : nat) : nat := want.
Definition bc_step (limit : option nat) (n : nat) (b : bytes) : nat * bool :=
  let n' := n + length b in
  (n', match limit with None => true | Some l => Nat.ltb n' l end).

Definition enc_serr (e : serr) : N := match e with EOpen => 1 | ESpawn => 2 | ECommand => 3 | EClose => 4 end%N.

Definition run_child (v : val) : val :=
  let c := {| ch_spawn_ok := as_bool (fld 1 v); ch_out := as_bytes (fld 2 v); ch_err := as_bytes (fld 3 v);
              ch_ok_full := as_bool (fld 4 v); ch_ok_early := as_bool (fld 5 v) |} in
  let want := as_nat (fld 6 v) in
  let limit := as_option as_nat (fld 7 v) in
  let '(res, fed) :=
    if as_bool (fld 8 v)
    then search_decompress nat nat (bc_wants want) (bc_step limit) (fun n => n) 0 (as_bool (fld 0 v)) (as_bytes (fld 9 v)) c
    else search_preprocessor nat nat (bc_wants want) (bc_step limit) (fun n => n) 0 (as_bool (fld 0 v)) c in
  VL [ VN (match res with None => 9%N | Some (inl e) => enc_serr e | Some (inr _) => 0%N end); of_bytes fed ].

Definition run_selection (v : val) : val :=
  let w := {| w_is_stdin := as_bool (fld 0 v); w_pre_is_some := as_bool (fld 1 v); w_globs_empty := as_bool (fld 2 v);
              w_glob_is_ignore := as_bool (fld 3 v); w_search_zip := as_bool (fld 4 v);
              w_has_command := as_bool (fld 5 v) |} in
  VN (match worker_strategy w with StStdin => 0 | StPreprocess => 1 | StDecompress => 2 | StPath => 3 end)%N.

Definition run_close (v : val) : val :=
  of_bool (close_is_error (as_bool (fld 0 v)) (as_bool (fld 1 v)) (as_bool (fld 2 v)) (as_bool (fld 3 v))).

Definition dec_event (v : val) : pz_event :=
  match as_N (fld 0 v) with
  | 0%N => EPre (as_bytes (fld 1 v))
  | 1%N => ENoPre
  | 2%N => EZip
  | _ => ENoZip
  end.

Definition run_flags (v : val) : val :=
  let l := map dec_event (as_list v) in
  let s := gen_final_state l in       (* the rules regenerated from defs.rs *)
  VL [ of_option of_bytes (pz_pre s); of_bool (pz_zip s); of_option of_bytes (spec_pre l); of_bool (spec_zip l) ].

Definition entry (k : N) (v : val) : option val :=
  match k with
  | 1801%N => Some (run_child v)
  | 1802%N => Some (run_selection v)
  | 1803%N => Some (run_close v)
  | 1804%N => Some (run_flags v)
  | _ => None
  end.
