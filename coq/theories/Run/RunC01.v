(* Run/RunC01.v — C01 evaluates its reference HIRs through the regex semantics entry of RunC11
   (kind 1103); it has no model kinds of its own. *)
From RG Require Import Base.Bytes Base.Val.

Definition entry (k : N) (v : val) : option val := None.
