(* Run/RunC01.v — C01 evaluates its reference HIRs through the regex semantics entry of RunC11
   (kind 1103).  Its own kind:
     102  smart case: (uppers icase smart ast) -> (any_uppercase any_literal case_insensitive)
          Model/SmartCase.v from_ast / is_case_insensitive on the AST the harness obtained from the
          regex-syntax parser (harness/src/c01.rs kind 102); `uppers` = the literal code points of the
          pattern for which std's char::is_uppercase answers true.
          ast  ::= (0 tag) | (1 c) | (2 negated cls) | (3 ast) | (4 ast) | (5 (ast ..)) | (6 (ast ..))
                   other     literal  bracketed class   repetition group   alternation  concatenation
          cls  ::= (0 tag) | (1 c) | (2 start end) | (3 negated cls) | (4 (cls ..)) | (5 cls cls)
                   other     literal  range            nested class      union       binary set operation *)
From RG Require Import Base.Bytes Base.Val Model.SmartCase.

Fixpoint decode_cls (v : val) : cls :=
  match v with
  | VL (VN t :: args) =>
    if (t =? 1)%N then CLit (as_N (nth 0 args (VN 0)))
    else if (t =? 2)%N then CRange (as_N (nth 0 args (VN 0))) (as_N (nth 1 args (VN 0)))
    else if (t =? 3)%N then
      match args with [n; k] => CBracketed (as_bool n) (decode_cls k) | _ => COther 99 end
    else if (t =? 4)%N then
      match args with [VL items] => CUnion (map decode_cls items) | _ => COther 99 end
    else if (t =? 5)%N then
      match args with [l; r] => CBinOp (decode_cls l) (decode_cls r) | _ => COther 99 end
    else COther (as_N (nth 0 args (VN 0)))
  | _ => COther 99
  end.

Fixpoint decode_sast (v : val) : sast :=
  match v with
  | VL (VN t :: args) =>
    if (t =? 1)%N then SLit (as_N (nth 0 args (VN 0)))
    else if (t =? 2)%N then
      match args with [n; k] => SClass (as_bool n) (decode_cls k) | _ => SOther 99 end
    else if (t =? 3)%N then match args with [a] => SRep (decode_sast a) | _ => SOther 99 end
    else if (t =? 4)%N then match args with [a] => SGroup (decode_sast a) | _ => SOther 99 end
    else if (t =? 5)%N then match args with [VL l] => SAlt (map decode_sast l) | _ => SOther 99 end
    else if (t =? 6)%N then match args with [VL l] => SConcat (map decode_sast l) | _ => SOther 99 end
    else SOther (as_N (nth 0 args (VN 0)))
  | _ => SOther 99
  end.

Definition run_smart (v : val) : val :=
  let ups := as_bytes (fld 0 v) in
  let upper := fun c => existsb (N.eqb c) ups in
  let a := from_ast upper (decode_sast (fld 3 v)) in
  VL [of_bool (any_uppercase a); of_bool (any_literal a);
      of_bool (is_case_insensitive (as_bool (fld 1 v)) (as_bool (fld 2 v)) a)].

Definition entry (k : N) (v : val) : option val :=
  if (k =? 102)%N then Some (run_smart v) else None.
