(* Run/RunC07.v — replays a trace recorded from the real, deterministically scheduled worker
   threads through the step relation of Model/WalkPar.v (kind 701), and prints what the
   theorems of Props/C07.v predict for a forest (kind 702).

   case 701: (n roots resp slots)
     roots  = list of (0 tree) | (1 k): a good root / a root path whose error entry k goes to the visitor
              (the answer to it is resp k); tree = (id (kid ...)) or a bare number for a leaf
     resp   = list of numbers indexed by node id: 0 Continue, 1 Skip, 2 Quit
     slot   = (w kind recv visit snap) : what worker w did between the yield point `kind` at which it
              was resumed and its next yield point
              kind : 1 push 2 pop 3 steal 4 steal-one-victim 5 deactivate 6 activate 7 is_quit_now
                     8 quit_now 9 sleep 10 exit
              recv : () no receive reported | (0) recv()=None | (1) Quit | (2 id) Work id
              visit: () | (id)    the visitor was called on id
              snap : (active quit_now (len ...)) read when the slot ended
   result 701: (code slot detail steps busy mu0 visited expected all_exited final_active)
     code 0 = every real step is an allowed model step and every observation agrees. *)
From RG Require Import Base.Bytes Base.Val Model.WalkPar Spec.WalkParSpec.

Fixpoint dec_tree (v : val) : tree :=
  match v with
  | VN x => Node (N.to_nat x) []
  | VL l =>
      match l with
      | i :: VL ks :: _ => Node (as_nat i) (map dec_tree ks)
      | i :: _ => Node (as_nat i) []
      | [] => Node 0 []
      end
  end.

Definition dec_resp (l : list val) (x : nat) : walk_state :=
  match as_nat (nth x l (VN 0%N)) with 0 => WContinue | 1 => WSkip | _ => WQuit end.

Fixpoint nat_list_eqb (a b : list nat) : bool :=
  match a, b with
  | [], [] => true
  | x :: a', y :: b' => Nat.eqb x y && nat_list_eqb a' b'
  | _, _ => false
  end.

(* what crossbeam-deque 0.8.5's steal_batch_and_pop does on a LIFO deque when nothing runs
   concurrently: with L messages it takes the 1 + min((L-1)/2, 31) oldest, returns the newest
   of those and pushes the others, oldest first, onto the thief's deque.  This is only the
   harness's expectation for a serialised run; the model allows any non-empty selection. *)
Definition cb_choice (w : nat) (dv : list msg) : choice :=
  let L := length dv in
  let bs := Nat.min ((L - 1) / 2) 31 in
  Steal w (repeat false (L - S bs) ++ repeat true (S bs)) 0.

Record acc := mkacc { a_st : st; a_steps : nat; a_busy : nat }.

Section Replay.
  Variable resp : nat -> walk_state.

  (* one model step, with the variant of Props/C07.v re-checked on the fly *)
  Definition do (a : acc) (c : choice) : acc + nat :=
    let s := a_st a in
    match step resp s c with
    | None => inr 2
    | Some s' =>
        let w := worker_of c in
        let dec := mu s' <? mu s in
        let idle := in_wait_loop (nth w (pcs s) PExit) && in_wait_loop (nth w (pcs s') PExit)
                    && (mu s' =? mu s) in
        if dec || idle then inl (mkacc s' (S (a_steps a)) (a_busy a + if dec then 1 else 0))
        else inr 7
    end.

  Definition msg_matches (m : msg) (r : list val) : bool :=
    match m, r with
    | Quit, [VN 1%N] => true
    | Work t, [VN 2%N; i] => Nat.eqb (tree_id t) (as_nat i)
    | _, _ => false
    end.

  (* the receive report expected after a step that ended in pc p *)
  Definition recv_ok (p : pc) (r : list val) : bool :=
    match p with
    | PCheck (Some m) | PAct m => msg_matches m r
    | PCheck None => match r with [VN 0%N] => true | _ => false end
    | _ => match r with [] => true | _ => false end
    end.

  Definition snap_ok (s : st) (snap : val) : bool :=
    Nat.eqb (active s) (as_nat (fld 0 snap))
    && Bool.eqb (quit_now s) (as_bool (fld 1 snap))
    && nat_list_eqb (map (@length msg) (deq s)) (map as_nat (as_list (fld 2 snap))).

  Definition bind (x : acc + nat) (f : acc -> acc + nat) : acc + nat :=
    match x with inl a => f a | inr e => inr e end.

  Definition replay_slot (a : acc) (slot : val) : acc + nat :=
    let s := a_st a in
    let w := as_nat (fld 0 slot) in
    let kind := as_nat (fld 1 slot) in
    let recv := as_list (fld 2 slot) in
    let visit := as_list (fld 3 slot) in
    let p := nth w (pcs s) PExit in
    let check_recv (a' : acc) : acc + nat :=
      if recv_ok (nth w (pcs (a_st a')) PExit) recv then inl a' else inr 3 in
    let no_visit (a' : acc) : acc + nat :=
      match visit with [] => inl a' | _ => inr 4 end in
    let r :=
      match kind, p with
      | 1, PPush (_ :: _) | 1, PSendQuit _ => bind (bind (do a (Own w)) check_recv) no_visit
      | 2, PRecv _ => bind (bind (do a (Own w)) check_recv) no_visit
      | 3, PSteal _ (_ :: _) => bind (match recv with [] => inl a | _ => inr 3 end) no_visit
      | 3, PSteal _ [] => bind (bind (do a (Own w)) check_recv) no_visit
      | 4, PSteal _ (v :: _) =>
          let dv := nth v (deq s) [] in
          match recv with
          | [VN 1%N] | [VN 2%N; _] => bind (bind (do a (cb_choice w dv)) check_recv) no_visit
          | _ => match dv with
                 | [] => bind (bind (do a (Own w)) check_recv) no_visit
                 | _ => inr 6
                 end
          end
      | 7, PCheck _ =>
          bind (do a (Own w)) (fun a1 =>
            match nth w (pcs (a_st a1)) PExit with
            | PVisit t =>
                match visit with
                | [i] => if Nat.eqb (tree_id t) (as_nat i)
                         then bind (do a1 (Own w)) (fun a2 => match recv with [] => inl a2 | _ => inr 3 end)
                         else inr 4
                | _ => inr 4
                end
            | _ => bind (match recv with [] => inl a1 | _ => inr 3 end) no_visit
            end)
      | 5, PDeact | 6, PAct _ | 8, PSetQuit | 9, PSleep =>
          bind (bind (do a (Own w)) (fun a1 => match recv with [] => inl a1 | _ => inr 3 end)) no_visit
      | 10, PExit => bind (match recv with [] => inl a | _ => inr 3 end) no_visit
      | _, _ => inr 1
      end in
    bind r (fun a' => if snap_ok (a_st a') (fld 4 slot) then inl a' else inr 5).

  Fixpoint replay (a : acc) (i : nat) (slots : list val) : acc * option (nat * nat) :=
    match slots with
    | [] => (a, None)
    | sl :: r =>
        match replay_slot a sl with
        | inl a' => replay a' (S i) r
        | inr e => (a, Some (i, e))
        end
    end.
End Replay.

Definition pc_code (p : pc) : nat :=
  match p with
  | PRecv Top => 1 | PRecv Wait => 2 | PSteal Top _ => 3 | PSteal Wait _ => 4 | PCheck _ => 5
  | PDeact => 6 | PSleep => 7 | PAct _ => 8 | PVisit _ => 9 | PPush _ => 10 | PSetQuit => 11
  | PSendQuit false => 12 | PSendQuit true => 13 | PExit => 14
  end.

Definition dec_root (v : val) : root :=
  match as_list v with
  | [VN 1%N; k] => RootErr (as_nat k)
  | [_; t] => RootOk (dec_tree t)
  | _ => RootErr 0
  end.

Definition run_replay (v : val) : val :=
  let n := as_nat (fld 0 v) in
  let roots := map dec_root (as_list (fld 1 v)) in
  let resp := dec_resp (as_list (fld 2 v)) in
  let f := match pre_loop resp roots [] with Some f => f | None => [] end in
  match visit_start resp n roots with
  | None =>
      (* visit returns from its root loop: no worker may have been observed *)
      let code := match as_list (fld 3 v) with [] => 0 | _ => 8 end in
      VL [of_nat code; of_nat 0; VL []; of_nat 0; of_nat 0; of_nat 0; VL []; VL []; of_bool true; of_nat 0]
  | Some s0 =>
  let '(a, err) := replay resp (mkacc s0 0 0) 0 (as_list (fld 3 v)) in
  let s := a_st a in
  let '(code, slot, detail) :=
    match err with
    | None => (0, 0, VL [])
    | Some (i, e) => (e, i, VL [of_list of_nat (map pc_code (pcs s)); of_nat (active s);
                                of_bool (quit_now s); of_list of_nat (map (@length msg) (deq s))])
    end in
  VL [of_nat code; of_nat slot; detail; of_nat (a_steps a); of_nat (a_busy a); of_nat (mu s0);
      of_list of_nat (rev (visited s)); of_list of_nat (ids_under_skip resp f);
      of_bool (forallb is_exit (pcs s)); of_nat (active s)]
  end.

(* kind 702: (n forest resp) -> (ids_under_skip  forest_ids  mu(init)) *)
Definition run_predict (v : val) : val :=
  let n := as_nat (fld 0 v) in
  let f := map dec_tree (as_list (fld 1 v)) in
  let resp := dec_resp (as_list (fld 2 v)) in
  VL [of_list of_nat (ids_under_skip resp f); of_list of_nat (forest_ids f); of_nat (mu (init n f));
      of_list of_nat (map (@length msg) (deq (init n f)))].

Definition entry (k : N) (v : val) : option val :=
  match k with
  | 701%N => Some (run_replay v)
  | 702%N => Some (run_predict v)
  | _ => None
  end.
