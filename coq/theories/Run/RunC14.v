(* Run/RunC14.v — entry points of the C14 models for the correspondence driver *)
From RG Require Import Base.Bytes Base.Val Model.LineBufferBin Model.BinaryDetect Model.CorePlan.
From RG Require Model.SearcherCore.

Definition dec_mode (m : val) (b : val) : bin_mode :=
  match as_nat m with 0 => BNone | 1 => BQuit (as_N b) | _ => BConvert (as_N b) end.

Definition dec_hist (v : val) : list read_op :=
  map (fun x => match x with VN k => RChunk (N.to_nat k) | VL _ => RErr end) (as_list v).

(* the recording sink: counts matched/context calls, refuses the one numbered `stop`;
   answers binary_data with `bin_reply` *)
Definition rec_sink (stop : option nat) (bin_reply : bool) (n : nat) (ev : event) : nat * bool :=
  match ev with
  | EMatched _ _ | EContext _ _ _ =>
    (n + 1, match stop with Some k => negb (Nat.eqb n k) | None => true end)
  | EBinary _ => (n, bin_reply)
  | _ => (n, true)
  end.

Definition enc_kind (k : ctx_kind) : val := of_nat (match k with KBefore => 0 | KAfter => 1 | KOther => 2 end).
Definition enc_event (ev : event) : val :=
  match ev with
  | EBegin => VL [of_nat 0]
  | EMatched off l => VL [of_nat 1; of_nat off; of_bytes l]
  | EContext k off l => VL [of_nat 2; enc_kind k; of_nat off; of_bytes l]
  | EBreak => VL [of_nat 3]
  | EBinary off => VL [of_nat 4; of_nat off]
  | EFinish bc b => VL [of_nat 5; of_nat bc; of_option of_nat b]
  end.
Definition enc_outcome (o : outcome) : val := of_nat (match o with ODone => 0 | OErr => 1 | OFuel => 2 end).

(* format!("{:?}", [b].as_bstr()) for the bytes used by the checks: NUL -> "\0", printable ASCII -> itself *)
Definition dbg_byte (b : byte) : bytes :=
  if (b =? 0)%N then [34; 92; 48; 34]%N else if (b =? 10)%N then [34; 92; 110; 34]%N else [34%N; b; 34%N].

(* kind 1401: one search at library level, observed by three sinks *)
Definition run_search (v : val) : val :=
  let mode := dec_mode (fld 0 v) (fld 1 v) in
  let strategy := as_nat (fld 2 v) in
  let capacity := as_nat (fld 3 v) in
  let alloc := match as_option as_nat (fld 4 v) with None => AllocEager | Some l => AllocError l end in
  let hist := dec_hist (fld 5 v) in
  let stream := as_bytes (fld 6 v) in
  let needles := map as_bytes (as_list (fld 7 v)) in
  let invert := as_bool (fld 8 v) in
  let passthru := as_bool (fld 9 v) in
  let stop := as_option as_nat (fld 10 v) in
  let bin_reply := as_bool (fld 11 v) in
  let sniff_cap := as_nat (fld 12 v) in
  let max_matches := as_option as_nat (fld 13 v) in
  let path := as_option as_bytes (fld 14 v) in
  let npre := as_nat (fld 15 v) in
  let pterm := if as_bool (fld 16 v) then Some 0%N else None in
  let lt := 10%N in
  let cfg := mk_cfg capacity lt alloc mode in
  let scfg := mk_std_cfg mode max_matches 0 path [lt] (Some [45; 45]%N) dbg_byte in
  let sum_ez ez k := mk_sum_cfg mode k max_matches ez path [lt] [58%N] pterm in
  let sum k := sum_ez true k in
  let fuel := length stream + 3 in
  let search {St} (sink : St -> event -> St * bool) (s0 : St) : (St * list event) * outcome :=
    match strategy with
    | 0 => rbl_run sink mode lite_roll (lite_match needles invert passthru lt) cfg fuel
                   (lb_build cfg) (mk_rd (firstn npre stream) (skipn npre stream) hist) tt (s0, [])
    | 1 => (slice_run sink mode sniff_cap stream (lite_plan needles invert passthru lt stream)
                      (length stream) (s0, []), ODone)
    | _ => (* 2, 3: MultiLine over the slice / over the heap copy of the reader's data, pattern `\n` *)
           (slice_run sink mode sniff_cap stream (ml_newline_plan lt stream) (length stream) (s0, []), ODone)
    end in
  let '((_, tr), o) := search (rec_sink stop bin_reply) 0 in
  let '((st, _), _) := search (std_step scfg (simple_render path pterm lt)) (mk_std 0 0 None []) in
  let sum_out k := ms_out (fst (fst (search (sum_step (sum k)) (mk_sum 0 None [])))) in
  VL [ of_list enc_event (rev tr); enc_outcome o; of_bytes (ss_out st);
       of_bytes (sum_out SKCount); of_bytes (sum_out SKPathWithMatch);
       of_bytes (sum_out SKPathWithoutMatch);
       (* -c --include-zero *)
       of_bytes (ms_out (fst (fst (search (sum_step (sum_ez false SKCount)) (mk_sum 0 None []))))) ].

(* kind 1404: one line-oriented search with context options (-A/-B, --passthru, --stop-on-nonmatch), the plan
   computed by the Core model (Model/CorePlan.v), the sniffed prefix of a slice bounded by the hook value.
   case = the fields of kind 1401 ++ (before after stop_on_nonmatch sniff); strategy 0 reader, 1 slice *)
Definition run_search_ctx (v : val) : val :=
  let mode := dec_mode (fld 0 v) (fld 1 v) in
  let strategy := as_nat (fld 2 v) in
  let capacity := as_nat (fld 3 v) in
  let alloc := match as_option as_nat (fld 4 v) with None => AllocEager | Some l => AllocError l end in
  let hist := dec_hist (fld 5 v) in
  let stream := as_bytes (fld 6 v) in
  let needles := map as_bytes (as_list (fld 7 v)) in
  let invert := as_bool (fld 8 v) in
  let passthru := as_bool (fld 9 v) in
  let stop := as_option as_nat (fld 10 v) in
  let bin_reply := as_bool (fld 11 v) in
  let max_matches := as_option as_nat (fld 13 v) in
  let path := as_option as_bytes (fld 14 v) in
  let npre := as_nat (fld 15 v) in
  let pterm := if as_bool (fld 16 v) then Some 0%N else None in
  let sniff := Nat.min (as_nat (fld 12 v)) (as_nat (fld 20 v)) in
  let lt := 10%N in
  let pcfg := plan_cfg lt invert (as_nat (fld 17 v)) (as_nat (fld 18 v)) passthru (as_bool (fld 19 v)) in
  let M := plan_matcher pcfg needles in
  let cfg := mk_cfg capacity lt alloc mode in
  let scfg := mk_std_cfg mode max_matches (SearcherCore.c_after pcfg) path [lt] (Some [45; 45]%N) dbg_byte in
  let sum_ez ez k := mk_sum_cfg mode k max_matches ez path [lt] [58%N] pterm in
  let sum k := sum_ez true k in
  let fuel := length stream + 3 in
  let plan := match strategy with 0 => ([], 0) | _ => core_slice_plan pcfg M stream end in
  let search {St} (sink : St -> event -> St * bool) (s0 : St) : (St * list event) * outcome :=
    match strategy with
    | 0 => rbl_run sink mode (core_roll pcfg) (core_match pcfg M) cfg fuel
                   (lb_build cfg) (mk_rd (firstn npre stream) (skipn npre stream) hist)
                   (SearcherCore.core_new pcfg) (s0, [])
    | _ => (slice_run sink mode sniff stream (fst plan) (snd plan) (s0, []), ODone)
    end in
  let '((_, tr), o) := search (rec_sink stop bin_reply) 0 in
  let '((st, _), _) := search (std_step scfg (simple_render path pterm lt)) (mk_std 0 0 None []) in
  let sum_out k := ms_out (fst (fst (search (sum_step (sum k)) (mk_sum 0 None [])))) in
  VL [ of_list enc_event (rev tr); enc_outcome o; of_bytes (ss_out st);
       of_bytes (sum_out SKCount); of_bytes (sum_out SKPathWithMatch);
       of_bytes (sum_out SKPathWithoutMatch);
       of_bytes (ms_out (fst (fst (search (sum_step (sum_ez false SKCount)) (mk_sum 0 None []))))) ].

(* kind 1402: replace_bytes *)
Definition run_replace_bytes (v : val) : val :=
  let (d, first) := replace_bytes (as_bytes (fld 0 v)) (as_N (fld 1 v)) (as_N (fld 2 v)) in
  VL [of_bytes d; of_option of_nat first].

(* kind 1403: which detection a file gets; flag: 0 auto, 1 --binary, 2 --text *)
Definition enc_mode (m : bin_mode) : val :=
  match m with BNone => VL [of_nat 0] | BQuit b => VL [of_nat 1; VN b] | BConvert b => VL [of_nat 2; VN b] end.
Definition run_detection_for (v : val) : val :=
  let flag := match as_nat (fld 0 v) with 0 => BinAuto | 1 => BinSearchAndSuppress | _ => BinAsText end in
  enc_mode (detection_for flag (as_bool (fld 1 v))
              (is_explicit (as_bool (fld 2 v)) (as_nat (fld 3 v)) (as_bool (fld 4 v)))).

Definition entry (k : N) (v : val) : option val :=
  match k with
  | 1401%N => Some (run_search v)
  | 1402%N => Some (run_replace_bytes v)
  | 1403%N => Some (run_detection_for v)
  | 1404%N => Some (run_search_ctx v)
  | _ => None
  end.
