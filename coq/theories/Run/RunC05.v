(* Run/RunC05.v — entry points of the C05 model for the correspondence driver.
   The per-directory / per-source matchers, abstract in the theorems, are realised here by a small
   literal-name gitignore matcher (test scaffolding mirroring Gitignore::strip and "last matching
   rule wins"; glob syntax is property C04/C12's business and does not occur in the generated rules). *)
From RG Require Import Base.Bytes Base.Val Model.IgnoreDir.

(* rule = (negated dir_only anchored name);  rulefile = (root rules) *)
Record rule := { r_neg : bool; r_dironly : bool; r_anch : bool; r_name : bytes }.
Definition decode_rule (v : val) : rule :=
  {| r_neg := as_bool (fld 0 v); r_dironly := as_bool (fld 1 v); r_anch := as_bool (fld 2 v); r_name := as_bytes (fld 3 v) |}.

Definition has_slash (p : bytes) : bool := existsb (fun c => (c =? SLASH)%N) p.

(* Gitignore::strip *)
Definition gi_strip (root path : bytes) : bytes :=
  let path := match strip_prefix [DOT; SLASH] path with Some q => q | None => path end in
  if negb (bytes_eqb root [DOT]) && has_slash path then
    match strip_prefix root path with
    | Some q => match strip_prefix [SLASH] q with Some q' => q' | None => q end
    | None => path
    end
  else path.

Definition rule_matches (cand : bytes) (is_dir : bool) (r : rule) : bool :=
  (negb (r_dironly r) || is_dir) &&
  (if r_anch r then bytes_eqb cand (r_name r) else bytes_eqb (skipn (after_last_slash cand) cand) (r_name r)).

Definition gi_matched (root0 : bytes) (rules : list rule) : gmatcher := fun path is_dir =>
  match rules with
  | [] => MNone
  | _ =>
    let root := match strip_prefix [DOT; SLASH] root0 with Some q => q | None => root0 end in
    let cand := gi_strip root path in
    match find (rule_matches cand is_dir) (rev rules) with
    | Some r => if r_neg r then MWhitelist else MIgnore
    | None => MNone
    end
  end.

Definition decode_rulefile (v : val) : gmatcher :=
  gi_matched (as_bytes (fld 0 v)) (map decode_rule (as_list (fld 1 v))).
Definition rulefile_rules (v : val) : list rule := map decode_rule (as_list (fld 1 v)).

(* dirinfo = (path custom dotignore gitignore exclude dotgit), dotgit: 0 absent, 1 directory, 2 file *)
Definition decode_dotgit (v : val) : dotgit :=
  match as_N v with 0%N => GitAbsent | 1%N => GitDir | _ => GitFile end.
Definition decode_dirinfo (v : val) : dirinfo :=
  {| di_path := as_bytes (fld 0 v); di_custom := decode_rulefile (fld 1 v); di_dotignore := decode_rulefile (fld 2 v);
     di_gitignore := decode_rulefile (fld 3 v); di_exclude := decode_rulefile (fld 4 v);
     di_dotgit := decode_dotgit (fld 5 v) |}.

(* tnode = (0 name) | (1 name dirinfo kids) *)
Fixpoint decode_tnode (fuel : nat) (v : val) : tnode :=
  match fuel with
  | 0 => TFile (as_bytes (fld 1 v))
  | S fuel' =>
    if as_bool (fld 0 v)
    then TDir (as_bytes (fld 1 v)) (decode_dirinfo (fld 2 v)) (map (decode_tnode fuel') (as_list (fld 3 v)))
    else TFile (as_bytes (fld 1 v))
  end.

(* root = (0 path) | (1 path canon_opt above dirinfo kids) *)
Definition decode_root (v : val) : root :=
  if as_bool (fld 0 v)
  then RDir (as_bytes (fld 1 v)) (as_option as_bytes (fld 2 v)) (map decode_dirinfo (as_list (fld 3 v)))
            (decode_dirinfo (fld 4 v)) (map (decode_tnode 64) (as_list (fld 5 v)))
  else RFile (as_bytes (fld 1 v)).

(* types = list of (ext negated): selection i has the single glob *.ext *)
Definition decode_types (v : val) : types :=
  let sels := map (fun p => (as_bytes (fld 0 p), as_bool (fld 1 p))) (as_list v) in
  {| ty_is_empty := match sels with [] => true | _ => false end;
     ty_set_is_empty := match sels with [] => true | _ => false end;
     ty_has_selected := existsb (fun p => negb (snd p)) sels;
     ty_last := fun name =>
       match find (fun p => Nat.ltb (length (DOT :: fst p)) (S (length name)) && is_suffix_of (DOT :: fst p) name) (rev sels) with
       | Some p => Some (snd p)
       | None => None
       end |}.

Definition decode_overrides (v : val) : overrides :=
  let rules := rulefile_rules v in
  {| ov_is_empty := match rules with [] => true | _ => false end;
     ov_gi := decode_rulefile v;
     ov_has_whitelist := existsb (fun r => negb (r_neg r)) rules |}.

(* cmd = (globs types ignore_files global) *)
Definition decode_cmd (v : val) : cmdline :=
  {| c_globs := decode_overrides (fld 0 v); c_types := decode_types (fld 1 v);
     c_ignore_files := map decode_rulefile (as_list (fld 2 v)); c_global := decode_rulefile (fld 3 v) |}.

(* flags = (hidden dot exclude files global parent vcs no_require_git unrestricted_count) *)
Definition decode_flags (v : val) : lowflags :=
  flag_unrestricted (as_nat (fld 8 v))
  {| f_hidden := as_bool (fld 0 v); f_no_ignore_dot := as_bool (fld 1 v); f_no_ignore_exclude := as_bool (fld 2 v);
     f_no_ignore_files := as_bool (fld 3 v); f_no_ignore_global := as_bool (fld 4 v);
     f_no_ignore_parent := as_bool (fld 5 v); f_no_ignore_vcs := as_bool (fld 6 v);
     f_no_require_git := as_bool (fld 7 v) |}.

(* kind 501: (flags cmd max_depth_opt roots) -> list of listed paths *)
Definition run_rg_files (v : val) : val :=
  of_list of_bytes
    (rg_files (decode_flags (fld 0 v)) (decode_cmd (fld 1 v)) (as_option as_nat (fld 2 v))
              (map decode_root (as_list (fld 3 v)))).

(* kind 502: library level: (opts custom_names_empty cmd max_depth_opt roots)
   opts = (hidden ignore parents git_global git_ignore git_exclude require_git) *)
Definition decode_opts (v : val) : opts :=
  {| o_hidden := as_bool (fld 0 v); o_ignore := as_bool (fld 1 v); o_parents := as_bool (fld 2 v);
     o_git_global := as_bool (fld 3 v); o_git_ignore := as_bool (fld 4 v); o_git_exclude := as_bool (fld 5 v);
     o_require_git := as_bool (fld 6 v) |}.
Definition run_lib_files (v : val) : val :=
  let c := decode_cmd (fld 2 v) in
  let e := {| e_overrides := c_globs c; e_types := c_types c; e_explicit := c_ignore_files c;
              e_custom_names_empty := as_bool (fld 1 v); e_global := c_global c |} in
  of_list of_bytes (lib_files (decode_opts (fld 0 v)) e (as_option as_nat (fld 3 v)) (map decode_root (as_list (fld 4 v)))).

(* kind 503: path -> (file_name option, is_hidden, pinned file_name option) *)
Definition run_file_name (v : val) : val :=
  let p := as_bytes v in
  VL [of_option of_bytes (file_name p); of_bool (is_hidden p); of_option of_bytes (file_name_pinned p)].

Definition entry (k : N) (v : val) : option val :=
  match k with
  | 501%N => Some (run_rg_files v)
  | 502%N => Some (run_lib_files v)
  | 503%N => Some (run_file_name v)
  | _ => None
  end.
