(* Run/RunC04.v — entry points of the C04 models.
   kinds: 401 walk verdicts of a tree with .gitignore files; 402 matched_path_or_any_parents of one file;
          403 add_line (flags + rewritten glob text or error); 404 line_class (coverage of the line theorem);
          405 a documented bracket expression (Spec/GlobClassSyntax.v): its text, its documented meaning on probe
              characters, and what the gitignore model makes of the line n<class>m on the paths n<probe>m *)
From RG Require Import Base.Bytes Base.Val Model.Glob Model.GlobSet Spec.GlobSem Spec.GlobSetSem Model.Gitignore
  Spec.GitSem Spec.GitGrammar Spec.GitLineClass Spec.GlobClassSyntax.

(* split a '/'-joined relative path into its components ("" = no components) *)
Fixpoint split_slash (s : bytes) (cur : bytes) : list bytes :=
  match s with
  | [] => match cur with [] => [] | _ => [cur] end
  | b :: r => if (b =? 47)%N then cur :: split_slash r [] else split_slash r (cur ++ [b])
  end.
Definition comps_of (v : val) : list bytes := split_slash (as_bytes v) [].

Definition decode_igs (ci : bool) (v : val) : list (ignore_file) :=
  map (fun x => (comps_of (fld 0 x), add_lines ci (map as_bytes (as_list (fld 1 x))))) (as_list v).

Definition enc_verdict (v : verdict) : val :=
  VN (match v with VNone => 0 | VIgnore => 1 | VWhitelist => 2 end)%N.

(* 401: (ci ((dir lines)...) ((path is_dir)...) base) ; ignore files sorted deepest first *)
Definition run_walk (v : val) : val :=
  let ci := as_bool (fld 0 v) in
  let igs := decode_igs ci (fld 1 v) in
  VL [VN 0%N;
      VL (map (fun e => of_bool (visited re_spec igs (comps_of (fld 0 e)) (as_bool (fld 1 e)))) (as_list (fld 2 v)));
      (* the specification side: git's documented semantics on components (Spec/GitSem.v) *)
      VL (map (fun e => of_bool (git_visited ci
                 (map (fun x => (comps_of (fld 0 x), map as_bytes (as_list (fld 1 x)))) (as_list (fld 1 v)))
                 (comps_of (fld 0 e)) (as_bool (fld 1 e)))) (as_list (fld 2 v)))].

(* 402: (ci lines ((path is_dir)...)) *)
Definition run_one_file (v : val) : val :=
  let ci := as_bool (fld 0 v) in
  let globs := add_lines ci (map as_bytes (as_list (fld 1 v))) in
  VL [VN 0%N;
      VL (map (fun e => enc_verdict (matched_path_or_any_parents re_spec globs (comps_of (fld 0 e)) (as_bool (fld 1 e))))
              (as_list (fld 2 v)))].

(* 403: (ci line) *)
Definition run_add_line (v : val) : val :=
  match add_line (as_bool (fld 0 v)) (as_bytes (fld 1 v)) with
  | LSkip => VL [VN 0%N]
  | LError _ => VL [VN 1%N]
  | LGlob g => VL [VN 2%N; of_bool (ig_whitelist g); of_bool (ig_only_dir g); of_bytes (ig_actual g)]
  end.

(* 404: (ci line) -> is the line in the class of the line-level theorem? *)
Definition run_line_class (v : val) : val :=
  of_bool (line_class (as_bool (fld 0 v)) (as_bytes (fld 1 v))).

(* 405: (mark ((lo hi)...) dash_last probes), mark 0 = none, 1 = '!', 2 = '^'
        -> (dclass_ok, line "n<class>m", documented meaning per probe, model verdict of the line on "n<probe>m") *)
Definition decode_dclass (v : val) : dclass :=
  mk_dclass (match as_N (fld 0 v) with 0%N => NegNone | 1%N => NegBang | _ => NegCaret end)
            (map (fun m => (as_N (fld 0 m), as_N (fld 1 m))) (as_list (fld 1 v)))
            (as_bool (fld 2 v)).
Definition run_dclass_case (v : val) : val :=
  let d := decode_dclass v in
  let probes := as_bytes (fld 3 v) in
  let line := 110%N :: render_dclass d ++ [109%N] in
  let globs := add_lines false [line] in
  VL [of_bool (dclass_ok d); of_bytes line;
      VL (map (fun b => of_bool (dclass_admits d b)) probes);
      VL (map (fun b => enc_verdict (matched_stripped re_spec globs [110%N; b; 109%N] false)) probes)].

Definition entry (k : N) (v : val) : option val :=
  match k with
  | 401%N => Some (run_walk v)
  | 402%N => Some (run_one_file v)
  | 403%N => Some (run_add_line v)
  | 404%N => Some (run_line_class v)
  | 405%N => Some (run_dclass_case v)
  | _ => None
  end.
