(* Run/RunC02.v — Searcher::search_reader (ReadByLine strategy) for the driver.
   case: (cfg matcher input reply cap pol hist)
     pol  = () eager growth | (extra)  BufferAllocation::Error(extra)
     hist = list of (0 n) chunk of at most n bytes | (1) read error | (2) interrupted
   kind 206 (one REUSED Searcher): (cfg matcher cap sources)
     sources = list of (tag input hist reply)
       tag   = 0 search_slice | 1 search_reader | 2 search_file with a memory map | 3 search_file without
       hist  = as above: the reads seen by the roll buffer (ignored by the slice and multi-line strategies)
       reply = as in Run/RunC03.v (absent or () = the sink always continues)
     result  = list of results (Run/RunC03.v of_result), one per source, in order.
     No transcoding (encoding None, bom_sniffing off: decode = identity), binary detection None,
     heap limit None. *)
From RG Require Import Base.Bytes Base.Val Model.Lines Model.SearcherCore Model.Glue Model.ScriptedMatcher
  Model.ReadByLine Model.SearcherGlue Run.RunC03.

Definition decode_pol (v : val) : alloc_policy :=
  match as_list v with [] => AEager | x :: _ => AError (as_nat x) end.
Definition decode_hist (v : val) : list read_step :=
  map (fun e => match as_N (fld 0 e) with
                | 0%N => RChunk (as_nat (fld 1 e))
                | 1%N => RFail
                | _ => RInterrupted
                end) (as_list v).

(* kind 201 *)
Definition run_reader (v : val) : val :=
  let cfg := decode_cfg (fld 0 v) in
  let M := decode_matcher cfg (fld 1 v) in
  if multi_line_with_matcher cfg M then VL [VN 9%N]     (* multi-line reader path: not this model *)
  else of_result (read_by_line_run cfg M (decode_reply (fld 3 v)) (decode_pol (fld 5 v))
                                   (as_nat (fld 4 v)) (as_bytes (fld 2 v)) (decode_hist (fld 6 v))).

(* kind 206 *)
Definition decode_source (v : val) : source * (nat -> reply) :=
  let s := as_bytes (fld 1 v) in
  let h := decode_hist (fld 2 v) in
  ((match as_N (fld 0 v) with
    | 0%N => SrcSlice s
    | 1%N => SrcReader s h
    | 2%N => SrcFile true s h
    | _ => SrcFile false s h
    end), decode_reply (fld 3 v)).

Definition run_search_seq (v : val) : val :=
  let cfg := decode_cfg (fld 0 v) in
  let M := decode_matcher cfg (fld 1 v) in
  of_list of_result
    (fst (search_seq cfg M false false (fun b => b) (ss_new (as_nat (fld 2 v)))
                     (map decode_source (as_list (fld 3 v))))).

Definition entry (k : N) (v : val) : option val :=
  match k with
  | 201%N => Some (run_reader v)
  | 206%N => Some (run_search_seq v)
  | _ => None
  end.
