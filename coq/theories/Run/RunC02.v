(* Run/RunC02.v — Searcher::search_reader (ReadByLine strategy) for the driver.
   case: (cfg matcher input reply cap pol hist)
     pol  = () eager growth | (extra)  BufferAllocation::Error(extra)
     hist = list of (0 n) chunk of at most n bytes | (1) read error | (2) interrupted
   kind 206 (one REUSED Searcher): (cfg matcher cap sources)
     sources = list of (tag input hist reply)
       tag   = 0 search_slice | 1 search_reader | 2 search_file with a memory map | 3 search_file without
       hist  = as above: the reads seen by the roll buffer (ignored by the slice and multi-line strategies)
       reply = as in Run/RunC03.v (absent or () = the sink always continues)
     result  = list of results (Run/RunC03.v of_result), one per source, in order.
     No transcoding (encoding None, bom_sniffing off: decode = identity), binary detection None,
     heap limit None.
   kind 207 (the multi-line heap buffer of ONE reused Searcher, Model/MultiLineBuffer.v):
     (cfg matcher heap mmap sources)   cfg has multi_line, the matcher may match the terminator
       heap    = () no heap limit | (h)
       mmap    = 1: memory maps enabled in the Searcher's configuration (only matters for check_config)
       sources = list of (tag input hist reply rooms)
         tag   = 1 search_reader (the caller's reader obeys hist; search_reader puts the pass-through BomPeeker
                 in front of the loop) | 3 search_file of a real file without a memory map (hist and rooms ())
         rooms = the sizes of the slices the caller's reader was offered when the code ran (used only to
                 instantiate std's read_to_end policy when there is no heap limit; with a limit the model
                 computes the sizes itself)
     result  = list of (status events errkind rooms): errkind 0 none | 1 configuration | 2 heap limit |
               3 read error; rooms = sizes of the slices offered to the caller's reader, in order (() for files) *)
From RG Require Import Base.Bytes Base.Val Model.Lines Model.SearcherCore Model.Glue Model.ScriptedMatcher
  Model.ReadByLine Model.SearcherGlue Model.MultiLineBuffer Run.RunC03.

Definition decode_pol (v : val) : alloc_policy :=
  match as_list v with [] => AEager | x :: _ => AError (as_nat x) end.
Definition decode_hist (v : val) : list read_step :=
  map (fun e => match as_N (fld 0 e) with
                | 0%N => RChunk (as_nat (fld 1 e))
                | 1%N => RFail
                | _ => RInterrupted
                end) (as_list v).

(* kind 201 *)
Definition run_reader (v : val) : val :=
  let cfg := decode_cfg (fld 0 v) in
  let M := decode_matcher cfg (fld 1 v) in
  if multi_line_with_matcher cfg M then VL [VN 9%N]     (* multi-line reader path: not this model *)
  else of_result (read_by_line_run cfg M (decode_reply (fld 3 v)) (decode_pol (fld 5 v))
                                   (as_nat (fld 4 v)) (as_bytes (fld 2 v)) (decode_hist (fld 6 v))).

(* kind 206 *)
Definition decode_source (v : val) : source * (nat -> reply) :=
  let s := as_bytes (fld 1 v) in
  let h := decode_hist (fld 2 v) in
  ((match as_N (fld 0 v) with
    | 0%N => SrcSlice s
    | 1%N => SrcReader s h
    | 2%N => SrcFile true s h
    | _ => SrcFile false s h
    end), decode_reply (fld 3 v)).

Definition run_search_seq (v : val) : val :=
  let cfg := decode_cfg (fld 0 v) in
  let M := decode_matcher cfg (fld 1 v) in
  of_list of_result
    (fst (search_seq cfg M false false (fun b => b) (ss_new (as_nat (fld 2 v)))
                     (map decode_source (as_list (fld 3 v))))).

(* kind 207 *)
Definition decode_heap (v : val) : option nat :=
  match as_list v with [] => None | x :: _ => Some (as_nat x) end.

Definition errkind_of (f : ml_fill_result) : N :=
  match f with MlOk _ _ _ => 0%N | MlHeapErr _ _ _ => 2%N | MlIoErr _ _ _ => 3%N | MlFuel => 9%N end.

Definition status_events (r : run_result) : val * val :=
  match r with
  | RunOk evs => (VN 0%N, of_list of_event evs)
  | RunErr evs => (VN 1%N, of_list of_event evs)
  | RunFuel => (VN 2%N, VL [])
  end.

Definition ml_result_val (r : run_result) (ek : N) (rooms : list nat) : val :=
  let (st, evs) := status_events r in VL [st; evs; VN ek; of_list of_nat rooms].

Definition run_ml_source (cfg : config) (M : matcher) (heap : option nat) (mmap : bool) (b : mlbuf) (src : val)
  : val * mlbuf :=
  let s := as_bytes (fld 1 src) in
  let reply_of := decode_reply (fld 3 src) in
  let rooms := map as_nat (as_list (fld 4 src)) in
  if negb (ml_check_config cfg M heap mmap) then (ml_result_val (RunErr []) 1%N [], b) else
  match as_N (fld 0 src) with
  | 1%N =>
    let r0 := {| r_rest := s; r_hist := decode_hist (fld 2 src) |} in
    match heap with
    | Some 0 =>      (* the error comes before the first read: the peeker is never asked *)
      let f := ml_fill_from_reader heap [] b r0 in
      let '(res, b', tr) := ml_after_fill cfg M reply_of b f in
      (ml_result_val res (errkind_of f) (rev tr), b')
    | _ =>
      (* the loop's first read() makes the BomPeeker fetch up to 3 bytes from the caller's reader; that first
         read() is then answered by the peeker (with those bytes, or with the error of the fetch) *)
      let '(first, ptr, r1) :=
        match peek_loop (ml_fuel r0) 3 [] [] r0 with
        | PeekOk got tr r' => (negb (Nat.eqb (length got) 0), tr, peeked_reader got r')
        | PeekErr tr r' => (true, tr, {| r_rest := r_rest r'; r_hist := RFail :: r_hist r' |})
        | PeekFuel => (false, [], r0)
        end in
      let rooms' := (if first then [32] else []) ++ skipn (length ptr) rooms in
      let f := ml_fill_from_reader heap rooms' b r1 in
      let '(res, b', tr) := ml_after_fill cfg M reply_of b f in
      let ltr := rev tr in
      (ml_result_val res (errkind_of f) (rev ptr ++ (if first then tl ltr else ltr)), b')
    end
  | _ =>
    let f := ml_fill_from_file heap [] (length s) b {| r_rest := s; r_hist := [] |} in
    let '(res, b', _) := ml_after_fill cfg M reply_of b f in
    (ml_result_val res (errkind_of f) [], b')
  end.

Fixpoint run_ml_sources (cfg : config) (M : matcher) (heap : option nat) (mmap : bool) (b : mlbuf) (srcs : list val) : list val :=
  match srcs with
  | [] => []
  | src :: rest => let (v, b') := run_ml_source cfg M heap mmap b src in v :: run_ml_sources cfg M heap mmap b' rest
  end.

Definition run_ml_seq (v : val) : val :=
  let cfg := decode_cfg (fld 0 v) in
  let M := decode_matcher cfg (fld 1 v) in
  if negb (multi_line_with_matcher cfg M) then VL [VN 9%N] else
  VL (run_ml_sources cfg M (decode_heap (fld 2 v)) (N.eqb (as_N (fld 3 v)) 1%N) mb_new (as_list (fld 4 v))).

Definition entry (k : N) (v : val) : option val :=
  match k with
  | 201%N => Some (run_reader v)
  | 206%N => Some (run_search_seq v)
  | 207%N => Some (run_ml_seq v)
  | _ => None
  end.
