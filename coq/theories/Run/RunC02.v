(* Run/RunC02.v — Searcher::search_reader (ReadByLine strategy) for the driver.
   case: (cfg matcher input reply cap pol hist)
     pol  = () eager growth | (extra)  BufferAllocation::Error(extra)
     hist = list of (0 n) chunk of at most n bytes | (1) read error | (2) interrupted *)
From RG Require Import Base.Bytes Base.Val Model.Lines Model.SearcherCore Model.Glue Model.ScriptedMatcher
  Model.ReadByLine Run.RunC03.

Definition decode_pol (v : val) : alloc_policy :=
  match as_list v with [] => AEager | x :: _ => AError (as_nat x) end.
Definition decode_hist (v : val) : list read_step :=
  map (fun e => match as_N (fld 0 e) with
                | 0%N => RChunk (as_nat (fld 1 e))
                | 1%N => RFail
                | _ => RInterrupted
                end) (as_list v).

(* kind 201 *)
Definition run_reader (v : val) : val :=
  let cfg := decode_cfg (fld 0 v) in
  let M := decode_matcher cfg (fld 1 v) in
  if multi_line_with_matcher cfg M then VL [VN 9%N]     (* multi-line reader path: not this model *)
  else of_result (read_by_line_run cfg M (decode_reply (fld 3 v)) (decode_pol (fld 5 v))
                                   (as_nat (fld 4 v)) (as_bytes (fld 2 v)) (decode_hist (fld 6 v))).

Definition entry (k : N) (v : val) : option val :=
  match k with
  | 201%N => Some (run_reader v)
  | _ => None
  end.
