(* Run/RunC12.v — entry points of the C12 models for the correspondence driver.
   kinds: 1201 parse (tokens, strategy or error); 1202 one glob on an exhaustive path set;
          1203 a glob set on an exhaustive path set *)
From RG Require Import Base.Bytes Base.Val Model.Glob Model.GlobSet Spec.GlobSem Spec.GlobSetSem.

Definition decode_opts (n : N) : gopts :=
  mk_gopts (N.testbit n 0) (N.testbit n 1) (N.testbit n 2) (N.testbit n 3).

Fixpoint enc_token (t : token) : val :=
  match t with
  | TLit c => VL [VN 0; VN c]
  | TAny => VL [VN 1]
  | TStar => VL [VN 2]
  | TRecPrefix => VL [VN 3]
  | TRecSuffix => VL [VN 4]
  | TRecZeroOrMore => VL [VN 5]
  | TClass neg rs => VL [VN 6; of_bool neg; VL (map (fun r => VL [VN (fst r); VN (snd r)]) rs)]
  | TAlt alts =>
    let fix enc_seq (ts : list token) : list val :=
      match ts with [] => [] | t :: r => enc_token t :: enc_seq r end in
    let fix enc_alts (l : list (list token)) : list val :=
      match l with [] => [] | a :: r => VL (enc_seq a) :: enc_alts r end in
    VL [VN 7; VL (enc_alts alts)]
  end%N.
Definition enc_tokens (ts : list token) : val := VL (map enc_token ts).

Definition enc_strategy (s : strategy) : val :=
  match s with
  | SLiteral l => VL [VN 0; VL (map VN l); VN 0]
  | SBasenameLiteral l => VL [VN 1; VL (map VN l); VN 0]
  | SExtension l => VL [VN 2; VL (map VN l); VN 0]
  | SPrefix l => VL [VN 3; VL (map VN l); VN 0]
  | SSuffix l c => VL [VN 4; VL (map VN l); of_bool c]
  | SRequiredExtension l => VL [VN 5; VL (map VN l); VN 0]
  | SRegex => VL [VN 6; VL []; VN 0]
  end%N.

Definition enc_error (e : gerror) : val :=
  match e with
  | UnclosedClass => VL [VN 1; VN 1]
  | InvalidRange a b => VL [VN 1; VN 2; VN a; VN b]
  | UnopenedAlternates => VL [VN 1; VN 3]
  | UnclosedAlternates => VL [VN 1; VN 4]
  | NestedAlternates => VL [VN 1; VN 5]
  | DanglingEscape => VL [VN 1; VN 6]
  | Panic => VL [VN 1; VN 7]
  end%N.

Definition run_parse (v : val) : val :=
  let o := decode_opts (as_N (fld 0 v)) in
  match build o (as_bytes (fld 1 v)) with
  | None => VL [VN 1; VN 9]%N
  | Some (Err e) => enc_error e
  | Some (Ok ts) => VL [VN 0%N; enc_tokens ts; enc_strategy (strategy_new o ts)]
  end.

(* all byte strings over [alpha] of length <= L: by length, then lexicographic in alphabet order *)
Fixpoint level (alpha : list N) (n : nat) : list bytes :=
  match n with
  | 0 => [[]]
  | S m => let l := level alpha m in flat_map (fun c => map (cons c) l) alpha
  end.
Definition all_paths (alpha : list N) (L : nat) : list bytes := flat_map (level alpha) (seq 0 (S L)).
Definition alphabet : list N := [97; 98; 46; 47; 45; 65]%N.

(* bits packed 8 per byte, least significant first *)
Fixpoint pack (l : list bool) (acc : N) (w : N) (cnt : nat) : list N :=
  match l with
  | [] => match cnt with 0 => [] | _ => [acc] end
  | b :: r =>
    let acc' := if b then (acc + w)%N else acc in
    match cnt with
    | 7 => acc' :: pack r 0%N 1%N 0
    | _ => pack r acc' (w * 2)%N (S cnt)
    end
  end.
Definition enc_bits (l : list bool) : val := VL (map VN (pack l 0%N 1%N 0)).

Definition case_paths (vL vextra : val) : list bytes :=
  all_paths alphabet (as_nat vL) ++ map as_bytes (as_list vextra).

(* 1202: (opts glob L extras) *)
Definition run_glob (v : val) : val :=
  let o := decode_opts (as_N (fld 0 v)) in
  match build o (as_bytes (fld 1 v)) with
  | Some (Ok ts) =>
    let paths := case_paths (fld 2 v) (fld 3 v) in
    let st := strategy_new o ts in
    VL [VN 0%N;
        enc_bits (map (tmatch o ts) paths);
        enc_bits (map (fun p => strategy_match st (candidate_new p) (tmatch o ts)) paths)]
  | _ => VL [VN 1%N]
  end.

Fixpoint decode_globs (l : list val) : option (list glob) :=
  match l with
  | [] => Some []
  | x :: r =>
    let o := decode_opts (as_N (fld 0 x)) in
    match build o (as_bytes (fld 1 x)), decode_globs r with
    | Some (Ok ts), Some gs => Some (mk_glob o ts :: gs)
    | _, _ => None
    end
  end.

(* 1203: (((opts glob) ...) L extras) *)
Definition run_set (v : val) : val :=
  match decode_globs (as_list (fld 0 v)) with
  | Some gs =>
    let paths := case_paths (fld 1 v) (fld 2 v) in
    VL [VN 0%N;
        VL (map (fun p => VL (map of_nat (set_matches re_spec gs p))) paths);
        enc_bits (map (set_is_match re_spec gs) paths)]
  | None => VL [VN 1%N]
  end.

Definition entry (k : N) (v : val) : option val :=
  match k with
  | 1201%N => Some (run_parse v)
  | 1202%N => Some (run_glob v)
  | 1203%N => Some (run_set v)
  | _ => None
  end.
