(* Run/RunC12.v — entry points of the C12 models for the correspondence driver.
   kinds: 1201 parse (tokens, strategy or error); 1202 one glob on an exhaustive path set;
          1203 a glob set on an exhaustive path set;
          1204 a tree of the documented syntax with alternates (Spec/GlobSyntax.v): its well-formedness verdicts,
               its text, the tokens theorem parse_documented_syntax_alt assigns to it, and the model parser's
               answer on that text (the harness side runs the real parser on the text, kind 1201) *)
From RG Require Import Base.Bytes Base.Val Model.Glob Model.GlobSet Spec.GlobSem Spec.GlobSetSem Spec.GlobSyntax.

Definition decode_opts (n : N) : gopts :=
  mk_gopts (N.testbit n 0) (N.testbit n 1) (N.testbit n 2) (N.testbit n 3).

Fixpoint enc_token (t : token) : val :=
  match t with
  | TLit c => VL [VN 0; VN c]
  | TAny => VL [VN 1]
  | TStar => VL [VN 2]
  | TRecPrefix => VL [VN 3]
  | TRecSuffix => VL [VN 4]
  | TRecZeroOrMore => VL [VN 5]
  | TClass neg rs => VL [VN 6; of_bool neg; VL (map (fun r => VL [VN (fst r); VN (snd r)]) rs)]
  | TAlt alts =>
    let fix enc_seq (ts : list token) : list val :=
      match ts with [] => [] | t :: r => enc_token t :: enc_seq r end in
    let fix enc_alts (l : list (list token)) : list val :=
      match l with [] => [] | a :: r => VL (enc_seq a) :: enc_alts r end in
    VL [VN 7; VL (enc_alts alts)]
  end%N.
Definition enc_tokens (ts : list token) : val := VL (map enc_token ts).

Definition enc_strategy (s : strategy) : val :=
  match s with
  | SLiteral l => VL [VN 0; VL (map VN l); VN 0]
  | SBasenameLiteral l => VL [VN 1; VL (map VN l); VN 0]
  | SExtension l => VL [VN 2; VL (map VN l); VN 0]
  | SPrefix l => VL [VN 3; VL (map VN l); VN 0]
  | SSuffix l c => VL [VN 4; VL (map VN l); of_bool c]
  | SRequiredExtension l => VL [VN 5; VL (map VN l); VN 0]
  | SRegex => VL [VN 6; VL []; VN 0]
  end%N.

Definition enc_error (e : gerror) : val :=
  match e with
  | UnclosedClass => VL [VN 1; VN 1]
  | InvalidRange a b => VL [VN 1; VN 2; VN a; VN b]
  | UnopenedAlternates => VL [VN 1; VN 3]
  | UnclosedAlternates => VL [VN 1; VN 4]
  | NestedAlternates => VL [VN 1; VN 5]
  | DanglingEscape => VL [VN 1; VN 6]
  | Panic => VL [VN 1; VN 7]
  end%N.

Definition run_parse (v : val) : val :=
  let o := decode_opts (as_N (fld 0 v)) in
  match build o (as_bytes (fld 1 v)) with
  | None => VL [VN 1; VN 9]%N
  | Some (Err e) => enc_error e
  | Some (Ok ts) => VL [VN 0%N; enc_tokens ts; enc_strategy (strategy_new o ts)]
  end.

(* all byte strings over [alpha] of length <= L: by length, then lexicographic in alphabet order *)
Fixpoint level (alpha : list N) (n : nat) : list bytes :=
  match n with
  | 0 => [[]]
  | S m => let l := level alpha m in flat_map (fun c => map (cons c) l) alpha
  end.
Definition all_paths (alpha : list N) (L : nat) : list bytes := flat_map (level alpha) (seq 0 (S L)).
Definition alphabet : list N := [97; 98; 46; 47; 45; 65]%N.

(* bits packed 8 per byte, least significant first *)
Fixpoint pack (l : list bool) (acc : N) (w : N) (cnt : nat) : list N :=
  match l with
  | [] => match cnt with 0 => [] | _ => [acc] end
  | b :: r =>
    let acc' := if b then (acc + w)%N else acc in
    match cnt with
    | 7 => acc' :: pack r 0%N 1%N 0
    | _ => pack r acc' (w * 2)%N (S cnt)
    end
  end.
Definition enc_bits (l : list bool) : val := VL (map VN (pack l 0%N 1%N 0)).

Definition case_paths (vL vextra : val) : list bytes :=
  all_paths alphabet (as_nat vL) ++ map as_bytes (as_list vextra).

(* 1202: (opts glob L extras) *)
Definition run_glob (v : val) : val :=
  let o := decode_opts (as_N (fld 0 v)) in
  match build o (as_bytes (fld 1 v)) with
  | Some (Ok ts) =>
    let paths := case_paths (fld 2 v) (fld 3 v) in
    let st := strategy_new o ts in
    VL [VN 0%N;
        enc_bits (map (tmatch o ts) paths);
        enc_bits (map (fun p => strategy_match st (candidate_new p) (tmatch o ts)) paths)]
  | _ => VL [VN 1%N]
  end.

Fixpoint decode_globs (l : list val) : option (list glob) :=
  match l with
  | [] => Some []
  | x :: r =>
    let o := decode_opts (as_N (fld 0 x)) in
    match build o (as_bytes (fld 1 x)), decode_globs r with
    | Some (Ok ts), Some gs => Some (mk_glob o ts :: gs)
    | _, _ => None
    end
  end.

(* 1203: (((opts glob) ...) L extras) *)
Definition run_set (v : val) : val :=
  match decode_globs (as_list (fld 0 v)) with
  | Some gs =>
    let paths := case_paths (fld 1 v) (fld 2 v) in
    VL [VN 0%N;
        VL (map (fun p => VL (map of_nat (set_matches re_spec gs p))) paths);
        enc_bits (map (set_is_match re_spec gs) paths)]
  | None => VL [VN 1%N]
  end.

(* 1204: (opts tree); tree = (apiece ...), apiece = (0 (aitem ...)) | (1), aitem = (0 gitem) | (1 (branch ...)) | (2) a ',' outside braces,
   branch = (gpiece ...), gpiece = (0 (gitem ...)) | (1),
   gitem = (0 c) plain | (1 c) escaped | (2) `?` | (3) `*` | (4 ((lo hi) ...)) class *)
Definition dec_gitem (v : val) : gitem :=
  match as_N (fld 0 v) with
  | 0 => IPlain (as_N (fld 1 v))
  | 1 => IEsc (as_N (fld 1 v))
  | 2 => IAny
  | 3 => IStar
  | _ => IClass (map (fun m => (as_N (fld 0 m), as_N (fld 1 m))) (as_list (fld 1 v)))
  end%N.
Definition dec_gpiece (v : val) : gpiece :=
  match as_N (fld 0 v) with
  | 0%N => PComp (map dec_gitem (as_list (fld 1 v)))
  | _ => PDStar
  end.
Definition dec_aitem (v : val) : aitem :=
  match as_N (fld 0 v) with
  | 0%N => AIt (dec_gitem (fld 1 v))
  | 2%N => AComma
  | _ => AAlt (map (fun b => map dec_gpiece (as_list b)) (as_list (fld 1 v)))
  end.
Definition dec_apiece (v : val) : apiece :=
  match as_N (fld 0 v) with
  | 0%N => APComp (map dec_aitem (as_list (fld 1 v)))
  | _ => APDStar
  end.
Definition run_syntax (v : val) : val :=
  let o := decode_opts (as_N (fld 0 v)) in
  let g := map dec_apiece (as_list (fld 1 v)) in
  let text := render_aglob g in
  VL [of_bool (aglob_ok g); of_bool (aglob_ok_doc g); of_bytes text;
      enc_tokens (parser_order (aglob_tokens g));
      match build o text with
      | None => VL [VN 1; VN 9]%N
      | Some (Err e) => enc_error e
      | Some (Ok ts) => VL [VN 0%N; enc_tokens ts]
      end].

Definition entry (k : N) (v : val) : option val :=
  match k with
  | 1201%N => Some (run_parse v)
  | 1202%N => Some (run_glob v)
  | 1203%N => Some (run_set v)
  | 1204%N => Some (run_syntax v)
  | _ => None
  end.
