(* Run/RunC19.v — entry points of the C19 models for the correspondence driver *)
From RG Require Import Base.Bytes Base.Val Model.Interpolate Spec.TemplateSpec.

(* case: (template caps names)   caps = list of option bytes ; names = list of (name idx) *)
Definition caps_fn (caps : list (option bytes)) (i : N) : option bytes :=
  nth_N caps i None.
Definition names_fn (names : list (bytes * N)) (s : bytes) : option N :=
  match find (fun p => bytes_eqb (fst p) s) names with Some p => Some (snd p) | None => None end.

Definition decode_caps (v : val) : list (option bytes) := map (as_option as_bytes) (as_list v).
Definition decode_names (v : val) : list (bytes * N) :=
  map (fun p => (as_bytes (fld 0 p), as_N (fld 1 p))) (as_list v).

Definition run_interpolate (v : val) : val :=
  let t := as_bytes (fld 0 v) in
  let caps := decode_caps (fld 1 v) in
  let names := decode_names (fld 2 v) in
  VL [ of_option of_bytes (interpolate (caps_fn caps) (names_fn names) t []);
       of_bytes (expand_spec (caps_fn caps) (names_fn names) t) ].

(* ---- kind 1902: replace_all on each matched line + how the standard printer writes it ---- *)
From RG Require Import Model.MatchIter Model.Replace.

Definition decode_caps_tbl (v : val) : caps :=
  map (as_option (fun p => (as_nat (fld 0 p), as_nat (fld 1 p)))) (as_list v).

(* table : pos -> option caps, for the one haystack the printer builds for this line *)
Definition table_matcher (tbl : list (option caps)) (_hay : bytes) (p : nat) : option caps :=
  nth p tbl None.

(* standard.rs write_line: the bytes, then the terminator unless already there *)
Definition write_line (lt : lineterm) (b : bytes) : bytes :=
  if lt_is_suffix lt b then b else b ++ lt_bytes lt.

Definition print_event (template : bytes) (names : list (bytes * N)) (lt : lineterm) (only : bool)
                       (ev : val) : bytes :=
  let buf := as_bytes (fld 0 ev) in
  let rs := as_nat (fld 1 ev) in
  let re := as_nat (fld 2 ev) in
  let tbl := map (as_option decode_caps_tbl) (as_list (fld 3 ev)) in
  match replace_all (table_matcher tbl) (names_fn names) lt buf rs re template with
  | None => [255; 255; 255]%N                    (* never: flagged by the comparison *)
  | Some (dst, spans) =>
    match spans with
    | [] => write_line lt (sub buf rs re)         (* Replacer::replacement() = None: original line *)
    | _ =>
      if only then concat (map (fun sp => write_line lt (sub dst (fst sp) (snd sp))) spans)
      else write_line lt dst
    end
  end.

Definition run_replace (v : val) : val :=
  let template := as_bytes (fld 0 v) in
  let names := decode_names (fld 1 v) in
  let lt := if as_bool (fld 2 v) then LTCrlf else LTByte 10%N in
  let only := as_bool (fld 3 v) in
  of_bytes (concat (map (print_event template names lt only) (as_list (fld 4 v)))).

(* ---- kind 1903: the call site of the Replacer in the standard printer (Model/ReplaceGlue.v) ----
   event = (buffer rs re window_len table); the table is the matcher on the window the harness
   computed from the documented rule; a window of another length than the model's is reported. *)
From RG Require Import Model.ReplaceGlue.

Definition glue_event (template : bytes) (names : list (bytes * N)) (lt : lineterm) (only ml : bool)
                      (ev : val) : option bytes :=
  let buf := as_bytes (fld 0 ev) in
  let rs := as_nat (fld 1 ev) in
  let re := as_nat (fld 2 ev) in
  let wlen := as_nat (fld 3 ev) in
  let tbl := map (as_option decode_caps_tbl) (as_list (fld 4 ev)) in
  if Nat.eqb (length (replace_haystack ml lt buf re)) wlen then
    standard_matched_output (table_matcher tbl) (names_fn names) ml lt only buf (rs, re) template
  else Some [255; 87; 73; 78]%N.             (* window mismatch: flagged by the comparison *)

Fixpoint glue_events (f : val -> option bytes) (evs : list val) (acc : bytes) : option bytes :=
  match evs with
  | [] => Some acc
  | ev :: evs' => match f ev with None => None | Some b => glue_events f evs' (acc ++ b) end
  end.

(* result: (panicked output) *)
Definition run_glue (v : val) : val :=
  let template := as_bytes (fld 0 v) in
  let names := decode_names (fld 1 v) in
  let lt := if as_bool (fld 2 v) then LTCrlf else LTByte 10%N in
  let only := as_bool (fld 3 v) in
  let ml := as_bool (fld 4 v) in
  match glue_events (glue_event template names lt only ml) (as_list (fld 5 v)) [] with
  | None => VL [of_bool true; of_bytes []]
  | Some b => VL [of_bool false; of_bytes b]
  end.

Definition entry (k : N) (v : val) : option val :=
  match k with
  | 1901%N => Some (run_interpolate v)
  | 1902%N => Some (run_replace v)
  | 1903%N => Some (run_glue v)
  | _ => None
  end.
