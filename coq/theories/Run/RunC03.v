(* Run/RunC03.v — entry points of the searcher models (slice strategies) for the driver.
   case: (cfg matcher input reply)
     cfg     = (crlf ltbyte invert after before passthru line_number stop_on_nonmatch multi_line)
     matcher = (needles confirm lt_mode), needle = (anchored bytes real)
     reply   = () | (k what)   what: 1 = Stop, 2 = Fail at sink call index k *)
From RG Require Import Base.Bytes Base.Val Model.Lines Model.SearcherCore Model.Glue Model.ScriptedMatcher
  Spec.GrepSpec.

Definition decode_cfg (v : val) : config :=
  let passthru := as_bool (fld 5 v) in
  (* SearcherBuilder::build: passthru zeroes both context sizes *)
  {| c_lt := if as_bool (fld 0 v) then LTCrlf else LTByte (as_N (fld 1 v));
     c_invert := as_bool (fld 2 v);
     c_after := if passthru then 0 else as_nat (fld 3 v);
     c_before := if passthru then 0 else as_nat (fld 4 v);
     c_passthru := passthru;
     c_line_number := as_bool (fld 6 v);
     c_stop_on_nonmatch := as_bool (fld 7 v);
     c_binary := BNone;
     c_multi_line := as_bool (fld 8 v) |}.

Definition decode_needle (v : val) : needle :=
  {| n_anch := as_bool (fld 0 v); n_bytes := as_bytes (fld 1 v); n_real := as_bool (fld 2 v) |}.

Definition decode_matcher (cfg : config) (v : val) : matcher :=
  scripted cfg (map decode_needle (as_list (fld 0 v))) (as_bool (fld 1 v)) (as_N (fld 2 v)).

Definition decode_reply (v : val) : nat -> reply :=
  match as_list v with
  | [] => fun _ => Continue
  | k :: w :: _ =>
    fun i => if Nat.eqb i (as_nat k) then (if (as_N w =? 1)%N then Stop else Fail) else Continue
  | _ => fun _ => Continue
  end.

Definition of_lnum (o : option nat) : val := of_option of_nat o.
Definition of_kind (k : ctx_kind) : val := VN (match k with CBefore => 0 | CAfter => 1 | COther => 2 end)%N.
Definition of_event (e : event) : val :=
  match e with
  | EBegin => VL [VN 0%N]
  | EMatched off ln b => VL [VN 1%N; of_nat off; of_lnum ln; of_bytes b]
  | EContext k off ln b => VL [VN 2%N; of_kind k; of_nat off; of_lnum ln; of_bytes b]
  | EBreak => VL [VN 3%N]
  | EBinary off => VL [VN 4%N; of_nat off]
  | EFinish n bin => VL [VN 5%N; of_nat n; of_option of_nat bin]
  end.
Definition of_result (r : run_result) : val :=
  match r with
  | RunOk evs => VL [VN 0%N; of_list of_event evs]
  | RunErr evs => VL [VN 1%N; of_list of_event evs]
  | RunFuel => VL [VN 2%N]
  end.

(* kind 301: Searcher::search_slice *)
Definition run_slice (v : val) : val :=
  let cfg := decode_cfg (fld 0 v) in
  let M := decode_matcher cfg (fld 1 v) in
  of_result (search_slice cfg M (decode_reply (fld 3 v)) (as_bytes (fld 2 v))).

(* kind 302: the grep reference for an uninterrupted line-oriented search *)
Definition run_ref (v : val) : val :=
  let cfg := decode_cfg (fld 0 v) in
  let M := decode_matcher cfg (fld 1 v) in
  of_result (RunOk (grep_ref cfg (m_is_match M) (as_bytes (fld 2 v)))).

Definition entry (k : N) (v : val) : option val :=
  match k with
  | 301%N => Some (run_slice v)
  | 302%N => Some (run_ref v)
  | _ => None
  end.
