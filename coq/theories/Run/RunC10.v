(* Run/RunC10.v — entry points of the printer models (Summary / Standard / JSON sinks) for the
   correspondence driver.  Shared by C10 (kinds 10xx) and reused by C09.

   case  := (env tables files modes)
   env   := (crlf multi invert after quit convert)
   tables:= list of (hay table)       table[p] = find_at(hay, p) as () or ((s e))
   file  := (path input events fins)  path := () | (bytes)
   event := (0 rs re lnum off [buf]) | (1 bytes kind lnum off) | (2) | (3 off)     lnum := () | (n)
   fins  := list of (byte_count binopt): [0] when begin is refused, [1+k] when event k is refused,
            [1+#events] after a complete search
   mode  := (0 kind stats path max exclude_zero sep_field path_term)
          | (1 heading path only_matching per_match per_match_one_line max column byte_offset stats
               sep_search sep_context sep_field_match sep_field_context path_term)
          | (2 max always_begin_end)
   result:= list over modes of (out per_file)   per_file := list of (completed match_count has_match stats)
            out = bytes (summary, standard) or list of messages (json); () when the model ran out of fuel *)
From RG Require Import Base.Bytes Base.Val Model.MatchIter Model.Replace Model.Sink Model.Summary
  Model.Standard Model.Json.

Definition dec_env (v : val) : senv :=
  mkEnv (if as_bool (fld 0 v) then LTCrlf else LTByte 10%N) (as_bool (fld 1 v)) (as_bool (fld 2 v))
        (as_nat (fld 3 v)) (as_bool (fld 4 v)) (as_bool (fld 5 v)).

Definition dec_span (v : val) : nat * nat := (as_nat (fld 0 v), as_nat (fld 1 v)).
Definition dec_tables (v : val) : list (bytes * list (option (nat * nat))) :=
  map (fun t => (as_bytes (fld 0 t), map (as_option dec_span) (as_list (fld 1 t)))) (as_list v).

Definition table_find_at (tbls : list (bytes * list (option (nat * nat)))) (hay : bytes) (p : nat)
  : option (nat * nat) :=
  match find (fun t => bytes_eqb (fst t) hay) tbls with
  | Some t => nth p (snd t) None
  | None => None
  end.

Definition dec_kind (n : N) : ctx_kind :=
  if (n =? 0)%N then CBefore else if (n =? 1)%N then CAfter else COther.

Definition dec_event (input : bytes) (v : val) : sevent :=
  let t := as_N (fld 0 v) in
  if (t =? 0)%N then
    (* field 5, when present: the buffer the searcher handed over, if it is not the searched slice itself *)
    SMatched (mkSM (match as_option as_bytes (fld 5 v) with Some b => b | None => input end)
                   (as_nat (fld 1 v)) (as_nat (fld 2 v)) (as_option as_nat (fld 3 v)) (as_nat (fld 4 v)))
  else if (t =? 1)%N then
    SContext (mkSC (as_bytes (fld 1 v)) (dec_kind (as_N (fld 2 v))) (as_option as_nat (fld 3 v)) (as_nat (fld 4 v)))
  else if (t =? 2)%N then SBreak
  else SBinary (as_nat (fld 1 v)).

Record file_case := mkFile { fc_path : option bytes; fc_events : list sevent; fc_fin : nat -> sfinish }.
Definition dec_file (v : val) : file_case :=
  let input := as_bytes (fld 1 v) in
  mkFile (as_option as_bytes (fld 0 v)) (map (dec_event input) (as_list (fld 2 v)))
         (fun k => let f := nth k (as_list (fld 3 v)) (VL []) in
                   mkFin (as_nat (fld 0 f)) (as_option as_nat (fld 1 f))).

Definition dec_skind (n : N) : skind :=
  if (n =? 0)%N then KCount else if (n =? 1)%N then KCountMatches else if (n =? 2)%N then KPathWithMatch
  else if (n =? 3)%N then KPathWithoutMatch else KQuiet.
Definition dec_sconfig (v : val) : sconfig :=
  mkSCfg (dec_skind (as_N (fld 1 v))) (as_bool (fld 2 v)) (as_bool (fld 3 v)) (as_option as_nat (fld 4 v))
         (as_bool (fld 5 v)) (as_bytes (fld 6 v)) (as_option as_N (fld 7 v)).
Definition dec_stdconfig (v : val) : stdconfig :=
  mkStd (as_bool (fld 1 v)) (as_bool (fld 2 v)) (as_bool (fld 3 v)) (as_bool (fld 4 v)) (as_bool (fld 5 v))
        (as_option as_nat (fld 6 v)) (as_bool (fld 7 v)) (as_bool (fld 8 v)) (as_bool (fld 9 v))
        (as_option as_bytes (fld 10 v)) (as_option as_bytes (fld 11 v)) (as_bytes (fld 12 v))
        (as_bytes (fld 13 v)) (as_option as_N (fld 14 v)).
Definition dec_jconfig (v : val) : jconfig := mkJCfg (as_option as_nat (fld 1 v)) (as_bool (fld 2 v)).

Definition of_stats (s : stats) : val :=
  VL [of_nat (s_searches s); of_nat (s_with_match s); of_nat (s_bytes_searched s); of_nat (s_bytes_printed s);
      of_nat (s_matched_lines s); of_nat (s_matches s)].
Definition of_data (d : jdata) : val :=
  match d with JText b => VL [VN 0%N; of_bytes b] | JBytes b => VL [VN 1%N; of_bytes b] end.
Definition of_jsub (s : jsub) : val := VL [of_data (j_m s); of_nat (j_start s); of_nat (j_end s)].
Definition of_jmsg (m : jmsg) : val :=
  match m with
  | JBegin p => VL [VN 0%N; of_option of_data p]
  | JMatch p l n o s => VL [VN 1%N; of_option of_data p; of_data l; of_option of_nat n; of_nat o; of_list of_jsub s]
  | JContext p l n o s => VL [VN 2%N; of_option of_data p; of_data l; of_option of_nat n; of_nat o; of_list of_jsub s]
  | JEnd p b st => VL [VN 3%N; of_option of_data p; of_option of_nat b; of_stats st]
  end.

Section RunModes.
  Variable find_at : bytes -> nat -> option (nat * nat).
  Variable env : senv.

  (* the printer is reused across the files: the writer is threaded through *)
  Fixpoint run_summary_files (cfg : sconfig) (files : list file_case) (w : wtr) (acc : list val)
    : option (wtr * list val) :=
    match files with
    | [] => Some (w, acc)
    | f :: r =>
      match summary_run find_at cfg env (fc_path f) w (fc_events f) (fc_fin f) with
      | None => None
      | Some (s, completed) =>
        run_summary_files cfg r (ss_wtr s)
          (acc ++ [VL [of_bool completed; VN 0%N (* match_count is private *); of_bool (ss_has_match cfg s);
                       of_option of_stats (ss_stats s)]])
      end
    end.

  Fixpoint run_standard_files (cfg : stdconfig) (files : list file_case) (w : wtr) (acc : list val)
    : option (wtr * list val) :=
    match files with
    | [] => Some (w, acc)
    | f :: r =>
      match standard_run find_at cfg env (fc_path f) w (fc_events f) (fc_fin f) with
      | None => None
      | Some (s, completed) =>
        run_standard_files cfg r (sd_wtr s)
          (acc ++ [VL [of_bool completed; of_nat (sd_match_count s); of_bool (Nat.ltb 0 (sd_match_count s));
                       of_option of_stats (sd_stats s)]])
      end
    end.

  Fixpoint run_json_files (cfg : jconfig) (files : list file_case) (out : list jmsg) (acc : list val)
    : option (list jmsg * list val) :=
    match files with
    | [] => Some (out, acc)
    | f :: r =>
      match run_sink (json_begin cfg) (json_step find_at cfg env) json_finish (fc_events f) (fc_fin f)
                     (json_sink (fc_path f) out) with
      | None => None
      | Some (s, completed) =>
        run_json_files cfg r (js_out s)
          (acc ++ [VL [of_bool completed; of_nat (js_match_count s); of_bool (Nat.ltb 0 (js_match_count s));
                       VL [of_stats (js_stats s)]]])
      end
    end.

  Definition run_mode (files : list file_case) (mode : val) : val :=
    let t := as_N (fld 0 mode) in
    if (t =? 0)%N then
      match run_summary_files (dec_sconfig mode) files w_new [] with
      | Some (w, acc) => VL [of_bytes (w_out w); VL acc]
      | None => VL []
      end
    else if (t =? 1)%N then
      match run_standard_files (dec_stdconfig mode) files w_new [] with
      | Some (w, acc) => VL [of_bytes (w_out w); VL acc]
      | None => VL []
      end
    else
      match run_json_files (dec_jconfig mode) files [] [] with
      | Some (out, acc) => VL [of_list of_jmsg out; VL acc]
      | None => VL []
      end.
End RunModes.

Definition run_printers (v : val) : val :=
  let env := dec_env (fld 0 v) in
  let tbls := dec_tables (fld 1 v) in
  let files := map dec_file (as_list (fld 2 v)) in
  VL (map (run_mode (table_find_at tbls) env files) (as_list (fld 3 v))).

(* kind 1002: std::str::from_utf8 acceptance and base64_standard *)
Definition run_data (v : val) : val := of_data (data_from_bytes (as_bytes v)).

(* kind 1003: DecimalFormatter *)
(* the number arrives as its decimal digits (the driver's integers are OCaml ints) *)
Definition digits_to_N (b : bytes) : N := fold_left (fun acc d => (acc * 10 + (d - 48))%N) b 0%N.
Definition run_decimal (v : val) : val := of_bytes (decimal_formatter (digits_to_N (as_bytes v))).

Definition entry (k : N) (v : val) : option val :=
  match k with
  | 1001%N => Some (run_printers v)
  | 1002%N => Some (run_data v)
  | 1003%N => Some (run_decimal v)
  | _ => None
  end.
