(* Run/RunC08.v — entry points of the C08 model for the correspondence driver.
   kind 801: termcolor BufferWriter's rule alone.  case = (sep buffers)  sep: () | (bytes); buffers: list of bytes
             result = the bytes written to stdout by printing the buffers in order (bw_print of Model/MainRun.v)
   kind 803: a whole run, same case layout and result as kind 1501 (Run/RunC15.v) *)
From RG Require Import Base.Bytes Base.Val Model.CliTypes Gen.DecisionsCli Model.MainRun.
From RG Require Run.RunC15.

Definition bw_cfg (sep : option bytes) : cfg :=
  {| c_quiet := false; c_quit_after_match := false; c_implicit_path := false; c_messages := true;
     c_stats := None; c_collects := false; c_sep := sep; c_lineterm := [10%N]; c_setup_ok := true |}.

Definition run_bufwriter (v : val) : val :=
  let c := bw_cfg (as_option as_bytes (fld 0 v)) in
  let bufs := map as_bytes (as_list (fld 1 v)) in
  let s := fold_left (fun s b => snd (bw_print c {| h_id := 0%N; h_res := SMatch; h_out := b; h_print := POk |} s))
                     bufs st0 in
  of_bytes (out s).

Definition entry (k : N) (v : val) : option val :=
  match k with
  | 801%N => Some (run_bufwriter v)
  | 803%N => Some (RunC15.run_case v)
  | _ => None
  end.
