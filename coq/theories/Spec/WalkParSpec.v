(* Spec/WalkParSpec.v — what C07 states about the protocol of Model/WalkPar.v:
   which entries must be visited, the termination measure, the invariant. Definitions only. *)
From Coq Require Import List Arith Bool Lia Permutation.
Import ListNotations.
From RG Require Import Model.WalkPar.

(* ---- what has to be visited ---- *)

(* every id of a tree / forest (with multiplicity) *)
Fixpoint tree_ids (t : tree) : list nat :=
  match t with Node x kids => x :: flat_map tree_ids kids end.
Definition forest_ids (f : forest) : list nat := flat_map tree_ids f.

(* the entries a complete walk hands to the visitor: an entry's children are generated only when
   the visitor answers Continue for it *)
Fixpoint reach_ids (resp : nat -> walk_state) (t : tree) : list nat :=
  match t with
  | Node x kids =>
      x :: match resp x with
           | WContinue => flat_map (reach_ids resp) kids
           | _ => []
           end
  end.
Definition ids_under_skip (resp : nat -> walk_state) (f : forest) : list nat :=
  flat_map (reach_ids resp) f.

(* ---- what is still owed by a state: entries reachable from the messages in deques and in hands ---- *)
Definition msg_ids (resp : nat -> walk_state) (m : msg) : list nat :=
  match m with Work t => reach_ids resp t | Quit => [] end.
Definition deq_ids (resp : nat -> walk_state) (d : list msg) : list nat := flat_map (msg_ids resp) d.
Definition hand_ids (resp : nat -> walk_state) (p : pc) : list nat :=
  match p with
  | PCheck (Some m) => msg_ids resp m
  | PAct m => msg_ids resp m
  | PVisit t => reach_ids resp t
  | PPush ts => flat_map (reach_ids resp) ts
  | _ => []
  end.
Definition pend (resp : nat -> walk_state) (s : st) : list nat :=
  flat_map (hand_ids resp) (pcs s) ++ flat_map (deq_ids resp) (deq s).

(* ---- the termination measure ---- *)
Section Measure.
  Variable n : nat.                               (* number of workers *)
  (* budget carried by a Work message: enough for its whole processing cycle *)
  Fixpoint tree_wt (t : tree) : nat :=
    match t with
    | Node _ kids => n + 12 + list_sum (map (fun k => S (tree_wt k)) kids)
    end.
  Definition msg_wt (m : msg) : nat := match m with Work t => tree_wt t | Quit => 0 end.
  Definition deq_wt (d : list msg) : nat := list_sum (map msg_wt d).
  Definition rank (p : pc) : nat :=
    match p with
    | PRecv Top => n + 10
    | PSteal Top vs => length vs + 8
    | PCheck None => 7
    | PDeact => 6
    | PRecv Wait | PSteal Wait _ | PSleep => 5
    | PAct m => 4 + msg_wt m
    | PCheck (Some m) => 3 + msg_wt m
    | PVisit t => 2 + tree_wt t
    | PPush ts => n + 11 + list_sum (map (fun k => S (tree_wt k)) ts)
    | PSetQuit => n + 11
    | PSendQuit _ => 1
    | PExit => 0
    end.
End Measure.

Definition mu (s : st) : nat :=
  let n := length (pcs s) in
  list_sum (map (rank n) (pcs s)) + list_sum (map (deq_wt n) (deq s)).

(* the locations of the idle wait loop: failed pop, failed steals, sleep *)
Definition in_wait_loop (p : pc) : bool :=
  match p with PRecv Wait | PSteal Wait _ | PSleep => true | _ => false end.

(* which worker a choice moves *)
Definition worker_of (c : choice) : nat := match c with Own w => w | Steal w _ _ => w end.

(* number of steps of a run that are not idle spins (= that decrease mu) *)
Fixpoint busy_steps (resp : nat -> walk_state) (s : st) (cs : list choice) : nat :=
  match cs with
  | [] => 0
  | c :: r =>
      match step resp s c with
      | Some s' => (if mu s' <? mu s then 1 else 0) + busy_steps resp s' r
      | None => 0
      end
  end.

(* ---- the invariant ---- *)
Definition is_quit (m : msg) : bool := match m with Quit => true | Work _ => false end.
Definition is_work (m : msg) : bool := match m with Quit => false | Work _ => true end.

(* locations whose own deque is empty: the own pop failed and nobody else pushes onto it *)
Definition needs_empty (p : pc) : bool :=
  match p with
  | PSteal _ _ | PCheck None | PDeact | PRecv Wait | PSleep | PSendQuit true => true
  | _ => false
  end.

(* locations of a worker that holds / held a Quit message and is on its way out *)
Definition quit_side (p : pc) : bool :=
  match p with
  | PCheck (Some Quit) | PAct Quit | PSendQuit _ | PExit => true
  | _ => false
  end.

(* locations counted in active_workers among the workers that have not exited *)
Definition counted (p : pc) : bool :=
  match p with
  | PRecv Wait | PSteal Wait _ | PSleep | PAct _ | PSendQuit true | PExit => false
  | _ => true
  end.
Definition is_exit (p : pc) : bool := match p with PExit => true | _ => false end.
Definition is_sendquit (p : pc) : bool := match p with PSendQuit _ => true | _ => false end.
Definition holds_quit (p : pc) : bool :=
  match p with PCheck (Some Quit) | PAct Quit => true | _ => false end.

Definition count {A} (f : A -> bool) (l : list A) : nat := list_sum (map (fun x => if f x then 1 else 0) l).

Record SafeInv (resp : nat -> walk_state) (f : forest) (s : st) : Prop := {
  si_len : length (deq s) = length (pcs s);
  si_vict : forall w c vs, nth_error (pcs s) w = Some (PSteal c vs) -> ~ In w vs;
  si_empty : forall w p, nth_error (pcs s) w = Some p -> needs_empty p = true -> nth w (deq s) [] = [];
  (* conservation: visited + owed (+ what was thrown away after a Quit answer) = everything reachable *)
  si_cons : exists dropped,
      Permutation (visited s ++ pend resp s ++ dropped) (ids_under_skip resp f)
      /\ (quit_now s = false -> dropped = []);
  si_quit : (quit_now s = true \/ In PSetQuit (pcs s)) -> exists x, In x (visited s) /\ resp x = WQuit;
  (* Quit/Work separation while nobody asked to quit *)
  si_side : quit_now s = false -> forall w p, nth_error (pcs s) w = Some p ->
      Forall (fun m => is_quit m = quit_side p) (nth w (deq s) [])
}.

Record LiveInv (s : st) : Prop := {
  li_count : count counted (pcs s) <= active s <= count counted (pcs s) + count is_exit (pcs s);
  li_alive : 1 <= active s \/ 1 <= count is_sendquit (pcs s) + count is_exit (pcs s);
  li_quits : 1 <= count is_exit (pcs s) ->
      1 <= list_sum (map (count is_quit) (deq s)) + count holds_quit (pcs s) + count is_sendquit (pcs s)
}.

(* ---- infinite executions and fairness ---- *)
Section Fairness.
  Variable resp : nat -> walk_state.

  (* an infinite execution: a schedule sigma and the states tau it goes through, every step enabled *)
  Definition execution (s0 : st) (sigma : nat -> choice) (tau : nat -> st) : Prop :=
    tau 0 = s0 /\ forall i, step resp (tau i) (sigma i) = Some (tau (S i)).

  (* weak fairness of the thread scheduler: a worker that has not exited is scheduled again *)
  Definition sched_fair (sigma : nat -> choice) (tau : nat -> st) : Prop :=
    forall i w p, nth_error (pcs (tau i)) w = Some p -> is_exit p = false ->
                  exists j, i <= j /\ worker_of (sigma j) = w.

  (* a steal attempt that fails although the victim's deque is not empty (crossbeam's Steal::Retry,
     which needs a concurrent operation on the same deque) *)
  Definition spurious_fail (s : st) (c : choice) : Prop :=
    exists w cx v vs, c = Own w /\ nth_error (pcs s) w = Some (PSteal cx (v :: vs)) /\ nth v (deq s) [] <> [].

  (* fairness of the deque: only finitely many spurious failures *)
  Definition steal_fair (sigma : nat -> choice) (tau : nat -> st) : Prop :=
    exists K, forall i, K <= i -> ~ spurious_fail (tau i) (sigma i).
End Fairness.
