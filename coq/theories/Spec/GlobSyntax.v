(* Spec/GlobSyntax.v — the glob syntax the globset documentation defines (without alternates), as abstract
   syntax with its rendering to glob text and the tokens the documentation's reading assigns to it:
   a glob is a '/'-separated list of pieces; a piece is a component (literal characters, plain or
   backslash-escaped, `?`, `*`, bracket classes of characters and ranges) or `**`.  Definitions only. *)
From RG Require Import Base.Bytes Model.Glob.

Inductive gitem := IPlain (c : N) | IEsc (c : N) | IAny | IStar | IClass (ms : list (N * N)).
Inductive gpiece := PComp (its : list gitem) | PDStar.

Definition render_member (m : N * N) : list N :=
  if (fst m =? snd m)%N then [fst m] else [fst m; 45%N; snd m].
Definition render_item (i : gitem) : list N :=
  match i with
  | IPlain c => [c]
  | IEsc c => [92%N; c]
  | IAny => [63%N]
  | IStar => [42%N]
  | IClass ms => 91%N :: flat_map render_member ms ++ [93%N]
  end.
Definition render_comp (its : list gitem) : list N := flat_map render_item its.
Definition render_piece (p : gpiece) : list N :=
  match p with PComp its => render_comp its | PDStar => [42; 42]%N end.
Fixpoint render_glob (ps : list gpiece) : list N :=
  match ps with
  | [] => []
  | p :: r => match r with
              | [] => render_piece p
              | _ => render_piece p ++ 47%N :: render_glob r
              end
  end.

Definition item_tok (i : gitem) : token :=
  match i with
  | IPlain c | IEsc c => TLit c
  | IAny => TAny
  | IStar => TStar
  | IClass ms => TClass false ms
  end.
Definition comp_toks (its : list gitem) : list token := map item_tok its.

(* the tokens for what follows a component *)
Fixpoint after_piece (ps : list gpiece) : list token :=
  match ps with
  | [] => []
  | PComp its :: r => TLit 47 :: comp_toks its ++ after_piece r
  | PDStar :: r =>
    match r with
    | [] => [TRecSuffix]
    | PComp its :: r' => TRecZeroOrMore :: comp_toks its ++ after_piece r'
    | PDStar :: _ => []
    end
  end.
Definition glob_tokens (ps : list gpiece) : list token :=
  match ps with
  | [] => []
  | PComp its :: r => comp_toks its ++ after_piece r
  | PDStar :: r =>
    match r with
    | [] => [TRecPrefix]
    | PComp its :: r' => TRecPrefix :: comp_toks its ++ after_piece r'
    | PDStar :: _ => []
    end
  end.

(* well-formedness *)
Definition plain_ok (c : N) : bool :=      (* not special for the glob parser, not a separator *)
  negb ((c =? 63) || (c =? 42) || (c =? 91) || (c =? 123) || (c =? 125) || (c =? 44) || (c =? 92) || (c =? 47))%N.
Definition class_char_ok (c : N) : bool := negb ((c =? 93) || (c =? 45))%N.
Definition member_ok (m : N * N) : bool :=
  class_char_ok (fst m) && class_char_ok (snd m) && (fst m <=? snd m)%N.
Definition item_ok (i : gitem) : bool :=
  match i with
  | IPlain c => plain_ok c
  | IEsc c => negb (c =? 47)%N
  | IClass ms =>
    forallb member_ok ms &&
    match ms with
    | [] => false
    | m :: _ => negb ((fst m =? 33) || (fst m =? 94))%N        (* would read as negation *)
    end
  | _ => true
  end.
Fixpoint no_adjacent_star (its : list gitem) : bool :=
  match its with
  | IStar :: ((IStar :: _) as r) => false
  | _ :: r => no_adjacent_star r
  | [] => true
  end.
Definition piece_ok (p : gpiece) : bool :=
  match p with
  | PComp its => forallb item_ok its && no_adjacent_star its && negb (match its with [] => true | _ => false end)
  | PDStar => true
  end.
Fixpoint no_adjacent_dstar_p (ps : list gpiece) : bool :=
  match ps with
  | PDStar :: ((PDStar :: _) as r) => false
  | _ :: r => no_adjacent_dstar_p r
  | [] => true
  end.
Definition glob_ok (ps : list gpiece) : bool :=
  forallb piece_ok ps && no_adjacent_dstar_p ps && negb (match ps with [] => true | _ => false end).
