(* Spec/GlobSyntax.v — the glob syntax the globset documentation defines (without alternates), as abstract
   syntax with its rendering to glob text and the tokens the documentation's reading assigns to it:
   a glob is a '/'-separated list of pieces; a piece is a component (literal characters, plain or
   backslash-escaped, `?`, `*`, bracket classes of characters and ranges) or `**`.  Definitions only. *)
From RG Require Import Base.Bytes Model.Glob.

Inductive gitem := IPlain (c : N) | IEsc (c : N) | IAny | IStar | IClass (ms : list (N * N)).
Inductive gpiece := PComp (its : list gitem) | PDStar.

Definition render_member (m : N * N) : list N :=
  if (fst m =? snd m)%N then [fst m] else [fst m; 45%N; snd m].
Definition render_item (i : gitem) : list N :=
  match i with
  | IPlain c => [c]
  | IEsc c => [92%N; c]
  | IAny => [63%N]
  | IStar => [42%N]
  | IClass ms => 91%N :: flat_map render_member ms ++ [93%N]
  end.
Definition render_comp (its : list gitem) : list N := flat_map render_item its.
Definition render_piece (p : gpiece) : list N :=
  match p with PComp its => render_comp its | PDStar => [42; 42]%N end.
Fixpoint render_glob (ps : list gpiece) : list N :=
  match ps with
  | [] => []
  | p :: r => match r with
              | [] => render_piece p
              | _ => render_piece p ++ 47%N :: render_glob r
              end
  end.

Definition item_tok (i : gitem) : token :=
  match i with
  | IPlain c | IEsc c => TLit c
  | IAny => TAny
  | IStar => TStar
  | IClass ms => TClass false ms
  end.
Definition comp_toks (its : list gitem) : list token := map item_tok its.

(* the tokens for what follows a component *)
Fixpoint after_piece (ps : list gpiece) : list token :=
  match ps with
  | [] => []
  | PComp its :: r => TLit 47 :: comp_toks its ++ after_piece r
  | PDStar :: r =>
    match r with
    | [] => [TRecSuffix]
    | PComp its :: r' => TRecZeroOrMore :: comp_toks its ++ after_piece r'
    | PDStar :: _ => []
    end
  end.
Definition glob_tokens (ps : list gpiece) : list token :=
  match ps with
  | [] => []
  | PComp its :: r => comp_toks its ++ after_piece r
  | PDStar :: r =>
    match r with
    | [] => [TRecPrefix]
    | PComp its :: r' => TRecPrefix :: comp_toks its ++ after_piece r'
    | PDStar :: _ => []
    end
  end.

(* well-formedness *)
Definition plain_ok (c : N) : bool :=      (* not special for the glob parser, not a separator *)
  negb ((c =? 63) || (c =? 42) || (c =? 91) || (c =? 123) || (c =? 125) || (c =? 44) || (c =? 92) || (c =? 47))%N.
Definition class_char_ok (c : N) : bool := negb ((c =? 93) || (c =? 45))%N.
Definition member_ok (m : N * N) : bool :=
  class_char_ok (fst m) && class_char_ok (snd m) && (fst m <=? snd m)%N.
Definition item_ok (i : gitem) : bool :=
  match i with
  | IPlain c => plain_ok c
  | IEsc c => negb (c =? 47)%N
  | IClass ms =>
    forallb member_ok ms &&
    match ms with
    | [] => false
    | m :: _ => negb ((fst m =? 33) || (fst m =? 94))%N        (* would read as negation *)
    end
  | _ => true
  end.
Fixpoint no_adjacent_star (its : list gitem) : bool :=
  match its with
  | IStar :: ((IStar :: _) as r) => false
  | _ :: r => no_adjacent_star r
  | [] => true
  end.
Definition piece_ok (p : gpiece) : bool :=
  match p with
  | PComp its => forallb item_ok its && no_adjacent_star its && negb (match its with [] => true | _ => false end)
  | PDStar => true
  end.
Fixpoint no_adjacent_dstar_p (ps : list gpiece) : bool :=
  match ps with
  | PDStar :: ((PDStar :: _) as r) => false
  | _ :: r => no_adjacent_dstar_p r
  | [] => true
  end.
Definition glob_ok (ps : list gpiece) : bool :=
  forallb piece_ok ps && no_adjacent_dstar_p ps && negb (match ps with [] => true | _ => false end).

(* ------------------------------------------------------------------ alternates
   globset documentation: "`{a,b}` matches `a` or `b` where `a` and `b` are arbitrary glob patterns.
   (N.B. Nesting `{...}` is not currently allowed.)"
   So: an alternation may stand wherever an item of a component may stand; its alternatives are globs of the
   alternate-free syntax above (a list of pieces), or empty; at least one alternative is written between the
   braces (`{}` is the one empty alternative).  A ',' separates alternatives between braces only; outside
   braces it is an ordinary character (AComma; between braces a literal comma is written `\,`).  The documented token tree of `{a,b,…}` is
   Alternates [tokens of a; tokens of b; …] in the order written, the tokens of an alternative being those the
   alternate-free reading assigns to it as a glob of its own ([glob_tokens]). *)
Inductive aitem := AIt (i : gitem) | AComma | AAlt (bs : list (list gpiece)).
Inductive apiece := APComp (its : list aitem) | APDStar.

Fixpoint render_branches (bs : list (list gpiece)) : list N :=
  match bs with
  | [] => []
  | b :: r => match r with
              | [] => render_glob b
              | _ => render_glob b ++ 44%N :: render_branches r
              end
  end.
Definition render_aitem (i : aitem) : list N :=
  match i with
  | AIt i => render_item i
  | AComma => [44%N]
  | AAlt bs => 123%N :: render_branches bs ++ [125%N]
  end.
Definition render_acomp (its : list aitem) : list N := flat_map render_aitem its.
Definition render_apiece (p : apiece) : list N :=
  match p with APComp its => render_acomp its | APDStar => [42; 42]%N end.
Fixpoint render_aglob (ps : list apiece) : list N :=
  match ps with
  | [] => []
  | p :: r => match r with
              | [] => render_apiece p
              | _ => render_apiece p ++ 47%N :: render_aglob r
              end
  end.

(* documented tokens, alternatives in the order written *)
Definition aitem_tok (i : aitem) : token :=
  match i with
  | AIt i => item_tok i
  | AComma => TLit 44
  | AAlt bs => TAlt (map glob_tokens bs)
  end.
Definition acomp_toks (its : list aitem) : list token := map aitem_tok its.
Fixpoint aafter_piece (ps : list apiece) : list token :=
  match ps with
  | [] => []
  | APComp its :: r => TLit 47 :: acomp_toks its ++ aafter_piece r
  | APDStar :: r =>
    match r with
    | [] => [TRecSuffix]
    | APComp its :: r' => TRecZeroOrMore :: acomp_toks its ++ aafter_piece r'
    | APDStar :: _ => []
    end
  end.
Definition aglob_tokens (ps : list apiece) : list token :=
  match ps with
  | [] => []
  | APComp its :: r => acomp_toks its ++ aafter_piece r
  | APDStar :: r =>
    match r with
    | [] => [TRecPrefix]
    | APComp its :: r' => TRecPrefix :: acomp_toks its ++ aafter_piece r'
    | APDStar :: _ => []
    end
  end.

(* the order in which the parser stores the alternatives of one Alternates token: `pop_alternate` pops the
   stack, so the LAST alternative written comes first.  The documented tree is in the order written; the
   parser's tree is this image of it (alternatives are alternate-free, one level is all there is).  The order
   of the alternatives does not matter for matching (Proofs: tmatch_alt_order). *)
Definition tok_parser_order (t : token) : token :=
  match t with TAlt alts => TAlt (rev alts) | t => t end.
Definition parser_order (ts : list token) : list token := map tok_parser_order ts.

(* well-formedness.  An alternative is empty or a well-formed alternate-free glob other than the lone `**`:
   the documentation defines `**` as a glob ("match everything"), but between braces the parser reads a lone
   `**` as two `*` (see Props/C12.v parse_documented_syntax_alt_lone_dstar_refuted). *)
Definition is_lone_dstar (b : list gpiece) : bool :=
  match b with [PDStar] => true | _ => false end.
Definition branch_ok (b : list gpiece) : bool :=
  match b with [] => true | _ => glob_ok b && negb (is_lone_dstar b) end.
Definition branch_ok_doc (b : list gpiece) : bool :=       (* what the documentation allows: lone `**` included *)
  match b with [] => true | _ => glob_ok b end.
Definition aitem_ok_with (bok : list gpiece -> bool) (i : aitem) : bool :=
  match i with
  | AIt i => item_ok i
  | AComma => true
  | AAlt bs => forallb bok bs && negb (match bs with [] => true | _ => false end)
  end.
Fixpoint no_adjacent_astar (its : list aitem) : bool :=
  match its with
  | AIt IStar :: ((AIt IStar :: _) as r) => false
  | _ :: r => no_adjacent_astar r
  | [] => true
  end.
Definition apiece_ok_with (bok : list gpiece -> bool) (p : apiece) : bool :=
  match p with
  | APComp its => forallb (aitem_ok_with bok) its && no_adjacent_astar its && negb (match its with [] => true | _ => false end)
  | APDStar => true
  end.
Fixpoint no_adjacent_dstar_a (ps : list apiece) : bool :=
  match ps with
  | APDStar :: ((APDStar :: _) as r) => false
  | _ :: r => no_adjacent_dstar_a r
  | [] => true
  end.
Definition aglob_ok_with (bok : list gpiece -> bool) (ps : list apiece) : bool :=
  forallb (apiece_ok_with bok) ps && no_adjacent_dstar_a ps && negb (match ps with [] => true | _ => false end).
Definition aglob_ok : list apiece -> bool := aglob_ok_with branch_ok.
Definition aglob_ok_doc : list apiece -> bool := aglob_ok_with branch_ok_doc.


(* the alternate-free syntax is the sub-syntax without AComma/AAlt *)
Definition piece_inj (p : gpiece) : apiece :=
  match p with PComp its => APComp (map AIt its) | PDStar => APDStar end.
