(* Spec/FilterSpec.v — the documented precedence of filters (property C05), stated on opinions.

   A directory on the way up from an entry is seen as a [dview]: what each of its four per-directory
   rule files says about the entry (None / Ignore / Whitelist), whether it is a repository root,
   and whether it lies above the search root.  The verdict is the documented order

       overrides |> (rgignore |> ignore |> gitignore |> exclude |> global |> explicit) |> types |> hidden

   where each per-directory source speaks through its nearest directory with an opinion, git
   sources are heard only inside a repository (or with --no-require-git) and only up to the
   repository root, and directories above the search root are heard only with `parents`. *)
From RG Require Import Base.Bytes Model.IgnoreDir.

Record dview := {
  v_custom : mtch; v_ignore : mtch; v_gi : mtch; v_excl : mtch;
  v_git : bool;         (* this directory is a repository root (has .git), as far as the options look *)
  v_above : bool        (* this directory lies above the search root *)
}.

(* the nearest directory with an opinion decides *)
Fixpoint nearest (l : list mtch) : mtch :=
  match l with
  | [] => MNone
  | m :: r => match m with MNone => nearest r | _ => m end
  end.

(* directories from the entry's own up to and including the repository root *)
Fixpoint upto_repo (l : list dview) : list dview :=
  match l with
  | [] => []
  | d :: r => if v_git d then [d] else d :: upto_repo r
  end.

(* which directories are heard at all: those inside the search root; those above only with `parents` *)
Definition heard (parents : bool) (below above : list dview) : list dview :=
  if parents then below ++ above else below.

Record sview := {
  s_overrides : mtch;              (* -g globs: Override::matched *)
  s_below : list dview;            (* directories from the entry's own up to the search root *)
  s_above : list dview;            (* directories above the search root, nearest first *)
  s_global : mtch;                 (* global gitignore *)
  s_explicit : list mtch;          (* --ignore-file opinions, last given first *)
  s_types : mtch;                  (* -t/-T: Types::matched *)
  s_hidden : bool;                 (* the entry's name starts with '.' *)
  s_any_rules : bool               (* some rule source is configured at all (else the stage is skipped) *)
}.

Definition in_repo (require_git : bool) (s : sview) : bool :=
  negb require_git || existsb v_git (s_below s ++ s_above s).

(* stage 2: the six ignore-file sources in precedence order; source order dominates directory depth *)
Definition stage_sources (o : opts) (s : sview) : list mtch :=
  let ds := heard (o_parents o) (s_below s) (s_above s) in
  let git := in_repo (o_require_git o) s in
  let rgignore := nearest (map v_custom ds) in
  let dotignore := nearest (map v_ignore ds) in
  let gitignore := if git then nearest (map v_gi (upto_repo ds)) else MNone in
  let exclude := if git then nearest (map v_excl (upto_repo ds)) else MNone in
  let global := if git then s_global s else MNone in
  let explicit := nearest (s_explicit s) in
  [rgignore; dotignore; gitignore; exclude; global; explicit].
Definition ignore_stage (o : opts) (s : sview) : mtch := nearest (stage_sources o s).

(* the whole decision: an override opinion is final; an ignore from a later stage is final; a
   whitelist is remembered; hidden applies only when nothing spoke *)
Definition decide_spec (o : opts) (s : sview) : mtch :=
  match s_overrides s with
  | MNone =>
    let ig := if s_any_rules s then ignore_stage o s else MNone in
    match ig with
    | MIgnore => MIgnore
    | _ =>
      match s_types s with
      | MIgnore => MIgnore
      | MWhitelist => MWhitelist
      | MNone =>
        match ig with
        | MWhitelist => MWhitelist
        | _ => if o_hidden o && s_hidden s then MIgnore else MNone
        end
      end
    end
  | m => m
  end.

(* the last path component, by definition: the bytes after the last '/', and none when that
   component is empty-path, "." or ".." *)
Definition last_component (path : bytes) : bytes := skipn (after_last_slash path) path.
Definition name_spec (path : bytes) : option bytes :=
  if bytes_eqb path [] then None
  else if bytes_eqb (last_component path) [DOT] || bytes_eqb (last_component path) [DOT; DOT] then None
  else Some (last_component path).
Definition hidden_spec (path : bytes) : bool :=
  match name_spec path with Some (c :: _) => (c =? DOT)%N | _ => false end.

(* ---------------------------------------------------------------- how an Ignore value is viewed *)
Definition nview (path : bytes) (is_dir : bool) (above : bool) (n : node) : dview :=
  {| v_custom := nd_custom n path is_dir; v_ignore := nd_ignore n path is_dir;
     v_gi := nd_gi n path is_dir; v_excl := nd_excl n path is_dir;
     v_git := nd_has_git n; v_above := above |}.
(* a directory that is not consulted: no opinions, but still counts as a repository root *)
Definition nview_silent (n : node) : dview :=
  {| v_custom := MNone; v_ignore := MNone; v_gi := MNone; v_excl := MNone; v_git := nd_has_git n; v_above := true |}.

Definition strip_dot_slash (p : bytes) : bytes :=
  match strip_prefix [DOT; SLASH] p with Some q => q | None => p end.

Definition view_of (ig : ignore) (path0 : bytes) (is_dir : bool) : sview :=
  let path := strip_dot_slash path0 in
  let sh := ig_sh ig in
  let notabs := fun n => negb (nd_abs n) in
  {| s_overrides := override_matched (sh_overrides sh) path is_dir;
     s_below := map (nview path is_dir false) (take_while notabs (ig_nodes ig));
     s_above := match ig_abs_base ig with
                | Some b => map (nview (rebase b (self_dir ig) path) is_dir true) (drop_while notabs (ig_nodes ig))
                | None => map nview_silent (drop_while notabs (ig_nodes ig))
                end;
     s_global := sh_global sh path is_dir;
     s_explicit := map (fun g : gmatcher => g path is_dir) (rev (sh_explicit sh));
     s_types := if ty_is_empty (sh_types sh) then MNone else types_matched (sh_types sh) path is_dir;
     s_hidden := hidden_spec path0;
     s_any_rules := has_any_ignore_rules ig |}.

(* ---------------------------------------------------------------- the command-line level *)
(* the world an entry lives in: the command line, the directories above the search root (from the
   file system root downward), canonicalize(root), and the directories from the search root down
   to the one containing the entry *)
Record world := {
  w_cmd : cmdline;
  w_canon : option bytes;
  w_above : list dirinfo;
  w_below : list dirinfo
}.

Definition world_ig (f : lowflags) (w : world) : ignore :=
  fold_left add_child (w_below w)
    (add_parents (build_root (walk_builder_opts f) (walk_builder_env f (w_cmd w))) (w_canon w) (w_above w)).

(* the model's decision for an entry, from flags and world *)
Definition decide (f : lowflags) (w : world) (path : bytes) (is_dir : bool) : mtch :=
  matched_dir_entry (world_ig f w) path is_dir.

(* the documented meaning of the flags: a source that is switched off has no opinion *)
Definition src_on (b : bool) (m : mtch) : mtch := if b then m else MNone.

(* gitrepository-layout(5): a repository's work tree root holds `.git`, either the repository directory
   itself or a "gitfile", a plain file `gitdir: <path>` (linked worktrees, submodules).  Both mark a
   repository root, wherever the directory lies relative to the search root. *)
Definition repo_marker (k : dotgit) : bool :=
  match k with GitAbsent => false | _ => true end.

Definition wdview (f : lowflags) (above : bool) (path : bytes) (is_dir : bool) (d : dirinfo) : dview :=
  {| v_custom := src_on (negb (f_no_ignore_dot f)) (di_custom d path is_dir);
     v_ignore := src_on (negb (f_no_ignore_dot f)) (di_dotignore d path is_dir);
     v_gi := src_on (negb (f_no_ignore_vcs f)) (di_gitignore d path is_dir);
     v_excl := src_on (negb (f_no_ignore_vcs f) && negb (f_no_ignore_exclude f)) (di_exclude d path is_dir);
     v_git := negb (f_no_require_git f) && negb (f_no_ignore_vcs f) && repo_marker (di_dotgit d);
     v_above := above |}.

Definition last_dir (w : world) : bytes := match rev (w_below w) with d :: _ => di_path d | [] => [] end.

Definition wview (f : lowflags) (w : world) (path0 : bytes) (is_dir : bool) : sview :=
  let path := strip_dot_slash path0 in
  let c := w_cmd w in
  {| s_overrides := override_matched (c_globs c) path is_dir;
     s_below := map (wdview f false path is_dir) (rev (w_below w));
     s_above := match w_canon w with
                | Some b => map (wdview f true (rebase b (last_dir w) path) is_dir) (rev (w_above w))
                | None => []
                end;
     s_global := src_on (negb (f_no_ignore_vcs f) && negb (f_no_ignore_global f)) (c_global c path is_dir);
     s_explicit := if f_no_ignore_files f then [] else map (fun g : gmatcher => g path is_dir) (rev (c_ignore_files c));
     s_types := if ty_is_empty (c_types c) then MNone else types_matched (c_types c) path is_dir;
     s_hidden := hidden_spec path0;
     s_any_rules := true |}.

Definition decide_world (f : lowflags) (w : world) (path : bytes) (is_dir : bool) : mtch :=
  decide_spec (walk_builder_opts f) (wview f w path is_dir).

(* worlds in which one source carries no rules *)
Definition map_dirs (g : dirinfo -> dirinfo) (w : world) : world :=
  {| w_cmd := w_cmd w; w_canon := w_canon w; w_above := map g (w_above w); w_below := map g (w_below w) |}.
Definition map_cmd (g : cmdline -> cmdline) (w : world) : world :=
  {| w_cmd := g (w_cmd w); w_canon := w_canon w; w_above := w_above w; w_below := w_below w |}.

Definition di_no_dot (d : dirinfo) : dirinfo :=
  {| di_path := di_path d; di_custom := g_empty; di_dotignore := g_empty; di_gitignore := di_gitignore d;
     di_exclude := di_exclude d; di_dotgit := di_dotgit d |}.
Definition di_no_exclude (d : dirinfo) : dirinfo :=
  {| di_path := di_path d; di_custom := di_custom d; di_dotignore := di_dotignore d; di_gitignore := di_gitignore d;
     di_exclude := g_empty; di_dotgit := di_dotgit d |}.
Definition di_no_vcs (d : dirinfo) : dirinfo :=
  {| di_path := di_path d; di_custom := di_custom d; di_dotignore := di_dotignore d; di_gitignore := g_empty;
     di_exclude := g_empty; di_dotgit := di_dotgit d |}.
Definition di_no_rules (d : dirinfo) : dirinfo :=
  {| di_path := di_path d; di_custom := g_empty; di_dotignore := g_empty; di_gitignore := g_empty;
     di_exclude := g_empty; di_dotgit := di_dotgit d |}.
Definition cmd_no_global (c : cmdline) : cmdline :=
  {| c_globs := c_globs c; c_types := c_types c; c_ignore_files := c_ignore_files c; c_global := g_empty |}.
Definition cmd_no_files (c : cmdline) : cmdline :=
  {| c_globs := c_globs c; c_types := c_types c; c_ignore_files := []; c_global := c_global c |}.

Definition erase_dot := map_dirs di_no_dot.
Definition erase_exclude := map_dirs di_no_exclude.
Definition erase_global := map_cmd cmd_no_global.
Definition erase_vcs (w : world) := map_cmd cmd_no_global (map_dirs di_no_vcs w).
Definition erase_files := map_cmd cmd_no_files.
Definition erase_parent (w : world) : world :=
  {| w_cmd := w_cmd w; w_canon := w_canon w; w_above := map di_no_rules (w_above w); w_below := w_below w |}.

(* flag setters *)
Definition set_hidden b f := {| f_hidden := b; f_no_ignore_dot := f_no_ignore_dot f; f_no_ignore_exclude := f_no_ignore_exclude f;
  f_no_ignore_files := f_no_ignore_files f; f_no_ignore_global := f_no_ignore_global f; f_no_ignore_parent := f_no_ignore_parent f;
  f_no_ignore_vcs := f_no_ignore_vcs f; f_no_require_git := f_no_require_git f |}.
Definition set_dot b f := {| f_hidden := f_hidden f; f_no_ignore_dot := b; f_no_ignore_exclude := f_no_ignore_exclude f;
  f_no_ignore_files := f_no_ignore_files f; f_no_ignore_global := f_no_ignore_global f; f_no_ignore_parent := f_no_ignore_parent f;
  f_no_ignore_vcs := f_no_ignore_vcs f; f_no_require_git := f_no_require_git f |}.
Definition set_exclude b f := {| f_hidden := f_hidden f; f_no_ignore_dot := f_no_ignore_dot f; f_no_ignore_exclude := b;
  f_no_ignore_files := f_no_ignore_files f; f_no_ignore_global := f_no_ignore_global f; f_no_ignore_parent := f_no_ignore_parent f;
  f_no_ignore_vcs := f_no_ignore_vcs f; f_no_require_git := f_no_require_git f |}.
Definition set_files b f := {| f_hidden := f_hidden f; f_no_ignore_dot := f_no_ignore_dot f; f_no_ignore_exclude := f_no_ignore_exclude f;
  f_no_ignore_files := b; f_no_ignore_global := f_no_ignore_global f; f_no_ignore_parent := f_no_ignore_parent f;
  f_no_ignore_vcs := f_no_ignore_vcs f; f_no_require_git := f_no_require_git f |}.
Definition set_global b f := {| f_hidden := f_hidden f; f_no_ignore_dot := f_no_ignore_dot f; f_no_ignore_exclude := f_no_ignore_exclude f;
  f_no_ignore_files := f_no_ignore_files f; f_no_ignore_global := b; f_no_ignore_parent := f_no_ignore_parent f;
  f_no_ignore_vcs := f_no_ignore_vcs f; f_no_require_git := f_no_require_git f |}.
Definition set_parent b f := {| f_hidden := f_hidden f; f_no_ignore_dot := f_no_ignore_dot f; f_no_ignore_exclude := f_no_ignore_exclude f;
  f_no_ignore_files := f_no_ignore_files f; f_no_ignore_global := f_no_ignore_global f; f_no_ignore_parent := b;
  f_no_ignore_vcs := f_no_ignore_vcs f; f_no_require_git := f_no_require_git f |}.
Definition set_vcs b f := {| f_hidden := f_hidden f; f_no_ignore_dot := f_no_ignore_dot f; f_no_ignore_exclude := f_no_ignore_exclude f;
  f_no_ignore_files := f_no_ignore_files f; f_no_ignore_global := f_no_ignore_global f; f_no_ignore_parent := f_no_ignore_parent f;
  f_no_ignore_vcs := b; f_no_require_git := f_no_require_git f |}.
