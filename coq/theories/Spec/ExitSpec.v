(* Spec/ExitSpec.v — declarative reading of property C15 over the abstract walk of Model/MainRun.v:
   what "a file matched", "an error occurred", "a file was searched" mean for a list of items, the exit
   status these three facts determine, and the relation "same run without the failing files". *)
From RG Require Import Base.Bytes Model.CliTypes Gen.DecisionsCli Model.MainRun.
Local Open Scope bool_scope.

Definition item_is_hay (it : item) : bool := match it with IHay _ => true | _ => false end.
Definition item_is_walk_err (it : item) : bool := match it with IErr _ => true | _ => false end.
Definition item_match (it : item) : bool := match it with IHay h => is_match (h_res h) | _ => false end.

(* single-threaded search: the items for which a diagnostic is due *)
Definition item_err_serial (it : item) : bool :=
  match it with
  | IErr _ => true
  | IHay h => match h_res h with SErr => true | _ => false end
  | ISkip => false
  end.

(* multi-threaded search: any Err of searcher.search, or a failed (non-pipe) print of a non-empty buffer *)
Definition item_err_par (it : item) : bool :=
  match it with
  | IErr _ => true
  | IHay h => match h_res h with
              | SErr | SPipe => true
              | _ => match h_out h, h_print h with _ :: _, PErr => true | _, _ => false end
              end
  | ISkip => false
  end.

(* "stdout is never closed by the consumer" *)
Definition item_no_pipe_serial (it : item) : bool :=
  match it with IHay h => match h_res h with SPipe => false | _ => true end | _ => true end.
Definition item_no_pipe_par (it : item) : bool :=
  match it with
  | IHay h => match h_res h, h_out h, h_print h with
              | (SMatch | SNoMatch), _ :: _, PPipe => false
              | _, _, _ => true
              end
  | _ => true
  end.
Definition item_print_ok (it : item) : bool :=
  match it with IHay h => match h_print h with POk => true | _ => false end | _ => true end.

(* the status the property prescribes, from the three facts *)
Definition spec_status (c : cfg) (any_match any_err any_hay : bool) : N :=
  exit_code any_match (c_quiet c) (any_err || (c_implicit_path c && negb any_hay)).

(* the run without its failing files: walker errors and files whose search fails are removed *)
Definition serial_ok_item (it : item) : bool :=
  match it with
  | IErr _ => false
  | IHay h => match h_res h, h_out h with SErr, [] => false | _, _ => true end
  | ISkip => true
  end.
Definition par_ok_item (it : item) : bool :=
  match it with
  | IErr _ => false
  | IHay h => match h_res h with SErr | SPipe => false | _ => true end
  | ISkip => true
  end.

(* two states that agree on everything stdout-related (the failing files only touch errored/diags/searched/done) *)
Definition same_output (s t : st) : Prop :=
  matched s = matched t /\ printed s = printed t /\ out s = out t.

(* the property's "permutation of per-file blocks": stdout of a run as the blocks of the printed files joined by
   the separator line *)
Fixpoint join_blocks (sepl : option bytes) (first : bool) (blocks : list bytes) : bytes :=
  match blocks with
  | [] => []
  | b :: rest =>
    match b with
    | [] => join_blocks sepl first rest
    | _ => (if first then [] else match sepl with Some l => l | None => [] end) ++ b ++ join_blocks sepl false rest
    end
  end.
