(* Spec/WalkSpec.v — what property C06 quantifies over and compares.
   The reachable set itself is the inductive [descent] of Proofs/WalkProofs.v (the least set containing
   the roots and closed under "child of a yielded, descended directory that passes the skip function"). *)
From RG Require Import Base.Bytes Model.Walk.

(* file systems: directories (not counting symbolic links) form a forest — some ranking increases
   from every directory to its sub-directories — ... *)
Definition ranked (fs : fsys) (rk : nat -> nat) (B : nat) : Prop :=
  forall i name j, In (name, j) (dir_ents fs i) -> lstat_type fs j = TyDir -> rk i < rk j <= B.
(* ... and a link's recorded target is what stat(2) ends at: never itself a link *)
Definition links_ok (fs : fsys) : Prop :=
  forall i t, resolve fs i = Some t -> lstat_type fs t <> TySymlink.

(* what is compared between the walkers: kind (entry / loop error / I/O error), path, depth *)
Definition okey (o : out) : N * bytes * nat :=
  match o with
  | OEntry e => (0%N, de_path e, de_depth e)
  | OLoop c => (1%N, c, 0)
  | OIoErr p => (2%N, p, 0)
  end.
