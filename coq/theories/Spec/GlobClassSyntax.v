(* Spec/GlobClassSyntax.v — the documented bracket-expression ("character class") grammar in full, with both
   complement spellings, a leading `]` and a `-` at either end; abstract syntax, rendering to glob text, the
   documented token and the documented meaning.  Definitions only.

   Written from documentation, not from the parser:
   * globset, section Syntax: "`[ab]` matches `a` or `b` ...  `[a-z]` matches any character in the range ...
     Use `[!ab]` to match any character except for `a` and `b`.  Metacharacters such as `*` and `?` can be escaped
     with character class notation. e.g., `[*]` matches `*`."
   * gitignore(5) sends the reader to fnmatch(3)/glob(7) for `[...]`; glob(7), Character classes: "The string
     enclosed by the brackets cannot be empty; therefore ']' can be allowed between the brackets, provided that it
     is the first character.  (Thus, "[][!]" matches the three characters '[', ']' and '!'.)"; Ranges: "One may
     include '-' in its literal meaning by making it the first or last character between the brackets.  (Thus,
     "[]-]" matches just the two characters ']' and '-' ...)"; Complementation: "An expression "[!...]" matches a
     single character, namely any character that is not matched by the expression obtained by removing the first
     '!' from it."  POSIX bracket expressions of regular expressions spell the complement `^`; git's wildmatch,
     bash and globset accept both spellings (real git is the oracle of the check for `^`).
   So a class is: `[`, an optional complement mark `!` or `^`, the members in the order written — the FIRST
   member may be `]` or `-` standing for themselves (or a range starting at `]`), the others are characters other
   than `]` and `-` or ranges `lo-hi` of such — an optional last `-` standing for itself, `]`.  It is never empty. *)
From RG Require Import Base.Bytes Model.Glob Spec.GlobSyntax.

Inductive negmark := NegNone | NegBang | NegCaret.

Record dclass := mk_dclass {
  dc_neg : negmark;
  dc_members : list (N * N);        (* in the order written; (c, c) is the single character c *)
  dc_dash_last : bool }.            (* a '-' written last *)

Definition render_neg (n : negmark) : list N :=
  match n with NegNone => [] | NegBang => [33%N] | NegCaret => [94%N] end.
(* the text between the opening '[' (excluded) and the closing ']' (included) *)
Definition render_dclass_body (d : dclass) : list N :=
  render_neg (dc_neg d) ++ flat_map render_member (dc_members d) ++ (if dc_dash_last d then [45%N] else []) ++ [93%N].
Definition render_dclass (d : dclass) : list N := 91%N :: render_dclass_body d.

Definition is_neg (n : negmark) : bool := match n with NegNone => false | _ => true end.
Definition dclass_ranges (d : dclass) : list (N * N) :=
  dc_members d ++ (if dc_dash_last d then [(45, 45)%N] else []).
(* the documented token *)
Definition dclass_token (d : dclass) : token := TClass (is_neg (dc_neg d)) (dclass_ranges d).
(* the documented meaning: which single characters the class stands for *)
Definition dclass_admits (d : dclass) (b : N) : bool :=
  let m := existsb (fun r => (fst r <=? b)%N && (b <=? snd r)%N) (dclass_ranges d) in
  if is_neg (dc_neg d) then negb m else m.

(* well-formedness.  First member: any single character (`]` and `-` included), or a range whose lower end is not
   `-` and whose upper end is an ordinary class character.  Later members: [member_ok] of Spec/GlobSyntax.v. *)
Definition first_member_ok (m : N * N) : bool :=
  if (fst m =? snd m)%N then true
  else negb (fst m =? 45)%N && class_char_ok (snd m) && (fst m <? snd m)%N.
Definition starts_like_complement (d : dclass) : bool :=
  match dc_members d with
  | m :: _ => ((fst m =? 33) || (fst m =? 94))%N
  | [] => false
  end.
Definition dclass_ok (d : dclass) : bool :=
  match dc_members d with
  | [] => dc_dash_last d
  | m :: ms => first_member_ok m && forallb member_ok ms
  end &&
  match dc_neg d with NegNone => negb (starts_like_complement d) | _ => true end.

(* the classes of Spec/GlobSyntax.v (IClass ms) are the instances without complement, leading `]`/`-`, last `-` *)
Definition dclass_of_members (ms : list (N * N)) : dclass := mk_dclass NegNone ms false.

(* ---- the documented glob syntax of Spec/GlobSyntax.v with these classes as items ---- *)
Inductive xitem := XI (i : gitem) | XClass (d : dclass).
Inductive xpiece := XPComp (its : list xitem) | XPDStar.

Definition render_xitem (i : xitem) : list N :=
  match i with XI i => render_item i | XClass d => render_dclass d end.
Definition render_xcomp (its : list xitem) : list N := flat_map render_xitem its.
Definition render_xpiece (p : xpiece) : list N :=
  match p with XPComp its => render_xcomp its | XPDStar => [42; 42]%N end.
Fixpoint render_xglob (ps : list xpiece) : list N :=
  match ps with
  | [] => []
  | p :: r => match r with
              | [] => render_xpiece p
              | _ => render_xpiece p ++ 47%N :: render_xglob r
              end
  end.

Definition xitem_tok (i : xitem) : token :=
  match i with XI i => item_tok i | XClass d => dclass_token d end.
Definition xcomp_toks (its : list xitem) : list token := map xitem_tok its.
Fixpoint xafter_piece (ps : list xpiece) : list token :=
  match ps with
  | [] => []
  | XPComp its :: r => TLit 47 :: xcomp_toks its ++ xafter_piece r
  | XPDStar :: r =>
    match r with
    | [] => [TRecSuffix]
    | XPComp its :: r' => TRecZeroOrMore :: xcomp_toks its ++ xafter_piece r'
    | XPDStar :: _ => []
    end
  end.
Definition xglob_tokens (ps : list xpiece) : list token :=
  match ps with
  | [] => []
  | XPComp its :: r => xcomp_toks its ++ xafter_piece r
  | XPDStar :: r =>
    match r with
    | [] => [TRecPrefix]
    | XPComp its :: r' => TRecPrefix :: xcomp_toks its ++ xafter_piece r'
    | XPDStar :: _ => []
    end
  end.

Definition xitem_ok (i : xitem) : bool :=
  match i with XI i => item_ok i | XClass d => dclass_ok d end.
Fixpoint no_adjacent_xstar (its : list xitem) : bool :=
  match its with
  | XI IStar :: ((XI IStar :: _) as r) => false
  | _ :: r => no_adjacent_xstar r
  | [] => true
  end.
Definition xpiece_ok (p : xpiece) : bool :=
  match p with
  | XPComp its => forallb xitem_ok its && no_adjacent_xstar its && negb (match its with [] => true | _ => false end)
  | XPDStar => true
  end.
Fixpoint no_adjacent_dstar_x (ps : list xpiece) : bool :=
  match ps with
  | XPDStar :: ((XPDStar :: _) as r) => false
  | _ :: r => no_adjacent_dstar_x r
  | [] => true
  end.
Definition xglob_ok (ps : list xpiece) : bool :=
  forallb xpiece_ok ps && no_adjacent_dstar_x ps && negb (match ps with [] => true | _ => false end).

Definition xpiece_inj (p : gpiece) : xpiece :=
  match p with PComp its => XPComp (map XI its) | PDStar => XPDStar end.

(* ---- token well-formedness: what makes the regex emitted for a class a valid regex ----
   `[` `^`? member+ `]` with every range ascending is a valid bracket expression of the regex syntax; an EMPTY
   class (`[]`, `[^]`) is not: regex-syntax rejects it ("unclosed character class"), and because the regexes of a
   glob set are compiled together, one such glob makes the whole set fail to build. *)
Fixpoint tok_wf (t : token) : bool :=
  match t with
  | TClass _ rs => negb (match rs with [] => true | _ => false end) && forallb (fun r => (fst r <=? snd r)%N) rs
  | TAlt alts => forallb (forallb tok_wf) alts
  | _ => true
  end.
Definition toks_wf (ts : list token) : bool := forallb tok_wf ts.
