(* Spec/MultiLineBufferSpec.v — what filling the multi-line buffer must deliver, written from the
   documentation of Searcher::fill_multi_line_buffer_from_{reader,file} ("reads from the reader until
   EOF or until an error occurs.  If the contents exceed the configured heap limit, then an error is
   returned") and of SearcherBuilder::heap_limit, not from the loop.  Definitions only. *)
From RG Require Import Base.Bytes Model.ReadByLine.

(* the outcome of a fill, as the caller sees it *)
Inductive fill_outcome :=
| FilledWith (content : bytes)     (* Ok: this is what will be searched *)
| HeapLimitError                   (* the allocation-limit error *)
| ReadError                        (* the reader's own error *)
| NoAnswer.                        (* (the model ran out of fuel: excluded by the theorems) *)

(* the exact condition of the code: the heap-limit error is returned iff a limit h is set and the
   stream has AT LEAST h bytes (h = 0: always) *)
Definition heap_limit_hit (heap_limit : option nat) (stream : bytes) : bool :=
  match heap_limit with
  | None => false
  | Some h => Nat.leb h (length stream)
  end.

(* the documentation's wording: an error when the contents EXCEED the limit *)
Definition contents_exceed_limit (heap_limit : option nat) (stream : bytes) : bool :=
  match heap_limit with
  | None => false
  | Some h => Nat.ltb h (length stream)
  end.

(* a history without hard errors (short reads and interruptions allowed) *)
Definition failure_free (hist : list read_step) : Prop := ~ In RFail hist.

(* what a failure-free reader must lead to: everything, or the heap-limit error — never a part *)
Definition fill_expected (heap_limit : option nat) (stream : bytes) : fill_outcome :=
  if heap_limit_hit heap_limit stream then HeapLimitError else FilledWith stream.

(* what any reader may lead to *)
Definition fill_allowed (heap_limit : option nat) (stream : bytes) (hist : list read_step) (o : fill_outcome) : Prop :=
  match o with
  | FilledWith c => c = stream /\ heap_limit_hit heap_limit stream = false
  | HeapLimitError => heap_limit_hit heap_limit stream = true
  | ReadError => In RFail hist
  | NoAnswer => False
  end.
