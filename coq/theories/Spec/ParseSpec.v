(* Spec/ParseSpec.v — a reader of the standard printer's line format and of JSON Data, used to state
   C09's round trips.  The reader knows the configuration (which fields are present, the separator,
   --null) but not the path, the numbers or the text. *)
From RG Require Import Base.Bytes Model.MatchIter Model.Replace Model.Sink Model.Standard Model.Json
  Spec.PrinterSpec.

Definition strip_prefix (pre s : bytes) : option bytes :=
  if is_prefix_of pre s then Some (skipn (length pre) s) else None.

(* a decimal field followed by the separator *)
Definition parse_num (sepf s : bytes) : option (N * bytes) :=
  match take_while is_digit s with
  | [] => None
  | ds => match strip_prefix sepf (drop_while is_digit s) with
          | Some r => Some (digits_value ds, r)
          | None => None
          end
  end.

Definition parse_opt_num (present : bool) (sepf s : bytes) : option (option N * bytes) :=
  if present then match parse_num sepf s with Some (n, r) => Some (Some n, r) | None => None end
  else Some (None, s).

Section Parse.
  Variable cfg : stdconfig.
  Variable sepf : bytes.
  (* which optional parts this record has: a path, a line number, a column *)
  Variable has_path has_lnum has_col : bool.

  (* the byte that ends the path: the --null byte, else the first byte of the separator *)
  Definition path_delim : byte :=
    match st_path_term cfg with Some t => t | None => hd 0%N sepf end.
  Definition path_end : bytes :=
    match st_path_term cfg with Some t => [t] | None => sepf end.

  (* result: path, line number, column, byte offset, text (with its terminator) *)
  Definition parse_line (s : bytes) : option (option bytes * option N * option N * option N * bytes) :=
    match (if has_path && negb (st_heading cfg) then
             let notd := fun x => negb (x =? path_delim)%N in
             match strip_prefix path_end (drop_while notd s) with
             | Some r => Some (Some (take_while notd s), r)
             | None => None
             end
           else Some (None, s)) with
    | None => None
    | Some (p, s1) =>
      match parse_opt_num has_lnum sepf s1 with
      | None => None
      | Some (ln, s2) =>
        match parse_opt_num (st_column cfg && has_col) sepf s2 with
        | None => None
        | Some (col, s3) =>
          match parse_opt_num (st_byte_offset cfg) sepf s3 with
          | None => None
          | Some (off, s4) => Some (p, ln, col, off, s4)
          end
        end
      end
    end.
End Parse.

(* the separator can be told from a number: non-empty and not starting with a digit *)
Definition sep_ok (sepf : bytes) : Prop :=
  match sepf with [] => False | x :: _ => is_digit x = false end.

(* JSON Data back to bytes *)
Definition data_decode (d : jdata) : option bytes :=
  match d with JText b => Some b | JBytes s => b64_decode s end.

(* a match/context message back to (is match, bytes, line number, absolute offset, submatches as
   (start, end, bytes)) *)
Definition sub_decode (s : jsub) : option (nat * nat * bytes) :=
  option_map (fun b => (j_start s, j_end s, b)) (data_decode (j_m s)).
Fixpoint all_some {A} (l : list (option A)) : option (list A) :=
  match l with
  | [] => Some []
  | Some x :: r => option_map (cons x) (all_some r)
  | None :: _ => None
  end.
Definition msg_decode (m : jmsg) : option (bool * bytes * option nat * nat * list (nat * nat * bytes)) :=
  let body is_match l n o subs :=
    match data_decode l, all_some (map sub_decode subs) with
    | Some b, Some ss => Some (is_match, b, n, o, ss)
    | _, _ => None
    end in
  match m with
  | JMatch _ l n o subs => body true l n o subs
  | JContext _ l n o subs => body false l n o subs
  | _ => None
  end.
