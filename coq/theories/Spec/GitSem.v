(* Spec/GitSem.v — git's documented ignore semantics (gitignore(5)), written on PATH COMPONENTS and
   independently of ripgrep's line rewriting and of the glob-to-regex translation.

   A line is read as units (byte, escaped?): a backslash quotes the next byte.
     - a line starting with '#' is a comment; trailing spaces are dropped unless quoted; an empty line matches nothing
     - a leading unquoted '!' negates; "\#" / "\!" are literal first characters
     - a trailing '/' restricts the pattern to directories (and is dropped)
     - a '/' at the beginning or in the middle anchors the pattern to the directory of the ignore file;
       otherwise the pattern is matched against the last component at any depth
     - the pattern is split at '/' into components; a component that is exactly "**" spans whole directories
       (zero or more; as the last component: everything inside, at least one level);
       inside a component '*' matches any run of bytes, '?' one byte, "[...]" one byte of the class;
       a component is matched against a whole path component, so none of them ever crosses a '/'
     - within a file the last matching line decides; the ignore file of the nearest directory that has a
       matching line decides over those further up; an entry below an excluded directory is excluded.  *)
From RG Require Import Base.Bytes.

Inductive wtok := WLit (c : N) | WAny | WStar | WClass (neg : bool) (rs : list (N * N)).
Inductive cpat := CDStar | CSimple (ws : list wtok).
Record gpat := mk_gpat { gp_neg : bool; gp_dironly : bool; gp_comps : list cpat }.

Definition unit := (N * bool)%type.        (* byte, quoted by a backslash *)

Fixpoint to_units (s : bytes) : list unit :=
  match s with
  | [] => []
  | b :: r =>
    if (b =? 92)%N then
      match r with
      | [] => [(92%N, false)]                   (* a lone trailing backslash stays as it is *)
      | c :: r' => (c, true) :: to_units r'
      end
    else (b, false) :: to_units r
  end.

Definition raw (u : unit) (c : N) : bool := negb (snd u) && (fst u =? c)%N.

Fixpoint drop_trailing_spaces (us : list unit) : list unit :=
  match us with
  | [] => []
  | u :: r =>
    match drop_trailing_spaces r with
    | [] => if raw u 32 then [] else [u]
    | r' => u :: r'
    end
  end.

(* split at unquoted '/' *)
Fixpoint split_units (us : list unit) (cur : list unit) : list (list unit) :=
  match us with
  | [] => [cur]
  | u :: r => if raw u 47 then cur :: split_units r [] else split_units r (cur ++ [u])
  end.

(* class body: units up to the closing ']' ; a first ']' is a member; "a-b" is a range *)
Fixpoint class_members (body : list N) : list (N * N) :=
  match body with
  | [] => []
  | lo :: r =>
    match r with
    | dash :: hi :: r' =>
      if (dash =? 45)%N then (lo, hi) :: class_members r' else (lo, lo) :: class_members r
    | _ => (lo, lo) :: class_members r
    end
  end.

Fixpoint take_class (us : list unit) (first : bool) (acc : list N) : option (list N * list unit) :=
  match us with
  | [] => None
  | u :: r =>
    if raw u 93 && negb first then Some (acc, r)
    else take_class r false (acc ++ [fst u])
  end.

Fixpoint parse_comp (fuel : nat) (us : list unit) : list wtok :=
  match fuel with
  | 0 => []
  | S f =>
    match us with
    | [] => []
    | u :: r =>
      if raw u 42 then WStar :: parse_comp f r
      else if raw u 63 then WAny :: parse_comp f r
      else if raw u 91 then
        let '(neg, r1) := match r with
                          | v :: r' => if raw v 33 || raw v 94 then (true, r') else (false, r)
                          | [] => (false, r) end in
        match take_class r1 true [] with
        | Some (body, rest) => WClass neg (class_members body) :: parse_comp f rest
        | None => WClass false [] :: parse_comp f r      (* no closing ']': git matches nothing *)
        end
      else WLit (fst u) :: parse_comp f r
    end
  end.

Definition is_dstar (us : list unit) : bool :=
  match us with [a; b] => raw a 42 && raw b 42 | _ => false end.

(* a backslash with nothing after it: git's wildmatch never matches such a pattern *)
Fixpoint dangling (s : bytes) : bool :=
  match s with
  | [] => false
  | b :: r =>
    if (b =? 92)%N then match r with [] => true | _ :: r' => dangling r' end
    else dangling r
  end.

Definition is_comment (line : bytes) : bool :=
  match line with b :: _ => (b =? 35)%N | [] => false end.

Definition git_parse_line (line : bytes) : option gpat :=
  if dangling line then None else
  if is_comment line then None else
    let us := drop_trailing_spaces (to_units line) in
    let '(neg, us) := match us with
                      | u :: r => if raw u 33 then (true, r) else (false, us)
                      | [] => (false, us) end in
    match us with
    | [] => None
    | _ =>
      let '(dironly, us) := match rev us with
                            | u :: r => if raw u 47 then (true, rev r) else (false, us)
                            | [] => (false, us) end in
      let anchored := existsb (fun u => raw u 47) us in
      let us := match us with u :: r => if raw u 47 then r else us | [] => us end in
      let comps := split_units us [] in
      let cps :=
        if anchored then map (fun c => if is_dstar c then CDStar else CSimple (parse_comp (S (length c)) c)) comps
        else CDStar :: map (fun c => CSimple (parse_comp (S (length c)) c)) comps in
      Some (mk_gpat neg dironly cps)
    end.

(* ---- matching ---- *)
Definition up (b : N) : bool := (65 <=? b)%N && (b <=? 90)%N.
Definition low (b : N) : bool := (97 <=? b)%N && (b <=? 122)%N.
Definition lower (b : N) : N := if up b then (b + 32)%N else b.
Definition other_case (b : N) : N := if up b then (b + 32)%N else if low b then (b - 32)%N else b.
Definition in_rs (rs : list (N * N)) (b : N) : bool := existsb (fun r => (fst r <=? b)%N && (b <=? snd r)%N) rs.

Definition w1 (ci : bool) (w : wtok) (b : N) : bool :=
  match w with
  | WLit c => if ci then (lower c =? lower b)%N else (c =? b)%N
  | WAny => true
  | WStar => false
  | WClass neg rs =>
    let m := in_rs rs b || (ci && in_rs rs (other_case b)) in
    if neg then negb m else m
  end.

(* a component pattern against one whole component *)
Fixpoint wmatch (ci : bool) (ws : list wtok) (s : bytes) : bool :=
  match ws with
  | [] => match s with [] => true | _ => false end
  | WStar :: r =>
    (fix star (s : bytes) : bool :=
       wmatch ci r s || match s with [] => false | _ :: s' => star s' end) s
  | w :: r => match s with b :: s' => w1 ci w b && wmatch ci r s' | [] => false end
  end.

Fixpoint cmatch (ci : bool) (ps : list cpat) (comps : list bytes) : bool :=
  match ps with
  | [] => match comps with [] => true | _ => false end
  | CDStar :: r =>
    match r with
    | [] => match comps with [] => false | _ => true end              (* "/**": everything inside *)
    | _ => (fix dirs (cs : list bytes) : bool :=
              cmatch ci r cs || match cs with [] => false | _ :: cs' => dirs cs' end) comps
    end
  | CSimple ws :: r => match comps with c :: cs => wmatch ci ws c && cmatch ci r cs | [] => false end
  end.

Definition pat_matches (ci : bool) (p : gpat) (rel : list bytes) (is_dir : bool) : bool :=
  (negb (gp_dironly p) || is_dir) && cmatch ci (gp_comps p) rel.

(* one ignore file: the last matching line decides.  Some true = excluded, Some false = re-included *)
Fixpoint file_verdict (ci : bool) (lines : list bytes) (rel : list bytes) (is_dir : bool) : option bool :=
  match lines with
  | [] => None
  | l :: r =>
    match file_verdict ci r rel is_dir with
    | Some v => Some v
    | None => match git_parse_line l with
              | Some p => if pat_matches ci p rel is_dir then Some (negb (gp_neg p)) else None
              | None => None
              end
    end
  end.

Fixpoint strip_dir (d p : list bytes) : option (list bytes) :=
  match d, p with
  | [], _ => Some p
  | x :: d', y :: p' => if bytes_eqb x y then strip_dir d' p' else None
  | _ :: _, [] => None
  end.

(* ignore files (directory, lines) sorted deepest first: the nearest one with a matching line decides *)
Fixpoint git_excluded (ci : bool) (igs : list (list bytes * list bytes)) (path : list bytes) (is_dir : bool) : bool :=
  match igs with
  | [] => false
  | (d, lines) :: r =>
    match strip_dir d path with
    | Some ((_ :: _) as rel) =>
      match file_verdict ci lines rel is_dir with
      | Some v => v
      | None => git_excluded ci r path is_dir
      end
    | _ => git_excluded ci r path is_dir
    end
  end.

Fixpoint git_ancestors_ok (ci : bool) igs (pre rest : list bytes) : bool :=
  match rest with
  | [] => true
  | [_] => true
  | c :: r => negb (git_excluded ci igs (pre ++ [c]) true) && git_ancestors_ok ci igs (pre ++ [c]) r
  end.

(* an entry is left unignored iff no ancestor directory is excluded and it is not excluded itself *)
Definition git_visited (ci : bool) (igs : list (list bytes * list bytes)) (path : list bytes) (is_dir : bool) : bool :=
  git_ancestors_ok ci igs [] path && negb (git_excluded ci igs path is_dir).
