(* Spec/GitLineSyntax.v — the documented gitignore LINE grammar as abstract syntax with its rendering to text.
     line    ::= ["!"] ["/"] pattern ["/"] blank*
     pattern ::= piece ("/" piece)*                        (Spec/GlobSyntax.v: pieces, never two "**" in a row)
     piece   ::= "**" | item+                              (no two "*" in a row inside a component)
     item    ::= plain | "\" c | "?" | "*" | "[" member+ "]"
     member  ::= c | c "-" c
   Productions of the proved sub-grammar ([gline_ok]):
     plain characters: anything but  space ! # * , / ? [ \ { }      (so '-', ']', '^', '.', letters, digits ... are plain)
     escaped characters "\c": any c but '/' and '\'
     class members: characters other than space ! - / [ \ ] ^ ; ranges lo <= hi; the class must not admit '/'
     the very first item of the pattern is not an escaped '!' or '#' (the "\!" / "\#" line forms)
   Lines outside it (negated classes, braces, "\\", "\/", "\!x", "\#x", tabs ...) stay under the executable
   line_class hypothesis.  Definitions only. *)
From RG Require Import Base.Bytes Model.Glob Spec.GlobSyntax Spec.GitSem.

Record gline := mk_gline {
  gl_neg : bool; gl_lead : bool; gl_pieces : list gpiece; gl_dir : bool; gl_blanks : nat }.

Definition render_line (gl : gline) : bytes :=
  (if gl_neg gl then [33%N] else []) ++ (if gl_lead gl then [47%N] else []) ++
  render_glob (gl_pieces gl) ++ (if gl_dir gl then [47%N] else []) ++ repeat 32%N (gl_blanks gl).

Definition plain_safe (c : N) : bool :=
  plain_ok c && negb ((c =? 32) || (c =? 33) || (c =? 35))%N.
Definition class_safe (c : N) : bool :=
  negb ((c =? 93) || (c =? 45) || (c =? 92) || (c =? 32) || (c =? 47) || (c =? 33) || (c =? 94) || (c =? 91))%N.
Definition member_safe (m : N * N) : bool := class_safe (fst m) && class_safe (snd m) && (fst m <=? snd m)%N.

Definition item_lok (i : gitem) : bool :=
  match i with
  | IPlain c => plain_safe c
  | IEsc c => negb ((c =? 47) || (c =? 92))%N
  | IClass ms => forallb member_safe ms && negb (match ms with [] => true | _ => false end) && negb (in_rs ms 47)
  | IAny | IStar => true
  end.
Definition piece_lok (p : gpiece) : bool :=
  match p with PComp its => forallb item_lok its | PDStar => true end.
Definition first_item_ok (ps : list gpiece) : bool :=
  match ps with
  | PComp (IEsc c :: _) :: _ => negb ((c =? 33) || (c =? 35))%N
  | _ => true
  end.
Definition gline_ok (gl : gline) : bool :=
  glob_ok (gl_pieces gl) && forallb piece_lok (gl_pieces gl) && first_item_ok (gl_pieces gl).
