(* Spec/GlobSem.v — the meaning of the regular expression that Tokens::to_regex_with emits
   (crates/globset/src/glob.rs), construct by construct, as a matcher over the path's bytes.

     to_regex_with:  "(?-u)" ["(?i)"] "^" body "$" ; body = ".*" when tokens = [RecursivePrefix]
     Literal c            escaped literal                  one byte equal to c (ASCII-folded under (?i))
     Any                  "." | "[^/]"                     any one byte | any one byte but '/'
     ZeroOrMore           ".*" | "[^/]*"                   any bytes | any bytes but '/'
     RecursivePrefix      "(?:/?|.*/)"                     "", "/", or anything ending in '/'
     RecursiveSuffix      "/.*"                            '/' then anything
     RecursiveZeroOrMore  "(?:/|/.*/)"                     "/" or '/' anything '/'
     Class{negated,rs}    "[" ["^"] ranges "]"             one byte in (not in) the ranges, folded under (?i)
     Alternates(ps)       "(?:" p1 "|" … ")"               branches whose regex text is empty are dropped
                                                           unless empty_alternates; no branch left: nothing emitted
   (regex is compiled with utf8(false), dot_matches_new_line(true), so "." is any byte; "^" "$" are
   the ends of the path.)  The matcher is written in continuation style: [tmk o ts k p] holds when some
   prefix of p is matched by ts and k accepts the rest.  Spec/GlobRel.v gives the same meaning as an
   inductive relation and proves the two equal. *)
From RG Require Import Base.Bytes Model.Glob.

Definition is_upper (b : N) : bool := (65 <=? b)%N && (b <=? 90)%N.
Definition is_lower (b : N) : bool := (97 <=? b)%N && (b <=? 122)%N.
Definition fold_lower (b : N) : N := if is_upper b then (b + 32)%N else b.
(* the other-case sibling of an ASCII letter, the byte itself otherwise *)
Definition swap_case (b : N) : N :=
  if is_upper b then (b + 32)%N else if is_lower b then (b - 32)%N else b.

Definition lit_match (o : gopts) (c b : N) : bool :=
  if case_insensitive o then (fold_lower c =? fold_lower b)%N else (c =? b)%N.

Definition in_ranges (rs : list (N * N)) (b : N) : bool :=
  existsb (fun r => (fst r <=? b)%N && (b <=? snd r)%N) rs.

(* regex-syntax: the class is case-folded first (each range gains the other-case image of its letters),
   then negated *)
Definition class_match (o : gopts) (neg : bool) (rs : list (N * N)) (b : N) : bool :=
  let m := if case_insensitive o then in_ranges rs b || in_ranges rs (swap_case b) else in_ranges rs b in
  if neg then negb m else m.

Definition wild_ok (o : gopts) (b : N) : bool :=
  if literal_separator o then negb (b =? 47)%N else true.

(* k accepts p after some prefix of bytes all satisfying ok (the regex ok* ) *)
Fixpoint star_k (ok : N -> bool) (k : bytes -> bool) (p : bytes) : bool :=
  k p || match p with
         | [] => false
         | b :: r => ok b && star_k ok k r
         end.

(* k accepts what follows some '/' of p   (the regex .*/ ) *)
Fixpoint after_some_slash (k : bytes -> bool) (p : bytes) : bool :=
  match p with
  | [] => false
  | b :: r => ((b =? 47)%N && k r) || after_some_slash k r
  end.

Definition one_k (ok : N -> bool) (k : bytes -> bool) (p : bytes) : bool :=
  match p with
  | [] => false
  | b :: r => ok b && k r
  end.

(* does the regex text emitted for these tokens come out empty?  (only an Alternates token can emit nothing) *)
Fixpoint tok_emits_nothing (o : gopts) (t : token) : bool :=
  match t with
  | TAlt alts =>
    let fix seq_nothing (ts : list token) : bool :=
      match ts with [] => true | t :: r => tok_emits_nothing o t && seq_nothing r end in
    let fix all_dropped (l : list (list token)) : bool :=
      match l with
      | [] => true
      | a :: r => (seq_nothing a && negb (empty_alternates o)) && all_dropped r
      end in
    all_dropped alts
  | _ => false
  end.
Definition emits_nothing (o : gopts) (ts : list token) : bool := forallb (tok_emits_nothing o) ts.
(* a branch is kept in "(?:…|…)" unless its text is empty and empty_alternates is off *)
Definition branch_kept (o : gopts) (a : list token) : bool :=
  negb (emits_nothing o a) || empty_alternates o.

Fixpoint tok_k (o : gopts) (t : token) (k : bytes -> bool) (p : bytes) {struct t} : bool :=
  match t with
  | TLit c => one_k (lit_match o c) k p
  | TAny => one_k (wild_ok o) k p
  | TStar => star_k (wild_ok o) k p
  | TRecPrefix => k p || one_k (fun b => (b =? 47)%N) k p || after_some_slash k p
  | TRecSuffix => one_k (fun b => (b =? 47)%N) (star_k (fun _ => true) k) p
  | TRecZeroOrMore => one_k (fun b => (b =? 47)%N) (fun r => k r || after_some_slash k r) p
  | TClass neg rs => one_k (class_match o neg rs) k p
  | TAlt alts =>
    let fix seq_k (ts : list token) (k : bytes -> bool) {struct ts} : bytes -> bool :=
      match ts with
      | [] => k
      | t :: r => fun p => tok_k o t (seq_k r k) p
      end in
    let fix alts_k (l : list (list token)) (p : bytes) {struct l} : bool :=
      match l with
      | [] => false
      | a :: r => (branch_kept o a && seq_k a k p) || alts_k r p
      end in
    if forallb (fun a => negb (branch_kept o a)) alts then k p      (* parts.is_empty(): nothing emitted *)
    else alts_k alts p
  end.

Fixpoint tmk (o : gopts) (ts : list token) (k : bytes -> bool) (p : bytes) {struct ts} : bool :=
  match ts with
  | [] => k p
  | t :: r => tok_k o t (tmk o r k) p
  end.

Definition is_nil (p : bytes) : bool := match p with [] => true | _ => false end.

(* the whole regex  ^ body $ *)
Definition tmatch (o : gopts) (ts : list token) (p : bytes) : bool :=
  match ts with
  | [TRecPrefix] => true
  | _ => tmk o ts is_nil p
  end.
