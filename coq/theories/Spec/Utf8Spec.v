(* Spec/Utf8Spec.v — declarative meaning of "the UTF-8 equivalent of a byte string under replacement"
   (Unicode 15 table 3-7 "Well-Formed UTF-8 Byte Sequences" + the maximal-subpart replacement practice that the
   WHATWG UTF-8 decoder / encoding_rs implement).
     lead_class x        = Some (n, lo, hi): x starts a sequence with n continuation bytes, the first of which must
                           lie in lo..hi (the others in 80..BF); None: x can start nothing
       00..7F                       (0)          C2..DF  80..BF                 (1)
       E0  A0..BF 80..BF            (2)          ED  80..9F 80..BF              (2)
       E1..EC, EE..EF 80..BF 80..BF (2)          F0  90..BF 80..BF 80..BF       (3)
       F4  80..8F 80..BF 80..BF     (3)          F1..F3 80..BF 80..BF 80..BF    (3)
     cont_run n lo hi r  = how many of the n continuation bytes are present and in range at the head of r
     utf8_spec           : a complete well-formed sequence is copied; otherwise the lead byte together with the
                           continuation bytes that were still acceptable (the maximal subpart of an ill-formed
                           sequence) becomes one U+FFFD and decoding resumes right after it
     utf8_valid          : concatenation of well-formed sequences
     utf8_spec_bom       : the same after removing one leading EF BB BF (decoder with BOM removal) *)
From RG Require Import Base.Bytes Model.Decode.

Definition lead_class (x : byte) : option (nat * N * N) :=
  (if x <? 128 then Some (0%nat, 128, 191)
   else if (194 <=? x) && (x <=? 223) then Some (1%nat, 128, 191)
   else if x =? 224 then Some (2%nat, 160, 191)
   else if x =? 237 then Some (2%nat, 128, 159)
   else if (225 <=? x) && (x <=? 239) then Some (2%nat, 128, 191)
   else if x =? 240 then Some (3%nat, 144, 191)
   else if x =? 244 then Some (3%nat, 128, 143)
   else if (241 <=? x) && (x <=? 243) then Some (3%nat, 128, 191)
   else None)%N.

Fixpoint cont_run (n : nat) (lo hi : N) (r : bytes) : nat :=
  match n, r with
  | S n', y :: r' => if ((lo <=? y) && (y <=? hi))%N then S (cont_run n' 128 191 r') else 0
  | _, _ => 0
  end.

Fixpoint spec_fuel (fuel : nat) (s : bytes) : bytes :=
  match fuel with
  | 0 => []
  | S f =>
    match s with
    | [] => []
    | x :: r =>
      match lead_class x with
      | None => replacement ++ spec_fuel f r
      | Some (n, lo, hi) =>
        let k := cont_run n lo hi r in
        if Nat.eqb k n then x :: firstn n r ++ spec_fuel f (skipn n r)
        else replacement ++ spec_fuel f (skipn k r)
      end
    end
  end.

(* every step consumes at least one byte: length s steps suffice (lemma spec_fuel_enough) *)
Definition utf8_spec (s : bytes) : bytes := spec_fuel (length s) s.

Inductive utf8_valid : bytes -> Prop :=
| uv_nil : utf8_valid []
| uv_seq x t r n lo hi :
    lead_class x = Some (n, lo, hi) -> length t = n -> cont_run n lo hi t = n ->
    utf8_valid r -> utf8_valid (x :: t ++ r).

Definition strip_utf8_mark (s : bytes) : bytes := if starts3 239 187 191 s then skipn 3 s else s.
Definition utf8_spec_bom (s : bytes) : bytes := utf8_spec (strip_utf8_mark s).
