(* Spec/GlobSetSem.v — the meaning of a compiled glob's regex (Glob::regex()): tmatch of its tokens *)
From RG Require Import Base.Bytes Model.Glob Model.GlobSet Spec.GlobSem.

Definition re_spec (g : glob) : bytes -> bool := tmatch (g_opts g) (g_tokens g).
Definition dflt_glob : glob := mk_glob (mk_gopts false false false false) [].
