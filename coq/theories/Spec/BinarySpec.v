(* Spec/BinarySpec.v — declarative statement of what the standard printer writes for the events delivered to
   it during one search, as far as binary data is concerned.  The only state is the number of `matched` calls
   and whether binary_data was notified; max_matches / after_context bookkeeping decides replies, never text. *)
From RG Require Import Base.Bytes Model.LineBufferBin Model.BinaryDetect.

Section StdSpec.
  Variable cfg : std_cfg.
  Variable render : event -> bytes.

  (* lines are withheld once binary data was notified in convert mode *)
  Definition suppressed (bin : option nat) : bool := is_convert (sc_mode cfg) && is_some bin.

  Definition sep_bytes : bytes := match sc_sep cfg with Some sep => sep ++ sc_lt cfg | None => [] end.

  (* the message written by finish: empty when nothing matched; WARNING in quit mode, notice in convert mode *)
  Definition notice (count offset : nat) : bytes := binary_message cfg (mk_std count 0 None []) offset.

  Fixpoint std_spec (evs : list event) (count : nat) (bin : option nat) : bytes :=
    match evs with
    | [] => []
    | ev :: r =>
      match ev with
      | EBegin => std_spec r 0 None
      | EMatched _ _ => (if suppressed bin then [] else render ev) ++ std_spec r (count + 1) bin
      | EContext _ _ _ => (if suppressed bin then [] else render ev) ++ std_spec r count bin
      | EBreak => sep_bytes ++ std_spec r count bin
      | EBinary off => std_spec r count (Some off)
      | EFinish _ _ => (match bin with Some off => notice count off | None => [] end) ++ std_spec r count bin
      end
    end.
End StdSpec.

Fixpoint count_matched (evs : list event) : nat :=
  match evs with
  | [] => 0
  | EMatched _ _ :: r => S (count_matched r)
  | _ :: r => count_matched r
  end.

(* the offset of the last binary_data notification (searchers send at most one) *)
Fixpoint last_binary (evs : list event) (acc : option nat) : option nat :=
  match evs with
  | [] => acc
  | EBinary off :: r => last_binary r (Some off)
  | _ :: r => last_binary r acc
  end.

Definition no_begin (evs : list event) : Prop := Forall (fun ev => ev <> EBegin) evs.
Definition no_finish (evs : list event) : Prop := Forall (fun ev => match ev with EFinish _ _ => False | _ => True end) evs.

(* the slice strategies with every piece of detection code removed: begin, the planned calls, finish *)
Definition slice_run_plain {St : Type} (sink : St -> event -> St * bool)
           (slice : bytes) (plan : list call) (final_pos : nat) (w : @world St) : @world St :=
  let (w, r) := emit sink w EBegin in
  let '(pos, w) :=
    if r then
      let '(stopped, _, w) := run_calls sink BNone false 0 slice plan None w in
      (match stopped with Some c => c_pos c | None => final_pos end, w)
    else (0, w) in
  fst (emit sink w (EFinish pos None)).

Definition no_binary_event (evs : list event) : Prop :=
  Forall (fun ev => match ev with EBinary _ => False | _ => True end) evs.
