(* Spec/ReplaceSpec.v — what "replace every match in the line" means, given the successive
   matches: text between matches is copied, each match is replaced by the expansion of the
   template against its own capture groups, the tail is copied. *)
From RG Require Import Base.Bytes Model.Interpolate Model.MatchIter Model.Replace Spec.TemplateSpec.

Section Matches.
  Context {C : Type}.
  Variable at_ : nat -> option C.
  Variable span : C -> nat * nat.
  Variable hlen : nat.

  (* the successive non-overlapping matches from position [le] on; an empty match directly
     after the previous match is skipped; after an empty match the search resumes one byte on *)
  Fixpoint matches_from (fuel : nat) (le : nat) (lm : option nat) : option (list C) :=
    match fuel with
    | 0 => None
    | S fuel' =>
      if Nat.ltb hlen le then Some [] else
      match at_ le with
      | None => Some []
      | Some c =>
        let (s, e) := span c in
        if Nat.eqb s e then
          if opt_nat_eqb lm e then matches_from fuel' (e + 1) lm
          else option_map (cons c) (matches_from fuel' (e + 1) (Some e))
        else option_map (cons c) (matches_from fuel' e (Some e))
      end
    end.

  Definition all_matches (at0 : nat) : option (list C) := matches_from (hlen + 2 - at0 + 1) at0 None.

  (* the matcher contract of grep-matcher: a match found at position p lies in [p, hlen] *)
  Definition matcher_ok : Prop :=
    forall p c, at_ p = Some c -> p <= fst (span c) /\ fst (span c) <= snd (span c) /\ snd (span c) <= hlen.
End Matches.

Section Assemble.
  Variable n2i : bytes -> option N.
  Variable hay : bytes.
  Variable template : bytes.
  Variable re : nat.                     (* end of the line's range, terminator included *)

  Definition expansion (c : caps) : bytes := expand_spec (cap_text hay c) n2i template.

  (* matches starting at or after [re] are not part of this line *)
  Fixpoint assemble (last : nat) (l : list caps) : bytes :=
    match l with
    | [] => sub hay last (Nat.min (length hay) re)
    | c :: l' =>
      let (s, e) := cap_span c in
      if Nat.leb re s then sub hay last (Nat.min (length hay) re)
      else sub hay last s ++ expansion c ++ assemble e l'
    end.

  (* the regex library's replace-all: every match is replaced, nothing is cut off *)
  Fixpoint assemble_all (last : nat) (l : list caps) : bytes :=
    match l with
    | [] => sub hay last (length hay)
    | c :: l' => let (s, e) := cap_span c in sub hay last s ++ expansion c ++ assemble_all e l'
    end.

  (* spans of the expansions inside the assembled text, given the length already written *)
  Fixpoint assemble_spans (written last : nat) (l : list caps) : list (nat * nat) :=
    match l with
    | [] => []
    | c :: l' =>
      let (s, e) := cap_span c in
      if Nat.leb re s then []
      else let st := written + length (sub hay last s) in
           let en := st + length (expansion c) in
           (st, en) :: assemble_spans en e l'
    end.
End Assemble.
