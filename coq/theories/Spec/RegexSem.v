(* Spec/RegexSem.v — syntax and meaning of regex-syntax's HIR (regex-syntax 0.8.4 hir::HirKind) over
   byte haystacks.

   * [hir]: Empty, Literal, Class (bytes / Unicode ranges), Look (the 18 kinds of hir::Look),
     Repetition {min,max,greedy}, Capture, Concat, Alternation.
   * [look_matches]: the look-around assertions exactly as regex-automata 0.4.7 util/look.rs
     (LookMatcher, line terminator '\n') defines them, including the UTF-8 decoding clauses of the
     Unicode word boundaries (util/utf8.rs decode / decode_last, strict UTF-8).
   * [Matches h s i j]: declarative relation "h matches haystack s from offset i to offset j";
     look-around is evaluated against the whole haystack s.
   * [ends h s i]: executable list of all j with Matches h s i j ([ends_spec] in
     Proofs/RegexSemProofs.v; the repetition loop is fuelled internally with a bound that is proved
     sufficient, so [ends] itself has no fuel argument).
   Greediness and leftmost-first preference only select among the matches; they do not change the set
   {(i,j)}, so they do not appear in the relation.  Definitions only. *)
From RG Require Import Base.Bytes Model.RegexTables.

Inductive look :=
| LStart | LEnd | LStartLF | LEndLF | LStartCRLF | LEndCRLF
| LWordAscii | LWordAsciiNegate | LWordUnicode | LWordUnicodeNegate
| LWordStartAscii | LWordEndAscii | LWordStartUnicode | LWordEndUnicode
| LWordStartHalfAscii | LWordEndHalfAscii | LWordStartHalfUnicode | LWordEndHalfUnicode.

Inductive hir :=
| HEmpty
| HLit (b : bytes)
| HClassB (rs : list (N * N))
| HClassU (rs : list (N * N))
| HLook (l : look)
| HRep (min : nat) (max : option nat) (greedy : bool) (h : hir)
| HCap (h : hir)
| HConcat (hs : list hir)
| HAlt (hs : list hir).

(* ---------------------------------------------------------------- ranges *)
Definition in_range (r : N * N) (x : N) : bool := (fst r <=? x)%N && (x <=? snd r)%N.
Definition in_ranges (rs : list (N * N)) (x : N) : bool := existsb (fun r => in_range r x) rs.

(* ---------------------------------------------------------------- strict UTF-8, one scalar value *)
Inductive dec := DNone | DErr | DOk (cp : N) (n : nat).

Definition is_cont (b : N) : bool := (128 <=? b)%N && (b <=? 191)%N.

(* regex-automata util/utf8.rs `len` *)
Definition utf8_len (b : N) : option nat :=
  if (b <=? 127)%N then Some 1
  else if is_cont b then None
  else if (b <=? 223)%N then Some 2
  else if (b <=? 239)%N then Some 3
  else if (b <=? 247)%N then Some 4
  else None.

(* util/utf8.rs `decode`: the first scalar value of the slice; core::str::from_utf8 validity
   (no overlong forms, no surrogates, nothing above U+10FFFF) *)
Definition utf8_decode (s : bytes) : dec :=
  match s with
  | [] => DNone
  | b0 :: r =>
    match utf8_len b0 with
    | None => DErr
    | Some 1 => DOk b0 1
    | Some 2 =>
      match r with
      | b1 :: _ =>
        if (194 <=? b0)%N && is_cont b1 then DOk ((b0 - 192) * 64 + (b1 - 128))%N 2 else DErr
      | _ => DErr
      end
    | Some 3 =>
      match r with
      | b1 :: b2 :: _ =>
        if is_cont b1 && is_cont b2
           && (if (b0 =? 224)%N then (160 <=? b1)%N else true)
           && (if (b0 =? 237)%N then (b1 <=? 159)%N else true)
        then DOk ((b0 - 224) * 4096 + (b1 - 128) * 64 + (b2 - 128))%N 3 else DErr
      | _ => DErr
      end
    | Some _ =>
      match r with
      | b1 :: b2 :: b3 :: _ =>
        if is_cont b1 && is_cont b2 && is_cont b3 && (b0 <=? 244)%N
           && (if (b0 =? 240)%N then (144 <=? b1)%N else true)
           && (if (b0 =? 244)%N then (b1 <=? 143)%N else true)
        then DOk ((b0 - 240) * 262144 + (b1 - 128) * 4096 + (b2 - 128) * 64 + (b3 - 128))%N 4 else DErr
      | _ => DErr
      end
    end
  end.

(* char::encode_utf8 *)
Definition utf8_encode (cp : N) : bytes :=
  if (cp <? 128)%N then [cp]
  else if (cp <? 2048)%N then [192 + cp / 64; 128 + cp mod 64]%N
  else if (cp <? 65536)%N then [224 + cp / 4096; 128 + (cp / 64) mod 64; 128 + cp mod 64]%N
  else [240 + cp / 262144; 128 + (cp / 4096) mod 64; 128 + (cp / 64) mod 64; 128 + cp mod 64]%N.

Definition is_scalar (cp : N) : bool :=
  ((cp <? 55296)%N || (57343 <? cp)%N) && (cp <=? 1114111)%N.

(* util/utf8.rs `is_leading_or_invalid_byte` *)
Definition is_leading_or_invalid (b : N) : bool := negb (is_cont b).

(* the backward scan of util/utf8.rs `decode_last` *)
Fixpoint back_scan (fuel : nat) (pre : bytes) (start limit : nat) : nat :=
  match fuel with
  | 0 => start
  | S f =>
    if Nat.ltb limit start && negb (is_leading_or_invalid (nth start pre 0%N))
    then back_scan f pre (start - 1) limit else start
  end.

(* util/utf8.rs `decode_last`: note that the scalar decoded at the scan's start is returned even
   when it does not reach the end of the slice (mirrored as written) *)
Definition utf8_decode_last (pre : bytes) : dec :=
  match pre with
  | [] => DNone
  | _ =>
    let n := length pre in
    let start := back_scan 4 pre (n - 1) (n - 4) in
    match utf8_decode (skipn start pre) with
    | DNone => DNone
    | DOk cp k => DOk cp k
    | DErr => DErr
    end
  end.

(* ---------------------------------------------------------------- word characters *)
Definition is_word_byte (b : N) : bool :=
  (b =? 95)%N || ((48 <=? b)%N && (b <=? 57)%N) || ((65 <=? b)%N && (b <=? 90)%N)
  || ((97 <=? b)%N && (b <=? 122)%N).

(* regex_syntax::try_is_word_character *)
Definition is_word_cp (cp : N) : bool :=
  if (cp <=? 127)%N then is_word_byte cp else in_ranges perl_word cp.

(* look.rs is_word_char::fwd / rev *)
Definition word_fwd (s : bytes) (at_ : nat) : bool :=
  match utf8_decode (skipn at_ s) with DOk cp _ => is_word_cp cp | _ => false end.
Definition word_rev (s : bytes) (at_ : nat) : bool :=
  match utf8_decode_last (firstn at_ s) with DOk cp _ => is_word_cp cp | _ => false end.

Definition byte_at (s : bytes) (p : nat) : N := nth p s 0%N.

(* ---------------------------------------------------------------- LookMatcher (lineterm = '\n') *)
Definition look_matches (l : look) (s : bytes) (at_ : nat) : bool :=
  let len := length s in
  let wb_ascii := negb (Nat.eqb at_ 0) && is_word_byte (byte_at s (at_ - 1)) in
  let wa_ascii := Nat.ltb at_ len && is_word_byte (byte_at s at_) in
  match l with
  | LStart => Nat.eqb at_ 0
  | LEnd => Nat.eqb at_ len
  | LStartLF => Nat.eqb at_ 0 || (byte_at s (at_ - 1) =? 10)%N
  | LEndLF => Nat.eqb at_ len || (byte_at s at_ =? 10)%N
  | LStartCRLF =>
    Nat.eqb at_ 0 || (byte_at s (at_ - 1) =? 10)%N
    || ((byte_at s (at_ - 1) =? 13)%N && (Nat.leb len at_ || negb (byte_at s at_ =? 10)%N))
  | LEndCRLF =>
    Nat.eqb at_ len || (byte_at s at_ =? 13)%N
    || ((byte_at s at_ =? 10)%N && (Nat.eqb at_ 0 || negb (byte_at s (at_ - 1) =? 13)%N))
  | LWordAscii => negb (Bool.eqb wb_ascii wa_ascii)
  | LWordAsciiNegate => Bool.eqb wb_ascii wa_ascii
  | LWordUnicode => negb (Bool.eqb (word_rev s at_) (word_fwd s at_))
  | LWordUnicodeNegate =>
    let before_ok := Nat.eqb at_ 0 || match utf8_decode_last (firstn at_ s) with DOk _ _ => true | _ => false end in
    let after_ok := Nat.leb len at_ || match utf8_decode (skipn at_ s) with DOk _ _ => true | _ => false end in
    (* a decoding failure on the side that is looked at first returns false at once; the before side
       is evaluated first, the after side only when the before side did not fail *)
    before_ok && after_ok
    && Bool.eqb (negb (Nat.eqb at_ 0) && word_rev s at_) (Nat.ltb at_ len && word_fwd s at_)
  | LWordStartAscii => negb wb_ascii && wa_ascii
  | LWordEndAscii => wb_ascii && negb wa_ascii
  | LWordStartUnicode => negb (word_rev s at_) && word_fwd s at_
  | LWordEndUnicode => word_rev s at_ && negb (word_fwd s at_)
  | LWordStartHalfAscii => negb wb_ascii
  | LWordEndHalfAscii => negb wa_ascii
  | LWordStartHalfUnicode =>
    (Nat.eqb at_ 0 || match utf8_decode_last (firstn at_ s) with DOk _ _ => true | _ => false end)
    && negb (negb (Nat.eqb at_ 0) && word_rev s at_)
  | LWordEndHalfUnicode =>
    (Nat.leb len at_ || match utf8_decode (skipn at_ s) with DOk _ _ => true | _ => false end)
    && negb (Nat.ltb at_ len && word_fwd s at_)
  end.

(* ---------------------------------------------------------------- the relation *)
Inductive Matches : hir -> bytes -> nat -> nat -> Prop :=
| MEmpty s i : i <= length s -> Matches HEmpty s i i
| MLit b s i :
    i <= length s -> is_prefix_of b (skipn i s) = true -> Matches (HLit b) s i (i + length b)
| MClassB rs s i b :
    nth_error s i = Some b -> in_ranges rs b = true -> Matches (HClassB rs) s i (S i)
| MClassU rs s i cp n :
    i <= length s -> utf8_decode (skipn i s) = DOk cp n -> in_ranges rs cp = true ->
    Matches (HClassU rs) s i (i + n)
| MLook l s i : i <= length s -> look_matches l s i = true -> Matches (HLook l) s i i
| MRepZero max g h s i : i <= length s -> Matches (HRep 0 max g h) s i i
| MRepStep min max g h s i k j :
    max <> Some 0 -> Matches h s i k ->
    Matches (HRep (pred min) (option_map pred max) g h) s k j ->
    Matches (HRep min max g h) s i j
| MCap h s i j : Matches h s i j -> Matches (HCap h) s i j
| MConcatNil s i : i <= length s -> Matches (HConcat []) s i i
| MConcatCons h hs s i k j :
    Matches h s i k -> Matches (HConcat hs) s k j -> Matches (HConcat (h :: hs)) s i j
| MAltHere h hs s i j : Matches h s i j -> Matches (HAlt (h :: hs)) s i j
| MAltThere h hs s i j : Matches (HAlt hs) s i j -> Matches (HAlt (h :: hs)) s i j.

(* "h matches somewhere in s" *)
Definition matches_in (h : hir) (s : bytes) : Prop := exists i j, Matches h s i j.

(* ---------------------------------------------------------------- the executable version *)
Definition nat_dedup (l : list nat) : list nat := nodup Nat.eq_dec l.

(* all end offsets of `min..max` iterations of a sub-expression whose end offsets are given by
   [step]; an iteration that does not advance is only followed while it still decrements [min] *)
Fixpoint rep_ends (fuel : nat) (step : nat -> list nat) (min : nat) (max : option nat) (i : nat)
  : list nat :=
  match fuel with
  | 0 => []
  | S f =>
    (if Nat.eqb min 0 then [i] else []) ++
    match max with
    | Some 0 => []
    | _ =>
      nat_dedup (flat_map (fun k => if Nat.eqb min 0 && Nat.leb k i then []
                                    else rep_ends f step (pred min) (option_map pred max) k)
                          (nat_dedup (step i)))
    end
  end.

Fixpoint ends (h : hir) (s : bytes) (i : nat) {struct h} : list nat :=
  if Nat.ltb (length s) i then [] else
  match h with
  | HEmpty => [i]
  | HLit b => if is_prefix_of b (skipn i s) then [i + length b] else []
  | HClassB rs =>
    match nth_error s i with
    | Some b => if in_ranges rs b then [S i] else []
    | None => []
    end
  | HClassU rs =>
    match utf8_decode (skipn i s) with
    | DOk cp n => if in_ranges rs cp then [i + n] else []
    | _ => []
    end
  | HLook l => if look_matches l s i then [i] else []
  | HRep min max _ h' => rep_ends (S (min + (length s - i))) (ends h' s) min max i
  | HCap h' => ends h' s i
  | HConcat hs =>
    (fix go (hs : list hir) (i : nat) : list nat :=
       match hs with
       | [] => [i]
       | h' :: t => nat_dedup (flat_map (go t) (nat_dedup (ends h' s i)))
       end) hs i
  | HAlt hs =>
    (fix go (hs : list hir) : list nat :=
       match hs with
       | [] => []
       | h' :: t => ends h' s i ++ go t
       end) hs
  end.

(* does h match somewhere in s? (used by the oracles) *)
Definition is_match_sem (h : hir) (s : bytes) : bool :=
  existsb (fun i => match ends h s i with [] => false | _ => true end) (seq 0 (S (length s))).

(* leftmost match start and all its ends *)
Definition all_matches_sem (h : hir) (s : bytes) : list (nat * list nat) :=
  filter (fun p => match snd p with [] => false | _ => true end)
         (map (fun i => (i, ends h s i)) (seq 0 (S (length s)))).
