(* Spec/ColsSpec.v — what --max-columns / --max-columns-preview / --trim promise, written from the
   documentation (rg --help) and the property text, not from standard.rs:
     --trim                 "all ASCII whitespace at the beginning of each line printed will be removed"
     --max-columns NUM      "omit lines longer than this limit in bytes. Instead of printing long lines,
                             only the number of matches in that line is printed"
     --max-columns-preview  "a preview of the line (corresponding to the limit size) is shown instead,
                             where the part of the line exceeding the limit is not shown"
   The texts of the notices are the ones rg prints (tests/feature.rs, GUIDE).  Definitions only. *)
From Coq Require Import String Ascii.
From RG Require Import Base.Bytes Model.Replace Model.Sink Spec.PrinterSpec.

Definition str (s : string) : bytes := map N_of_ascii (list_ascii_of_string s).

(* ASCII whitespace: TAB LF VT FF CR SPACE *)
Definition ascii_ws (b : byte) : bool := existsb (N.eqb b) [9; 10; 11; 12; 13; 32]%N.
(* a byte of the line terminator is never trimmed (a blank line keeps its own terminator) *)
Definition trimmable (lt : lineterm) (b : byte) : bool := ascii_ws b && negb (existsb (N.eqb b) (lt_bytes lt)).
(* the line as shown: with --trim, without its longest prefix of trimmable bytes *)
Definition shown_line (lt : lineterm) (trim : bool) (line : bytes) : bytes :=
  if trim then drop_while (trimmable lt) line else line.

(* the notice that stands for an omitted line: with the number of matches when it is known
   (matches were recorded and the record is a whole line, not one -o match) *)
Definition omitted_notice_spec (only_matching is_ctx : bool) (nmatches : nat) : bytes :=
  if Nat.eqb nmatches 0 || only_matching then
    if is_ctx then str "[Omitted long context line]" else str "[Omitted long matching line]"
  else str "[Omitted long line with " ++ dec nmatches ++ str " matches]".

(* the notice after a preview; with recorded matches: how many of them start in [cut, len) *)
Definition preview_notice_spec (matches : list (nat * nat)) (cut len : nat) : bytes :=
  match matches with
  | [] => str " [... omitted end of long line]"
  | _ =>
    let r := length (filter (fun m => Nat.leb cut (fst m) && Nat.ltb (fst m) len) matches) in
    str " [... " ++ dec r ++ (if Nat.eqb r 1 then str " more match]" else str " more matches]")
  end.

(* the cut of a preview: the end of the limit-th grapheme of the shown line (of its last grapheme when
   there are fewer; 0 when there is none), `gends` being the grapheme segmentation *)
Definition preview_cut (gends : bytes -> list nat) (limit : nat) (shown : bytes) : nat :=
  last (firstn limit (gends shown)) 0.

(* what stands for `line` in the output *)
Definition line_or_notice (gends : bytes -> list nat) (lt : lineterm) (max : option nat) (preview trim : bool)
           (only_matching is_ctx : bool) (matches : list (nat * nat)) (line : bytes) : bytes :=
  let shown := shown_line lt trim line in
  match max with
  | None => terminated lt shown
  | Some limit =>
    if Nat.leb (length shown) limit then terminated lt shown       (* not longer than the limit, in bytes *)
    else if preview then
      let cut := preview_cut gends limit shown in
      (* a prefix of the shown line: up to the cut, a line terminator ending there not shown *)
      firstn (trim_line_terminator lt shown 0 cut) shown
      ++ preview_notice_spec matches cut (length shown) ++ lt_bytes lt
    else omitted_notice_spec only_matching is_ctx (length matches) ++ lt_bytes lt
  end.

(* ---- a multi-line block printed line by line through the span-aware path (-U with --column / --stats):
   the text of the line [s, e) of the block `bytes`; matches, the cut and the line's end are all offsets
   into the block.  The whitespace prefix is dropped, a line not longer than the limit is written without
   its terminator and re-terminated. *)
Definition block_line_text (gends : bytes -> list nat) (lt : lineterm) (max : option nat) (preview trim : bool)
           (is_ctx : bool) (matches : list (nat * nat)) (blk : bytes) (s e : nat) : bytes :=
  let s' := if trim then s + length (take_while (trimmable lt) (sub blk s e)) else s in
  let shown := sub blk s' e in
  let plain := sub blk s' (trim_line_terminator lt blk s' e) ++ lt_bytes lt in
  match max with
  | None => plain
  | Some limit =>
    if Nat.leb (length shown) limit then plain
    else if preview then
      let cut := preview_cut gends limit shown + s' in
      sub blk s' (trim_line_terminator lt blk s' cut) ++ preview_notice_spec matches cut e ++ lt_bytes lt
    else omitted_notice_spec false is_ctx (length matches) ++ lt_bytes lt
  end.

(* where the Rust code would panic (Match::with_end asserts start <= end): stripping the terminator of the
   (cut) line must not move its end before its start *)
Definition block_line_guard (gends : bytes -> list nat) (lt : lineterm) (max : option nat) (trim : bool)
           (blk : bytes) (s e : nat) : Prop :=
  let s' := if trim then s + length (take_while (trimmable lt) (sub blk s e)) else s in
  s' <= trim_line_terminator lt blk s' e /\
  forall limit, max = Some limit ->
    s' <= trim_line_terminator lt blk s' (preview_cut gends limit (sub blk s' e) + s').
