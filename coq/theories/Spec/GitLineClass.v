(* Spec/GitLineClass.v — the class of ignore-file lines covered by the line-level theorem, as an executable
   predicate: both line readers are run; the line is in the class when either both ignore it, or ripgrep's
   add_line yields a glob whose tokens are exactly the tokens of the segment form (Spec/GitGrammar.v) of what
   git's reader (Spec/GitSem.v) yields, the segment form is well-formed (documented grammar: no class that can
   match '/', no "**" glued to another "**", no empty component) and the flags agree.  Definitions only. *)
From RG Require Import Base.Bytes Model.Glob Model.GlobSet Model.Gitignore Spec.GitSem Spec.GitGrammar.

Definition seg_of_cpat (p : cpat) : seg := match p with CSimple ws => SComp ws | CDStar => SDStar end.

Fixpoint ranges_eqb (a b : list (N * N)) : bool :=
  match a, b with
  | [], [] => true
  | (x1, y1) :: r1, (x2, y2) :: r2 => (x1 =? x2)%N && (y1 =? y2)%N && ranges_eqb r1 r2
  | _, _ => false
  end.

Definition token_eqb (a b : token) : bool :=
  match a, b with
  | TLit x, TLit y => (x =? y)%N
  | TAny, TAny | TStar, TStar | TRecPrefix, TRecPrefix | TRecSuffix, TRecSuffix
  | TRecZeroOrMore, TRecZeroOrMore => true
  | TClass n1 r1, TClass n2 r2 => Bool.eqb n1 n2 && ranges_eqb r1 r2
  | _, _ => false                                      (* alternates are never in the class *)
  end.

Fixpoint tokens_eqb (a b : list token) : bool :=
  match a, b with
  | [], [] => true
  | x :: r1, y :: r2 => token_eqb x y && tokens_eqb r1 r2
  | _, _ => false
  end.

(* git's reading of a lone "**" (unanchored, so "last component matches **"): every non-empty path *)
Definition is_lone_dstar (cps : list cpat) : bool :=
  match cps with
  | [CDStar; CSimple [WStar; WStar]] => true
  | _ => false
  end.

Definition line_class (ci : bool) (line : bytes) : bool :=
  match add_line ci line, git_parse_line line with
  | LGlob g, Some p =>
    let segs := map seg_of_cpat (gp_comps p) in
    ((segs_ok false segs && tokens_eqb (g_tokens (ig_glob g)) (rg_tokens false segs))
     || (is_lone_dstar (gp_comps p) && tokens_eqb (g_tokens (ig_glob g)) [TRecPrefix])) &&
    Bool.eqb (case_insensitive (g_opts (ig_glob g))) ci && literal_separator (g_opts (ig_glob g)) &&
    Bool.eqb (ig_whitelist g) (gp_neg p) && Bool.eqb (ig_only_dir g) (gp_dironly p)
  | LGlob _, None => false
  | _, None => true                                     (* comment, blank, or rejected by both *)
  | _, Some _ => false
  end.

(* what one line says about an entry: Some true = excluded, Some false = re-included, None = nothing *)
Definition rg_line (re : glob -> bytes -> bool) (ci : bool) (line : bytes) (rel : list bytes) (is_dir : bool)
  : option bool :=
  match add_line ci line with
  | LGlob g =>
    if re (ig_glob g) (join rel) && (negb (ig_only_dir g) || is_dir) then Some (negb (ig_whitelist g)) else None
  | _ => None
  end.
Definition git_line (ci : bool) (line : bytes) (rel : list bytes) (is_dir : bool) : option bool :=
  match git_parse_line line with
  | Some p => if pat_matches ci p rel is_dir then Some (negb (gp_neg p)) else None
  | None => None
  end.
