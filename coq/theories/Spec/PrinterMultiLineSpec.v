(* Spec/PrinterMultiLineSpec.v — vocabulary of C09/C10 for the records of --only-matching and per-match
   (--vimgrep) output of a MULTI-LINE block.  Written from the documentation ("print only the matched
   parts of a line, each on its own line"; "--vimgrep: every match on its own line, a line with more
   than one match is printed more than once"; multi-line: a match may span lines), not from the code:
     -o        one record for every (line, submatch) pair such that the submatch has at least one byte
               on the line's content (the line without its terminator): the record shows that part;
     per match one record for every (submatch, line) pair such that the submatch touches the line
               (terminator included): the record shows the whole line; with per_match_one_line only
               the first line of every submatch. *)
From RG Require Import Base.Bytes Model.MatchIter Model.Replace Model.Sink Model.Standard Spec.PrinterSpec.

(* successive non-overlapping spans in increasing order, none starting before lo
   (what Matcher::find_iter yields; what LineStep yields) *)
Fixpoint spans_ordered (lo : nat) (l : list (nat * nat)) : Prop :=
  match l with
  | [] => True
  | m :: r => lo <= fst m /\ fst m <= snd m /\ spans_ordered (snd m) r
  end.

Section MLRecords.
  Variable cfg : stdconfig.
  Variable env : senv.
  Variable path : option bytes.
  Variable sk : sunk.

  (* the lines of the block, terminator included; the end of a line's content *)
  Definition block_lines : list (nat * nat) := line_spans (lt_byte (e_lt env)) (k_bytes sk).
  Definition content_end (line : nat * nat) : nat :=
    trim_line_terminator (e_lt env) (k_bytes sk) (fst line) (snd line).
  (* every line's content ends at or after the line's start (true of every LineStep line; where it
     failed the Rust `with_end` would panic) *)
  Definition lines_trim_ok (lines : list (nat * nat)) : Prop :=
    Forall (fun line => fst line <= content_end line) lines.

  (* ---------------- --only-matching ---------------- *)
  (* the part of submatch m on the content [s, e') of a line *)
  Definition piece (s e' : nat) (m : nat * nat) : nat * nat := (Nat.max s (fst m), Nat.min e' (snd m)).
  Definition has_piece (s e' : nat) (m : nat * nat) : bool := Nat.ltb (Nat.max s (fst m)) (Nat.min e' (snd m)).

  (* the record of part p of submatch m on the i-th line of the block: byte offset and column are
     those of the START OF THE SUBMATCH (also on its later lines), the line number is the line's *)
  Definition om_record (i : nat) (m p : nat * nat) : bytes :=
    prelude_spec cfg path (separator_field cfg sk) (k_off sk + fst m)
                 (option_map (fun n => n + i) (k_lnum sk)) (Some (fst m + 1))
    ++ sub (k_bytes sk) (fst p) (snd p) ++ lt_bytes (e_lt env).

  Definition om_records_on (i s e' : nat) (ms : list (nat * nat)) : list bytes :=
    flat_map (fun m => if has_piece s e' m then [om_record i m (piece s e' m)] else []) ms.

  Fixpoint om_block_records (lines : list (nat * nat)) (i : nat) : list bytes :=
    match lines with
    | [] => []
    | l :: r => om_records_on i (fst l) (content_end l) (k_matches sk) ++ om_block_records r (S i)
    end.

  (* number of lines on whose content the submatch has a byte = number of its records *)
  Definition pieces_of (lines : list (nat * nat)) (m : nat * nat) : nat :=
    length (filter (fun l => has_piece (fst l) (content_end l) m) lines).

  (* KNOWN FINDING MultiLineOnlyMatchingDropsEmptyMatches: a submatch without a byte on any line's
     content (it is empty, or consists of line terminators only) *)
  Definition OnlyTerminatorsOrEmpty (m : nat * nat) : Prop := pieces_of block_lines m = 0.

  (* ---------------- per match (--vimgrep) ---------------- *)
  Definition touches (line m : nat * nat) : bool :=
    Nat.ltb (fst line) (snd m) && Nat.ltb (fst m) (snd line).

  (* the record of line `line` (the i-th of the block) for submatch m: the line's own byte offset and
     number, column = 1 + distance of the submatch's start from the line's start (1 when the submatch
     began on an earlier line), text = the line's content + the searcher's terminator *)
  Definition pm_record (i : nat) (line m : nat * nat) : bytes :=
    prelude_spec cfg path (separator_field cfg sk) (k_off sk + fst line)
                 (option_map (fun n => n + i) (k_lnum sk)) (Some (fst m - fst line + 1))
    ++ sub (k_bytes sk) (fst line) (content_end line) ++ lt_bytes (e_lt env).

  Fixpoint pm_match_records (m : nat * nat) (lines : list (nat * nat)) (i : nat) : list bytes :=
    match lines with
    | [] => []
    | l :: r => (if touches l m then [pm_record i l m] else []) ++ pm_match_records m r (S i)
    end.

  Definition pm_block_records : list bytes :=
    flat_map (fun m => let rs := pm_match_records m block_lines 0 in
                       if st_per_match_one_line cfg then firstn 1 rs else rs) (k_matches sk).

  Definition lines_touched (lines : list (nat * nat)) (m : nat * nat) : nat :=
    length (filter (fun l => touches l m) lines).

  (* observation outside property C10 (not a finding) MultiLinePerMatchDropsEmptyMatchAtLineStart: an empty submatch touches no line when it
     sits at the very start of a line (or at the end of the block) *)
  Definition TouchesNoLine (m : nat * nat) : Prop := lines_touched block_lines m = 0.
End MLRecords.

(* a plain submatch of a block: non-empty, inside the block, no byte of it is the terminator byte, and under
   --crlf it does not begin with a CR (a lone CR before the LF is part of the terminator there) *)
Definition plain_submatch (env : senv) (block : bytes) (x : nat * nat) : Prop :=
  fst x < snd x /\ snd x <= length block /\
  (forall p, fst x <= p < snd x -> nth_error block p <> Some (lt_byte (e_lt env))) /\
  (e_lt env = LTCrlf -> nth_error block (fst x) <> Some 13%N).
