(* Spec/SmartCase.v — the documented smart-case rule (-S/--smart-case in crates/core/flags/defs.rs,
   RegexMatcherBuilder::case_smart):
     "search case insensitively if the pattern is all lowercase.  A pattern is considered all
      lowercase if both hold: first, the pattern contains at least one literal character (`a\w`
      contains a literal, just `\w` does not); second, of the literals in the pattern, none of them
      are considered to be uppercase according to Unicode (`foo\pL` has no uppercase literals but
      `Foo\pL` does)."
   Written from that text: "c is a literal of the pattern" is an occurrence relation — a character
   written in the pattern, alone, as a member of a bracketed class or as EITHER end of a class range,
   at any depth of groups, repetitions, alternations, nested / negated classes and set operations;
   the characters hidden in escapes such as `\w`, `\pL`, `[:upper:]` are not literals. *)
From RG Require Import Base.Bytes Model.SmartCase.

Inductive ClsLit : N -> cls -> Prop :=
| CL_lit : forall c, ClsLit c (CLit c)
| CL_range_start : forall s e, ClsLit s (CRange s e)
| CL_range_end : forall s e, ClsLit e (CRange s e)
| CL_bracketed : forall c n k, ClsLit c k -> ClsLit c (CBracketed n k)
| CL_union : forall c k items, In k items -> ClsLit c k -> ClsLit c (CUnion items)
| CL_op_l : forall c l r, ClsLit c l -> ClsLit c (CBinOp l r)
| CL_op_r : forall c l r, ClsLit c r -> ClsLit c (CBinOp l r).

Inductive PatLit : N -> sast -> Prop :=
| PL_lit : forall c, PatLit c (SLit c)
| PL_class : forall c n k, ClsLit c k -> PatLit c (SClass n k)
| PL_rep : forall c t, PatLit c t -> PatLit c (SRep t)
| PL_group : forall c t, PatLit c t -> PatLit c (SGroup t)
| PL_alt : forall c t l, In t l -> PatLit c t -> PatLit c (SAlt l)
| PL_concat : forall c t l, In t l -> PatLit c t -> PatLit c (SConcat l).

Section WithUpper.
  Variable upper : N -> bool.

  Definition all_lowercase (t : sast) : Prop :=
    (exists c, PatLit c t) /\ (forall c, PatLit c t -> upper c = false).

  (* the matcher searches case insensitively iff -i was given, or -S and the pattern is all lowercase *)
  Definition case_insensitive_spec (icase smart : bool) (t : sast) : Prop :=
    icase = true \/ (smart = true /\ all_lowercase t).
End WithUpper.

(* the literals of a pattern as a list, in source order (used by the proofs; [lits_spec] ties it to
   the relation) *)
Fixpoint cls_lits (k : cls) : list N :=
  match k with
  | COther _ => []
  | CLit c => [c]
  | CRange s e => [s; e]
  | CBracketed _ k' => cls_lits k'
  | CUnion items => flat_map cls_lits items
  | CBinOp l r => cls_lits l ++ cls_lits r
  end.

Fixpoint pat_lits (t : sast) : list N :=
  match t with
  | SOther _ => []
  | SLit c => [c]
  | SClass _ k => cls_lits k
  | SRep t' => pat_lits t'
  | SGroup t' => pat_lits t'
  | SAlt l => flat_map pat_lits l
  | SConcat l => flat_map pat_lits l
  end.

(* an instance of [upper] for examples: ASCII `A`..`Z` *)
Definition ascii_upper (c : N) : bool := ((65 <=? c) && (c <=? 90))%N.
