(* Spec/TemplateSpec.v — the reference replacement-template grammar, written as a
   one-pass byte-at-a-time recogniser (independent of the slicing/memchr structure
   of the Rust code):

     template := ( text | "$$" | "$" name | "${" name "}" | "$" )*
     name     := [0-9A-Za-z_]+            (longest run)

   "$$" is a literal dollar; a "$" that starts neither form is a literal dollar;
   an all-digit name that fits u32 is a group index, any other name is looked up;
   an unknown / non-participating group expands to nothing. *)
From RG Require Import Base.Bytes Model.Interpolate.

Inductive seg := SLit (b : bytes) | SRef (name : bytes).

Inductive pstate :=
| PText                       (* ordinary text *)
| PDollar                     (* just saw '$' *)
| PName (acc : bytes)         (* in $name, acc non-empty, reversed *)
| PBrace (acc : bytes).       (* in ${name, acc possibly empty, reversed *)

(* returns the segments in order *)
Fixpoint parse_t (st : pstate) (t : bytes) : list seg :=
  match t with
  | [] =>
    match st with
    | PText => []
    | PDollar => [SLit [36%N]]
    | PName acc => [SRef (rev acc)]
    | PBrace acc => [SLit (36%N :: 123%N :: rev acc)]
    end
  | c :: t' =>
    match st with
    | PText => if (c =? 36)%N then parse_t PDollar t' else SLit [c] :: parse_t PText t'
    | PDollar =>
      if (c =? 36)%N then SLit [36%N] :: parse_t PText t'
      else if (c =? 123)%N then parse_t (PBrace []) t'
      else if is_valid_cap_letter c then parse_t (PName [c]) t'
      else SLit [36%N] :: SLit [c] :: parse_t PText t'
    | PName acc =>
      if is_valid_cap_letter c then parse_t (PName (c :: acc)) t'
      else if (c =? 36)%N then SRef (rev acc) :: parse_t PDollar t'
      else SRef (rev acc) :: SLit [c] :: parse_t PText t'
    | PBrace acc =>
      if is_valid_cap_letter c then parse_t (PBrace (c :: acc)) t'
      else if (c =? 125)%N then
        match acc with
        | [] => SLit [36%N; 123%N; 125%N] :: parse_t PText t'      (* "${}" is literal *)
        | _ => SRef (rev acc) :: parse_t PText t'
        end
      else if (c =? 36)%N then SLit (36%N :: 123%N :: rev acc) :: parse_t PDollar t'
      else SLit (36%N :: 123%N :: rev acc) :: SLit [c] :: parse_t PText t'
    end
  end.

Section Expand.
  Variable cap_text : N -> option bytes.
  Variable name_to_index : bytes -> option N.

  Definition opt_bytes (o : option bytes) : bytes := match o with Some b => b | None => [] end.

  Definition expand_seg (g : seg) : bytes :=
    match g with
    | SLit b => b
    | SRef name =>
      match parse_u32 name with
      | Some n => opt_bytes (cap_text n)
      | None => match name_to_index name with Some n => opt_bytes (cap_text n) | None => [] end
      end
    end.

  Definition expand_spec (t : bytes) : bytes := concat (map expand_seg (parse_t PText t)).
End Expand.
