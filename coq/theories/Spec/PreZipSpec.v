(* Spec/PreZipSpec.v — what the documentation of --pre / --no-pre / -z / --no-search-zip promises, written from the
   flag docs (defs.rs doc_long): "--pre COMMAND: for each input PATH search the output of COMMAND PATH ... Either an
   empty string COMMAND or the --no-pre flag will disable this behavior ... This overrides the --search-zip flag";
   "-z: search in compressed files ... This overrides the --pre flag"; a flag given several times: the last one
   wins; --no-search-zip is the negation of -z.
   Reading: a flag "speaks about" a setting if it sets, clears or overrides it; the LAST flag on the command line
   that speaks about a setting decides it.
     preprocessor: spoken about by --pre CMD (sets it, or clears it when CMD is empty), --no-pre (clears), -z (overrides
                   = clears).                     --no-search-zip does not speak about it.
     decompression: spoken about by -z (on), --no-search-zip (off), --pre CMD with a non-empty CMD (overrides = off).
                   --pre '' and --no-pre only disable the preprocessor: they do not speak about decompression. *)
From Coq Require Import List.
From RG Require Import Base.Bytes Model.PreZipFlags.
Import ListNotations.
Local Open Scope bool_scope.

Definition nonempty (p : bytes) : bool := match p with [] => false | _ => true end.

Definition about_pre (e : pz_event) : bool :=
  match e with EPre _ | ENoPre | EZip => true | ENoZip => false end.
Definition about_zip (e : pz_event) : bool :=
  match e with EZip | ENoZip => true | EPre p => nonempty p | ENoPre => false end.

(* the last element of l satisfying f *)
Definition last_such (f : pz_event -> bool) (l : list pz_event) : option pz_event := find f (rev l).

Definition spec_pre (l : list pz_event) : option bytes :=
  match last_such about_pre l with
  | Some (EPre p) => if nonempty p then Some p else None
  | _ => None
  end.

Definition spec_zip (l : list pz_event) : bool :=
  match last_such about_zip l with
  | Some EZip => true
  | _ => false
  end.

(* the looser reading "decompression is on iff the last of -z/--no-search-zip is -z and no preprocessor is in effect" *)
Definition is_zip_switch (e : pz_event) : bool := match e with EZip | ENoZip => true | _ => false end.
Definition loose_zip (l : list pz_event) : bool :=
  match last_such is_zip_switch l, spec_pre l with
  | Some EZip, None => true
  | _, _ => false
  end.
