(* Spec/Utf16Spec.v — declarative meaning of "the UTF-8 equivalent" of a UTF-16 byte stream
   (WHATWG Encoding Standard, UTF-16 decoder, error mode replacement):
     bytes -> 16-bit code units (in the given byte order; a dangling last byte is noted)
     code units -> scalar values: a BMP unit is itself; a high surrogate followed by a low one is the
       supplementary scalar; any other surrogate is U+FFFD (the unit after a failed high surrogate is looked at
       again); a stream ending in a high surrogate and/or a dangling byte ends in one U+FFFD
     a leading U+FEFF is dropped (decoder with BOM removal)
     scalar values -> UTF-8 *)
From RG Require Import Base.Bytes Model.Decode.

Fixpoint code_units (be : bool) (s : bytes) : list N * bool :=      (* (units, dangling byte?) *)
  match s with
  | b0 :: b1 :: r => let (us, odd) := code_units be r in
                     ((if be then b0 * 256 + b1 else b1 * 256 + b0)%N :: us, odd)
  | [_] => ([], true)
  | [] => ([], false)
  end.

Definition pair_scalar (h l : N) : N := (65536 + (h - 55296) * 1024 + (l - 56320))%N.
Definition fffd : N := 65533%N.

Fixpoint scalars (us : list N) (odd : bool) : list N :=
  match us with
  | [] => if odd then [fffd] else []
  | u :: rest =>
    if is_high u then
      match rest with
      | l :: rest' => if is_low l then pair_scalar u l :: scalars rest' odd
                      else fffd :: scalars rest odd
      | [] => [fffd]
      end
    else if is_low u then fffd :: scalars rest odd
    else u :: scalars rest odd
  end.

Definition strip_bom_unit (us : list N) : list N :=
  match us with u :: r => if (u =? 65279)%N then r else us | [] => [] end.

Definition utf16_scalars (be : bool) (s : bytes) : list N :=
  let (us, odd) := code_units be s in scalars (strip_bom_unit us) odd.

Definition utf8_of_scalars (cps : list N) : bytes := concat (map utf8_encode cps).

Definition utf16_spec (be : bool) (s : bytes) : bytes := utf8_of_scalars (utf16_scalars be s).
