(* Spec/ModesSpec.v — the vocabulary of property C10: what one searcher event stream determines.
   Nothing here mentions a printer. *)
From RG Require Import Base.Bytes Model.MatchIter Model.Replace Model.Sink Spec.ReplaceSpec.

Definition is_matched (e : sevent) : bool := match e with SMatched _ => true | _ => false end.
(* number of Matched events of a stream *)
Definition count_matched (evs : list sevent) : nat := length (filter is_matched evs).

(* a per-file limit (-m N) on counted things *)
Definition limited (limit : option nat) (n : nat) : nat :=
  match limit with None => n | Some L => Nat.min L n end.

Section Spans.
  Variable find_at : bytes -> nat -> option (nat * nat).
  Variable env : senv.

  (* the matcher behaves (grep-matcher's contract) on the haystack built for this range *)
  Definition range_ok (buf : bytes) (re : nat) : Prop :=
    let hay := context_haystack env buf re in
    matcher_ok (find_at hay) (fun m => m) (length hay).

  (* the successive matches from the start of the range on, absolute positions in the haystack *)
  Definition successive (buf : bytes) (rs re : nat) : option (list (nat * nat)) :=
    let hay := context_haystack env buf re in
    all_matches (find_at hay) (fun m => m) (length hay) rs.

  Definition starts_before (re : nat) (m : nat * nat) : bool := Nat.ltb (fst m) re.
  Definition rel (rs : nat) (m : nat * nat) : nat * nat := (fst m - rs, snd m - rs).

  (* the submatches of a reported range: the successive matches that start before its end *)
  Definition submatches_of (buf : bytes) (rs re : nat) (l : list (nat * nat)) : list (nat * nat) :=
    map (rel rs) (take_while (starts_before re) l).

  Definition ev_ok (e : sevent) : Prop :=
    match e with
    | SMatched m => range_ok (m_buf m) (m_re m) /\ m_re m <= length (m_buf m)
    | SContext c => range_ok (c_bytes c) (length (c_bytes c))
    | _ => True
    end.

  (* number of submatches of a Matched event (0 when the successive matches are undefined) *)
  Definition nsub (m : sink_match) : nat :=
    match successive (m_buf m) (m_rs m) (m_re m) with
    | Some l => length (submatches_of (m_buf m) (m_rs m) (m_re m) l)
    | None => 0
    end.
  Definition nsub_ev (e : sevent) : nat := match e with SMatched m => nsub m | _ => 0 end.
  (* total number of submatches of the Matched events of a stream *)
  Definition count_submatches (evs : list sevent) : nat := list_sum (map nsub_ev evs).
  (* number of lines the Matched events cover *)
  Definition nlines_ev (e : sevent) : nat :=
    match e with SMatched m => line_count (e_lt env) (m_bytes m) | _ => 0 end.
  Definition count_matched_lines (evs : list sevent) : nat := list_sum (map nlines_ev evs).

  (* A Matched event is genuine when the matcher, asked from the start of the reported range on the
     haystack the printers build, does find a match there (which is why the searcher reported it). *)
  Definition genuine (m : sink_match) : Prop :=
    let hay := context_haystack env (m_buf m) (m_re m) in
    exists s e, find_at hay (m_rs m) = Some (s, e) /\ m_rs m <= s /\ s <= e /\ e <= length hay /\ m_rs m <= length hay.

  (* Known finding D2: the first match from the range start lies at (or after) the range end — which
     can only be the empty match at the very end of a last line that has no terminator. *)
  Definition EmptyMatchAtEndOfUnterminatedLastLine (m : sink_match) : Prop :=
    let hay := context_haystack env (m_buf m) (m_re m) in
    exists s e, find_at hay (m_rs m) = Some (s, e) /\ m_re m <= s.
End Spans.

(* field-wise sum of per-file statistics *)
Definition stats_sum (l : list stats) : stats :=
  mkStats (list_sum (map s_searches l)) (list_sum (map s_with_match l)) (list_sum (map s_bytes_searched l))
          (list_sum (map s_bytes_printed l)) (list_sum (map s_matched_lines l)) (list_sum (map s_matches l)).

(* ---- the part of a stream a printer with a per-file limit consumes: everything up to and including
   the limit-th Matched event (the whole stream when there are fewer, nothing for -m 0) ---- *)
Definition limit_reached (limit : option nat) (n : nat) : bool :=
  match limit with None => false | Some L => Nat.leb L n end.
Fixpoint consumed_from (limit : option nat) (mc : nat) (evs : list sevent) : list sevent :=
  match evs with
  | [] => []
  | e :: r =>
    if is_matched e then
      if limit_reached limit (mc + 1) then [e] else e :: consumed_from limit (mc + 1) r
    else e :: consumed_from limit mc r
  end.
Definition consumed (limit : option nat) (evs : list sevent) : list sevent :=
  match limit with Some 0 => [] | _ => consumed_from limit 0 evs end.
