(* Spec/MultiLineSpec.v — what a multi-line search delivers.
   The successive leftmost non-overlapping matches of the pattern over the WHOLE input (find_at
   with the whole input as haystack) decide which lines are "matched": a line is matched iff it
   holds a byte of some match, or an empty match sits in it (the end-of-input position belongs to
   an unterminated last line).  Consecutive matched lines are delivered as one block; an inverted
   search reports exactly the other lines, each as its own event.  Context,
   separators, numbering and offsets are those of the grep model (Spec/GrepSpec.v). *)
From RG Require Import Base.Bytes Model.Lines Model.SearcherCore Spec.GrepSpec.

Section MLS.
  Variable cfg : config.
  Variable find_at : bytes -> nat -> option (nat * nat).

  (* successive matches, searching resumes at the end of a match (one byte further after an
     empty match) *)
  Fixpoint ml_matches (fuel : nat) (s : bytes) (p : nat) : list (nat * nat) :=
    match fuel with
    | 0 => []
    | S f =>
      if Nat.leb (length s) p then [] else
      match find_at s p with
      | None => []
      | Some (a, b) =>
        let p' := if Nat.leb b a && Nat.ltb b (length s) then b + 1 else b in
        (a, b) :: ml_matches f s p'
      end
    end.

  (* line i = [ls, le); does position x belong to it? *)
  Definition pos_in_line (len ls le : nat) (terminated_ : bool) (x : nat) : bool :=
    (Nat.leb ls x && Nat.ltb x le) || (Nat.eqb x len && Nat.eqb le len && negb terminated_ && Nat.leb ls x).

  Definition covers (len ls le : nat) (term : bool) (m : nat * nat) : bool :=
    let (a, b) := m in
    let last := Nat.max a (b - 1) in
    (* some position of a..last lies in the line: a <= line end region and line start <= last *)
    (pos_in_line len ls le term a || (Nat.ltb a ls && Nat.leb ls last)).

  (* spans of the lines of s: (start, end, terminated?) *)
  Fixpoint line_spans (ltb : byte) (ls : list bytes) (off : nat) : list (nat * nat * bool) :=
    match ls with
    | [] => []
    | l :: r => (off, off + length l, lt_is_suffix (LTByte ltb) l) :: line_spans ltb r (off + length l)
    end.

  Definition matched_flags (s : bytes) (ms : list (nat * nat)) : list bool :=
    map (fun sp => let '(ls, le, t) := sp in existsb (covers (length s) ls le t) ms)
        (line_spans (lt_byte (c_lt cfg)) (split_lines (lt_byte (c_lt cfg)) s) 0).

  (* PINNED: the flags of the inverted search as the code computed them before the repair of
     MultiLine::sink_matched_inverted (Proofs/MLPinned.v): lines before the first line of the next
     match are the results and the search resumed after the LAST LINE of that match — so a
     following match starting on that line, after the first one's end, was never found and its
     lines were reported although they match.  Not used by ml_ref any more. *)
  Fixpoint inv_flags_pinned (fuel : nat) (s : bytes) (spans : list (nat * nat * bool)) (p : nat) : list bool :=
    match fuel with
    | 0 => map (fun _ => false) spans
    | S f =>
      match spans with
      | [] => []
      | _ =>
        if Nat.leb (length s) p then map (fun _ => true) spans else
        match find_at s p with
        | None => map (fun _ => true) spans
        | Some m =>
          (* lines entirely before the match's first line are delivered; covered lines are not *)
          let before := filter (fun sp => let '(ls, le, t) := sp in
                                          negb (covers (length s) ls le t m) &&
                                          Nat.leb le (fst m) ) spans in
          let rest := skipn (length before) spans in
          let cov := filter (fun sp => let '(ls, le, t) := sp in covers (length s) ls le t m) rest in
          let rest' := skipn (length cov) rest in
          let p' := match rev cov with (_, le, _) :: _ => le | [] => p + 1 end in
          map (fun _ => true) before ++ map (fun _ => false) cov ++ inv_flags_pinned f s rest' (Nat.max p' (p + 1))
        end
      end
    end.

  Definition cfg_nostop : config :=
    {| c_lt := c_lt cfg; c_invert := false; c_after := c_after cfg; c_before := c_before cfg;
       c_passthru := c_passthru cfg; c_line_number := c_line_number cfg; c_stop_on_nonmatch := false;
       c_binary := c_binary cfg; c_multi_line := c_multi_line cfg |}.

  (* per-line events with the given successes, through the grep reference's step *)
  Definition line_events (s : bytes) (flags : list bool) : gstate :=
    fold_left (fun st lf => g_step_s cfg_nostop st (fst lf) (snd lf))
              (combine (split_lines (lt_byte (c_lt cfg)) s) flags) g_init.

  (* merge consecutive matched events of adjacent lines into one block (non-inverted search) *)
  Fixpoint group_matched (evs : list event) : list event :=
    match evs with
    | EMatched o n b :: rest =>
      match group_matched rest with
      | EMatched o' n' b' :: rest' =>
        if Nat.eqb o' (o + length b) then EMatched o n (b ++ b') :: rest'
        else EMatched o n b :: EMatched o' n' b' :: rest'
      | r => EMatched o n b :: r
      end
    | e :: rest => e :: group_matched rest
    | [] => []
    end.

  (* inversion reports exactly the other lines: the complement of the lines overlapped by the
     successive matches — the SAME matches as the non-inverted search (ml_matches) *)
  Definition ml_flags (s : bytes) : list bool :=
    let flags := matched_flags s (ml_matches (S (length s)) s 0) in
    if c_invert cfg then map negb flags else flags.

  Definition ml_ref (s : bytes) : list event :=
    let st := line_events s (ml_flags s) in
    let evs := rev (g_out st) in
    EBegin :: (if c_invert cfg then evs else group_matched evs) ++ [EFinish (length s) None].
End MLS.
