(* Spec/PrinterSpec.v — the vocabulary of property C09: what a printed record must consist of, the
   reference base64 decoder (RFC 4648, with padding), decimal notation. *)
From RG Require Import Base.Bytes Model.MatchIter Model.Replace Model.Sink Model.Standard Model.Json.

(* value of a decimal digit string *)
Definition digits_value (b : bytes) : N := fold_left (fun acc d => (acc * 10 + (d - 48))%N) b 0%N.
Definition is_digit (d : N) : bool := (48 <=? d)%N && (d <=? 57)%N.

(* ---- RFC 4648 decoder ---- *)
Definition b64_val (c : byte) : option N := option_map N.of_nat (find_index (N.eqb c) B64_ALPHABET).

Fixpoint b64_decode (s : bytes) : option bytes :=
  match s with
  | [] => Some []
  | c1 :: c2 :: c3 :: c4 :: r =>
    match b64_val c1, b64_val c2 with
    | Some v1, Some v2 =>
      if (c3 =? 61)%N then
        if (c4 =? 61)%N then
          match r with [] => Some [((v1 * 64 + v2) / 16)%N] | _ => None end
        else None
      else
        match b64_val c3 with
        | Some v3 =>
          if (c4 =? 61)%N then
            match r with
            | [] => let g := ((v1 * 64 + v2) * 64 + v3)%N in Some [(g / 1024)%N; ((g / 4) mod 256)%N]
            | _ => None
            end
          else
            match b64_val c4 with
            | Some v4 =>
              let g := (((v1 * 64 + v2) * 64 + v3) * 64 + v4)%N in
              option_map (fun t => (g / 65536)%N :: ((g / 256) mod 256)%N :: (g mod 256)%N :: t) (b64_decode r)
            | None => None
            end
        | None => None
        end
    | _, _ => None
    end
  | _ => None
  end.

(* ---- the layout of one printed record of the standard printer ----
   fields in fixed order: path (unless headings are on or no path), line number, column (when
   configured and known), byte offset (when configured); the path is followed by the path terminator
   (--null) or the field separator, every number by the field separator *)
Section Record.
  Variable cfg : stdconfig.
  Variable path : option bytes.
  Variable sepf : bytes.     (* ":" for matching lines, "-" for context lines *)

  Definition path_field : bytes :=
    if st_heading cfg then [] else
    match path with
    | Some p => p ++ match st_path_term cfg with Some t => [t] | None => sepf end
    | None => []
    end.
  Definition num_field (present : bool) (n : option nat) : bytes :=
    if present then match n with Some n => dec n ++ sepf | None => [] end else [].

  Definition prelude_spec (off : nat) (lnum col : option nat) : bytes :=
    path_field ++ num_field true lnum ++ num_field (st_column cfg) col ++ num_field (st_byte_offset cfg) (Some off).
End Record.

(* the text of a record: the bytes, terminated *)
Definition terminated (lt : lineterm) (b : bytes) : bytes :=
  if lt_is_suffix lt b then b else b ++ lt_bytes lt.
