(* Spec/GitGrammar.v — the documented gitignore pattern grammar in segment form, and the two readings of it:
   the token list ripgrep's rewriting + glob parser produce for it (rg_tokens) and git's component patterns
   (git_cpats, the form Spec/GitSem.v matches).  Definitions only.

   A pattern body is a '/'-separated list of segments; a segment is a component pattern (literals, '?', '*',
   bracket classes) or "**".  [unanchored] = the pattern has no separator at its beginning or middle, so it is
   tried against the last component at any depth (ripgrep prepends "**/", git matches the basename). *)
From RG Require Import Base.Bytes Model.Glob Spec.GitSem.

Inductive seg := SComp (ws : list wtok) | SDStar.

Definition tok_of (w : wtok) : token :=
  match w with
  | WLit c => TLit c
  | WAny => TAny
  | WStar => TStar
  | WClass neg rs => TClass neg rs
  end.
Definition toks (ws : list wtok) : list token := map tok_of ws.

(* the tokens for what follows a component: the separating '/' and the next segment; "/**/" is one token;
   a trailing "/**" is rewritten by add_line to "/**/*" *)
Fixpoint after_comp (segs : list seg) : list token :=
  match segs with
  | [] => []
  | SComp ws :: r => TLit 47 :: toks ws ++ after_comp r
  | SDStar :: r =>
    match r with
    | [] => [TRecZeroOrMore; TStar]
    | SComp ws :: r' => TRecZeroOrMore :: toks ws ++ after_comp r'
    | SDStar :: _ => []
    end
  end.

Definition rg_tokens (unanchored : bool) (segs : list seg) : list token :=
  match segs with
  | SComp ws :: r => (if unanchored then [TRecPrefix] else []) ++ toks ws ++ after_comp r
  | SDStar :: r =>
    match r with
    | [] => [TRecPrefix]                                  (* "/**" and "**": everything *)
    | SComp ws :: r' => TRecPrefix :: toks ws ++ after_comp r'
    | SDStar :: _ => []
    end
  | [] => []
  end.

Definition cpat_of (s : seg) : cpat := match s with SComp ws => CSimple ws | SDStar => CDStar end.
Definition git_cpats (unanchored : bool) (segs : list seg) : list cpat :=
  (if unanchored then [CDStar] else []) ++ map cpat_of segs.

(* well-formedness: what the documentation gives a meaning to *)
Definition wtok_ok (w : wtok) : bool :=
  match w with
  | WLit c => negb (c =? 47)%N
  | WClass neg rs => negb neg && negb (in_rs rs 47)     (* a class that cannot match '/' *)
  | _ => true
  end.
Definition seg_ok (s : seg) : bool :=
  match s with
  | SComp ws => forallb wtok_ok ws && negb (match ws with [] => true | _ => false end)   (* no empty component *)
  | SDStar => true
  end.
Fixpoint no_adjacent_dstar (segs : list seg) : bool :=
  match segs with
  | SDStar :: ((SDStar :: _) as r) => false
  | _ :: r => no_adjacent_dstar r
  | [] => true
  end.
Definition segs_ok (unanchored : bool) (segs : list seg) : bool :=
  forallb seg_ok segs && no_adjacent_dstar segs &&
  match segs with
  | [] => false
  | [SComp _] => true
  | _ => negb unanchored
  end.
