(* Spec/GrepSpec.v — the grep model: what a line-oriented search delivers, as a function of the
   list of lines and of which lines match.  Two formulations:
     grep_ref   : a one-pass reference (state = pending undelivered lines, after-context credit)
     role/...   : the declarative reading (windows), related to grep_ref in Proofs/GrepSpecProofs.v *)
From RG Require Import Base.Bytes Model.Lines Model.SearcherCore.

(* lines with their terminators; every line non-empty; concat = input *)
Fixpoint split_lines (ltb : byte) (s : bytes) : list bytes :=
  match s with
  | [] => []
  | b :: r =>
    if (b =? ltb)%N then [b] :: split_lines ltb r
    else match split_lines ltb r with
         | [] => [[b]]
         | l :: ls => (b :: l) :: ls
         end
  end.

Record pend_line := { p_lnum : nat; p_off : nat; p_bytes : bytes }.

Record gstate := {
  g_lnum : nat;                 (* 1-based number of the next line *)
  g_off : nat;                  (* its byte offset *)
  g_pend : list pend_line;      (* undelivered lines since the last delivered one, newest first *)
  g_after : nat;                (* after-context credit *)
  g_sunk : bool;                (* something was delivered *)
  g_matched : bool;             (* some line matched *)
  g_stopped : bool;             (* stop-on-nonmatch fired *)
  g_out : list event;           (* newest first *)
}.

Definition g_init : gstate :=
  {| g_lnum := 1; g_off := 0; g_pend := []; g_after := 0; g_sunk := false; g_matched := false;
     g_stopped := false; g_out := [] |}.

Section Spec.
  Variable cfg : config.
  Variable is_match : bytes -> bool.       (* on the line without its terminator *)

  Definition any_context : bool := Nat.ltb 0 (c_before cfg) || Nat.ltb 0 (c_after cfg).
  Definition lnum_of (n : nat) : option nat := if c_line_number cfg then Some n else None.

  (* before-context lines (oldest first) with a break in front of the first when lines were skipped *)
  Fixpoint before_events (ls : list pend_line) : list event :=
    match ls with
    | [] => []
    | l :: r => before_events r ++ [EContext CBefore (p_off l) (lnum_of (p_lnum l)) (p_bytes l)]
    end.

  (* one line, given whether it is a (possibly inverted) success *)
  Definition g_step_s (st : gstate) (line : bytes) (success : bool) : gstate :=
    if g_stopped st then st else
    let next_l := S (g_lnum st) in
    let next_o := g_off st + length line in
    let stop := c_stop_on_nonmatch cfg && negb success && (g_matched st) in
    if success then
      let bl := firstn (c_before cfg) (g_pend st) in              (* newest first *)
      let skipped := Nat.ltb (length bl) (length (g_pend st)) in
      let brk1 := if any_context && g_sunk st && skipped && negb (Nat.eqb (length bl) 0) then [EBreak] else [] in
      let brk2 := if any_context && g_sunk st && Nat.eqb (length bl) 0 && negb (Nat.eqb (length (g_pend st)) 0)
                  then [EBreak] else [] in
      let evs := brk1 ++ before_events bl ++ brk2
                 ++ [EMatched (g_off st) (lnum_of (g_lnum st)) line] in
      {| g_lnum := next_l; g_off := next_o; g_pend := []; g_after := c_after cfg; g_sunk := true;
         g_matched := true; g_stopped := false; g_out := rev evs ++ g_out st |}
    else if Nat.leb 1 (g_after st) then
      {| g_lnum := next_l; g_off := next_o; g_pend := []; g_after := g_after st - 1; g_sunk := true;
         g_matched := g_matched st; g_stopped := stop;
         g_out := EContext CAfter (g_off st) (lnum_of (g_lnum st)) line :: g_out st |}
    else if c_passthru cfg then
      {| g_lnum := next_l; g_off := next_o; g_pend := []; g_after := 0; g_sunk := true;
         g_matched := g_matched st; g_stopped := stop;
         g_out := EContext COther (g_off st) (lnum_of (g_lnum st)) line :: g_out st |}
    else
      {| g_lnum := next_l; g_off := next_o;
         g_pend := {| p_lnum := g_lnum st; p_off := g_off st; p_bytes := line |} :: g_pend st;
         g_after := 0; g_sunk := g_sunk st; g_matched := g_matched st; g_stopped := stop;
         g_out := g_out st |}.

  Definition g_step (st : gstate) (line : bytes) : gstate :=
    g_step_s st line (negb (Bool.eqb (is_match (without_terminator (c_lt cfg) line)) (c_invert cfg))).

  Definition g_run (lines : list bytes) : gstate := fold_left g_step lines g_init.

  (* the whole event stream of an uninterrupted search of [s] *)
  Definition grep_ref (s : bytes) : list event :=
    let st := g_run (split_lines (lt_byte (c_lt cfg)) s) in
    EBegin :: rev (g_out st) ++ [EFinish (g_off st) None].
End Spec.
