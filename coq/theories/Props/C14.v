(* Props/C14.v — placeholder, replaced below *)
From RG Require Import Base.Bytes Model.LineBufferBin Model.BinaryDetect.
