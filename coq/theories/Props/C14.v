(* Props/C14.v — property C14: binary data never reaches the terminal unless text mode is requested.
   Only statements; every proof is one `exact` (or a vm_compute witness).  Vocabulary:
     lb_reach cfg lb      lb is reachable from a cleared LineBuffer (any previous contents/length) by any
                          sequence of consume(amt <= buffer().len()) and fill(any reader)      [LineBufferBinProofs]
     hides cfg b          cfg.binary = Quit(b), or Convert(b) with b <> the line terminator
     ev_free b ev         the line carried by a matched/context event does not contain b       [BinaryDetectProofs]
     guarded b tr         every line delivered before the first binary_data call is b-free
     std_spec             what the standard printer writes for a delivered event sequence      [Spec/BinarySpec] *)
From RG Require Import Base.Bytes Model.LineBufferBin Model.BinaryDetect Spec.BinarySpec
  Proofs.LineBufferBinProofs Proofs.BinaryDetectProofs Proofs.PrinterBinProofs Proofs.TextModeProofs
  Proofs.BinaryOffsetProofs.

(* 1. replace_bytes (three nested loops) = map (src |-> replacement), returns the first index *)
Theorem replace_bytes_spec :
  forall (l : bytes) (src rep : byte),
    replace_bytes l src rep =
    if N.eqb src rep then (l, None) else (map (subst_byte src rep) l, memchr src l).
Proof. exact replace_bytes_spec_proof. Qed.
Print Assumptions replace_bytes_spec.

(* 2./3. the roll buffer never shows the byte: every reachable state, every reader, capacity, growth policy *)
Theorem quit_buffer_never_shows_nul :
  forall (cfg : lb_config) (b : byte) (lb : line_buffer),
    cfg_binary cfg = BQuit b -> lb_reach cfg lb -> ~ In b (lb_buffer lb).
Proof. intros cfg b lb H. apply reach_buffer_free. left. exact H. Qed.
Print Assumptions quit_buffer_never_shows_nul.

Theorem convert_buffer_never_shows_nul :
  forall (cfg : lb_config) (b : byte) (lb : line_buffer),
    cfg_binary cfg = BConvert b -> b <> cfg_lineterm cfg -> lb_reach cfg lb -> ~ In b (lb_buffer lb).
Proof. intros cfg b lb H Hne. apply reach_buffer_free. right. split; assumption. Qed.
Print Assumptions convert_buffer_never_shows_nul.

(* 3b. Convert(b) with b = line terminator is a no-op (replace_bytes returns early): the promise of the doc
       comment "this byte will never be observable" does not hold then.  Not reachable from the CLI
       (--null-data switches detection off). *)
Theorem convert_same_byte_refuted :
  exists cfg lb, cfg_binary cfg = BConvert (cfg_lineterm cfg) /\ lb_reach cfg lb /\ In (cfg_lineterm cfg) (lb_buffer lb).
Proof.
  exists (mk_cfg 4 10 AllocEager (BConvert 10)).
  destruct (lb_fill (mk_cfg 4 10 AllocEager (BConvert 10)) (lb_clear (lb_build (mk_cfg 4 10 AllocEager (BConvert 10))))
                    (mk_rd [] [97; 10]%N [])) as [[[r lb] rd]|] eqn:E; [|vm_compute in E; discriminate].
  exists lb. split; [reflexivity|]. split; [eapply reach_fill; [apply reach_clear|exact E]|].
  vm_compute in E. injection E as _ <- _. vm_compute. tauto.
Qed.
Print Assumptions convert_same_byte_refuted.

(* 4. fill's loop always terminates within its fuel (stream length + 1) *)
Theorem fill_never_stuck :
  forall (cfg : lb_config) (lb : line_buffer) (rd : reader), lb_fill cfg lb rd <> None.
Proof. exact lb_fill_fuel_suffices. Qed.
Print Assumptions fill_never_stuck.

(* 5. reader strategy: no line handed to any sink contains the byte — any Core (plan of sink calls, roll),
      any sink replies, any read history, any fuel (every prefix of the run) *)
Theorem reader_no_nul_in_events :
  forall (St core : Type) (sink : St -> event -> St * bool) (mode : bin_mode) (b : byte)
         (c_roll : core -> bytes -> nat * core) (c_plan : core -> bytes -> list call * bool * core)
         (cfg : lb_config) (fuel : nat) (lb0 : line_buffer) (rd : reader) (core0 : core) (s0 : St),
    hides cfg b -> (forall c buf, fst (c_roll c buf) <= length buf) ->
    Forall (ev_free b) (snd (fst (rbl_run sink mode c_roll c_plan cfg fuel lb0 rd core0 (s0, [])))).
Proof. intros. apply rbl_events_free_proof; assumption. Qed.
Print Assumptions reader_no_nul_in_events.

(* 6. slice strategies (SliceByLine, MultiLine: any plan), quit mode: no delivered line contains the byte *)
Theorem slice_quit_no_nul_in_events :
  forall (St : Type) (sink : St -> event -> St * bool) (b : byte) (sniff : nat) (slice : bytes)
         (plan : list call) (final_pos : nat) (s0 : St),
    Forall (ev_free b) (snd (slice_run sink (BQuit b) sniff slice plan final_pos (s0, []))).
Proof. intros. apply slice_quit_events_free_proof. reflexivity. Qed.
Print Assumptions slice_quit_no_nul_in_events.

(* 7. slice strategies, convert mode: the slice is immutable, so lines with the byte are delivered — but only
      after the binary_data notification *)
Theorem slice_convert_no_nul_before_notification :
  forall (St : Type) (sink : St -> event -> St * bool) (b : byte) (sniff : nat) (slice : bytes)
         (plan : list call) (final_pos : nat) (s0 : St),
    guarded b (rev (snd (slice_run sink (BConvert b) sniff slice plan final_pos (s0, [])))).
Proof. intros. apply slice_convert_guarded_proof. reflexivity. Qed.
Print Assumptions slice_convert_no_nul_before_notification.

(* 6c/7c. the same two statements for the plan the correspondence runs use under context options: the sink calls
      computed by the Core model (Model/SearcherCore.v via Model/CorePlan.v) for ANY searcher configuration
      (-A/-B/-C, --passthru, --stop-on-nonmatch, -v) and any matcher: matched AND context lines are covered *)
From RG Require Import Model.CorePlan Proofs.CorePlanProofs.
From RG Require Model.SearcherCore.
Theorem core_plan_slice_quit_no_nul_in_events :
  forall (St : Type) (sink : St -> event -> St * bool) (b : byte) (sniff : nat) (slice : bytes)
         (cfg : SearcherCore.config) (M : SearcherCore.matcher) (s0 : St),
    Forall (ev_free b)
      (snd (slice_run sink (BQuit b) sniff slice (fst (core_slice_plan cfg M slice))
                      (snd (core_slice_plan cfg M slice)) (s0, []))).
Proof. exact core_plan_slice_quit_proof. Qed.
Print Assumptions core_plan_slice_quit_no_nul_in_events.

Theorem core_plan_slice_convert_no_nul_before_notification :
  forall (St : Type) (sink : St -> event -> St * bool) (b : byte) (sniff : nat) (slice : bytes)
         (cfg : SearcherCore.config) (M : SearcherCore.matcher) (s0 : St),
    guarded b
      (rev (snd (slice_run sink (BConvert b) sniff slice (fst (core_slice_plan cfg M slice))
                           (snd (core_slice_plan cfg M slice)) (s0, [])))).
Proof. exact core_plan_slice_convert_proof. Qed.
Print Assumptions core_plan_slice_convert_no_nul_before_notification.

(* the plan is not empty talk: "a\na\nx\0\nb\na\n", pattern a, --passthru, one sniffed byte, quit mode: Core plans
   five sink calls (the third is the passthru context line holding the NUL); the run stops at that line *)
Example core_plan_passthru_context_line_example :
  let pcfg := plan_cfg 10 false 0 0 true false in
  let M := plan_matcher pcfg [[97%N]] in
  let s := [97; 10; 97; 10; 120; 0; 10; 98; 10; 97; 10]%N in
  let plan := core_slice_plan pcfg M s in
  map (fun c => (c_matched c, c_start c, c_end c)) (fst plan)
    = [(true, 0, 2); (true, 2, 4); (false, 4, 7); (false, 7, 9); (true, 9, 11)] /\
  rev (snd (slice_run (fun (n : nat) (_ : event) => (n, true)) (BQuit 0) 1 s (fst plan) (snd plan) (0, [])))
    = [EBegin; EMatched 0 [97; 10]%N; EMatched 2 [97; 10]%N; EBinary 5; EFinish 5 (Some 5)].
Proof. vm_compute. split; reflexivity. Qed.

(* --stop-on-nonmatch -A1, convert mode: the after-context line with the NUL is delivered by the slow path, after
   the notification *)
Example core_plan_stop_on_nonmatch_after_example :
  let pcfg := plan_cfg 10 false 0 1 false true in
  let M := plan_matcher pcfg [[97%N]] in
  let s := [98; 10; 97; 10; 120; 0; 10; 98; 10; 97; 10]%N in
  let plan := core_slice_plan pcfg M s in
  rev (snd (slice_run (fun (n : nat) (_ : event) => (n, true)) (BConvert 0) 1 s (fst plan) (snd plan) (0, [])))
    = [EBegin; EMatched 2 [97; 10]%N; EBinary 5; EContext KAfter 4 [120; 0; 10]%N; EFinish 5 (Some 5)].
Proof. vm_compute. reflexivity. Qed.

(* 8. the standard printer writes exactly std_spec of the delivered events *)
Theorem std_sink_eq_spec :
  forall (cfg : std_cfg) (render : event -> bytes) (evs : list event) (st : std_sink),
    ss_out (std_run cfg render evs st) = ss_out st ++ std_spec cfg render evs (ss_match_count st) (ss_bin st).
Proof. exact std_run_eq_spec_proof. Qed.
Print Assumptions std_sink_eq_spec.

(* 9. searcher + standard printer: the output never contains the byte (rendering of a b-free line is b-free;
      separator / message texts are b-free — see 10 for NUL) *)
Theorem standard_output_nul_free_slice :
  forall (cfg : std_cfg) (render : event -> bytes) (b : byte) (sniff : nat) (slice : bytes)
         (plan : list call) (final_pos : nat),
    render_ok render b -> texts_free cfg b ->
    sc_mode cfg = BQuit b \/ sc_mode cfg = BConvert b ->
    ~ In b (ss_out (fst (slice_run (std_step cfg render) (sc_mode cfg) sniff slice plan final_pos (st0, [])))).
Proof. intros. eapply slice_standard_output_free_proof; try eassumption. reflexivity. Qed.
Print Assumptions standard_output_nul_free_slice.

Theorem standard_output_nul_free_reader :
  forall (cfg : std_cfg) (render : event -> bytes) (b : byte) (core : Type)
         (c_roll : core -> bytes -> nat * core) (c_plan : core -> bytes -> list call * bool * core)
         (mode : bin_mode) (lcfg : lb_config) (fuel : nat) (lb0 : line_buffer) (rd : reader) (core0 : core),
    render_ok render b -> texts_free cfg b ->
    hides lcfg b -> (forall c buf, fst (c_roll c buf) <= length buf) ->
    ~ In b (ss_out (fst (fst (rbl_run (std_step cfg render) mode c_roll c_plan lcfg fuel lb0 rd core0 (st0, []))))).
Proof. intros. eapply reader_standard_output_free_proof; eassumption. Qed.
Print Assumptions standard_output_nul_free_reader.

(* 10. for NUL the text hypothesis holds whenever path, separator, terminator and the debug rendering of the
       byte carry no NUL (the message says "\0", backslash zero) *)
Theorem message_texts_nul_free :
  forall cfg : std_cfg,
    (match sc_path cfg with Some p => ~ In 0%N p | None => True end) ->
    (match sc_sep cfg with Some s => ~ In 0%N s | None => True end) ->
    ~ In 0%N (sc_lt cfg) -> (forall x, ~ In 0%N (sc_dbg cfg x)) ->
    texts_free cfg 0%N.
Proof. exact texts_free_nul. Qed.
Print Assumptions message_texts_nul_free.

(* 11. notice / warning: for the events of one search (begin, evs, finish) the output is the lines (withheld
       after the notification in convert mode) followed by the message iff binary_data was notified and at
       least one `matched` call was made (printed or withheld), and detection is not None *)
Theorem notice_iff :
  forall (cfg : std_cfg) (render : event -> bytes) (evs : list event) (bc : nat) (bn : option nat)
         (c0 : nat) (b0 : option nat),
    no_begin evs -> no_finish evs ->
    std_spec cfg render (EBegin :: evs ++ [EFinish bc bn]) c0 b0 =
    std_spec cfg render evs 0 None ++
    match last_binary evs None with Some off => notice cfg (count_matched evs) off | None => [] end.
Proof. exact notice_iff_proof. Qed.
Print Assumptions notice_iff.

Theorem notice_empty_iff :
  forall (cfg : std_cfg) (count off : nat),
    notice cfg count off = [] <-> count = 0 \/ sc_mode cfg = BNone.
Proof. exact notice_nil_iff_proof. Qed.
Print Assumptions notice_empty_iff.

(* 11b. KNOWN FINDING (class QuitAfterContextOnlyOutputNoWarning): the property's "cut off with a warning if
        lines were already printed" fails when the printed lines are context only (--passthru): witness through
        the whole model: stream "a\n\0", pattern b, capacity 2, quit mode: "a\n" is printed, no warning. *)
Theorem quit_warning_if_lines_printed_refuted :
  exists (cfg : std_cfg) (lcfg : lb_config) (rd : reader),
    let out := ss_out (fst (fst (rbl_run (std_step cfg (simple_render None None 10)) (BQuit 0) lite_roll
                 (lite_match [[98%N]] false true 10) lcfg 10 (lb_build lcfg) rd tt (st0, [])))) in
    sc_mode cfg = BQuit 0 /\ cfg_binary lcfg = BQuit 0 /\ In 0%N (rd_data rd) /\
    out = [97; 10]%N.
Proof.
  exists (mk_std_cfg (BQuit 0) None 0 None [10%N] None (fun _ => [])), (mk_cfg 2 10 AllocEager (BQuit 0)),
         (mk_rd [] [97; 10; 0]%N []).
  vm_compute. repeat split; tauto.
Qed.
Print Assumptions quit_warning_if_lines_printed_refuted.

(* 12. summary printer: writes only at finish; a quit-mode binary file prints nothing and counts zero *)
Theorem summary_writes_only_at_finish :
  forall (cfg : sum_cfg) (st : sum_sink) (ev : event),
    (match ev with EFinish _ _ => False | _ => True end) -> ms_out (fst (sum_step cfg st ev)) = ms_out st.
Proof. exact sum_step_out_proof. Qed.
Print Assumptions summary_writes_only_at_finish.

Theorem summary_quit_squash :
  forall (cfg : sum_cfg) (st : sum_sink) (bc off : nat) (q : byte),
    mc_mode cfg = BQuit q ->
    fst (sum_step cfg st (EFinish bc (Some off))) = mk_sum 0 (Some off) (ms_out st).
Proof. exact sum_quit_squash_proof. Qed.
Print Assumptions summary_quit_squash.

(* 13. --text: detection None is the searcher with the detection code removed *)
Theorem text_mode_eq_detection_off :
  forall (St : Type) (sink : St -> event -> St * bool) (sniff : nat) (slice : bytes) (plan : list call)
         (final_pos : nat) (w : @world St),
    slice_run sink BNone sniff slice plan final_pos w = slice_run_plain sink slice plan final_pos w.
Proof. intros. apply slice_none_eq_plain_proof. Qed.
Print Assumptions text_mode_eq_detection_off.

Theorem text_mode_reader_no_detection :
  forall (St core : Type) (sink : St -> event -> St * bool)
         (c_roll : core -> bytes -> nat * core) (c_plan : core -> bytes -> list call * bool * core)
         (cfg : lb_config) (mode : bin_mode) (fuel : nat) (lb0 : line_buffer) (rd : reader) (core0 : core) (s0 : St),
    cfg_binary cfg = BNone ->
    let res := rbl_run sink mode c_roll c_plan cfg fuel lb0 rd core0 (s0, []) in
    no_binary_event (snd (fst res)) /\
    (snd res = ODone -> exists bc t, snd (fst res) = EFinish bc None :: t).
Proof. intros. apply rbl_none_no_binary_proof. assumption. Qed.
Print Assumptions text_mode_reader_no_detection.

(* 14. which detection a file gets *)
Theorem detection_table :
  forall (flag : binary_flag) (null_data explicit : bool),
    detection_for flag null_data explicit =
    if (match flag with BinAsText => true | _ => false end) || null_data then BNone
    else if explicit then BConvert 0
    else match flag with BinSearchAndSuppress => BConvert 0 | _ => BQuit 0 end.
Proof. intros [| |] [|] [|]; reflexivity. Qed.
Print Assumptions detection_table.

(* 15. the reported offset is that of the FIRST occurrence.  LineBuffer: in every state reachable from a cleared
       buffer, `seen` being everything the readers have delivered so far (lb_reach_s), binary_byte_offset is the
       index of the first b in `seen` (None if there is none) — across rolls, growth, partial reads *)
Theorem binary_offset_is_first :
  forall (cfg : lb_config) (b : byte) (lb : line_buffer) (seen : bytes),
    hides cfg b -> lb_reach_s cfg lb seen -> lb_bin lb = memchr b seen.
Proof. exact binary_offset_is_first_proof. Qed.
Print Assumptions binary_offset_is_first.

(* 16. reader strategy: every binary_data(off) call and the offset given to finish are the index of the first
       b of the stream (what the reader still had to deliver at the start), any Core, sink, history, fuel *)
Theorem reader_binary_offset_is_first :
  forall (St core : Type) (sink : St -> event -> St * bool) (mode : bin_mode) (b : byte)
         (c_roll : core -> bytes -> nat * core) (c_plan : core -> bytes -> list call * bool * core)
         (cfg : lb_config) (stream0 : bytes) (fuel : nat) (lb0 : line_buffer) (rd : reader) (core0 : core) (s0 : St),
    hides cfg b -> (forall c buf, fst (c_roll c buf) <= length buf) -> rd_rest rd = stream0 ->
    let res := rbl_run sink mode c_roll c_plan cfg fuel lb0 rd core0 (s0, []) in
    Forall (okev b stream0) (snd (fst res)) /\
    (snd res = ODone -> exists bc bn t, snd (fst res) = EFinish bc bn :: t /\
                                        forall off, bn = Some off -> memchr b stream0 = Some off).
Proof. intros. apply reader_binary_offset_proof; assumption. Qed.
Print Assumptions reader_binary_offset_is_first.

(* 17. slice strategies (any plan): if the sniffed prefix (first min(len, 64 KiB) bytes) holds b, binary_data gets
       the first occurrence of the whole slice; otherwise the prefix is b-free and the offset is an occurrence of
       b inside a reported line (lines that are not reported are never examined: the documented heuristic) *)
Theorem slice_binary_offset :
  forall (St : Type) (sink : St -> event -> St * bool) (mode : bin_mode) (b : byte) (sniff : nat) (slice : bytes)
         (plan : list call) (final_pos : nat) (s0 : St),
    mode_byte mode = Some b ->
    Forall (okev_slice b sniff slice) (snd (slice_run sink mode sniff slice plan final_pos (s0, []))).
Proof. intros. apply slice_binary_offset_proof. assumption. Qed.
Print Assumptions slice_binary_offset.

(* ---- non-vacuity ---- *)
(* a reachable quit-mode buffer after two fills with capacity 3: "ab\nc\0d" read in chunks of 2 *)
Example quit_example :
  let cfg := mk_cfg 3 10 AllocEager (BQuit 0) in
  match lb_fill cfg (lb_build cfg) (mk_rd [] [97; 98; 10; 99; 0; 100]%N [RChunk 2; RChunk 2; RChunk 2]) with
  | Some (FillMore true, lb, rd) =>
    lb_buffer lb = [97; 98; 10]%N /\
    match lb_fill cfg (lb_consume lb 3) rd with
    | Some (FillMore true, lb2, _) => lb_buffer lb2 = [99%N] /\ lb_bin lb2 = Some 4
    | _ => False
    end
  | _ => False
  end.
Proof. vm_compute. repeat split. Qed.

(* convert mode through the whole model: "a\0a\n" explicit file, pattern a: nothing but the notice *)
Example convert_example :
  let cfg := mk_std_cfg (BConvert 0) None 0 None [10%N] None (fun _ => [34; 92; 48; 34]%N) in
  let lcfg := mk_cfg 8 10 AllocEager (BConvert 0) in
  ss_out (fst (fst (rbl_run (std_step cfg (simple_render None None 10)) (BConvert 0) lite_roll
                      (lite_match [[97%N]] false false 10) lcfg 10 (lb_build lcfg)
                      (mk_rd [] [97; 0; 97; 10]%N []) tt (st0, []))))
  = notice cfg 1 1.
Proof. vm_compute. reflexivity. Qed.

Check quit_buffer_never_shows_nul :
  forall (cfg : lb_config) (b : byte) (lb : line_buffer),
    cfg_binary cfg = BQuit b -> lb_reach cfg lb -> ~ In b (lb_buffer lb).
Check standard_output_nul_free_reader :
  forall (cfg : std_cfg) (render : event -> bytes) (b : byte) (core : Type)
         (c_roll : core -> bytes -> nat * core) (c_plan : core -> bytes -> list call * bool * core)
         (mode : bin_mode) (lcfg : lb_config) (fuel : nat) (lb0 : line_buffer) (rd : reader) (core0 : core),
    render_ok render b -> texts_free cfg b ->
    hides lcfg b -> (forall c buf, fst (c_roll c buf) <= length buf) ->
    ~ In b (ss_out (fst (fst (rbl_run (std_step cfg render) mode c_roll c_plan lcfg fuel lb0 rd core0 (st0, []))))).

(* ---- 18. the concrete plan is the Core of C02/C03 ----
   `lite_plan` (the plan the C14 model is run with) is exactly the sequence of sink calls that the Core model
   (Model/SearcherCore.v + Model/Glue.v: SliceByLine::run over match_by_line, fast or slow line path, inverted
   or not, passthru or not, any line terminator incl. CRLF, line numbers on or off) makes on the slice, when
   no context lines are requested and the sink always continues: same calls, same order, same kind
   (matched / other-context), same absolute offsets, same line bytes, same byte count at finish.
   `ev14` (Model/LitePlanCore.v) translates the Core model's events into this model's events by dropping the
   line number, which this model does not carry (`ev14_forgets_line_number_only`).
   Hypotheses: detection off in the Core model (this model owns detection), `find_spec` = the contract of
   find_by_line_fast of Props/C03 (`slice_eq_ref`; established from the candidate contract by
   C03 `slice_eq_ref_from_candidate_contract`), and — for `lite_plan`, whose matcher is "a needle occurs in
   the line" — that the matcher says just that on the lines of the slice (`needle_matcher`).
   `core_plan_eq_core` is the same for every matcher (`core_plan`: lite_calls with the verdict abstracted). *)
From RG Require Model.Lines Model.SearcherCore Model.Glue Model.LitePlanCore Proofs.FastPathProofs
  Proofs.FindSpecProofs Proofs.LitePlanProofs Model.ScriptedMatcher Spec.GrepSpec.

Theorem core_plan_eq_core :
  forall (cfg : SearcherCore.config) (M : SearcherCore.matcher),
    SearcherCore.c_binary cfg = SearcherCore.BNone -> SearcherCore.c_before cfg = 0 ->
    SearcherCore.c_after cfg = 0 -> SearcherCore.c_stop_on_nonmatch cfg = false ->
    forall s : bytes, FastPathProofs.find_spec cfg M s ->
    LitePlanCore.result14 (Glue.slice_by_line_run cfg M (fun _ => SearcherCore.Continue) s) =
    Some (EBegin :: map (call_event 0 s) (LitePlanCore.core_plan cfg (SearcherCore.m_is_match M) s)
          ++ [EFinish (length s) None]).
Proof. exact LitePlanProofs.core_plan_eq_core_proof. Qed.
Print Assumptions core_plan_eq_core.

Theorem lite_plan_eq_core :
  forall (cfg : SearcherCore.config) (M : SearcherCore.matcher) (needles : list bytes),
    SearcherCore.c_binary cfg = SearcherCore.BNone -> SearcherCore.c_before cfg = 0 ->
    SearcherCore.c_after cfg = 0 -> SearcherCore.c_stop_on_nonmatch cfg = false ->
    forall s : bytes, FastPathProofs.find_spec cfg M s -> LitePlanProofs.needle_matcher cfg M needles s ->
    LitePlanCore.result14 (Glue.slice_by_line_run cfg M (fun _ => SearcherCore.Continue) s) =
    Some (EBegin
          :: map (call_event 0 s)
                 (lite_plan needles (SearcherCore.c_invert cfg) (SearcherCore.c_passthru cfg)
                            (LineTerm.lt_byte (SearcherCore.c_lt cfg)) s)
          ++ [EFinish (length s) None]).
Proof. exact LitePlanProofs.lite_plan_eq_core_proof. Qed.
Print Assumptions lite_plan_eq_core.

(* run against run: this model's SliceByLine::run over lite_plan (detection off, a sink that always continues)
   delivers the events of the Core model's SliceByLine::run *)
Theorem slice_run_lite_eq_core :
  forall (cfg : SearcherCore.config) (M : SearcherCore.matcher) (needles : list bytes) (sniff : nat),
    SearcherCore.c_binary cfg = SearcherCore.BNone -> SearcherCore.c_before cfg = 0 ->
    SearcherCore.c_after cfg = 0 -> SearcherCore.c_stop_on_nonmatch cfg = false ->
    forall s : bytes, FastPathProofs.find_spec cfg M s -> LitePlanProofs.needle_matcher cfg M needles s ->
    LitePlanCore.result14 (Glue.slice_by_line_run cfg M (fun _ => SearcherCore.Continue) s) =
    Some (rev (snd (slice_run LitePlanCore.sink_K BNone sniff s
                      (lite_plan needles (SearcherCore.c_invert cfg) (SearcherCore.c_passthru cfg)
                                 (LineTerm.lt_byte (SearcherCore.c_lt cfg)) s) (length s) (tt, [])))).
Proof. exact LitePlanProofs.slice_run_lite_eq_core_proof. Qed.
Print Assumptions slice_run_lite_eq_core.

Theorem ev14_forgets_line_number_only :
  forall e1 e2 : SearcherCore.event,
    LitePlanCore.ev14 e1 = LitePlanCore.ev14 e2 -> LitePlanCore.strip_lnum e1 = LitePlanCore.strip_lnum e2.
Proof. exact LitePlanProofs.ev14_inj. Qed.
Print Assumptions ev14_forgets_line_number_only.

(* 6./9. instantiated with the plan of the Core model (any matcher, inverted or not, passthru or not): *)
Theorem slice_quit_no_nul_in_events_core :
  forall (St : Type) (sink : St -> event -> St * bool) (b : byte) (sniff : nat)
         (cfg : SearcherCore.config) (M : SearcherCore.matcher) (slice : bytes) (s0 : St),
    Forall (ev_free b)
           (snd (slice_run sink (BQuit b) sniff slice
                           (LitePlanCore.core_plan cfg (SearcherCore.m_is_match M) slice) (length slice) (s0, []))).
Proof. intros. apply slice_quit_no_nul_in_events. Qed.
Print Assumptions slice_quit_no_nul_in_events_core.

Theorem standard_output_nul_free_slice_core :
  forall (pcfg : std_cfg) (render : event -> bytes) (b : byte) (sniff : nat)
         (cfg : SearcherCore.config) (M : SearcherCore.matcher) (slice : bytes),
    render_ok render b -> texts_free pcfg b ->
    sc_mode pcfg = BQuit b \/ sc_mode pcfg = BConvert b ->
    ~ In b (ss_out (fst (slice_run (std_step pcfg render) (sc_mode pcfg) sniff slice
                                   (LitePlanCore.core_plan cfg (SearcherCore.m_is_match M) slice)
                                   (length slice) (st0, [])))).
Proof. intros. apply standard_output_nul_free_slice; assumption. Qed.
Print Assumptions standard_output_nul_free_slice_core.

(* non-vacuity: the hypotheses of 18 are satisfiable for every configuration and slice (a matcher that never
   matches, no needles), and a concrete fast-path run (inverted, needle "b") through both models *)
Example lite_plan_hyps_satisfiable : forall (cfg : SearcherCore.config) (s : bytes),
  let M := {| SearcherCore.m_is_match := fun _ => false; SearcherCore.m_find_candidate := fun _ => None;
              SearcherCore.m_line_term := Some (SearcherCore.c_lt cfg);
              SearcherCore.m_nonmatching := fun _ => false; SearcherCore.m_find_at := fun _ _ => None |} in
  FastPathProofs.find_spec cfg M s /\ LitePlanProofs.needle_matcher cfg M [] s.
Proof.
  intros cfg s M. split.
  - apply FindSpecProofs.find_spec_of_cand_proof. intros p ls Hat Hne. cbn. clear. induction ls; constructor; auto.
  - unfold LitePlanProofs.needle_matcher. clear. induction (GrepSpec.split_lines _ s); constructor; auto.
Qed.

Example lite_plan_core_example :
  let cfg := {| SearcherCore.c_lt := LineTerm.LTByte 10; SearcherCore.c_invert := true; SearcherCore.c_after := 0;
                SearcherCore.c_before := 0; SearcherCore.c_passthru := false; SearcherCore.c_line_number := true;
                SearcherCore.c_stop_on_nonmatch := false; SearcherCore.c_binary := SearcherCore.BNone;
                SearcherCore.c_multi_line := false |} in
  let M := ScriptedMatcher.scripted cfg
             [ {| ScriptedMatcher.n_anch := false; ScriptedMatcher.n_bytes := [98]%N; ScriptedMatcher.n_real := true |} ]
             true 1%N in
  let s := [97; 10; 120; 10; 98; 10; 121; 10; 122]%N in
  LitePlanCore.result14 (Glue.slice_by_line_run cfg M (fun _ => SearcherCore.Continue) s) =
    Some (rev (snd (slice_run LitePlanCore.sink_K BNone 4 s (lite_plan [[98%N]] true false 10 s) (length s) (tt, []))))
  /\ map (fun c => (c_start c, c_end c, c_pos c)) (lite_plan [[98%N]] true false 10 s)
     = [(0, 2, 6); (2, 4, 6); (6, 8, 9); (8, 9, 9)].
Proof. vm_compute. split; reflexivity. Qed.

(* ---- 19. the same for EVERY sink behaviour and EVERY detection mode, positions included ----
   For every reply function without Fail (= every sink that continues or stops, at any call; a deterministic
   stateful sink is such a function by C16 `stateful_sink_slice`; Fail = I/O error of the printer is C16's),
   every detection mode of the Core model's Config (None, Quit b, Convert b), every matcher meeting the
   find_by_line_fast contract, inverted or not, passthru or not, any terminator, no context lines:
   the Core model's SliceByLine::run delivers exactly the events of this model's `slice_run` over the plan,
   run with the same replies (`sink_of r`) and the same mode — including every binary_data call and the byte
   count passed to finish when the sink stops the search (so `c_pos` is Core::pos() at that call).
   `fastb` says which line path Core takes (constant during a search without stop_on_nonmatch);
   `core_plan_on fast` differs from `core_plan` only in c_pos under inversion on the slow path. *)
From RG Require Proofs.LitePlanSim.

Theorem core_run_eq_plan_run :
  forall (cfg : SearcherCore.config) (M : SearcherCore.matcher) (r : nat -> SearcherCore.reply),
    (forall i, r i <> SearcherCore.Fail) ->
    SearcherCore.c_before cfg = 0 -> SearcherCore.c_after cfg = 0 -> SearcherCore.c_stop_on_nonmatch cfg = false ->
    forall s : bytes, FastPathProofs.find_spec cfg M s ->
    LitePlanCore.result14 (Glue.slice_by_line_run cfg M r s) =
    Some (rev (snd (slice_run (LitePlanCore.sink_of r) (LitePlanCore.mode14 (SearcherCore.c_binary cfg))
                      Glue.default_buffer_capacity s
                      (LitePlanCore.core_plan_on (LitePlanSim.fastb cfg M) cfg (SearcherCore.m_is_match M) s)
                      (length s) (0, [])))).
Proof. exact LitePlanSim.slice_sim_proof. Qed.
Print Assumptions core_run_eq_plan_run.

(* for lite_plan: whenever its positions are Core's — not inverted, or passthru, or the fast path runs (which
   is the case for the RegexMatcher of the C14 runs: it advertises the searcher's line terminator) *)
Theorem lite_run_eq_core_run :
  forall (cfg : SearcherCore.config) (M : SearcherCore.matcher) (needles : list bytes) (r : nat -> SearcherCore.reply),
    (forall i, r i <> SearcherCore.Fail) ->
    SearcherCore.c_before cfg = 0 -> SearcherCore.c_after cfg = 0 -> SearcherCore.c_stop_on_nonmatch cfg = false ->
    forall s : bytes, FastPathProofs.find_spec cfg M s -> LitePlanProofs.needle_matcher cfg M needles s ->
    LitePlanSim.fastb cfg M = true \/ SearcherCore.c_invert cfg = false \/ SearcherCore.c_passthru cfg = true ->
    LitePlanCore.result14 (Glue.slice_by_line_run cfg M r s) =
    Some (rev (snd (slice_run (LitePlanCore.sink_of r) (LitePlanCore.mode14 (SearcherCore.c_binary cfg))
                      Glue.default_buffer_capacity s
                      (lite_plan needles (SearcherCore.c_invert cfg) (SearcherCore.c_passthru cfg)
                                 (LineTerm.lt_byte (SearcherCore.c_lt cfg)) s)
                      (length s) (0, [])))).
Proof. exact LitePlanSim.lite_sim_proof. Qed.
Print Assumptions lite_run_eq_core_run.

(* the side condition is needed: inverted, no passthru, a matcher searched by the SLOW path (no terminator
   advertised): when the sink stops at the first line, Core reports the end of that line, lite_plan's c_pos
   (which mirrors match_by_line_fast_invert) the end of the next matching line.  Events agree, the byte count
   at finish does not.  (`core_plan_on false` is right there: core_run_eq_plan_run.) *)
Theorem lite_plan_slow_invert_pos_refuted :
  exists (cfg : SearcherCore.config) (M : SearcherCore.matcher) (needles : list bytes)
         (r : nat -> SearcherCore.reply) (s : bytes),
    (forall i, r i <> SearcherCore.Fail) /\
    SearcherCore.c_before cfg = 0 /\ SearcherCore.c_after cfg = 0 /\ SearcherCore.c_stop_on_nonmatch cfg = false /\
    LitePlanProofs.needle_matcher cfg M needles s /\
    LitePlanSim.fastb cfg M = false /\
    LitePlanCore.result14 (Glue.slice_by_line_run cfg M r s) =
      Some [EBegin; EMatched 0 [97; 10]%N; EFinish 2 None] /\
    rev (snd (slice_run (LitePlanCore.sink_of r) BNone 4 s
                (lite_plan needles true false 10 s) (length s) (0, []))) =
      [EBegin; EMatched 0 [97; 10]%N; EFinish 4 None].
Proof.
  set (cfg := {| SearcherCore.c_lt := LineTerm.LTByte 10; SearcherCore.c_invert := true; SearcherCore.c_after := 0;
                 SearcherCore.c_before := 0; SearcherCore.c_passthru := false; SearcherCore.c_line_number := false;
                 SearcherCore.c_stop_on_nonmatch := false; SearcherCore.c_binary := SearcherCore.BNone;
                 SearcherCore.c_multi_line := false |}).
  exists cfg,
    (ScriptedMatcher.scripted cfg
       [ {| ScriptedMatcher.n_anch := false; ScriptedMatcher.n_bytes := [98]%N; ScriptedMatcher.n_real := true |} ]
       true 0%N),
    [[98%N]], (LitePlanCore.stop_at 1), [97; 10; 98; 10]%N.
  split; [intro i; unfold LitePlanCore.stop_at; destruct (Nat.ltb i 1); discriminate|].
  vm_compute. repeat split; repeat constructor.
Qed.
Print Assumptions lite_plan_slow_invert_pos_refuted.

(* 6. inside the Core model itself: Quit(b), any sink behaviour — no delivered line contains b *)
Theorem core_quit_no_nul_in_events :
  forall (cfg : SearcherCore.config) (M : SearcherCore.matcher) (r : nat -> SearcherCore.reply) (b : byte),
    (forall i, r i <> SearcherCore.Fail) ->
    SearcherCore.c_before cfg = 0 -> SearcherCore.c_after cfg = 0 -> SearcherCore.c_stop_on_nonmatch cfg = false ->
    SearcherCore.c_binary cfg = SearcherCore.BQuit b ->
    forall s : bytes, FastPathProofs.find_spec cfg M s ->
    exists evs, Glue.slice_by_line_run cfg M r s = Glue.RunOk evs /\
      forall e, In e evs ->
        match e with
        | SearcherCore.EMatched _ _ l | SearcherCore.EContext _ _ _ l => ~ In b l
        | _ => True
        end.
Proof. exact LitePlanSim.core_quit_events_free_proof. Qed.
Print Assumptions core_quit_no_nul_in_events.

(* reader strategy: Core::roll without context lines consumes the whole buffer, as lite_roll *)
Theorem lite_roll_eq_core :
  forall (cfg : SearcherCore.config) (c : SearcherCore.core) (buf : bytes),
    SearcherCore.c_before cfg = 0 -> SearcherCore.c_after cfg = 0 ->
    fst (SearcherCore.roll cfg c buf) = fst (lite_roll tt buf).
Proof. exact LitePlanSim.lite_roll_eq_core_proof. Qed.
Print Assumptions lite_roll_eq_core.

(* non-vacuity of 19: a Convert(0) run through both models with a sink that stops at the second line
   (inverted fast path): binary_data is announced by the initial sniff, the line holding the NUL is delivered
   after it, finish reports min(offset of the NUL, Core::pos()) *)
Example core_run_example :
  let cfg := {| SearcherCore.c_lt := LineTerm.LTByte 10; SearcherCore.c_invert := true; SearcherCore.c_after := 0;
                SearcherCore.c_before := 0; SearcherCore.c_passthru := false; SearcherCore.c_line_number := true;
                SearcherCore.c_stop_on_nonmatch := false; SearcherCore.c_binary := SearcherCore.BConvert 0;
                SearcherCore.c_multi_line := false |} in
  let M := ScriptedMatcher.scripted cfg
             [ {| ScriptedMatcher.n_anch := false; ScriptedMatcher.n_bytes := [98]%N; ScriptedMatcher.n_real := true |} ]
             true 1%N in
  let s := [97; 10; 120; 0; 10; 98; 10; 121; 10]%N in
  LitePlanSim.fastb cfg M = true /\
  LitePlanCore.result14 (Glue.slice_by_line_run cfg M (LitePlanCore.stop_at 3) s) =
    Some (rev (snd (slice_run (LitePlanCore.sink_of (LitePlanCore.stop_at 3)) (BConvert 0) Glue.default_buffer_capacity s
                      (lite_plan [[98%N]] true false 10 s) (length s) (0, [])))) /\
  LitePlanCore.result14 (Glue.slice_by_line_run cfg M (LitePlanCore.stop_at 3) s) =
    Some [EBegin; EBinary 3; EMatched 0 [97; 10]%N; EMatched 2 [120; 0; 10]%N; EFinish 3 (Some 3)].
Proof. vm_compute. repeat split; reflexivity. Qed.

(* 7. and 9. inside the Core model: Convert(b) — lines holding b are delivered only after binary_data;
   Quit(b) or Convert(b) — whatever the sink replies, feeding the delivered events to the standard printer
   (`std_run` = the fold of `std_step`) writes no b *)
Theorem core_convert_no_nul_before_notification :
  forall (cfg : SearcherCore.config) (M : SearcherCore.matcher) (r : nat -> SearcherCore.reply) (b : byte),
    (forall i, r i <> SearcherCore.Fail) ->
    SearcherCore.c_before cfg = 0 -> SearcherCore.c_after cfg = 0 -> SearcherCore.c_stop_on_nonmatch cfg = false ->
    SearcherCore.c_binary cfg = SearcherCore.BConvert b ->
    forall s : bytes, FastPathProofs.find_spec cfg M s ->
    exists evs, Glue.slice_by_line_run cfg M r s = Glue.RunOk evs /\ guarded b (map LitePlanCore.ev14 evs).
Proof. exact LitePlanSim.core_convert_guarded_proof. Qed.
Print Assumptions core_convert_no_nul_before_notification.

Theorem core_standard_output_nul_free :
  forall (cfg : SearcherCore.config) (M : SearcherCore.matcher) (r : nat -> SearcherCore.reply) (b : byte)
         (pcfg : std_cfg) (render : event -> bytes),
    (forall i, r i <> SearcherCore.Fail) ->
    SearcherCore.c_before cfg = 0 -> SearcherCore.c_after cfg = 0 -> SearcherCore.c_stop_on_nonmatch cfg = false ->
    SearcherCore.c_binary cfg = SearcherCore.BQuit b \/ SearcherCore.c_binary cfg = SearcherCore.BConvert b ->
    sc_mode pcfg = LitePlanCore.mode14 (SearcherCore.c_binary cfg) ->
    render_ok render b -> texts_free pcfg b ->
    forall s : bytes, FastPathProofs.find_spec cfg M s ->
    exists evs, Glue.slice_by_line_run cfg M r s = Glue.RunOk evs /\
      ~ In b (ss_out (std_run pcfg render (map LitePlanCore.ev14 evs) st0)).
Proof. exact LitePlanSim.core_standard_output_free_proof. Qed.
Print Assumptions core_standard_output_nul_free.

Check lite_plan_eq_core :
  forall (cfg : SearcherCore.config) (M : SearcherCore.matcher) (needles : list bytes),
    SearcherCore.c_binary cfg = SearcherCore.BNone -> SearcherCore.c_before cfg = 0 ->
    SearcherCore.c_after cfg = 0 -> SearcherCore.c_stop_on_nonmatch cfg = false ->
    forall s : bytes, FastPathProofs.find_spec cfg M s -> LitePlanProofs.needle_matcher cfg M needles s ->
    LitePlanCore.result14 (Glue.slice_by_line_run cfg M (fun _ => SearcherCore.Continue) s) =
    Some (EBegin
          :: map (call_event 0 s)
                 (lite_plan needles (SearcherCore.c_invert cfg) (SearcherCore.c_passthru cfg)
                            (LineTerm.lt_byte (SearcherCore.c_lt cfg)) s)
          ++ [EFinish (length s) None]).
Check core_run_eq_plan_run :
  forall (cfg : SearcherCore.config) (M : SearcherCore.matcher) (r : nat -> SearcherCore.reply),
    (forall i, r i <> SearcherCore.Fail) ->
    SearcherCore.c_before cfg = 0 -> SearcherCore.c_after cfg = 0 -> SearcherCore.c_stop_on_nonmatch cfg = false ->
    forall s : bytes, FastPathProofs.find_spec cfg M s ->
    LitePlanCore.result14 (Glue.slice_by_line_run cfg M r s) =
    Some (rev (snd (slice_run (LitePlanCore.sink_of r) (LitePlanCore.mode14 (SearcherCore.c_binary cfg))
                      Glue.default_buffer_capacity s
                      (LitePlanCore.core_plan_on (LitePlanSim.fastb cfg M) cfg (SearcherCore.m_is_match M) s)
                      (length s) (0, [])))).

(* the source tie (DESIGN §4.2): `DecisionsLib.should_binary_quit` is regenerated on every run from the current text
   of ReadByLine::should_binary_quit (crates/searcher/src/searcher/glue.rs).  Model/BinaryDetect.v inlines this
   conjunction in rbl_fill (no model definition of its own), so the tie is to the hand-written copy of
   Model/LibExpected.v — hence `_eq_expected`, not `_eq_model`. *)
From RG Require Gen.DecisionsLib Model.LibExpected Proofs.GenLibProofs.
Theorem should_binary_quit_generated_eq_expected : forall binary_offset_is_some quit_byte_is_some : bool,
  DecisionsLib.should_binary_quit binary_offset_is_some quit_byte_is_some
  = LibExpected.should_binary_quit_expected binary_offset_is_some quit_byte_is_some.
Proof. exact GenLibProofs.should_binary_quit_eq. Qed.
Print Assumptions should_binary_quit_generated_eq_expected.

(* the same tie for Core::detect_binary (crates/searcher/src/searcher/core.rs): the VALUE it returns (true = stop
   searching this buffer), regenerated from the source as a function of binary_byte_offset.is_some(),
   quit_byte().is_some(), config.binary.0, range.start(), `buf[*range].find_byte(b)` and the Ok value of
   `self.binary_data(offset)`, equals the first component of the model's detect_binary — the switch between
   "already detected", None / Quit / Convert, "the sink refused" and "quit byte". *)
From RG Require Model.LineBufferBin.
Theorem detect_binary_result_generated_eq_model :
  forall (St : Type) (sink : St -> BinaryDetect.event -> St * bool) (mode : LineBufferBin.bin_mode) (buf : bytes)
         (s e : nat) (cb : option nat) (w : BinaryDetect.world),
    DecisionsLib.detect_binary_result
      (match cb with Some _ => true | None => false end) (LineBufferBin.is_quit mode) mode s
      (fun b => memchr b (sub buf s e))
      (fun off => snd (BinaryDetect.emit sink w (BinaryDetect.EBinary off)))
    = fst (fst (BinaryDetect.detect_binary sink mode buf s e cb w)).
Proof. exact GenLibProofs.detect_binary_result_eq. Qed.
Print Assumptions detect_binary_result_generated_eq_model.
