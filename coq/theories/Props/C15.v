(* Props/C15.v — property C15: exit status and error reporting contract.
   Only statements; every proof is one `exact`.  `exit_code`, `choose_driver`, `threads`, `quit_after_match`,
   `stats_is_some`, `matches_possible`, `sort_is_identity` are the definitions of Gen/DecisionsCli.v, translated
   from the current source text of main.rs / hiargs.rs on every run. *)
From RG Require Import Base.Bytes Model.CliTypes Model.CliExpected Gen.DecisionsCli Model.MainRun
  Spec.ExitSpec Proofs.DecisionsProofs Proofs.MainRunProofs.
From Coq Require Import Permutation.
Local Open Scope bool_scope.

(* 1. the status table, about the GENERATED expression of main.rs::run:
      0 iff matched and (quiet or no error); 2 iff an error and not (matched and quiet); 1 iff neither. *)
Theorem status_table : forall matched quiet errored : bool,
  (exit_code matched quiet errored = 0%N <-> matched = true /\ (quiet = true \/ errored = false)) /\
  (exit_code matched quiet errored = 2%N <-> errored = true /\ ~ (matched = true /\ quiet = true)) /\
  (exit_code matched quiet errored = 1%N <-> matched = false /\ errored = false).
Proof. exact status_table_proof. Qed.
Print Assumptions status_table.

(* 2. the generated decision expressions mean what the hand-written copies say *)
Theorem generated_eq_expected :
  (forall m q e, exit_code m q e = exit_code_expected m q e) /\
  (forall m mp t, choose_driver m mp t = choose_driver_expected m mp t) /\
  (forall a b lt av, threads a b lt av = threads_expected a b lt av) /\
  (forall a b, quit_after_match a b = quit_after_match_expected a b) /\
  (forall m ls, stats_is_some m ls = stats_is_some_expected m ls) /\
  (forall a b, matches_possible a b = matches_possible_expected a b).
Proof.
  exact (conj exit_code_eq (conj choose_driver_eq (conj threads_eq (conj quit_after_match_eq
        (conj stats_is_some_eq matches_possible_eq))))).
Qed.
Print Assumptions generated_eq_expected.

(* 3. what the flags are at the end of a run: for every walk (any items, any per-file behaviour, any flags),
      when stdout stays open, the status of a whole run is the table applied to
      "some file matched" / "a diagnostic was due (walker error, failed search, failed print, nothing searched)" —
      for the four drivers; a run that cannot match (no pattern / -m0) exits 1 without output. *)
Theorem run_status : forall (l : low) (base : cfg) (items : list item),
  c_setup_ok base = true ->
  let c := cfg_of_low l base in
  let d := choose_driver (l_mode l) (matches_possible (l_patterns_empty l) (l_max_count_zero l)) (low_threads l) in
  (d = DSearch -> forallb item_no_pipe_serial items = true ->
     o_status (run_model ParseOk l base items) =
     spec_status c (existsb item_match items) (existsb item_err_serial items) (existsb item_is_hay items)) /\
  (d = DSearchParallel -> forallb item_no_pipe_par items = true ->
     o_status (run_model ParseOk l base items) =
     spec_status c (existsb item_match items) (existsb item_err_par items) (existsb item_is_hay items)) /\
  (d = DFiles -> forallb item_print_ok items = true ->
     o_status (run_model ParseOk l base items) =
     exit_code (existsb item_is_hay items) (c_quiet c) (existsb item_is_walk_err items)) /\
  (d = DFilesParallel -> forallb item_print_ok items = true ->
     o_status (run_model ParseOk l base items) =
     exit_code (existsb item_is_hay items) (c_quiet c) (existsb item_is_walk_err items)) /\
  (d = DNone -> run_model ParseOk l base items = {| o_status := 1%N; o_out := []; o_diags := []; o_done := [] |}).
Proof. exact run_status_proof. Qed.
Print Assumptions run_status.

(* 4. a failing file does not suppress the others: stdout and the driver's result are those of the run
      without the walker errors and without the files whose search fails (single-threaded: a failing file that
      had printed something keeps its place; multi-threaded: its buffer is dropped whatever it held). *)
Theorem error_does_not_suppress_others_serial : forall c items r1 s1 r2 s2,
  search_serial c items st0 = (r1, s1) ->
  search_serial c (filter serial_ok_item items) st0 = (r2, s2) ->
  r1 = r2 /\ out s1 = out s2.
Proof. exact error_does_not_suppress_serial_proof. Qed.
Print Assumptions error_does_not_suppress_others_serial.

Theorem error_does_not_suppress_others_parallel : forall c items r1 s1 r2 s2,
  search_parallel c items st0 = (r1, s1) ->
  search_parallel c (filter par_ok_item items) st0 = (r2, s2) ->
  r1 = r2 /\ out s1 = out s2.
Proof. exact error_does_not_suppress_parallel_proof. Qed.
Print Assumptions error_does_not_suppress_others_parallel.

(* 5. the consumer closes stdout while file h is being printed, at any index:
      single-threaded search: the driver returns the broken-pipe error (main maps it to status 0), stderr is what it
      was before h, nothing after h is searched *)
Theorem broken_pipe_is_quiet_zero_search : forall c l1 h l2 s1,
  c_setup_ok c = true -> c_collects c = false ->
  search_loop c l1 st0 = (s1, LEnd) ->
  h_res h = SPipe ->
  exists s', search_serial c (l1 ++ IHay h :: l2) st0 = (RPipe, s') /\
             diags s' = diags s1 /\ errored s' = errored s1 /\ done s' = done s1 ++ [h_id h].
Proof. exact broken_pipe_serial_search_proof. Qed.
Print Assumptions broken_pipe_is_quiet_zero_search.

(*    multi-threaded search: the walk is told to quit, stderr and stdout stay as they were; the status is the table
      applied to what was known then: 0 if something had matched and no error had been reported *)
Theorem broken_pipe_is_quiet_search_parallel : forall c l1 h l2 s1 x xs,
  c_setup_ok c = true ->
  par_loop c l1 st0 = (s1, LEnd) ->
  (h_res h = SMatch \/ h_res h = SNoMatch) -> h_out h = x :: xs -> h_print h = PPipe ->
  exists s', search_parallel c (l1 ++ IHay h :: l2) st0 = (ROk (matched s1 || is_match (h_res h)), s') /\
             diags s' = diags s1 /\ errored s' = errored s1 /\ out s' = out s1 /\
             done s' = done s1 ++ [h_id h].
Proof. exact broken_pipe_parallel_search_proof. Qed.
Print Assumptions broken_pipe_is_quiet_search_parallel.

(*    --files with one thread and with several *)
Theorem broken_pipe_is_quiet_zero_files : forall c l1 h l2 s1,
  c_setup_ok c = true -> c_collects c = false -> c_quit_after_match c = false ->
  files_loop c l1 st0 = (s1, LEnd) ->
  h_print h = PPipe ->
  exists s', files_serial c (l1 ++ IHay h :: l2) st0 = (ROk true, s') /\
             diags s' = diags s1 /\ errored s' = errored s1 /\ out s' = out s1.
Proof. exact broken_pipe_files_serial_proof. Qed.
Print Assumptions broken_pipe_is_quiet_zero_files.

Theorem broken_pipe_is_quiet_zero_files_parallel : forall c items q1 h q2 s1 sw,
  c_setup_ok c = true ->
  files_par_workers c items st0 [] = (sw, q1 ++ h :: q2) ->
  print_thread q1 sw = (s1, POk) ->
  h_print h = PPipe ->
  exists s', files_parallel c items st0 = (ROk (matched sw), s') /\
             diags s' = diags sw /\ errored s' = errored sw /\ out s' = out s1.
Proof. exact broken_pipe_files_parallel_proof. Qed.
Print Assumptions broken_pipe_is_quiet_zero_files_parallel.

(* 5b. KNOWN FINDING (class BrokenPipeParallelBeforeAnyMatch): the full statement "a closed pipe always gives
       status 0" is false for the multi-threaded search when the pipe breaks on the output of a file that has
       no match (--passthru, --files-without-match, -c --include-zero) before any file matched: status 1.
       Witness: one file, no match, non-empty output, print fails with a broken pipe. *)
Definition cfg_plain : cfg :=
  {| c_quiet := false; c_quit_after_match := false; c_implicit_path := false; c_messages := true;
     c_stats := None; c_collects := false; c_sep := None; c_lineterm := [10%N]; c_setup_ok := true |}.
Definition low_plain (j : option N) : low :=
  {| l_mode := MSearch SMStandard; l_patterns_empty := false; l_max_count_zero := false; l_quiet := false;
     l_stats := false; l_sort := None; l_threads := j; l_one_file := false; l_avail := 4%N |}.

Theorem broken_pipe_parallel_always_zero_refuted :
  exists items, o_status (run_model ParseOk (low_plain (Some 2%N)) cfg_plain items) = 1%N /\
                existsb item_err_par items = false /\ forallb item_no_pipe_par items = false.
Proof.
  exists [IHay {| h_id := 1%N; h_res := SNoMatch; h_out := [120%N; 10%N]; h_print := PPipe |}].
  vm_compute. auto.
Qed.
Print Assumptions broken_pipe_parallel_always_zero_refuted.

(* 6. invalid arguments (flag parsing or HiArgs construction fails; an invalid pattern/encoding/glob makes
      matcher()/searcher()/walk_builder() fail before any file is touched): status 2, one diagnostic, no results *)
Theorem invalid_args_no_results : forall l base items,
  run_model ParseErr l base items = {| o_status := 2%N; o_out := []; o_diags := [DgFatal]; o_done := [] |} /\
  (c_setup_ok base = false ->
   (match choose_driver (l_mode l) (matches_possible (l_patterns_empty l) (l_max_count_zero l)) (low_threads l) with
    | DSearch | DSearchParallel | DFiles | DFilesParallel => True | _ => False end) ->
   run_model ParseOk l base items = {| o_status := 2%N; o_out := []; o_diags := [DgFatal]; o_done := [] |}).
Proof. exact (fun l base items => conj (run_invalid_args_proof l base items) (run_setup_failure_proof l base items)). Qed.
Print Assumptions invalid_args_no_results.

(* ---- non-vacuity: concrete runs ---- *)
Definition hy (id : N) (r : sres) (o : bytes) : item := IHay {| h_id := id; h_res := r; h_out := o; h_print := POk |}.

(* a match, an unreadable file, a walker error: status 2, both diagnostics, the match is printed *)
Example ex_error_and_match :
  run_model ParseOk (low_plain (Some 1%N)) cfg_plain [hy 1 SErr []; IErr 7; hy 2 SMatch [97%N; 10%N]; ISkip]
  = {| o_status := 2%N; o_out := [97%N; 10%N]; o_diags := [DgFile 1%N; DgWalk 7%N]; o_done := [1%N; 2%N] |}.
Proof. vm_compute. reflexivity. Qed.

(* the same files completing in another order on several threads: same status *)
Example ex_error_and_match_parallel :
  o_status (run_model ParseOk (low_plain (Some 4%N)) cfg_plain [hy 2 SMatch [97%N; 10%N]; ISkip; IErr 7; hy 1 SErr []])
  = 2%N.
Proof. vm_compute. reflexivity. Qed.

(* the pipe breaks in the first (matching) file of a single-threaded search: status 0, silence *)
Example ex_pipe_first_file :
  run_model ParseOk (low_plain (Some 1%N)) cfg_plain [hy 1 SPipe [97%N]; hy 2 SMatch [98%N]]
  = {| o_status := 0%N; o_out := [97%N]; o_diags := []; o_done := [1%N] |}.
Proof. vm_compute. reflexivity. Qed.

(* nothing matched, nothing failed: 1 *)
Example ex_no_match :
  o_status (run_model ParseOk (low_plain None) cfg_plain [hy 1 SNoMatch []; hy 2 SNoMatch []]) = 1%N.
Proof. vm_compute. reflexivity. Qed.

Check status_table : forall matched quiet errored : bool,
  (exit_code matched quiet errored = 0%N <-> matched = true /\ (quiet = true \/ errored = false)) /\
  (exit_code matched quiet errored = 2%N <-> errored = true /\ ~ (matched = true /\ quiet = true)) /\
  (exit_code matched quiet errored = 1%N <-> matched = false /\ errored = false).
Check error_does_not_suppress_others_serial : forall c items r1 s1 r2 s2,
  search_serial c items st0 = (r1, s1) ->
  search_serial c (filter serial_ok_item items) st0 = (r2, s2) -> r1 = r2 /\ out s1 = out s2.
Check broken_pipe_is_quiet_zero_search : forall c l1 h l2 s1,
  c_setup_ok c = true -> c_collects c = false -> search_loop c l1 st0 = (s1, LEnd) -> h_res h = SPipe ->
  exists s', search_serial c (l1 ++ IHay h :: l2) st0 = (RPipe, s') /\
             diags s' = diags s1 /\ errored s' = errored s1 /\ done s' = done s1 ++ [h_id h].
