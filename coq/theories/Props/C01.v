(* Props/C01.v — property C01 (placeholder until the proofs land). *)
From RG Require Import Base.Bytes Spec.RegexSem Proofs.RegexSemProofs.

Theorem matches_inside_line : forall h s i j, Matches h s i j -> i <= j <= length s.
Proof. exact matches_bounds. Qed.
Print Assumptions matches_inside_line.
