(* Props/C01.v — property C01: a line is reported iff the pattern matches that line.
   The regex-side statements (over Spec/RegexSem.v); the Core paths themselves are
   Model/SearcherCore.v (coordinator).  Only statements; every proof is one `exact`
   (witness lemmas: vm_compute). *)
From RG Require Import Base.Bytes Base.LineTerm Model.Lines Model.SearcherCore Spec.RegexSem
  Model.RegexBuild Model.RegexLiteral Model.CoreLinePaths
  Proofs.RegexSemProofs Proofs.RegexPassesProofs Proofs.RegexLiteralProofs
  Proofs.LinePathsProofs Proofs.LineLocalityProofs Proofs.LinesProofs Proofs.FindSpecProofs Proofs.RegexCandProofs
  Model.Glue Model.ReadByLine Spec.GrepSpec Proofs.ReaderProofs Proofs.RegexReaderProofs
  Model.SmartCase Spec.SmartCase Proofs.SmartCaseProofs.

(* 1. line locality (PARTIAL: LF terminator; look-around restricted to LF line anchors and the ASCII
      word assertions — see line_locality_unicode_refuted and line_locality_crlf_refuted for why the
      general statement is false; Unicode \b-family under a "no continuation byte at the line
      start" hypothesis and the CRLF anchors are not proved).  A span inside a line's content is a
      match in the whole buffer iff it is a match in the stripped line. *)
Theorem line_locality_partial : forall h buf a b i j,
  local_looks h = true ->
  a <= b <= length buf ->
  (a = 0 \/ byte_at buf (a - 1) = 10%N) -> (b = length buf \/ byte_at buf b = 10%N) ->
  i <= j <= b - a ->
  (Matches h buf (a + i) (a + j) <-> Matches h (sub buf a b) i j).
Proof. exact line_locality_partial_proof. Qed.
Print Assumptions line_locality_partial.

(* 2. path selection: whenever Core::is_line_by_line_fast answers true for the RegexMatcher built
      by build_many, passthru is off, the stop-on-nonmatch switch has not fired, and no match of
      the final HIR anywhere in the buffer contains the byte the searcher splits lines at (so every
      match lies inside one line's content or is empty at a line boundary) *)
Theorem path_selection_safe :
  forall norm, norm_ok norm ->
  forall rc tr final adv cand fa cfg c,
    build norm rc tr = inl (final, adv) ->
    is_line_by_line_fast cfg (regex_matcher final adv cand fa) c = true ->
    c_passthru cfg = false /\
    (c_stop_on_nonmatch cfg && has_matched c = false) /\
    forall buf i j, Matches final buf i j -> forall p, i <= p < j -> byte_at buf p <> lt_byte (c_lt cfg).
Proof. exact path_selection_safe_proof. Qed.
Print Assumptions path_selection_safe.

(* 3. terminator stripping from the pattern is invisible on a line's content (byte terminators) *)
Theorem strip_invisible_on_content : forall norm h b h' content i j,
  strip_from_match norm h (RTByte b) = inl h' ->
  (forall p, p < length content -> byte_at content p <> b) ->
  (Matches h' content i j <-> Matches h content i j).
Proof. exact strip_invisible_on_content_proof. Qed.
Print Assumptions strip_invisible_on_content.

(* 4. lines::without_terminator after the D9 repair: "\r\n" and a bare "\n" are both removed, a
      line without final "\n" is left alone; byte terminators are unchanged *)
Theorem without_terminator_fixed_crlf : forall c : bytes,
  without_terminator_fixed LTCrlf (c ++ [13; 10]%N) = c /\
  (match rev c with 13%N :: _ => False | _ => True end -> without_terminator_fixed LTCrlf (c ++ [10]%N) = c) /\
  (match rev c with 10%N :: _ => False | _ => True end -> without_terminator_fixed LTCrlf c = c).
Proof. exact without_terminator_fixed_crlf_spec. Qed.
Print Assumptions without_terminator_fixed_crlf.

(* 5. the literal prefilter cannot hide a matching line (C11-4, restated for the line paths):
      a line's region that has a match holds an occurrence of a fast-line literal *)
Theorem candidate_sound_for_lines : forall c acc h lits buf a b i j,
  fast_line_literals (inner_literals c acc h) = Some lits ->
  Matches h buf i j -> a <= i -> j <= b ->
  exists l q, In l lits /\ a <= q /\ q + length l <= b /\ sub buf q (q + length l) = l.
Proof. exact candidate_never_skips_proof. Qed.
Print Assumptions candidate_sound_for_lines.

(* 6. The RegexMatcher model meets the searcher's candidate contract (Proofs/FindSpecProofs.v
      cand_ok: "no line before the candidate's line matches; a Confirmed candidate lies in a line
      that matches") on every LF-terminated buffer, for every final HIR with local look-around.
      The matcher is Model/SearcherCore.v's record instantiated by [regex_line_matcher]:
        m_is_match l       := the final HIR has a match in l          (Spec/RegexSem.v, ends_spec)
        m_find_candidate   := Candidate(end of the leftmost occurrence of a fast-line literal), or,
                              without literals, Confirmed(end of the span the regex engine reports)
        m_nonmatching      := non_matching_bytes final,  m_line_term := the advertised terminator.
      Hypotheses: (a) no match contains "\n" (discharged in 7 from build_many's promise, C11);
      (b) [span_ok]: the regex engine's span is a match and no match starts before it — the
      leftmost-first search of regex-automata is NOT modelled, this is what is assumed of it
      ([span_ok_satisfiable]: the semantics' own leftmost match meets it);
      (c) [lits_ok]: the literals are non-empty, contain no "\n", and every region holding a match
      holds an occurrence (the last is C11's candidate_never_skips_a_matching_line). *)
Theorem regex_matcher_meets_candidate_contract : forall h span lits cfg adv fa s,
  local_looks h = true ->
  (forall buf i j, Matches h buf i j -> forall p, i <= p < j -> byte_at buf p <> 10%N) ->
  span_ok h span -> lits_ok h lits -> c_lt cfg = LTByte 10 ->
  cand_ok cfg (regex_line_matcher h adv lits span fa) s.
Proof. exact regex_cand_ok_proof. Qed.
Print Assumptions regex_matcher_meets_candidate_contract.

(* 7. Property C01 on the model, for both line paths and every searcher configuration (inversion,
      context, passthru, stop-on-nonmatch, line numbers; binary detection off): for every final HIR
      with local look-around that build_many produces with the "\n" terminator advertised, every
      input s: the whole run of SliceByLine::run — whichever of the fast and the slow path
      Core::is_line_by_line_fast selects — equals the grep reference whose test "line matches" is
      "the final HIR has a match in the line's content (terminator removed)".  Props/C03.v reads
      that reference declaratively (results_delivered / nothing_else_delivered: a line is delivered
      as a match iff its content matches xor invert).  The only non-structural hypothesis left is
      span_ok (the regex engine, see 6): that the fast-line literals are non-empty and contain no
      line feed is proved (is_good; strip_ascii_leaf_free + fast_line_literals_free: a stripped HIR
      has no leaf producing "\n" and the extractor only rearranges leaf bytes). *)
Theorem c01_lines_reported_iff_content_matches :
  forall norm, norm_ok norm ->
  forall rc tr final acc span fa cfg s,
    build norm rc tr = inl (final, Some (RTByte 10)) ->
    local_looks final = true ->
    span_ok final span ->
    c_lt cfg = LTByte 10 -> c_binary cfg = BNone ->
    slice_by_line_run cfg (regex_line_matcher final (Some (RTByte 10))
                             (fast_line_literals (inner_literals rc acc final)) span fa) (fun _ => Continue) s
    = RunOk (grep_ref cfg (is_match_sem final) s).
Proof. exact c01_slice_run_eq_ref_proof. Qed.
Print Assumptions c01_lines_reported_iff_content_matches.

(* 8. The same with the CRLF terminator (--crlf), after the D1/D9 repairs.  Lines end at "\n"; the
      content drops that "\n" and a "\r" right before it.  Local look-around is now the CRLF line
      anchors (what `^`/`$` become under --crlf) and the ASCII word assertions; locality holds at a
      content region followed by the end of the buffer, by "\r\n", or by a bare "\n" not preceded
      by "\r" — exactly what without_terminator leaves. *)
Theorem line_locality_crlf : forall h buf a b i j,
  local_looks_crlf h = true ->
  a <= b <= length buf ->
  (a = 0 \/ byte_at buf (a - 1) = 10%N) ->
  (b = length buf \/ (byte_at buf b = 13%N /\ b < length buf) \/
   (byte_at buf b = 10%N /\ b < length buf /\ (b = a \/ byte_at buf (b - 1) <> 13%N))) ->
  i <= j <= b - a ->
  (Matches h buf (a + i) (a + j) <-> Matches h (sub buf a b) i j).
Proof. exact line_locality_crlf_proof. Qed.
Print Assumptions line_locality_crlf.

(* the candidate contract in CRLF mode: a Confirmed hit is re-verified by the searcher, so the
   contract only asks that no earlier line matches and that the position lies in a line; nothing
   about "\r" is needed of the regex beyond what the content test itself says — only that no match
   contains "\n" *)
Theorem regex_matcher_meets_candidate_contract_crlf : forall h span lits cfg adv fa s,
  local_looks_crlf h = true ->
  (forall buf i j, Matches h buf i j -> forall p, i <= p < j -> byte_at buf p <> 10%N) ->
  span_ok h span -> lits_ok h lits -> c_lt cfg = LTCrlf ->
  cand_ok cfg (regex_line_matcher h adv lits span fa) s.
Proof. exact regex_cand_ok_crlf_proof. Qed.
Print Assumptions regex_matcher_meets_candidate_contract_crlf.

Theorem c01_lines_reported_iff_content_matches_crlf :
  forall norm, norm_ok norm ->
  forall rc tr final acc span fa cfg s,
    build norm rc tr = inl (final, Some RTCrlf) ->
    local_looks_crlf final = true ->
    span_ok final span ->
    c_lt cfg = LTCrlf -> c_binary cfg = BNone ->
    slice_by_line_run cfg (regex_line_matcher final (Some RTCrlf)
                             (fast_line_literals (inner_literals rc acc final)) span fa) (fun _ => Continue) s
    = RunOk (grep_ref cfg (is_match_sem final) s).
Proof. exact c01_slice_run_eq_ref_crlf_proof. Qed.
Print Assumptions c01_lines_reported_iff_content_matches_crlf.

(* 9. The incremental reader (ReadByLine::run: roll buffer of any capacity, any failure-free read
      history): same hypotheses as 7 / 8, conclusion of Props/C02.v reader_eq_ref — the events are
      those of the grep reference over the lines of the stream with the line test "the final HIR has a
      match in the content".  With 7 / 8, C01 holds on the model for both strategies of the
      line-oriented search. *)
Theorem c01_reader_lines_reported_iff_content_matches :
  forall norm, norm_ok norm ->
  forall rc tr final acc span fa cfg,
    build norm rc tr = inl (final, Some (RTByte 10)) ->
    local_looks final = true -> span_ok final span ->
    c_lt cfg = LTByte 10 -> c_binary cfg = BNone ->
    forall (cap : nat) (stream : bytes) (hist : list read_step), chunks hist ->
    let M := regex_line_matcher final (Some (RTByte 10)) (fast_line_literals (inner_literals rc acc final)) span fa in
    let gf := g_run cfg (is_match_sem final) (split_lines (lt_byte (c_lt cfg)) stream) in
    exists n, read_by_line_run cfg M (fun _ => Continue) AEager cap stream hist
              = RunOk (EBegin :: rev (g_out gf) ++ [EFinish n None]) /\
              (g_stopped gf = false -> n = length stream) /\ n <= g_off gf.
Proof. exact c01_reader_eq_ref_proof. Qed.
Print Assumptions c01_reader_lines_reported_iff_content_matches.

Theorem c01_reader_lines_reported_iff_content_matches_crlf :
  forall norm, norm_ok norm ->
  forall rc tr final acc span fa cfg,
    build norm rc tr = inl (final, Some RTCrlf) ->
    local_looks_crlf final = true -> span_ok final span ->
    c_lt cfg = LTCrlf -> c_binary cfg = BNone ->
    forall (cap : nat) (stream : bytes) (hist : list read_step), chunks hist ->
    let M := regex_line_matcher final (Some RTCrlf) (fast_line_literals (inner_literals rc acc final)) span fa in
    let gf := g_run cfg (is_match_sem final) (split_lines (lt_byte (c_lt cfg)) stream) in
    exists n, read_by_line_run cfg M (fun _ => Continue) AEager cap stream hist
              = RunOk (EBegin :: rev (g_out gf) ++ [EFinish n None]) /\
              (g_stopped gf = false -> n = length stream) /\ n <= g_off gf.
Proof. exact c01_reader_eq_ref_crlf_proof. Qed.
Print Assumptions c01_reader_lines_reported_iff_content_matches_crlf.

(* 10. --null-data: a matcher that advertises the NUL terminator is never given the fast path
       (Core::is_line_by_line_fast), so the slow path's per-line test decides and no locality is
       needed: every final HIR (Unicode word boundaries included), every literal set, every span
       function, both strategies, no hypothesis besides "binary detection off" *)
Theorem c01_null_data_slice : forall final lits span fa cfg s,
  c_binary cfg = BNone ->
  slice_by_line_run cfg (regex_line_matcher final (Some (RTByte 0)) lits span fa) (fun _ => Continue) s
  = RunOk (grep_ref cfg (is_match_sem final) s).
Proof. exact c01_nul_slice_proof. Qed.
Print Assumptions c01_null_data_slice.

Theorem c01_null_data_reader : forall final lits span fa cfg,
  c_binary cfg = BNone ->
  forall (cap : nat) (stream : bytes) (hist : list read_step), chunks hist ->
  let M := regex_line_matcher final (Some (RTByte 0)) lits span fa in
  let gf := g_run cfg (is_match_sem final) (split_lines (lt_byte (c_lt cfg)) stream) in
  exists n, read_by_line_run cfg M (fun _ => Continue) AEager cap stream hist
            = RunOk (EBegin :: rev (g_out gf) ++ [EFinish n None]) /\
            (g_stopped gf = false -> n = length stream) /\ n <= g_off gf.
Proof. exact c01_nul_reader_proof. Qed.
Print Assumptions c01_null_data_reader.

(* the fast-line literals of an accepted pattern never contain the advertised (byte) terminator *)
Theorem literals_free_of_terminator : forall norm rc tr final b acc lits,
  (b <= 127)%N -> build norm rc tr = inl (final, Some (RTByte b)) ->
  fast_line_literals (inner_literals rc acc final) = Some lits -> forall l, In l lits -> ~ In b l.
Proof. exact literals_free_of_terminator_proof. Qed.
Print Assumptions literals_free_of_terminator.

(* the "line matches" test of that reference is the declarative relation *)
Theorem content_test_is_matches : forall h c, is_match_sem h c = true <-> exists i j, Matches h c i j.
Proof. exact is_match_sem_iff. Qed.
Print Assumptions content_test_is_matches.

(* non-vacuity of hypothesis (b) *)
Theorem span_ok_satisfiable : forall h, span_ok h (sem_span h).
Proof. exact sem_span_ok. Qed.
Print Assumptions span_ok_satisfiable.

(* ---- refuted statements (defects) ---- *)
Definition h_empty_line : hir := HConcat [HLook LStartCRLF; HLook LEndCRLF].     (* (?Rm)^$ *)
Definition h_not_boundary : hir := HLook LWordAsciiNegate.                          (* (?-u)\B *)

(* D9 (repaired): the old without_terminator left the "\n" of a bare-LF line in CRLF mode, so the
   slow path's test said "abc\n" matches ^$ (after the "\n"); the content "abc" does not *)
Theorem slow_test_old_crlf_refuted :
  exists h raw,
    is_match_sem h (without_terminator_old LTCrlf raw) = true /\
    is_match_sem h (without_terminator_fixed LTCrlf raw) = false.
Proof. exists h_empty_line, [97; 98; 99; 10]%N. vm_compute. split; reflexivity. Qed.
Print Assumptions slow_test_old_crlf_refuted.

(* D1 (repaired): with CRLF lines a match in the buffer need not lie in any line's content:
   \B matches "a\r\nbb\r\n" at offset 2, between \r and \n; locate() maps it to line [0,3), whose
   content "a" has no match.  (So a Confirmed hit must be re-verified on the stripped line.) *)
Theorem line_locality_crlf_refuted :
  exists h buf p,
    Matches h buf p p /\ locate 10 buf p p = (0, 3) /\
    is_match_sem h (without_terminator_fixed LTCrlf (sub buf 0 3)) = false.
Proof.
  exists h_not_boundary, [97; 13; 10; 98; 98; 13; 10]%N, 2. split.
  - apply ends_spec_proof. vm_compute. now left.
  - vm_compute. split; reflexivity.
Qed.
Print Assumptions line_locality_crlf_refuted.

(* D17 (known finding, class UnicodeLookBehindAcrossLineStart): with LF lines, Unicode \B at
   offset 4 of "x\n\xa9\xa9 \n" holds in the buffer (decode_last scans back over the continuation
   bytes to the previous line's "\n") but not at offset 2 of the stripped line "\xa9\xa9 " *)
Theorem line_locality_unicode_refuted :
  exists buf a b i,
    a <= b <= length buf /\ byte_at buf (a - 1) = 10%N /\ byte_at buf b = 10%N /\ i <= b - a /\
    look_matches LWordUnicodeNegate buf (a + i) = true /\
    look_matches LWordUnicodeNegate (sub buf a b) i = false.
Proof.
  exists [120; 10; 169; 169; 32; 10]%N, 2, 5, 2. vm_compute. repeat split; try reflexivity; repeat constructor.
Qed.
Print Assumptions line_locality_unicode_refuted.

(* ---- non-vacuity ---- *)
(* `^ab$` inside the second line of "x\nab\ncd": the hypotheses of line_locality_partial hold and
   both sides have the match (0,2) *)
Example line_locality_example :
  let h := HConcat [HLook LStartLF; HLit [97; 98]%N; HLook LEndLF] in
  let buf := [120; 10; 97; 98; 10; 99; 100]%N in
  local_looks h = true /\ byte_at buf 1 = 10%N /\ byte_at buf 4 = 10%N /\
  ends h buf 2 = [4] /\ ends h (sub buf 2 4) 0 = [2].
Proof. vm_compute. repeat split. Qed.

(* `[a-z]+foo$` under rg's default options: accepted with "\n" advertised, local look-around, and the
   fast-line literal "foo" has no line feed: the hypotheses of theorem 7 hold *)
Example c01_hypotheses_example :
  let rc := {| c_line_terminator := Some (RTByte 10); c_ban := Some 0%N; c_crlf := false; c_unicode := true;
               c_word := false; c_whole_line := false |} in
  let tr := HConcat [HRep 1 None true (HClassB [(97, 122)]%N); HLit [102; 111; 111]%N; HLook LEndLF] in
  build (fun h => h) rc tr = inl (tr, Some (RTByte 10)) /\ local_looks tr = true /\
  fast_line_literals (inner_literals rc false tr) = Some [[102; 111; 111]%N] /\
  sem_span tr [120; 10; 97; 102; 111; 111; 10]%N = Some (2, 6).
Proof. vm_compute. repeat split. Qed.

(* `a\s*$` under --crlf: \s loses \r and \n, `$` is the CRLF anchor; accepted with CRLF advertised and
   local look-around: the hypotheses of theorem 8 hold *)
Example c01_crlf_hypotheses_example :
  let rc := {| c_line_terminator := Some RTCrlf; c_ban := Some 0%N; c_crlf := true; c_unicode := true;
               c_word := false; c_whole_line := false |} in
  let tr := HConcat [HLit [97]%N; HRep 0 None true (HClassB [(9, 13); (32, 32)]%N); HLook LEndCRLF] in
  build (fun h => h) rc tr
    = inl (HConcat [HLit [97]%N; HRep 0 None true (HClassB [(9, 9); (11, 12); (32, 32)]%N); HLook LEndCRLF], Some RTCrlf)
  /\ local_looks_crlf tr = true.
Proof. vm_compute. repeat split. Qed.

Check line_locality_partial : forall h buf a b i j,
  local_looks h = true ->
  a <= b <= length buf ->
  (a = 0 \/ byte_at buf (a - 1) = 10%N) -> (b = length buf \/ byte_at buf b = 10%N) ->
  i <= j <= b - a ->
  (Matches h buf (a + i) (a + j) <-> Matches h (sub buf a b) i j).

(* Smart case (-S): which patterns are searched case insensitively.  Model/SmartCase.v mirrors
   AstAnalysis (crates/regex/src/ast.rs) and Config::is_case_insensitive; Spec/SmartCase.v is the documented
   rule; [upper] stands for char::is_uppercase (any predicate). *)
Theorem smart_case_analysis_meets_doc : forall upper t,
  (any_literal (from_ast upper t) = true <-> exists c, PatLit c t) /\
  (any_uppercase (from_ast upper t) = true <-> exists c, PatLit c t /\ upper c = true).
Proof. exact analysis_meets_doc_proof. Qed.
Print Assumptions smart_case_analysis_meets_doc.

Theorem smart_case_decision_meets_doc : forall upper icase smart t,
  smart_decision upper icase smart t = true <-> case_insensitive_spec upper icase smart t.
Proof. exact smart_decision_meets_doc_proof. Qed.
Print Assumptions smart_case_decision_meets_doc.

(* any uppercase literal occurrence (e.g. the END of a class range whose start is a digit) makes -S sensitive *)
Theorem smart_case_uppercase_literal_forces_sensitive : forall upper t c,
  PatLit c t -> upper c = true -> smart_decision upper false true t = false.
Proof. exact uppercase_literal_forces_sensitive_proof. Qed.
Print Assumptions smart_case_uppercase_literal_forces_sensitive.

(* non-vacuity: `x[0-Z]` is sensitive (Z is a literal: range end), `x[^0-9]` insensitive, `\w` sensitive *)
Example smart_case_range_end_example :
  smart_decision ascii_upper false true (SConcat [SLit 120; SClass false (CUnion [CRange 48 90])]) = false /\
  smart_decision ascii_upper false true (SConcat [SLit 120; SClass true (CUnion [CRange 48 57])]) = true /\
  smart_decision ascii_upper false true (SOther 5) = false.
Proof. exact range_end_example_proof. Qed.
Example smart_case_range_end_is_literal : PatLit 90 (SConcat [SLit 120; SClass false (CUnion [CRange 48 90])]).
Proof. exact range_end_is_literal_proof. Qed.

Check smart_case_decision_meets_doc : forall upper icase smart t,
  smart_decision upper icase smart t = true <-> case_insensitive_spec upper icase smart t.
