(* Props/C12.v — property C12: a glob set answers like its member globs; globs mean what is documented.
   Only statements; every proof is one `exact`.  The Check lines pin the statements. *)
From RG Require Import Base.Bytes Model.Glob Model.GlobSet Spec.GlobSem Spec.GlobSetSem Spec.GlobSyntax
  Proofs.GlobStrategyProofs Proofs.GlobSetProofs Proofs.GlobSetIsMatchProofs Proofs.GlobParseProofs Proofs.GlobRenderProofs.

(* 1. every match strategy answers as the glob's regex: for all token lists (parser-produced or not),
      all four options, all paths (arbitrary bytes), the strategy MatchStrategy::new selects, evaluated
      on Candidate::new(path) (with the repaired pathutil::file_name), gives the answer of the regex
      Tokens::to_regex_with emits (tmatch = its meaning). *)
Theorem strategy_eq_regex :
  forall (o : gopts) (ts : list token) (p : bytes),
    strategy_match (strategy_new o ts) (candidate_new p) (tmatch o ts) = tmatch o ts p.
Proof. exact strategy_eq_regex_proof. Qed.
Print Assumptions strategy_eq_regex.

(* 2. DEFECT D3 (repaired by the fix: commit in globset/src/pathutil.rs): with the pinned file_name, which
      returns None for every path whose last byte is '.', statement 1 is false.  Witness: glob `*.`
      (tokens [ZeroOrMore, Literal '.'], Extension(".") strategy) and the path "a.". *)
Theorem strategy_eq_regex_pinned_refuted :
  exists (o : gopts) (ts : list token) (p : bytes),
    strategy_match (strategy_new o ts) (candidate_d3 p) (tmatch o ts) <> tmatch o ts p.
Proof.
  exists (mk_gopts false false true false), [TStar; TLit 46], [97; 46]%N. vm_compute. discriminate.
Qed.
Print Assumptions strategy_eq_regex_pinned_refuted.

(* 2b. ... and the defect is exactly that class: on every path not ending in '.', the pinned code
       already satisfied statement 1. *)
Theorem strategy_eq_regex_pinned_outside_d3 :
  forall (o : gopts) (ts : list token) (p : bytes),
    (forall q, p <> q ++ [46%N]) ->
    strategy_match (strategy_new o ts) (candidate_d3 p) (tmatch o ts) = tmatch o ts p.
Proof. exact strategy_eq_regex_d3_outside_proof. Qed.
Print Assumptions strategy_eq_regex_pinned_outside_d3.

(* 3. GlobSet::matches (seven strategy tables, merge, sort, dedup) returns exactly the indices of the
      globs that match individually, ascending and without duplicates, for every list of globs
      (duplicates and any mixture of options included) and every path. *)
Theorem set_eq_members :
  forall (gs : list glob) (p : bytes),
    set_matches re_spec gs p =
    filter (fun i => tmatch (g_opts (nth i gs dflt_glob)) (g_tokens (nth i gs dflt_glob)) p)
           (seq 0 (length gs)).
Proof. exact set_eq_members_proof. Qed.
Print Assumptions set_eq_members.

(* 3b. GlobSet::is_match (the strategies' own is_match functions: hash look-ups, Aho-Corasick scans with the
       start/end test, per-extension regex lists, the regex set) is true exactly when some member glob matches. *)
Theorem set_is_match_eq_exists :
  forall (gs : list glob) (p : bytes),
    set_is_match re_spec gs p = existsb (fun g => tmatch (g_opts g) (g_tokens g) p) gs.
Proof. exact set_is_match_eq_exists_proof. Qed.
Print Assumptions set_is_match_eq_exists.

(* 4. the parser is total and never reaches one of its unwrap()/assert! panics: for every option set and
      every glob text it returns tokens or one of the six error kinds within the fuel S (length glob). *)
Theorem parse_total_never_panics :
  forall (o : gopts) (g : list N), exists r, build o g = Some r /\ r <> Err Panic.
Proof. exact build_total. Qed.
Print Assumptions parse_total_never_panics.

(* 5. the parser reads the documented syntax as documented: for every glob of the documented (alternate-free)
      syntax — a '/'-separated list of pieces, each a component of literal characters (plain or backslash-
      escaped), `?`, `*` and bracket classes (characters and ranges), or `**` (whole component, never twice in a
      row) — the parser applied to its text yields exactly the documented tokens: `**/` in front = RecursivePrefix,
      `/**` at the end = RecursiveSuffix, `/**/` = RecursiveZeroOrMore, the glob `**` = everything, `*` `?`
      classes and literals one token each (backslash_escape on; any case / separator options).  Together with
      tmatch (the construct-by-construct meaning of those tokens) and, for literal_separator, the component-level
      reading proved in Props/C04.v (gitignore_pattern_eq_git), this is the statement behind the
      "documented syntax" oracle.  Alternates `{a,b}` are not covered by this theorem (tested only). *)
Theorem parse_documented_syntax :
  forall (o : gopts) (ps : list gpiece),
    backslash_escape o = true -> glob_ok ps = true ->
    build o (render_glob ps) = Some (Ok (glob_tokens ps)).
Proof. exact build_render_proof. Qed.
Print Assumptions parse_documented_syntax.

Example ex_documented_syntax :
  let g := [PDStar; PComp [IPlain 97; IStar; IClass [(98, 100); (46, 46)]%N]; PDStar; PComp [IEsc 42; IAny]; PDStar] in
  glob_ok g = true /\
  render_glob g = [42;42;47; 97;42;91;98;45;100;46;93; 47;42;42;47; 92;42;63; 47;42;42]%N /\
  glob_tokens g = [TRecPrefix; TLit 97; TStar; TClass false [(98, 100); (46, 46)]%N; TRecZeroOrMore; TLit 42; TAny; TRecSuffix].
Proof. vm_compute. auto. Qed.

(* non-vacuity: `**/*.a` parses to [RecursivePrefix, ZeroOrMore, '.', 'a'], selects the Extension
   strategy and matches "b/x.a"; the set {*.a, b/x.a, a/**/b} reports [0;1] for "b/x.a" *)
Example ex_parse :
  build (mk_gopts false false true false) [42; 42; 47; 42; 46; 97]%N
  = Some (Ok [TRecPrefix; TStar; TLit 46; TLit 97]).
Proof. vm_compute. reflexivity. Qed.
Example ex_strategy :
  strategy_new (mk_gopts false false true false) [TRecPrefix; TStar; TLit 46; TLit 97] = SExtension [46; 97]%N
  /\ tmatch (mk_gopts false false true false) [TRecPrefix; TStar; TLit 46; TLit 97] [98; 47; 120; 46; 97]%N = true.
Proof. vm_compute. auto. Qed.
Example ex_set :
  let o := mk_gopts false false true false in
  set_matches re_spec [mk_glob o [TStar; TLit 46; TLit 97];
                       mk_glob o [TLit 98; TLit 47; TLit 120; TLit 46; TLit 97];
                       mk_glob o [TLit 97; TRecZeroOrMore; TLit 98]] [98; 47; 120; 46; 97]%N = [0; 1].
Proof. vm_compute. reflexivity. Qed.

Check strategy_eq_regex :
  forall (o : gopts) (ts : list token) (p : bytes),
    strategy_match (strategy_new o ts) (candidate_new p) (tmatch o ts) = tmatch o ts p.
Check set_eq_members :
  forall (gs : list glob) (p : bytes),
    set_matches re_spec gs p =
    filter (fun i => tmatch (g_opts (nth i gs dflt_glob)) (g_tokens (nth i gs dflt_glob)) p)
           (seq 0 (length gs)).
Check parse_total_never_panics :
  forall (o : gopts) (g : list N), exists r, build o g = Some r /\ r <> Err Panic.
Check set_is_match_eq_exists :
  forall (gs : list glob) (p : bytes),
    set_is_match re_spec gs p = existsb (fun g => tmatch (g_opts g) (g_tokens g) p) gs.
Check parse_documented_syntax :
  forall (o : gopts) (ps : list gpiece),
    backslash_escape o = true -> glob_ok ps = true ->
    build o (render_glob ps) = Some (Ok (glob_tokens ps)).
