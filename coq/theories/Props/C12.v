(* Props/C12.v — property C12: a glob set answers like its member globs; globs mean what is documented.
   Only statements; every proof is one `exact`.  The Check lines pin the statements. *)
From RG Require Import Base.Bytes Model.Glob Model.GlobSet Spec.GlobSem Spec.GlobSetSem Spec.GlobSyntax
  Proofs.GlobStrategyProofs Proofs.GlobSetProofs Proofs.GlobSetIsMatchProofs Proofs.GlobParseProofs Proofs.GlobRenderProofs
  Proofs.GlobAltRenderProofs Proofs.GlobAltSemProofs.

(* 1. every match strategy answers as the glob's regex: for all token lists (parser-produced or not),
      all four options, all paths (arbitrary bytes), the strategy MatchStrategy::new selects, evaluated
      on Candidate::new(path) (with the repaired pathutil::file_name), gives the answer of the regex
      Tokens::to_regex_with emits (tmatch = its meaning). *)
Theorem strategy_eq_regex :
  forall (o : gopts) (ts : list token) (p : bytes),
    strategy_match (strategy_new o ts) (candidate_new p) (tmatch o ts) = tmatch o ts p.
Proof. exact strategy_eq_regex_proof. Qed.
Print Assumptions strategy_eq_regex.

(* 2. DEFECT D3 (repaired by the fix: commit in globset/src/pathutil.rs): with the pinned file_name, which
      returns None for every path whose last byte is '.', statement 1 is false.  Witness: glob `*.`
      (tokens [ZeroOrMore, Literal '.'], Extension(".") strategy) and the path "a.". *)
Theorem strategy_eq_regex_pinned_refuted :
  exists (o : gopts) (ts : list token) (p : bytes),
    strategy_match (strategy_new o ts) (candidate_d3 p) (tmatch o ts) <> tmatch o ts p.
Proof.
  exists (mk_gopts false false true false), [TStar; TLit 46], [97; 46]%N. vm_compute. discriminate.
Qed.
Print Assumptions strategy_eq_regex_pinned_refuted.

(* 2b. ... and the defect is exactly that class: on every path not ending in '.', the pinned code
       already satisfied statement 1. *)
Theorem strategy_eq_regex_pinned_outside_d3 :
  forall (o : gopts) (ts : list token) (p : bytes),
    (forall q, p <> q ++ [46%N]) ->
    strategy_match (strategy_new o ts) (candidate_d3 p) (tmatch o ts) = tmatch o ts p.
Proof. exact strategy_eq_regex_d3_outside_proof. Qed.
Print Assumptions strategy_eq_regex_pinned_outside_d3.

(* 3. GlobSet::matches (seven strategy tables, merge, sort, dedup) returns exactly the indices of the
      globs that match individually, ascending and without duplicates, for every list of globs
      (duplicates and any mixture of options included) and every path. *)
Theorem set_eq_members :
  forall (gs : list glob) (p : bytes),
    set_matches re_spec gs p =
    filter (fun i => tmatch (g_opts (nth i gs dflt_glob)) (g_tokens (nth i gs dflt_glob)) p)
           (seq 0 (length gs)).
Proof. exact set_eq_members_proof. Qed.
Print Assumptions set_eq_members.

(* 3b. GlobSet::is_match (the strategies' own is_match functions: hash look-ups, Aho-Corasick scans with the
       start/end test, per-extension regex lists, the regex set) is true exactly when some member glob matches. *)
Theorem set_is_match_eq_exists :
  forall (gs : list glob) (p : bytes),
    set_is_match re_spec gs p = existsb (fun g => tmatch (g_opts g) (g_tokens g) p) gs.
Proof. exact set_is_match_eq_exists_proof. Qed.
Print Assumptions set_is_match_eq_exists.

(* 4. the parser is total and never reaches one of its unwrap()/assert! panics: for every option set and
      every glob text it returns tokens or one of the six error kinds within the fuel S (length glob). *)
Theorem parse_total_never_panics :
  forall (o : gopts) (g : list N), exists r, build o g = Some r /\ r <> Err Panic.
Proof. exact build_total. Qed.
Print Assumptions parse_total_never_panics.

(* 5. the parser reads the documented syntax as documented: for every glob of the documented (alternate-free)
      syntax — a '/'-separated list of pieces, each a component of literal characters (plain or backslash-
      escaped), `?`, `*` and bracket classes (characters and ranges), or `**` (whole component, never twice in a
      row) — the parser applied to its text yields exactly the documented tokens: `**/` in front = RecursivePrefix,
      `/**` at the end = RecursiveSuffix, `/**/` = RecursiveZeroOrMore, the glob `**` = everything, `*` `?`
      classes and literals one token each (backslash_escape on; any case / separator options).  Together with
      tmatch (the construct-by-construct meaning of those tokens) and, for literal_separator, the component-level
      reading proved in Props/C04.v (gitignore_pattern_eq_git), this is the statement behind the
      "documented syntax" oracle.  Alternates `{a,b}` are not covered by this theorem (tested only). *)
Theorem parse_documented_syntax :
  forall (o : gopts) (ps : list gpiece),
    backslash_escape o = true -> glob_ok ps = true ->
    build o (render_glob ps) = Some (Ok (glob_tokens ps)).
Proof. exact build_render_proof. Qed.
Print Assumptions parse_documented_syntax.

Example ex_documented_syntax :
  let g := [PDStar; PComp [IPlain 97; IStar; IClass [(98, 100); (46, 46)]%N]; PDStar; PComp [IEsc 42; IAny]; PDStar] in
  glob_ok g = true /\
  render_glob g = [42;42;47; 97;42;91;98;45;100;46;93; 47;42;42;47; 92;42;63; 47;42;42]%N /\
  glob_tokens g = [TRecPrefix; TLit 97; TStar; TClass false [(98, 100); (46, 46)]%N; TRecZeroOrMore; TLit 42; TAny; TRecSuffix].
Proof. vm_compute. auto. Qed.

(* 6. ... and alternates.  Documentation: "`{a,b}` matches `a` or `b` where `a` and `b` are arbitrary glob
      patterns. (N.B. Nesting `{...}` is not currently allowed.)"  Syntax (Spec/GlobSyntax.v aitem/apiece): an
      alternation `{b1,…,bn}` (n >= 1) may stand wherever an item of a component may stand; each alternative is
      empty or a glob of the alternate-free syntax of statement 5 (so it may contain '/', `**/`, `/**/`, `/**`,
      `\,`), other than the lone `**` (statement 6c).  For every such glob the parser applied to its text yields
      exactly the documented tokens — Alternates [tokens of b1; …; tokens of bn], each alternative read as a glob of
      its own — with the alternatives of each Alternates token in the parser's storage order, which is the
      reverse of the order written (`pop_alternate` pops the stack): [parser_order].  A ',' outside braces is an
      ordinary character (AComma: Literal ','); between braces a literal comma is `\,`.  Statement 6a says the
      order is immaterial. *)
Theorem parse_documented_syntax_alt :
  forall (o : gopts) (ps : list apiece),
    backslash_escape o = true -> aglob_ok ps = true ->
    build o (render_aglob ps) = Some (Ok (parser_order (aglob_tokens ps))).
Proof. exact build_render_alt_proof. Qed.
Print Assumptions parse_documented_syntax_alt.

(* 6a. the order of the alternatives of an Alternates token does not matter for matching: all token lists. *)
Theorem alt_order_irrelevant :
  forall (o : gopts) (ts : list token) (p : bytes), tmatch o (parser_order ts) p = tmatch o ts p.
Proof. exact tmatch_order_proof. Qed.
Print Assumptions alt_order_irrelevant.

(* 6b. "`{a,b}` matches `a` or `b`": an Alternates token followed by a rest matches exactly when one of its
       alternatives followed by that rest matches (all alternatives kept: none is dropped by the
       empty-alternates rule); and the glob `{b1,…,bn}` of the documented syntax, parsed, matches exactly the
       paths that one of b1 … bn matches as a glob of its own (empty alternatives need empty_alternates,
       as documented for GlobBuilder::empty_alternates). *)
Theorem alt_matches_some_alternative :
  forall (o : gopts) (alts : list (list token)) (r : list token) (k : bytes -> bool) (p : bytes),
    alts <> [] -> forallb (branch_kept o) alts = true ->
    tmk o (TAlt alts :: r) k p = existsb (fun a => tmk o a (tmk o r k) p) alts.
Proof. exact tmk_alt_all_kept. Qed.
Print Assumptions alt_matches_some_alternative.

Theorem alt_glob_matches_some_alternative :
  forall (o : gopts) (bs : list (list gpiece)) (p : bytes),
    backslash_escape o = true -> bs <> [] -> forallb branch_ok bs = true ->
    (empty_alternates o = true \/ forallb (fun b => negb (match b with [] => true | _ => false end)) bs = true) ->
    exists ts, build o (render_aglob [APComp [AAlt bs]]) = Some (Ok ts) /\
               tmatch o ts p = existsb (fun b => tmatch o (glob_tokens b) p) bs.
Proof. exact alt_glob_matches_some_branch_proof. Qed.
Print Assumptions alt_glob_matches_some_alternative.

(* 6c. the exclusion in statement 6 is necessary: the documentation calls `**` a glob ("the glob `**` is allowed
       and means match everything") and the alternatives "arbitrary glob patterns", but between braces the
       parser reads a lone `**` as two `*` (have_tokens is false and the next character is ',' or '}', not a
       separator).  Witness: `{**,b}`, literal_separator on, path "x/y": the documented tokens match, the
       parser's tokens do not (so both the token statement 6 and the reading 6b fail for it).  Replayed on the real crate (notes/C12.md): GlobMatcher of `{**,b}` rejects
       "x/y", `rg --files -g '/{**,b}'` omits x/y while `-g '/**'` lists it. *)
Theorem parse_documented_syntax_alt_lone_dstar_refuted :
  exists (o : gopts) (bs : list (list gpiece)) (ts : list token) (p : bytes),
    backslash_escape o = true /\ bs <> [] /\ forallb branch_ok_doc bs = true /\
    forallb (fun b => negb (match b with [] => true | _ => false end)) bs = true /\
    build o (render_aglob [APComp [AAlt bs]]) = Some (Ok ts) /\
    ts <> parser_order (aglob_tokens [APComp [AAlt bs]]) /\
    existsb (fun b => tmatch o (glob_tokens b) p) bs = true /\ tmatch o ts p = false.
Proof.
  exists (mk_gopts false true true false), [[PDStar]; [PComp [IPlain 98]]],
         [TAlt [[TLit 98]; [TStar; TStar]]], [120; 47; 121]%N.
  vm_compute. repeat split; try reflexivity; discriminate.
Qed.
Print Assumptions parse_documented_syntax_alt_lone_dstar_refuted.

(* 6d. statement 6 extends statement 5: a glob of the alternate-free syntax, seen as a tree of the syntax with
       alternates, has the same text, the same tokens and the same well-formedness verdict (so 5 is the
       alternation-free instance of 6). *)
Theorem alt_syntax_conservative :
  forall ps : list gpiece,
    render_aglob (map piece_inj ps) = render_glob ps /\
    parser_order (aglob_tokens (map piece_inj ps)) = glob_tokens ps /\
    aglob_ok (map piece_inj ps) = glob_ok ps.
Proof. exact alt_syntax_conservative_proof. Qed.
Print Assumptions alt_syntax_conservative.

(* non-vacuity of 6, 6b: `**/x,{a/**,\,,}*.[ch]/{**/m,n}` *)
Example ex_documented_syntax_alt :
  let o := mk_gopts false true true true in
  let g := [APDStar;
            APComp [AIt (IPlain 120); AComma; AAlt [[PComp [IPlain 97]; PDStar]; [PComp [IEsc 44]]; []]; AIt IStar;
                    AIt (IPlain 46); AIt (IClass [(99, 99); (104, 104)]%N)];
            APComp [AAlt [[PDStar; PComp [IPlain 109]]; [PComp [IPlain 110]]]]] in
  aglob_ok g = true /\
  render_aglob g = [42;42;47; 120; 44; 123; 97;47;42;42; 44; 92;44; 44; 125; 42; 46; 91;99;104;93; 47;
                    123; 42;42;47;109; 44; 110; 125]%N /\
  aglob_tokens g = [TRecPrefix; TLit 120; TLit 44; TAlt [[TLit 97; TRecSuffix]; [TLit 44]; []]; TStar; TLit 46;
                    TClass false [(99, 99); (104, 104)]%N; TLit 47; TAlt [[TRecPrefix; TLit 109]; [TLit 110]]] /\
  build o (render_aglob g) = Some (Ok (parser_order (aglob_tokens g))) /\
  parser_order (aglob_tokens g) = [TRecPrefix; TLit 120; TLit 44; TAlt [[]; [TLit 44]; [TLit 97; TRecSuffix]]; TStar; TLit 46;
                    TClass false [(99, 99); (104, 104)]%N; TLit 47; TAlt [[TLit 110]; [TRecPrefix; TLit 109]]].
Proof. vm_compute. repeat split; reflexivity. Qed.
Example ex_alt_matches :
  let o := mk_gopts false true true false in
  forallb (branch_kept o) [[TLit 97]; [TLit 98; TStar]] = true /\
  tmatch o [TAlt [[TLit 97]; [TLit 98; TStar]]; TLit 46] [98; 120; 46]%N = true.
Proof. vm_compute. auto. Qed.

(* non-vacuity: `**/*.a` parses to [RecursivePrefix, ZeroOrMore, '.', 'a'], selects the Extension
   strategy and matches "b/x.a"; the set {*.a, b/x.a, a/**/b} reports [0;1] for "b/x.a" *)
Example ex_parse :
  build (mk_gopts false false true false) [42; 42; 47; 42; 46; 97]%N
  = Some (Ok [TRecPrefix; TStar; TLit 46; TLit 97]).
Proof. vm_compute. reflexivity. Qed.
Example ex_strategy :
  strategy_new (mk_gopts false false true false) [TRecPrefix; TStar; TLit 46; TLit 97] = SExtension [46; 97]%N
  /\ tmatch (mk_gopts false false true false) [TRecPrefix; TStar; TLit 46; TLit 97] [98; 47; 120; 46; 97]%N = true.
Proof. vm_compute. auto. Qed.
Example ex_set :
  let o := mk_gopts false false true false in
  set_matches re_spec [mk_glob o [TStar; TLit 46; TLit 97];
                       mk_glob o [TLit 98; TLit 47; TLit 120; TLit 46; TLit 97];
                       mk_glob o [TLit 97; TRecZeroOrMore; TLit 98]] [98; 47; 120; 46; 97]%N = [0; 1].
Proof. vm_compute. reflexivity. Qed.

Check strategy_eq_regex :
  forall (o : gopts) (ts : list token) (p : bytes),
    strategy_match (strategy_new o ts) (candidate_new p) (tmatch o ts) = tmatch o ts p.
Check set_eq_members :
  forall (gs : list glob) (p : bytes),
    set_matches re_spec gs p =
    filter (fun i => tmatch (g_opts (nth i gs dflt_glob)) (g_tokens (nth i gs dflt_glob)) p)
           (seq 0 (length gs)).
Check parse_total_never_panics :
  forall (o : gopts) (g : list N), exists r, build o g = Some r /\ r <> Err Panic.
Check set_is_match_eq_exists :
  forall (gs : list glob) (p : bytes),
    set_is_match re_spec gs p = existsb (fun g => tmatch (g_opts g) (g_tokens g) p) gs.
Check parse_documented_syntax :
  forall (o : gopts) (ps : list gpiece),
    backslash_escape o = true -> glob_ok ps = true ->
    build o (render_glob ps) = Some (Ok (glob_tokens ps)).
Check parse_documented_syntax_alt :
  forall (o : gopts) (ps : list apiece),
    backslash_escape o = true -> aglob_ok ps = true ->
    build o (render_aglob ps) = Some (Ok (parser_order (aglob_tokens ps))).
Check alt_order_irrelevant :
  forall (o : gopts) (ts : list token) (p : bytes), tmatch o (parser_order ts) p = tmatch o ts p.
Check alt_matches_some_alternative :
  forall (o : gopts) (alts : list (list token)) (r : list token) (k : bytes -> bool) (p : bytes),
    alts <> [] -> forallb (branch_kept o) alts = true ->
    tmk o (TAlt alts :: r) k p = existsb (fun a => tmk o a (tmk o r k) p) alts.
Check alt_glob_matches_some_alternative :
  forall (o : gopts) (bs : list (list gpiece)) (p : bytes),
    backslash_escape o = true -> bs <> [] -> forallb branch_ok bs = true ->
    (empty_alternates o = true \/ forallb (fun b => negb (match b with [] => true | _ => false end)) bs = true) ->
    exists ts, build o (render_aglob [APComp [AAlt bs]]) = Some (Ok ts) /\
               tmatch o ts p = existsb (fun b => tmatch o (glob_tokens b) p) bs.
Check alt_syntax_conservative :
  forall ps : list gpiece,
    render_aglob (map piece_inj ps) = render_glob ps /\
    parser_order (aglob_tokens (map piece_inj ps)) = glob_tokens ps /\
    aglob_ok (map piece_inj ps) = glob_ok ps.
