(* Props/C12.v — placeholder, filled in below *)
From RG Require Import Base.Bytes Model.Glob Model.GlobSet Spec.GlobSem.
