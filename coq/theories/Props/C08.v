(* Props/C08.v — property C08: multi-threaded output is a permutation of the single-threaded per-file blocks.
   Only statements; every proof is one `exact`.  The thread count, driver choice, sort handling and separator
   ownership are the definitions of Gen/DecisionsCli.v, translated from hiargs.rs / main.rs on every run.
   PARTIAL: the model lets a worker's `bufwtr.print(buffer)` append its block atomically — that atomicity is
   termcolor's BufferWriter lock (trusted, third-party); the absence of tearing under the OS scheduler is exercised
   by the check, not proved. The order in which the workers complete is universally quantified (any permutation). *)
From RG Require Import Base.Bytes Model.CliTypes Model.CliExpected Gen.DecisionsCli Model.MainRun Model.Process
  Spec.ExitSpec Proofs.DecisionsProofs Proofs.MainRunProofs Proofs.ParallelProofs.
From Coq Require Import Permutation.
Local Open Scope bool_scope.

(* 1. for every order items' in which the workers complete the files of the walk items (no per-file error, stdout
      open, no --stats): the parallel stdout is the blocks in completion order, joined by the separator line exactly
      between consecutive non-empty blocks; the serial stdout is the same for the walk order; same multiset of blocks *)
Theorem par_output_is_block_permutation_partial : forall c items items',
  c_setup_ok c = true -> c_quit_after_match c = false -> c_stats c = None -> c_collects c = false ->
  forallb item_clean items = true ->
  Permutation items items' ->
  out (snd (search_parallel c items' st0)) = join_blocks (sep_with c [10%N]) true (blocks items') /\
  out (snd (search_serial c items st0)) = join_blocks (sep_with c (c_lineterm c)) true (blocks items) /\
  Permutation (blocks items) (blocks items').
Proof. exact par_output_is_block_permutation_proof. Qed.
Print Assumptions par_output_is_block_permutation_partial.

(* 1b. same completion order, "\n" line terminator: byte-identical outputs *)
Theorem par_eq_serial_same_order : forall c items,
  c_setup_ok c = true -> c_quit_after_match c = false -> c_stats c = None -> c_collects c = false ->
  forallb item_clean items = true -> c_lineterm c = [10%N] ->
  out (snd (search_parallel c items st0)) = out (snd (search_serial c items st0)).
Proof. exact par_eq_serial_same_order_proof. Qed.
Print Assumptions par_eq_serial_same_order.

(* 1c. --files: the single printing thread writes the queued paths in send order; a permutation of the serial lines *)
Theorem files_output_is_line_permutation_partial : forall c items items',
  c_setup_ok c = true -> c_quit_after_match c = false -> c_collects c = false ->
  forallb item_clean items = true ->
  Permutation items items' ->
  out (snd (files_parallel c items' st0)) = concat (blocks items') /\
  out (snd (files_serial c items st0)) = concat (blocks items) /\
  Permutation (blocks items) (blocks items').
Proof. exact files_output_proof. Qed.
Print Assumptions files_output_is_line_permutation_partial.

(* 2. the exit status does not depend on the completion order, and equals the single-threaded one *)
Theorem exit_status_order_independent : forall c items items' r1 s1 r2 s2,
  c_setup_ok c = true ->
  (c_quit_after_match c = true -> c_quiet c = true) ->
  Permutation items items' ->
  forallb item_no_pipe_par items = true ->
  search_parallel c items st0 = (r1, s1) ->
  search_parallel c items' st0 = (r2, s2) ->
  r1 = r2 /\
  exit_code (existsb item_match items) (c_quiet c) (errored s1) =
  exit_code (existsb item_match items') (c_quiet c) (errored s2).
Proof. exact parallel_status_order_independent_proof. Qed.
Print Assumptions exit_status_order_independent.

Theorem exit_status_serial_eq_parallel : forall c items items' r1 s1 r2 s2,
  c_setup_ok c = true ->
  (c_quit_after_match c = true -> c_quiet c = true) ->
  Permutation items items' ->
  forallb item_no_pipe_serial items = true ->
  forallb item_print_ok items = true ->
  search_serial c items st0 = (r1, s1) ->
  search_parallel c items' st0 = (r2, s2) ->
  r1 = r2 /\
  exit_code (existsb item_match items) (c_quiet c) (errored s1) =
  exit_code (existsb item_match items') (c_quiet c) (errored s2).
Proof. exact serial_parallel_same_status_proof. Qed.
Print Assumptions exit_status_serial_eq_parallel.

(* 3. sorting forces one thread (generated `threads`), hence a serial driver (generated `choose_driver`), and the walker
      sorts by name exactly when HiArgs::sort leaves the order alone (generated from walk_builder and HiArgs::sort) *)
Theorem sort_forces_one_thread : forall one_file low_threads avail, threads true one_file low_threads avail = 1%N.
Proof. exact sort_forces_one_thread_proof. Qed.
Print Assumptions sort_forces_one_thread.

Theorem sort_forces_serial_driver : forall l s,
  l_sort l = Some s ->
  match choose_driver (l_mode l) (matches_possible (l_patterns_empty l) (l_max_count_zero l)) (low_threads l) with
  | DSearchParallel | DFilesParallel => False
  | _ => True
  end.
Proof. exact sorted_driver_is_serial_proof. Qed.
Print Assumptions sort_forces_serial_driver.

Theorem sort_order_has_one_owner : forall s : sort_mode,
  sort_is_identity (Some s) = walk_sorted_by_name (Some s).
Proof. exact sort_identity_iff_walk_sorted. Qed.
Print Assumptions sort_order_has_one_owner.

(* 4. with --sort the whole run (status, stdout, stderr) is that of -j1, whatever -j says *)
Theorem sorted_output_equals_j1 : forall l s base items j,
  l_sort l = Some s ->
  run_model ParseOk (with_threads l j) base items = run_model ParseOk (with_threads l (Some 1%N)) base items.
Proof. exact sorted_output_equals_j1_proof. Qed.
Print Assumptions sorted_output_equals_j1.

(* 5. the separator has one owner: the printer iff threads = 1 (generated from printer_standard) *)
Theorem separator_has_one_owner : forall t, printer_owns_separator t = (t =? 1)%N.
Proof. exact separator_owner. Qed.
Print Assumptions separator_has_one_owner.

(* ---- what is NOT the same, by construction or by defect ---- *)
(* observation (DESIGN §7 C08 scope note; not a violation): under a per-file error the serial driver has already
   written the file's partial output, the parallel driver drops the buffer *)
Definition cfg08 (term : bytes) (sep : option bytes) : cfg :=
  {| c_quiet := false; c_quit_after_match := false; c_implicit_path := false; c_messages := true;
     c_stats := None; c_collects := false; c_sep := sep; c_lineterm := term; c_setup_ok := true |}.
Definition hy8 (id : N) (r : sres) (o : bytes) : item := IHay {| h_id := id; h_res := r; h_out := o; h_print := POk |}.

Example par_drops_partial_block_on_error :
  out (snd (search_serial (cfg08 [10%N] None) [hy8 1 SErr [97%N; 10%N]] st0)) = [97%N; 10%N] /\
  out (snd (search_parallel (cfg08 [10%N] None) [hy8 1 SErr [97%N; 10%N]] st0)) = [].
Proof. vm_compute. auto. Qed.

(* KNOWN FINDING SeparatorTerminatorDiffers: "byte-identical ... separators exactly between blocks" fails for the
   separator line itself under --crlf / --null-data: the printer ends it with the searcher's line terminator,
   termcolor's BufferWriter always with "\n".  Witness: two one-line blocks, separator "--", terminator CRLF. *)
Theorem separator_bytes_equal_refuted :
  exists c items, forallb item_clean items = true /\
    out (snd (search_parallel c items st0)) <> out (snd (search_serial c items st0)).
Proof.
  exists (cfg08 [13%N; 10%N] (Some [45%N; 45%N])), [hy8 1 SMatch [97%N; 13%N; 10%N]; hy8 2 SMatch [98%N; 13%N; 10%N]].
  split; [reflexivity|]. vm_compute. discriminate.
Qed.
Print Assumptions separator_bytes_equal_refuted.

(* ---- non-vacuity ---- *)
Example ex_three_files_two_orders :
  let a := hy8 1 SMatch [97%N; 10%N] in let b := hy8 2 SNoMatch [] in let d := hy8 3 SMatch [100%N; 10%N] in
  out (snd (search_parallel (cfg08 [10%N] (Some [45%N; 45%N])) [d; b; a] st0)) = [100; 10; 45; 45; 10; 97; 10]%N /\
  out (snd (search_serial (cfg08 [10%N] (Some [45%N; 45%N])) [a; b; d] st0)) = [97; 10; 45; 45; 10; 100; 10]%N.
Proof. vm_compute. auto. Qed.

Check par_output_is_block_permutation_partial : forall c items items',
  c_setup_ok c = true -> c_quit_after_match c = false -> c_stats c = None -> c_collects c = false ->
  forallb item_clean items = true ->
  Permutation items items' ->
  out (snd (search_parallel c items' st0)) = join_blocks (sep_with c [10%N]) true (blocks items') /\
  out (snd (search_serial c items st0)) = join_blocks (sep_with c (c_lineterm c)) true (blocks items) /\
  Permutation (blocks items) (blocks items').
Check sorted_output_equals_j1 : forall l s base items j,
  l_sort l = Some s ->
  run_model ParseOk (with_threads l j) base items = run_model ParseOk (with_threads l (Some 1%N)) base items.
