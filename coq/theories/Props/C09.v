(* Props/C09.v — property C09: printed lines and their coordinates are the input's own; JSON output
   is lossless.  Only statements; every proof is one `exact`. *)
From RG Require Import Base.Bytes Model.MatchIter Model.Replace Model.Sink Model.Standard Model.Json
  Spec.PrinterSpec Proofs.PrinterProofs.

(* 1. DecimalFormatter (line number, column, byte offset fields): for every u64 the digits written
      denote the number, are all decimal digits, and there is at least one *)
Theorem decimal_formatter_correct :
  forall n, (n < 2 ^ 64)%N -> digits_value (decimal_formatter n) = n.
Proof. exact decimal_formatter_correct_proof. Qed.
Print Assumptions decimal_formatter_correct.

Theorem decimal_formatter_digits :
  forall n, forallb is_digit (decimal_formatter n) = true /\ decimal_formatter n <> [].
Proof. exact decimal_formatter_digits_proof. Qed.
Print Assumptions decimal_formatter_digits.

(* 2. a record of the standard printer is: the event's own path / line number / column / byte offset
      in this order, each followed by its separator, then the event's bytes, then the line
      terminator iff the bytes do not end with one.  Fast path (no spans recorded) ... *)
Theorem standard_record_shape_fast :
  forall cfg env path sk w,
    w_out (sink_fast cfg env path sk w)
    = w_out w ++ prelude_spec cfg path (separator_field cfg sk) (k_off sk) (k_lnum sk) None
              ++ terminated (e_lt env) (k_bytes sk).
Proof. exact sink_fast_layout. Qed.
Print Assumptions standard_record_shape_fast.

(* ... slow path (--column, --stats, ...): the column is 1 + start of the first recorded span *)
Theorem standard_record_shape_slow :
  forall cfg env path sk w,
    st_only_matching cfg = false -> st_per_match cfg = false ->
    w_out (sink_slow cfg env path sk w)
    = w_out w ++ prelude_spec cfg path (separator_field cfg sk) (k_off sk) (k_lnum sk)
                   (Some (fst (nth_span (k_matches sk) 0) + 1))
              ++ terminated (e_lt env) (k_bytes sk).
Proof. exact sink_slow_layout. Qed.
Print Assumptions standard_record_shape_slow.

(* ... multi-line block without spans: one such record per line of the block, line numbers and
   byte offsets advancing with the lines *)
Theorem standard_record_shape_multi_line_fast :
  forall cfg env path sk w,
    w_out (sink_fast_multi_line cfg env path sk w)
    = w_out w ++ block_records cfg env path sk (line_spans (lt_byte (e_lt env)) (k_bytes sk)) 0 (k_off sk).
Proof. exact sink_fast_multi_line_layout. Qed.
Print Assumptions standard_record_shape_multi_line_fast.

Theorem prelude_shape :
  forall cfg path sk off lnum col w,
    w_out (write_prelude cfg path sk off lnum col w)
    = w_out w ++ prelude_spec cfg path (separator_field cfg sk) off lnum col.
Proof. exact write_prelude_layout. Qed.
Print Assumptions prelude_shape.

(* 3. base64_standard is decodable by the RFC 4648 decoder, for every byte string *)
Theorem base64_roundtrip :
  forall bs, Forall (fun b => (b < 256)%N) bs -> b64_decode (base64_standard bs) = Some bs.
Proof. exact base64_roundtrip_proof. Qed.
Print Assumptions base64_roundtrip.

(* 4. Data::from_bytes: text (the bytes themselves) exactly when utf8_valid, else base64 *)
Theorem data_text_iff_utf8 :
  forall b, (utf8_valid b = true -> data_from_bytes b = JText b) /\
            (utf8_valid b = false -> data_from_bytes b = JBytes (base64_standard b)).
Proof. exact data_text_iff_utf8_proof. Qed.
Print Assumptions data_text_iff_utf8.

(* 5. a JSON submatch carries the slice of `lines` at its start/end offsets, for one of the recorded spans *)
Theorem submatch_is_slice :
  forall lines ms sm, In sm (submatches_new lines ms) ->
    j_m sm = data_from_bytes (sub lines (j_start sm) (j_end sm)) /\ In (j_start sm, j_end sm) ms.
Proof. exact submatch_is_slice_proof. Qed.
Print Assumptions submatch_is_slice.

(* non-vacuity: rg -n -b --column with a path, event = line 3 at offset 7, bytes "xa\n", first span at 1:
   the record is "f:3:2:7:xa\n"; base64 of ff fe = "//4=" decodes back; 18446744073709551615 prints *)
Definition ex_cfg : stdconfig := mkStd false true false false false None true true false None None [58]%N [45]%N None.
Example record_example :
  w_out (sink_slow ex_cfg (mkEnv (LTByte 10) false false 0 false false) (Some [102]%N)
           (mkSunk [120; 97; 10]%N 7 (Some 3) None [(1, 2)]) w_new)
  = [102; 58; 51; 58; 50; 58; 55; 58; 120; 97; 10]%N.
Proof. vm_compute. reflexivity. Qed.
Example base64_example :
  base64_standard [255; 254]%N = [47; 47; 52; 61]%N /\ b64_decode [47; 47; 52; 61]%N = Some [255; 254]%N.
Proof. vm_compute. split; reflexivity. Qed.
Example decimal_example : digits_value (decimal_formatter 18446744073709551615%N) = 18446744073709551615%N.
Proof. vm_compute. reflexivity. Qed.

Check base64_roundtrip :
  forall bs, Forall (fun b => (b < 256)%N) bs -> b64_decode (base64_standard bs) = Some bs.
Check decimal_formatter_correct : forall n, (n < 2 ^ 64)%N -> digits_value (decimal_formatter n) = n.

(* 6. message order and lossless lines: with rg's JSON configuration (no -m), a search emits nothing
      when no line is delivered, otherwise begin, then exactly one match/context message per delivered
      Matched/Context event, in stream order, each carrying that event's bytes (as Data), line number
      and absolute offset, then end.  (With --passthru every line of the input is delivered — C03 —
      so the `lines` fields reassemble the input.) *)
From RG Require Import Spec.ModesSpec Proofs.JsonProofs.
Theorem json_message_order :
  forall find_at env cfg, j_max cfg = None ->
  forall path evs fins,
    j_always_begin_end cfg = false -> Forall (ev_ok find_at env) evs ->
    exists s body, json_run find_at cfg env path evs fins = Some (s, true) /\
      forallb is_body body = true /\
      map msg_core body = map Some (filter_map ev_core evs) /\
      js_out s = if existsb prints evs
                 then JBegin (option_map data_from_bytes path) :: body
                      ++ [JEnd (option_map data_from_bytes path) (f_bin (fins (1 + length evs))) (js_stats s)]
                 else [].
Proof. exact json_message_order_proof. Qed.
Print Assumptions json_message_order.
