(* Props/C09.v — property C09: printed lines and their coordinates are the input's own; JSON output
   is lossless.  Only statements; every proof is one `exact`. *)
From RG Require Import Base.Bytes Model.MatchIter Model.Replace Model.Sink Model.Standard Model.Json
  Spec.PrinterSpec Proofs.PrinterProofs.

(* 1. DecimalFormatter (line number, column, byte offset fields): for every u64 the digits written
      denote the number, are all decimal digits, and there is at least one *)
Theorem decimal_formatter_correct :
  forall n, (n < 2 ^ 64)%N -> digits_value (decimal_formatter n) = n.
Proof. exact decimal_formatter_correct_proof. Qed.
Print Assumptions decimal_formatter_correct.

Theorem decimal_formatter_digits :
  forall n, forallb is_digit (decimal_formatter n) = true /\ decimal_formatter n <> [].
Proof. exact decimal_formatter_digits_proof. Qed.
Print Assumptions decimal_formatter_digits.

(* 2. a record of the standard printer is: the event's own path / line number / column / byte offset
      in this order, each followed by its separator, then the event's bytes, then the line
      terminator iff the bytes do not end with one.  Fast path (no spans recorded) ... *)
Theorem standard_record_shape_fast :
  forall cfg env path sk w,
    w_out (sink_fast cfg env path sk w)
    = w_out w ++ prelude_spec cfg path (separator_field cfg sk) (k_off sk) (k_lnum sk) None
              ++ terminated (e_lt env) (k_bytes sk).
Proof. exact sink_fast_layout. Qed.
Print Assumptions standard_record_shape_fast.

(* ... slow path (--column, --stats, ...): the column is 1 + start of the first recorded span *)
Theorem standard_record_shape_slow :
  forall cfg env path sk w,
    st_only_matching cfg = false -> st_per_match cfg = false ->
    w_out (sink_slow cfg env path sk w)
    = w_out w ++ prelude_spec cfg path (separator_field cfg sk) (k_off sk) (k_lnum sk)
                   (Some (fst (nth_span (k_matches sk) 0) + 1))
              ++ terminated (e_lt env) (k_bytes sk).
Proof. exact sink_slow_layout. Qed.
Print Assumptions standard_record_shape_slow.

(* ... multi-line block without spans: one such record per line of the block, line numbers and
   byte offsets advancing with the lines *)
Theorem standard_record_shape_multi_line_fast :
  forall cfg env path sk w,
    w_out (sink_fast_multi_line cfg env path sk w)
    = w_out w ++ block_records cfg env path sk (line_spans (lt_byte (e_lt env)) (k_bytes sk)) 0 (k_off sk).
Proof. exact sink_fast_multi_line_layout. Qed.
Print Assumptions standard_record_shape_multi_line_fast.

Theorem prelude_shape :
  forall cfg path sk off lnum col w,
    w_out (write_prelude cfg path sk off lnum col w)
    = w_out w ++ prelude_spec cfg path (separator_field cfg sk) off lnum col.
Proof. exact write_prelude_layout. Qed.
Print Assumptions prelude_shape.

(* 3. base64_standard is decodable by the RFC 4648 decoder, for every byte string *)
Theorem base64_roundtrip :
  forall bs, Forall (fun b => (b < 256)%N) bs -> b64_decode (base64_standard bs) = Some bs.
Proof. exact base64_roundtrip_proof. Qed.
Print Assumptions base64_roundtrip.

(* 4. Data::from_bytes: text (the bytes themselves) exactly when utf8_valid, else base64 *)
Theorem data_text_iff_utf8 :
  forall b, (utf8_valid b = true -> data_from_bytes b = JText b) /\
            (utf8_valid b = false -> data_from_bytes b = JBytes (base64_standard b)).
Proof. exact data_text_iff_utf8_proof. Qed.
Print Assumptions data_text_iff_utf8.

(* 5. a JSON submatch carries the slice of `lines` at its start/end offsets, for one of the recorded spans *)
Theorem submatch_is_slice :
  forall lines ms sm, In sm (submatches_new lines ms) ->
    j_m sm = data_from_bytes (sub lines (j_start sm) (j_end sm)) /\ In (j_start sm, j_end sm) ms.
Proof. exact submatch_is_slice_proof. Qed.
Print Assumptions submatch_is_slice.

(* non-vacuity: rg -n -b --column with a path, event = line 3 at offset 7, bytes "xa\n", first span at 1:
   the record is "f:3:2:7:xa\n"; base64 of ff fe = "//4=" decodes back; 18446744073709551615 prints *)
Definition ex_cfg : stdconfig := mkStd false true false false false None true true false None None [58]%N [45]%N None.
Example record_example :
  w_out (sink_slow ex_cfg (mkEnv (LTByte 10) false false 0 false false) (Some [102]%N)
           (mkSunk [120; 97; 10]%N 7 (Some 3) None [(1, 2)]) w_new)
  = [102; 58; 51; 58; 50; 58; 55; 58; 120; 97; 10]%N.
Proof. vm_compute. reflexivity. Qed.
Example base64_example :
  base64_standard [255; 254]%N = [47; 47; 52; 61]%N /\ b64_decode [47; 47; 52; 61]%N = Some [255; 254]%N.
Proof. vm_compute. split; reflexivity. Qed.
Example decimal_example : digits_value (decimal_formatter 18446744073709551615%N) = 18446744073709551615%N.
Proof. vm_compute. reflexivity. Qed.

Check base64_roundtrip :
  forall bs, Forall (fun b => (b < 256)%N) bs -> b64_decode (base64_standard bs) = Some bs.
Check decimal_formatter_correct : forall n, (n < 2 ^ 64)%N -> digits_value (decimal_formatter n) = n.

(* 6. message order and lossless lines: with rg's JSON configuration (no -m), a search emits nothing
      when no line is delivered, otherwise begin, then exactly one match/context message per delivered
      Matched/Context event, in stream order, each carrying that event's bytes (as Data), line number
      and absolute offset, then end.  (With --passthru every line of the input is delivered — C03 —
      so the `lines` fields reassemble the input.) *)
From RG Require Import Spec.ModesSpec Proofs.JsonProofs.
Theorem json_message_order :
  forall find_at env cfg, j_max cfg = None ->
  forall path evs fins,
    j_always_begin_end cfg = false -> Forall (ev_ok find_at env) evs ->
    exists s body, json_run find_at cfg env path evs fins = Some (s, true) /\
      forallb is_body body = true /\
      map msg_core body = map Some (filter_map ev_core evs) /\
      js_out s = if existsb prints evs
                 then JBegin (option_map data_from_bytes path) :: body
                      ++ [JEnd (option_map data_from_bytes path) (f_bin (fins (1 + length evs))) (js_stats s)]
                 else [].
Proof. exact json_message_order_proof. Qed.
Print Assumptions json_message_order.

(* ======================= round trips (second round) ======================= *)
From RG Require Import Spec.ParseSpec Proofs.ParseProofs.

(* 7. THE ROUND TRIP of the standard printer's line format.  A reader that knows the configuration
      (which fields are configured, the separator, --null, headings) but neither the path nor the
      numbers nor the text gets back from the bytes of a record exactly the event's own path, line
      number, column (1 + start of the first recorded span, if any), absolute byte offset, and text
      (the event's bytes, terminated).  Guard, stated exactly:
        - the field separator is non-empty and does not start with a decimal digit (sep_ok);
        - the byte that ends the path (the --null byte, else the separator's first byte) does not
          occur in the path;
        - numbers fit u64 (small);
        - the record is a line-oriented one: line-oriented search or a context line, not -o / --vimgrep
          (those are theorem 8).
      For every event, every input bytes, every writer state. *)
Theorem standard_line_roundtrip :
  forall cfg env path sk w,
    let sepf := separator_field cfg sk in
    let col := if is_empty_list (k_matches sk) then None else Some (fst (nth_span (k_matches sk) 0) + 1) in
    (e_multi env && negb (is_context sk)) = false ->
    st_only_matching cfg = false -> st_per_match cfg = false ->
    sep_ok sepf ->
    (forall p, path = Some p -> forallb (fun x => negb (x =? path_delim cfg sepf)%N) p = true) ->
    small (k_lnum sk) -> small col -> small (Some (k_off sk)) ->
    exists rec,
      w_out (impl_sink cfg env path sk w) = w_out (write_search_prelude cfg env path w) ++ rec /\
      parse_line cfg sepf (is_some path) (is_some (k_lnum sk)) (is_some col) rec
      = Some (shown_path cfg path, option_map N.of_nat (k_lnum sk),
              (if st_column cfg then option_map N.of_nat col else None),
              (if st_byte_offset cfg then Some (N.of_nat (k_off sk)) else None),
              terminated (e_lt env) (k_bytes sk)).
Proof. exact standard_line_roundtrip_proof. Qed.
Print Assumptions standard_line_roundtrip.

(* the same reader on any prelude followed by any text: used for the records of theorems 8 and 9 *)
Theorem prelude_roundtrip_any_text :
  forall cfg path sepf, sep_ok sepf ->
    (forall p, path = Some p -> forallb (fun x => negb (x =? path_delim cfg sepf)%N) p = true) ->
    forall off lnum col text, small lnum -> small col -> small (Some off) ->
    parse_line cfg sepf (is_some path) (is_some lnum) (is_some col)
               (prelude_spec cfg path sepf off lnum col ++ text)
    = Some (shown_path cfg path, option_map N.of_nat lnum,
            (if st_column cfg then option_map N.of_nat col else None),
            (if st_byte_offset cfg then Some (N.of_nat off) else None), text).
Proof. exact prelude_roundtrip. Qed.
Print Assumptions prelude_roundtrip_any_text.

(* 8. line-oriented --only-matching and per-match (--vimgrep) output: exactly one record per recorded
      span, in order; offset = line offset + span start, column = span start + 1, text = the span
      (-o) or the whole line (per match); each record is a prelude followed by text, so theorem
      prelude_roundtrip_any_text reads it back *)
Theorem only_matching_records :
  forall cfg env path sk w, st_only_matching cfg = true ->
    w_out (sink_slow cfg env path sk w)
    = w_out w ++ concat (map (span_record cfg env path sk true) (k_matches sk)).
Proof. exact sink_slow_only_matching_layout. Qed.
Print Assumptions only_matching_records.

Theorem per_match_records :
  forall cfg env path sk w, st_only_matching cfg = false -> st_per_match cfg = true ->
    w_out (sink_slow cfg env path sk w)
    = w_out w ++ concat (map (span_record cfg env path sk false) (k_matches sk)).
Proof. exact sink_slow_per_match_layout. Qed.
Print Assumptions per_match_records.

(* 9. multi-line block with recorded spans (-U --column / --stats): write_colored_matches writes
      exactly the line (whatever the spans are), so the block is one record per line: prelude with
      that line's offset and number and the block's first-match column, the line without its
      terminator, the searcher's terminator.  (Guard: trimming a line's terminator does not move its
      end before its start — where the Rust `with_end` would panic.) *)
Theorem write_colored_matches_writes_the_line :
  forall env sk ls le midx w,
    ls <= trim_line_terminator (e_lt env) (k_bytes sk) ls le -> midx < length (k_matches sk) ->
    w_out (snd (write_colored_matches env (k_bytes sk) ls le (k_matches sk) midx w))
    = w_out w ++ sub (k_bytes sk) ls (trim_line_terminator (e_lt env) (k_bytes sk) ls le) /\
    fst (write_colored_matches env (k_bytes sk) ls le (k_matches sk) midx w) < length (k_matches sk).
Proof. exact write_colored_matches_out. Qed.
Print Assumptions write_colored_matches_writes_the_line.

Theorem standard_record_shape_multi_line_slow :
  forall cfg env path sk w,
    st_only_matching cfg = false -> st_per_match cfg = false -> k_matches sk <> [] ->
    Forall (fun se => fst se <= trim_line_terminator (e_lt env) (k_bytes sk) (fst se) (snd se))
           (line_spans (lt_byte (e_lt env)) (k_bytes sk)) ->
    w_out (sink_slow_multi_line cfg env path sk w)
    = w_out w ++ slow_block_records cfg env path sk (line_spans (lt_byte (e_lt env)) (k_bytes sk)) 0.
Proof. exact sink_slow_multi_line_layout. Qed.
Print Assumptions standard_record_shape_multi_line_slow.

(* 10. JSON: decode (encode x) = x.  Data, including the base64 branch for bytes that are not UTF-8 *)
Theorem data_roundtrip :
  forall b, Forall (fun x => (x < 256)%N) b -> data_decode (data_from_bytes b) = Some b.
Proof. exact data_roundtrip_proof. Qed.
Print Assumptions data_roundtrip.

(* ... and a whole search: the output is begin, exactly the messages of the delivered Matched/Context
   events in stream order, end; decoding each message gives back the event's kind, bytes, line
   number, absolute offset and its submatches (start, end, bytes lines[start..end]) — for every
   stream, matcher and byte content *)
Theorem json_roundtrip :
  forall find_at env cfg, j_max cfg = None ->
  forall path evs fins,
    j_always_begin_end cfg = false -> Forall (ev_ok find_at env) evs ->
    Forall (fun e => Forall (fun x => (x < 256)%N) (ev_bytes e)) evs ->
    exists s body, json_run find_at cfg env path evs fins = Some (s, true) /\
      js_out s = (if existsb prints evs
                  then JBegin (option_map data_from_bytes path) :: body
                       ++ [JEnd (option_map data_from_bytes path) (f_bin (fins (1 + length evs))) (js_stats s)]
                  else []) /\
      map msg_decode body = map Some (filter_map (ev_fields find_at env) evs) /\
      length body = length (filter prints evs).
Proof. exact json_roundtrip_proof. Qed.
Print Assumptions json_roundtrip.

(* non-vacuity of the round trip: "f:3:2:7:xa\n" is read back as (f, 3, 2, 7, "xa\n");
   with --null and a context separator "-": "f\0003-7-b\n" *)
Example roundtrip_example :
  parse_line ex_cfg [58]%N true true true [102; 58; 51; 58; 50; 58; 55; 58; 120; 97; 10]%N
  = Some (Some [102]%N, Some 3%N, Some 2%N, Some 7%N, [120; 97; 10]%N).
Proof. vm_compute. reflexivity. Qed.
Example data_roundtrip_example :
  data_from_bytes [255; 97]%N = JBytes [47; 50; 69; 61]%N /\ data_decode (JBytes [47; 50; 69; 61]%N) = Some [255; 97]%N.
Proof. vm_compute. split; reflexivity. Qed.

Check standard_line_roundtrip :
  forall cfg env path sk w,
    let sepf := separator_field cfg sk in
    let col := if is_empty_list (k_matches sk) then None else Some (fst (nth_span (k_matches sk) 0) + 1) in
    (e_multi env && negb (is_context sk)) = false ->
    st_only_matching cfg = false -> st_per_match cfg = false ->
    sep_ok sepf ->
    (forall p, path = Some p -> forallb (fun x => negb (x =? path_delim cfg sepf)%N) p = true) ->
    small (k_lnum sk) -> small col -> small (Some (k_off sk)) ->
    exists rec,
      w_out (impl_sink cfg env path sk w) = w_out (write_search_prelude cfg env path w) ++ rec /\
      parse_line cfg sepf (is_some path) (is_some (k_lnum sk)) (is_some col) rec
      = Some (shown_path cfg path, option_map N.of_nat (k_lnum sk),
              (if st_column cfg then option_map N.of_nat col else None),
              (if st_byte_offset cfg then Some (N.of_nat (k_off sk)) else None),
              terminated (e_lt env) (k_bytes sk)).

(* ---- third round: --max-columns, --max-columns-preview, --trim (Model/StandardCols.v, Spec/ColsSpec.v) ----
   `gends` is bstr's grapheme segmentation (third party), universally quantified: nothing is assumed about it. *)
From RG Require Import Model.StandardCols Spec.ColsSpec Proofs.StandardColsProofs.

(* 11. what write_line emits for a line, for every line, configuration, recorded match list and writer: the
   shown line (the line, under --trim without its longest prefix of ASCII whitespace that is not a terminator
   byte) + terminator if missing; or — exactly when `length shown > limit`, BYTES, the line's own terminator
   counted — the notice "[Omitted long matching|context line]" / "[Omitted long line with N matches]" (N known
   = matches were recorded and the record is not a single -o match), or with --max-columns-preview a prefix
   of the shown line's bytes that ends at the end of the limit-th grapheme (at most `limit` graphemes, a
   terminator at the cut dropped), then " [... omitted end of long line]" / " [... N more match(es)]", then the
   terminator.  See Spec/ColsSpec.v line_or_notice. *)
Theorem max_columns_line_or_notice :
  forall gends cfg cc env sk line w,
    w_out (write_line_c gends cfg cc env sk line w)
    = w_out w ++ line_or_notice gends (e_lt env) (cc_max cc) (cc_preview cc) (cc_trim cc)
                   (st_only_matching cfg) (is_context sk) (k_matches sk) line.
Proof. exact write_line_c_out. Qed.
Print Assumptions max_columns_line_or_notice.

(* 12. without a limit and without --trim the extended model IS the model of Standard.v, so theorems 2, 7-9 carry over *)
Theorem no_limit_is_identity :
  forall gends find_at cfg env,
    (forall sk line w, write_line_c gends cfg cols_off env sk line w = write_line env line w) /\
    (forall path sk w, impl_sink_c gends cfg cols_off env path sk w = impl_sink cfg env path sk w) /\
    (forall path w evs fins,
       standard_run_c gends find_at cfg cols_off env path w evs fins = standard_run find_at cfg env path w evs fins).
Proof.
  intros gends find_at cfg env. split; [|split].
  - exact (write_line_c_off gends cfg env).
  - exact (impl_sink_c_off gends cfg env).
  - exact (standard_run_c_off gends find_at cfg env).
Qed.
Print Assumptions no_limit_is_identity.

(* 13. --trim removes a prefix of the line, all of it ASCII whitespace and none of it a terminator byte, and
   the longest such one *)
Theorem trim_only_removes_ascii_whitespace_prefix :
  forall lt line,
    let k := trim_ascii_prefix lt line 0 (length line) in
    line = firstn k line ++ sub line k (length line)
    /\ Forall (fun b => ascii_ws b = true /\ ~ In b (lt_bytes lt)) (firstn k line)
    /\ match sub line k (length line) with [] => True | b :: _ => trimmable lt b = false end.
Proof. exact trim_only_removes_ascii_whitespace_prefix_proof. Qed.
Print Assumptions trim_only_removes_ascii_whitespace_prefix.

(* 14. the coordinates of a record do not depend on the new options: line number, byte offset and column
   (1 + start of the first match in the UNTRIMMED line) are those of theorem 2; only the text part changes *)
Theorem cols_record_shape_fast :
  forall gends cfg cc env path sk w,
    w_out (sink_fast_c gends cfg cc env path sk w)
    = w_out w ++ prelude_spec cfg path (separator_field cfg sk) (k_off sk) (k_lnum sk) None
            ++ line_or_notice gends (e_lt env) (cc_max cc) (cc_preview cc) (cc_trim cc)
                 (st_only_matching cfg) (is_context sk) (k_matches sk) (k_bytes sk).
Proof. exact sink_fast_c_layout. Qed.
Print Assumptions cols_record_shape_fast.

Theorem trim_keeps_untrimmed_columns :
  forall gends cfg cc env path sk w,
    st_only_matching cfg = false -> st_per_match cfg = false ->
    w_out (sink_slow_c gends cfg cc env path sk w)
    = w_out w ++ prelude_spec cfg path (separator_field cfg sk) (k_off sk) (k_lnum sk)
                   (Some (fst (nth_span (k_matches sk) 0) + 1))
            ++ line_or_notice gends (e_lt env) (cc_max cc) (cc_preview cc) (cc_trim cc)
                 false (is_context sk) (k_matches sk) (k_bytes sk).
Proof. exact sink_slow_c_layout. Qed.
Print Assumptions trim_keeps_untrimmed_columns.

(* Observations OUTSIDE property C09 (its text excludes trimming and column limits): the three `_refuted`
   theorems below refute a *reading of the documentation* of --max-columns / --trim / --vimgrep, not C09; they
   are proved on the model and replayed on rg (notes/C09.md, "Observations outside the property").
   (a) the limit counts the line's own terminator: the 3-byte line "abc\n" is omitted under -M 3
       (the same line without final newline is printed) *)
Definition ex_gends (b : bytes) : list nat := seq 1 (length b).    (* ASCII: one grapheme per byte *)
Definition ex_env : senv := mkEnv (LTByte 10%N) false false 0 false false.
Theorem limit_ignores_terminator_refuted :
  exists cfg sk line w limit,
    length (sub line 0 (trim_line_terminator (e_lt ex_env) line 0 (length line))) <= limit /\
    w_out (write_line_c ex_gends cfg (mkCol (Some limit) false false) ex_env sk line w)
    <> w_out w ++ terminated (e_lt ex_env) line.
Proof.
  exists ex_cfg, (mkSunk [97; 98; 99; 10]%N 0 None None []), [97; 98; 99; 10]%N, w_new, 3.
  split; [vm_compute; lia|]. vm_compute. discriminate.
Qed.
Print Assumptions limit_ignores_terminator_refuted.

(* (b) (documentation reading, not C09) under --trim the " [... N more matches]" count compares match starts in the UNTRIMMED line with a cut
       in the TRIMMED line: "  foo xxxxxxxx\n", match (2,5), -M 2: the preview "fo" is followed by
       "1 more match" although no match starts in the hidden part (the count that the spec asks for: matches
       starting at or after the cut, in the coordinates of the shown line) *)
Theorem preview_count_under_trim_refuted :
  exists cfg sk line w limit,
    let cc := mkCol (Some limit) true true in
    let k := trim_ascii_prefix (e_lt ex_env) line 0 (length line) in
    let shifted := map (fun m => (fst m - k, snd m - k)) (filter (fun m => Nat.leb k (fst m)) (k_matches sk)) in
    w_out (write_line_c ex_gends cfg cc ex_env sk line w)
    <> w_out w ++ line_or_notice ex_gends (e_lt ex_env) (Some limit) true true
                    (st_only_matching cfg) (is_context sk) shifted line.
Proof.
  exists ex_cfg, (mkSunk [32; 32; 102; 111; 111; 32; 120; 120; 120; 120; 120; 120; 120; 120; 10]%N 0 None None [(2, 5)]),
         [32; 32; 102; 111; 111; 32; 120; 120; 120; 120; 120; 120; 120; 120; 10]%N, w_new, 2.
  vm_compute. discriminate.
Qed.
Print Assumptions preview_count_under_trim_refuted.

(* non-vacuity / worked examples: "  héllo wörld\n" with -M 4: omitted; with preview: "  h\xc3\xa9" (4 graphemes =
   5 bytes when `gends` knows é) + notice; --trim + preview: "héll" + notice; -M 20: the line itself *)
Example cols_example :
  let line := [32; 32; 104; 195; 169; 108; 108; 111; 10]%N in      (* "  héllo\n" *)
  let g (b : bytes) : list nat :=                                   (* segmentation of this line and its trimmed form *)
      if Nat.eqb (length b) 9 then [1; 2; 3; 5; 6; 7; 8; 9] else [1; 3; 4; 5; 6; 7] in
  let sk := mkSunk line 0 None None [] in
  w_out (write_line_c g ex_cfg (mkCol (Some 4) false false) ex_env sk line w_new) = msg_omit_match ++ [10]%N /\
  w_out (write_line_c g ex_cfg (mkCol (Some 4) true false) ex_env sk line w_new)
    = [32; 32; 104; 195; 169]%N ++ msg_omit_end ++ [10]%N /\
  w_out (write_line_c g ex_cfg (mkCol (Some 4) true true) ex_env sk line w_new)
    = [104; 195; 169; 108; 108]%N ++ msg_omit_end ++ [10]%N /\
  w_out (write_line_c g ex_cfg (mkCol (Some 20) false true) ex_env sk line w_new) = [104; 195; 169; 108; 108; 111; 10]%N.
Proof. vm_compute. repeat split; reflexivity. Qed.

Check max_columns_line_or_notice :
  forall gends cfg cc env sk line w,
    w_out (write_line_c gends cfg cc env sk line w)
    = w_out w ++ line_or_notice gends (e_lt env) (cc_max cc) (cc_preview cc) (cc_trim cc)
                   (st_only_matching cfg) (is_context sk) (k_matches sk) line.

(* 15. the other paths through write_line with the new options.  Line-oriented -o / --vimgrep: one record per
   recorded span, coordinates of the span, the text (the span / the whole line) through line_or_notice —
   under -o the limit and --trim apply to the MATCH text, and the notice never carries a count *)
Theorem cols_only_matching_records :
  forall gends cfg cc env path sk w, st_only_matching cfg = true ->
    w_out (sink_slow_c gends cfg cc env path sk w)
    = w_out w ++ concat (map (span_record_c gends cfg cc env path sk true) (k_matches sk)).
Proof. exact sink_slow_c_only_matching_layout. Qed.
Print Assumptions cols_only_matching_records.

Theorem cols_per_match_records :
  forall gends cfg cc env path sk w, st_only_matching cfg = false -> st_per_match cfg = true ->
    w_out (sink_slow_c gends cfg cc env path sk w)
    = w_out w ++ concat (map (span_record_c gends cfg cc env path sk false) (k_matches sk)).
Proof. exact sink_slow_c_per_match_layout. Qed.
Print Assumptions cols_per_match_records.

(* multi-line block without recorded spans: every line of the block is its own line_or_notice record *)
Theorem cols_record_shape_multi_line_fast :
  forall gends cfg cc env path sk w,
    w_out (sink_fast_multi_line_c gends cfg cc env path sk w)
    = w_out w ++ block_records_c gends cfg cc env path sk (line_spans (lt_byte (e_lt env)) (k_bytes sk)) 0 (k_off sk).
Proof. exact sink_fast_multi_line_c_layout. Qed.
Print Assumptions cols_record_shape_multi_line_fast.

(* multi-line block with recorded spans (-U --column / --stats, no -o / --vimgrep): per line the prelude of
   theorem 9 and Spec/ColsSpec.v block_line_text — here matches, cut and line end are offsets into the same
   block, so the "N more matches" count is the number of matches starting in the hidden part of the line.
   Guard: where Rust's Match::with_end would panic (as in theorem 9, also for the cut line). *)
Theorem cols_record_shape_multi_line_slow :
  forall gends cfg cc env path sk w,
    st_only_matching cfg = false -> st_per_match cfg = false -> k_matches sk <> [] ->
    Forall (fun se => block_line_guard gends (e_lt env) (cc_max cc) (cc_trim cc) (k_bytes sk) (fst se) (snd se))
           (line_spans (lt_byte (e_lt env)) (k_bytes sk)) ->
    w_out (sink_slow_multi_line_c gends cfg cc env path sk w)
    = w_out w ++ slow_block_records_c gends cfg cc env path sk (line_spans (lt_byte (e_lt env)) (k_bytes sk)) 0.
Proof. exact sink_slow_multi_line_c_layout. Qed.
Print Assumptions cols_record_shape_multi_line_slow.

(* non-vacuity: the block "  xa\n   b and more\n" with the match "a\n   b" (3,9), --trim -M 4 --max-columns-preview:
   the guard holds for both lines and the output is "f:1:4:xa\nf:2:4:b an [... 0 more matches]\n" *)
Example cols_multi_line_example :
  let blk := [32; 32; 120; 97; 10; 32; 32; 32; 98; 32; 97; 110; 100; 32; 109; 111; 114; 101; 10]%N in
  let sk := mkSunk blk 0 (Some 1) None [(3, 9)] in
  let cc := mkCol (Some 4) true true in
  let cfg := mkStd false true false false false None true false false None None [58]%N [45]%N None in
  Forall (fun se => block_line_guard ex_gends (e_lt ex_env) (cc_max cc) (cc_trim cc) blk (fst se) (snd se))
         (line_spans 10%N blk) /\
  w_out (sink_slow_multi_line_c ex_gends cfg cc ex_env (Some [102]%N) sk w_new)
  = [102; 58; 49; 58; 52; 58; 120; 97; 10;
     102; 58; 50; 58; 52; 58; 98; 32; 97; 110]%N
    ++ msg_more_open ++ [48]%N ++ msg_more ++ msg_matches_close ++ [10]%N.
Proof.
  cbn zeta. split.
  - vm_compute. repeat constructor; intros limit H; inversion H; subst; vm_compute; repeat constructor.
  - vm_compute. reflexivity.
Qed.

(* 16. what is guaranteed about the preview.  For ANY segmentation function: the cut is 0 or the end of one of
   the first `limit` graphemes it reports (so the preview holds at most `limit` graphemes and never splits one).
   Under the only fact assumed about bstr's segmentation — every grapheme ends inside the string — the preview
   is exactly the first k bytes of the shown line with k <= cut <= length. *)
Theorem preview_cut_at_grapheme_boundary :
  forall gends limit shown,
    preview_cut gends limit shown = 0
    \/ exists i, i < limit /\ nth_error (gends shown) i = Some (preview_cut gends limit shown).
Proof. exact preview_cut_boundary. Qed.
Print Assumptions preview_cut_at_grapheme_boundary.

Theorem preview_is_a_prefix_within_the_cut :
  forall gends lt limit shown,
    Forall (fun e => e <= length shown) (gends shown) ->
    let cut := preview_cut gends limit shown in
    let k := trim_line_terminator lt shown 0 cut in
    k <= cut /\ cut <= length shown /\ length (firstn k shown) = k.
Proof. exact preview_prefix_length. Qed.
Print Assumptions preview_is_a_prefix_within_the_cut.

Example preview_prefix_example :      (* "héllo\n", 3 graphemes: cut 4, preview "hél" *)
  let shown := [104; 195; 169; 108; 108; 111; 10]%N in
  let g (_ : bytes) := [1; 3; 4; 5; 6; 7] in
  Forall (fun e => e <= length shown) (g shown) /\ preview_cut g 3 shown = 4 /\
  firstn (trim_line_terminator (LTByte 10%N) shown 0 4) shown = [104; 195; 169; 108]%N.
Proof. vm_compute. repeat split; repeat constructor. Qed.

(* (c) (documentation reading, not C09) --vimgrep prints one line per match even when the match spans lines (per_match_one_line; issue 1866).
       With a column limit that rule is lost when the first line of the match is too long: the `continue` after
       write_exceeded_line in sink_slow_multi_per_match also skips the `break`.  "aaaaaaaaaa\nb\n", match (0,12),
       -M 5: two records (two terminators) for one match; without the limit one record. *)
Theorem vimgrep_one_line_per_match_refuted :
  exists cfg sk limit,
    st_per_match cfg = true /\ st_per_match_one_line cfg = true /\ length (k_matches sk) = 1 /\
    let env := mkEnv (LTByte 10%N) true false 0 false false in
    count_occ N.eq_dec (w_out (sink_slow_multi_line_c ex_gends cfg cols_off env None sk w_new)) 10%N = 1 /\
    count_occ N.eq_dec (w_out (sink_slow_multi_line_c ex_gends cfg (mkCol (Some limit) false false) env None sk w_new)) 10%N = 2.
Proof.
  exists (mkStd false true false true true None true false false None None [58]%N [45]%N None),
         (mkSunk [97; 97; 97; 97; 97; 97; 97; 97; 97; 97; 10; 98; 10]%N 0 (Some 1) None [(0, 12)]), 5.
  vm_compute. repeat split; reflexivity.
Qed.
Print Assumptions vimgrep_one_line_per_match_refuted.

(* ======================= multi-line --only-matching / per-match records ======================= *)
From RG Require Import Spec.PrinterMultiLineSpec Proofs.PrinterMultiLineProofs.

(* 11. multi-line --only-matching (sink_slow_multi_line_only_matching), for every block and every
       ordered list of recorded spans (what find_iter yields: C10 recorded_submatches_are_ordered):
       the output is the concatenation of the records om_block_records, and EVERY record is, for some
       line i of the block and some recorded submatch m with a non-empty part [a, b) on that line's
       content (a = max(line start, m start), b = min(content end, m end)):
         prelude with byte offset = block offset + START OF m, line number = block's number + i,
         column = 1 + START OF m (in the block, not in the line), then the input bytes [a, b) of the
         block, then the searcher's line terminator.
       prelude_roundtrip_any_text (theorem 7) reads each record back. *)
Theorem only_matching_multi_line_record_layout :
  forall cfg env path sk w,
    st_only_matching cfg = true -> k_matches sk <> [] -> spans_ordered 0 (k_matches sk) ->
    w_out (sink_slow_multi_line cfg env path sk w)
    = w_out w ++ concat (om_block_records cfg env path sk (block_lines env sk) 0) /\
    length (om_block_records cfg env path sk (block_lines env sk) 0)
    = list_sum (map (pieces_of env sk (block_lines env sk)) (k_matches sk)).
Proof. exact only_matching_multi_line_records_proof. Qed.
Print Assumptions only_matching_multi_line_record_layout.

Theorem only_matching_multi_line_record_origin :
  forall cfg env path sk rec,
    In rec (om_block_records cfg env path sk (block_lines env sk) 0) ->
    exists i line m,
      nth_error (block_lines env sk) i = Some line /\ In m (k_matches sk) /\
      let a := Nat.max (fst line) (fst m) in
      let b := Nat.min (content_end env sk line) (snd m) in
      a < b /\
      rec = prelude_spec cfg path (separator_field cfg sk) (k_off sk + fst m)
                         (option_map (fun n => n + i) (k_lnum sk)) (Some (fst m + 1))
            ++ sub (k_bytes sk) a b ++ lt_bytes (e_lt env).
Proof. exact only_matching_multi_line_record_origin_proof. Qed.
Print Assumptions only_matching_multi_line_record_origin.

(* 12. multi-line per-match / --vimgrep (sink_slow_multi_per_match), for every block and every list of
       spans: the output is the concatenation of pm_block_records — for every submatch in order, the
       lines it touches (line start < m end and m start < line end, terminator included), only the
       first of them with per_match_one_line — and every record is, for such a line:
         prelude with the LINE's byte offset and number, column = 1 + (m start - line start), 1 when m
         began on an earlier line; then the whole content of the line; then the terminator. *)
Theorem per_match_multi_line_record_layout :
  forall cfg env path sk w,
    st_only_matching cfg = false -> st_per_match cfg = true ->
    w_out (sink_slow_multi_line cfg env path sk w) = w_out w ++ concat (pm_block_records cfg env path sk) /\
    length (pm_block_records cfg env path sk)
    = list_sum (map (fun m => let n := lines_touched (block_lines env sk) m in
                              if st_per_match_one_line cfg then Nat.min 1 n else n) (k_matches sk)).
Proof. exact per_match_multi_line_records_proof. Qed.
Print Assumptions per_match_multi_line_record_layout.

Theorem per_match_multi_line_record_origin :
  forall cfg env path sk rec,
    In rec (pm_block_records cfg env path sk) ->
    exists m i line, In m (k_matches sk) /\ nth_error (block_lines env sk) i = Some line /\
      fst line < snd m /\ fst m < snd line /\
      rec = prelude_spec cfg path (separator_field cfg sk) (k_off sk + fst line)
                         (option_map (fun n => n + i) (k_lnum sk)) (Some (fst m - fst line + 1))
            ++ sub (k_bytes sk) (fst line) (content_end env sk line) ++ lt_bytes (e_lt env).
Proof. exact per_match_multi_line_record_origin_proof. Qed.
Print Assumptions per_match_multi_line_record_origin.

(* the guard of theorem 9 always holds for the lines of a block: trimming the terminator of a LineStep
   line (also the two-byte CRLF) never moves its end before its start *)
Theorem block_lines_trim_guard :
  forall env sk, Forall (fun se => fst se <= trim_line_terminator (e_lt env) (k_bytes sk) (fst se) (snd se))
                        (line_spans (lt_byte (e_lt env)) (k_bytes sk)).
Proof. exact block_lines_trim_ok. Qed.
Print Assumptions block_lines_trim_guard.

(* non-vacuity, both replayed on the binary with printf 'abc\nde\n':
   rg -U -o -n -b --column 'c\nd'  prints 1:3:2:c / 2:3:2:d ;
   rg -U --vimgrep -b 'c\nd|e'     prints 1:3:0:abc / 2:2:4:de  (per_match_one_line) *)
Definition ml_env9 : senv := mkEnv (LTByte 10) true false 0 false false.
Definition abcde : bytes := [97; 98; 99; 10; 100; 101; 10]%N.
Definition cfg_o9 : stdconfig := mkStd false false true false false None true true false None None [58]%N [45]%N None.
Definition cfg_v9 : stdconfig := mkStd false false false true true None true true false None None [58]%N [45]%N None.
Example only_matching_multi_line_record_example :
  w_out (sink_slow_multi_line cfg_o9 ml_env9 None (mkSunk abcde 0 (Some 1) None [(2, 5)]) w_new)
  = [49; 58; 51; 58; 50; 58; 99; 10;  50; 58; 51; 58; 50; 58; 100; 10]%N
  /\ om_block_records cfg_o9 ml_env9 None (mkSunk abcde 0 (Some 1) None [(2, 5)])
       (block_lines ml_env9 (mkSunk abcde 0 (Some 1) None [(2, 5)])) 0
     = [[49; 58; 51; 58; 50; 58; 99; 10]; [50; 58; 51; 58; 50; 58; 100; 10]]%N.
Proof. vm_compute. split; reflexivity. Qed.
Example per_match_multi_line_record_example :
  w_out (sink_slow_multi_line cfg_v9 ml_env9 None (mkSunk abcde 0 (Some 1) None [(2, 5); (5, 6)]) w_new)
  = [49; 58; 51; 58; 48; 58; 97; 98; 99; 10;  50; 58; 50; 58; 52; 58; 100; 101; 10]%N
  /\ pm_block_records cfg_v9 ml_env9 None (mkSunk abcde 0 (Some 1) None [(2, 5); (5, 6)])
     = [[49; 58; 51; 58; 48; 58; 97; 98; 99; 10]; [50; 58; 50; 58; 52; 58; 100; 101; 10]]%N.
Proof. vm_compute. split; reflexivity. Qed.

(* OBSERVATION OUTSIDE THE PROPERTY (C09's statement excludes only-matching; this refutes a natural
   reading of --column under -U -o, not the property; not a known finding)
   MultiLineOnlyMatchingColumnIsBlockRelative: theorem 11 says the column of a multi-line -o
   record is 1 + the submatch's start IN THE BLOCK.  So "the column is the submatch's column in its own
   line" (what line-oriented -o, --vimgrep and multi-line --vimgrep print) is false as soon as a block has
   a submatch that starts on a later line.  Witness = the real run
     printf 'a1\nb1\n' | rg -U -o -n --column '[ab]1\n'     prints 1:1:a1 and 2:4:b1
   (the two touching matches form one block; "b1" starts at column 1 of line 2, the line has 2 bytes;
    rg -U --vimgrep prints 2:1, rg -o without -U prints 2:1). *)
Definition cfg_oc9 : stdconfig := mkStd false false true false false None true false false None None [58]%N [45]%N None.
Definition a1b1 : sunk := mkSunk [97; 49; 10; 98; 49; 10]%N 0 (Some 1) None [(0, 3); (3, 6)].
Theorem only_matching_multi_line_column_is_line_relative_refuted :
  exists cfg env sk,
    st_only_matching cfg = true /\ st_column cfg = true /\ spans_ordered 0 (k_matches sk) /\
    nth_error (block_lines env sk) 1 = Some (3, 6) /\ In (3, 6) (k_matches sk) /\   (* line 2 = submatch 2 = [3, 6) *)
    w_out (sink_slow_multi_line cfg env None sk w_new)
    = [49; 58; 49; 58; 97; 49; 10;  50; 58; 52; 58; 98; 49; 10]%N.                  (* "1:1:a1\n2:4:b1\n" *)
Proof.
  exists cfg_oc9, ml_env9, a1b1. vm_compute.
  repeat split; try reflexivity; try lia. right. left. reflexivity.
Qed.
Print Assumptions only_matching_multi_line_column_is_line_relative_refuted.
