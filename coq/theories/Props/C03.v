(* Props/C03.v — property C03: results follow the grep model (order, uniqueness, context windows,
   numbering).  Statements only; proofs are in Proofs/. *)
From RG Require Import Base.Bytes Model.Lines Model.SearcherCore Model.Glue Spec.GrepSpec
  Proofs.SlowPathProofs.

(* 1. SliceByLine::run on the slow line path = the grep reference, for every input, every
      configuration (context sizes, invert, passthru, line numbers, stop-on-nonmatch, any
      terminator incl. CRLF), every matcher, with a sink that always continues and binary
      detection off.  The event list determines order, line numbers, offsets, context kinds,
      separators and the final byte count. *)
Theorem slice_slow_eq_ref :
  forall (cfg : config) (M : matcher),
    c_binary cfg = BNone ->
    forall s : bytes,
    (forall c, is_line_by_line_fast cfg M c = false) ->
    slice_by_line_run cfg M (fun _ => Continue) s = RunOk (grep_ref cfg (m_is_match M) s).
Proof. exact slice_slow_eq_ref_proof. Qed.
Print Assumptions slice_slow_eq_ref.

(* 2. the same for every configuration and whichever line path is_line_by_line_fast selects
      (fast candidate-based path, inverted or not, the switch to the slow path once
      stop-on-nonmatch has seen a match, passthru): for every matcher whose find_by_line_fast
      obeys its contract on whole-line buffers — "the line found is the first remaining line the
      pattern matches; none found means no remaining line matches", which is what properties
      C11/C01 establish for the regex matcher. *)
From RG Require Import Proofs.FastPathProofs.
Theorem slice_eq_ref :
  forall (cfg : config) (M : matcher),
    c_binary cfg = BNone ->
    forall s : bytes,
    find_spec cfg M s ->
    slice_by_line_run cfg M (fun _ => Continue) s = RunOk (grep_ref cfg (m_is_match M) s).
Proof. exact slice_eq_ref_proof. Qed.
Print Assumptions slice_eq_ref.

(* 3. What the reference delivers, read declaratively (stop-on-nonmatch off).  `sc l` says whether
      line l is a result (match, or non-match under inversion); `credit (rev pre)` is positive
      exactly when the nearest result before lies within A lines (credit_pos).  Events carry the
      true coordinates: offset = total length of the lines before, number = 1 + count of them. *)
From RG Require Import Proofs.GrepSpecProofs.

(* 3a. completeness: every result line is delivered as a match; every non-result line within A
       lines after a result is delivered as after-context; every non-result line that is not
       after-context and has a result within B lines after it is delivered as before-context;
       passthru delivers every line. *)
Theorem results_delivered :
  forall cfg is_match, c_stop_on_nonmatch cfg = false ->
  forall pre l post, sc cfg is_match l = true ->
    In (ev_matched cfg pre l) (g_out (run cfg is_match (pre ++ l :: post))).
Proof. exact matched_delivered. Qed.
Print Assumptions results_delivered.

Theorem after_context_delivered :
  forall cfg is_match, c_stop_on_nonmatch cfg = false ->
  forall pre l post, sc cfg is_match l = false -> 1 <= credit cfg is_match (rev pre) ->
    In (ev_ctx cfg CAfter pre l) (g_out (run cfg is_match (pre ++ l :: post))).
Proof. exact after_delivered. Qed.
Print Assumptions after_context_delivered.

Theorem credit_is_window :
  forall cfg is_match r, 1 <= credit cfg is_match r <->
    exists mid l r', r = mid ++ l :: r' /\ sc cfg is_match l = true /\
                     Forall (fun x => sc cfg is_match x = false) mid /\ length mid < c_after cfg.
Proof. exact credit_pos. Qed.
Print Assumptions credit_is_window.

Theorem before_context_delivered :
  forall cfg is_match, c_stop_on_nonmatch cfg = false ->
  forall pre k mid j post,
    sc cfg is_match k = false -> credit cfg is_match (rev pre) = 0 -> c_passthru cfg = false ->
    Forall (fun x => sc cfg is_match x = false) mid -> length mid < c_before cfg -> sc cfg is_match j = true ->
    In (ev_ctx cfg CBefore pre k) (g_out (run cfg is_match (pre ++ k :: mid ++ j :: post))).
Proof. exact before_delivered. Qed.
Print Assumptions before_context_delivered.

Theorem passthru_delivers_all :
  forall cfg is_match, c_stop_on_nonmatch cfg = false ->
  forall pre l post, c_passthru cfg = true ->
    exists e, In e (g_out (run cfg is_match (pre ++ l :: post))) /\
      match e with
      | EMatched o n b | EContext _ o n b => o = length (concat pre) /\ n = lnum_of cfg (S (length pre)) /\ b = l
      | _ => False
      end.
Proof. exact passthru_delivers_every_line. Qed.
Print Assumptions passthru_delivers_all.

(* 3b. soundness: nothing else is delivered — every event is a separator or one of the four cases
       above, with the true offset and line number of its line (`justified`). *)
Theorem nothing_else_delivered :
  forall cfg is_match, c_stop_on_nonmatch cfg = false ->
  forall ls e, In e (g_out (run cfg is_match ls)) -> justified cfg is_match ls e.
Proof. exact every_event_justified. Qed.
Print Assumptions nothing_else_delivered.

(* 3c. input order, no line twice: each delivered line starts at or after the end of the previous
       delivered line; the delivered lines plus the pending ones fit in the input. *)
Theorem results_in_input_order :
  forall cfg is_match, c_stop_on_nonmatch cfg = false ->
  forall ls,
    ordered_from 0 (rev (g_out (run cfg is_match ls))) /\
    last_end 0 (rev (g_out (run cfg is_match ls))) + pbytes (g_pend (run cfg is_match ls)) <= length (concat ls).
Proof. exact delivered_in_order. Qed.
Print Assumptions results_in_input_order.

(* 3d. a search that runs to completion reports the input's full length *)
Theorem completed_search_reports_length :
  forall cfg is_match, c_stop_on_nonmatch cfg = false ->
  forall ls, g_off (run cfg is_match ls) = length (concat ls).
Proof. exact finish_is_length. Qed.
Print Assumptions completed_search_reports_length.

(* 3e. separators: the event stream is exactly its line events with a separator inserted before a
       line event iff context is enabled, something was delivered before, and the line does not
       start where the previously delivered line ended (lines are non-empty). *)
From RG Require Import Proofs.GrepBreaks.
Theorem separators_exactly_between_groups :
  forall cfg is_match, c_stop_on_nonmatch cfg = false ->
  forall ls, Forall (fun l : bytes => l <> []) ls ->
    rev (g_out (run cfg is_match ls)) = with_breaks cfg 0 false (lines_of (run cfg is_match ls)).
Proof. intros cfg im H ls Hne. exact (proj1 (separators_exactly_at_gaps cfg im H ls Hne)). Qed.
Print Assumptions separators_exactly_between_groups.

(* 4. the contract of find_by_line_fast is met by every matcher whose find_candidate_line obeys
      the candidate contract of grep-matcher on whole-line buffers (cand_ok: no line before the
      candidate's line matches; a Confirmed candidate — outside CRLF mode, where it is re-verified —
      lies in a line that matches; a Confirmed position may point at the very end).  Hence: *)
From RG Require Import Proofs.FindSpecProofs Model.ScriptedMatcher.
Theorem slice_eq_ref_from_candidate_contract :
  forall (cfg : config) (M : matcher),
    c_binary cfg = BNone ->
    forall s : bytes,
    cand_ok cfg M s ->
    slice_by_line_run cfg M (fun _ => Continue) s = RunOk (grep_ref cfg (m_is_match M) s).
Proof.
  intros cfg M Hb s Hc. apply slice_eq_ref_proof; [exact Hb|]. apply find_spec_of_cand_proof. exact Hc.
Qed.
Print Assumptions slice_eq_ref_from_candidate_contract.

(* non-vacuity: the contract is satisfiable (a matcher that never matches), and a concrete fast-path
   run with a literal-prefiltering matcher equals the reference *)
Example cand_ok_satisfiable : forall cfg s,
  cand_ok cfg {| m_is_match := fun _ => false; m_find_candidate := fun _ => None; m_line_term := Some (c_lt cfg);
                 m_nonmatching := fun _ => false; m_find_at := fun _ _ => None |} s.
Proof.
  intros cfg s p ls Hat Hne. cbn. clear. induction ls; constructor; auto.
Qed.

Example fast_path_example :
  let cfg := {| c_lt := LTByte 10; c_invert := false; c_after := 1; c_before := 1; c_passthru := false;
                c_line_number := true; c_stop_on_nonmatch := false; c_binary := BNone; c_multi_line := false |} in
  let M := scripted cfg
             [ {| n_anch := false; n_bytes := [98]%N; n_real := true |} ]
             true 1%N in
  let s := [97; 10; 120; 10; 98; 10; 121; 10; 122; 10]%N in
  slice_by_line_run cfg M (fun _ => Continue) s = RunOk (grep_ref cfg (m_is_match M) s)
  /\ grep_ref cfg (m_is_match M) s =
     [EBegin; EContext CBefore 2 (Some 2) [120; 10]%N; EMatched 4 (Some 3) [98; 10]%N;
      EContext CAfter 6 (Some 4) [121; 10]%N; EFinish 10 None].
Proof. vm_compute. split; reflexivity. Qed.

(* 5. stop-on-nonmatch: the reference with the option on delivers exactly what the reference with
      the option off delivers on the lines up to and including the first non-result line that
      follows a result (GrepStop.trunc); the byte count reported at finish is the end of that
      line.  Hence theorems 3a–3e describe the stopped search on the truncated input. *)
From RG Require Import Proofs.GrepStop.
Theorem stop_on_nonmatch_is_truncation :
  forall cfg is_match, c_stop_on_nonmatch cfg = true ->
  forall ls : list bytes,
    let g := g_run cfg is_match ls in
    let g' := g_run (nostop cfg) is_match (trunc cfg is_match false ls) in
    g_out g = g_out g' /\ g_off g = g_off g' /\ exists rest, ls = trunc cfg is_match false ls ++ rest.
Proof. exact stop_on_nonmatch_is_truncation_proof. Qed.
Print Assumptions stop_on_nonmatch_is_truncation.

Theorem truncation_only_after_result_then_nonresult :
  forall cfg is_match ls m rest, ls = trunc cfg is_match m ls ++ rest -> rest <> [] ->
    exists pre l, trunc cfg is_match m ls = pre ++ [l] /\ GrepStop.sc cfg is_match l = false /\
                  (m = true \/ Exists (fun x => GrepStop.sc cfg is_match x = true) pre).
Proof. exact trunc_cut. Qed.
Print Assumptions truncation_only_after_result_then_nonresult.

(* 9. the source tie (DESIGN §4.2): `DecisionsLib.is_line_by_line_fast` is regenerated on every run from the
      current text of Core::is_line_by_line_fast (crates/searcher/src/searcher/core.rs); it equals the model's path
      selection for every configuration, matcher and core.  `nmb` is matcher.non_matching_bytes() as the source
      sees it (None or a set); the model keeps one membership function that is false for None. *)
From RG Require Gen.DecisionsLib Proofs.GenLibProofs.
Theorem is_line_by_line_fast_generated_eq_model :
  forall (cfg : config) (M : matcher) (c : core) (nmb : option (byte -> bool)),
    (forall b : byte, m_nonmatching M b = match nmb with Some f => f b | None => false end) ->
    DecisionsLib.is_line_by_line_fast (c_passthru cfg) (c_stop_on_nonmatch cfg) (has_matched c) (m_line_term M)
                                      (c_lt cfg) nmb
    = SearcherCore.is_line_by_line_fast cfg M c.
Proof. exact GenLibProofs.is_line_by_line_fast_eq. Qed.
Print Assumptions is_line_by_line_fast_generated_eq_model.
(* non-vacuity: every matcher has such an `nmb` *)
Example is_line_by_line_fast_tie_satisfiable : forall M : matcher,
  forall b : byte, m_nonmatching M b = match Some (m_nonmatching M) with Some f => f b | None => false end.
Proof. exact GenLibProofs.nm_agrees_some. Qed.
