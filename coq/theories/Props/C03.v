(* Props/C03.v — property C03: results follow the grep model (order, uniqueness, context windows,
   numbering).  Statements only; proofs are in Proofs/. *)
From RG Require Import Base.Bytes Model.Lines Model.SearcherCore Model.Glue Spec.GrepSpec
  Proofs.SlowPathProofs.

(* 1. SliceByLine::run on the slow line path = the grep reference, for every input, every
      configuration (context sizes, invert, passthru, line numbers, stop-on-nonmatch, any
      terminator incl. CRLF), every matcher, with a sink that always continues and binary
      detection off.  The event list determines order, line numbers, offsets, context kinds,
      separators and the final byte count. *)
Theorem slice_slow_eq_ref :
  forall (cfg : config) (M : matcher),
    c_binary cfg = BNone ->
    forall s : bytes,
    (forall c, is_line_by_line_fast cfg M c = false) ->
    slice_by_line_run cfg M (fun _ => Continue) s = RunOk (grep_ref cfg (m_is_match M) s).
Proof. exact slice_slow_eq_ref_proof. Qed.
Print Assumptions slice_slow_eq_ref.
