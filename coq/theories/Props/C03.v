(* Props/C03.v — property C03: results follow the grep model (order, uniqueness, context windows,
   numbering).  Statements only; proofs are in Proofs/. *)
From RG Require Import Base.Bytes Model.Lines Model.SearcherCore Model.Glue Spec.GrepSpec
  Proofs.SlowPathProofs.

(* 1. SliceByLine::run on the slow line path = the grep reference, for every input, every
      configuration (context sizes, invert, passthru, line numbers, stop-on-nonmatch, any
      terminator incl. CRLF), every matcher, with a sink that always continues and binary
      detection off.  The event list determines order, line numbers, offsets, context kinds,
      separators and the final byte count. *)
Theorem slice_slow_eq_ref :
  forall (cfg : config) (M : matcher),
    c_binary cfg = BNone ->
    forall s : bytes,
    (forall c, is_line_by_line_fast cfg M c = false) ->
    slice_by_line_run cfg M (fun _ => Continue) s = RunOk (grep_ref cfg (m_is_match M) s).
Proof. exact slice_slow_eq_ref_proof. Qed.
Print Assumptions slice_slow_eq_ref.

(* 2. the same for the fast (candidate based) line path, non-inverted search: for every matcher
      whose find_by_line_fast obeys its contract on whole-line buffers ("the line found is the
      first remaining line the pattern matches; none means no remaining line matches" — this is
      what property C11/C01 establish for the regex matcher), whichever of the two paths
      is_line_by_line_fast selects, including the switch to the slow path once stop-on-nonmatch
      has seen a match. *)
From RG Require Import Proofs.FastPathProofs.
Theorem slice_eq_ref_noninvert :
  forall (cfg : config) (M : matcher),
    c_binary cfg = BNone ->
    forall s : bytes,
    find_spec cfg M s -> c_invert cfg = false -> c_passthru cfg = false ->
    slice_by_line_run cfg M (fun _ => Continue) s = RunOk (grep_ref cfg (m_is_match M) s).
Proof. exact slice_eq_ref_noninvert_proof. Qed.
Print Assumptions slice_eq_ref_noninvert.
