(* Props/C03.v — property C03: results follow the grep model (order, uniqueness, context windows,
   numbering).  Statements only; proofs are in Proofs/. *)
From RG Require Import Base.Bytes Model.Lines Model.SearcherCore Model.Glue Spec.GrepSpec
  Proofs.SlowPathProofs.

(* 1. SliceByLine::run on the slow line path = the grep reference, for every input, every
      configuration (context sizes, invert, passthru, line numbers, stop-on-nonmatch, any
      terminator incl. CRLF), every matcher, with a sink that always continues and binary
      detection off.  The event list determines order, line numbers, offsets, context kinds,
      separators and the final byte count. *)
Theorem slice_slow_eq_ref :
  forall (cfg : config) (M : matcher),
    c_binary cfg = BNone ->
    forall s : bytes,
    (forall c, is_line_by_line_fast cfg M c = false) ->
    slice_by_line_run cfg M (fun _ => Continue) s = RunOk (grep_ref cfg (m_is_match M) s).
Proof. exact slice_slow_eq_ref_proof. Qed.
Print Assumptions slice_slow_eq_ref.

(* 2. the same for every configuration and whichever line path is_line_by_line_fast selects
      (fast candidate-based path, inverted or not, the switch to the slow path once
      stop-on-nonmatch has seen a match, passthru): for every matcher whose find_by_line_fast
      obeys its contract on whole-line buffers — "the line found is the first remaining line the
      pattern matches; none found means no remaining line matches", which is what properties
      C11/C01 establish for the regex matcher. *)
From RG Require Import Proofs.FastPathProofs.
Theorem slice_eq_ref :
  forall (cfg : config) (M : matcher),
    c_binary cfg = BNone ->
    forall s : bytes,
    find_spec cfg M s ->
    slice_by_line_run cfg M (fun _ => Continue) s = RunOk (grep_ref cfg (m_is_match M) s).
Proof. exact slice_eq_ref_proof. Qed.
Print Assumptions slice_eq_ref.
