(* Props/C03.v — under construction *)
From RG Require Import Base.Bytes.
