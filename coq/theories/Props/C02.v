(* Props/C02.v — property C02: results do not depend on how the input bytes reach the searcher.
   Statements only.
   PROVED here:
   1-3. the roll buffer (LineBuffer::fill/roll/ensure_capacity/consume) is a faithful window of the
        stream for EVERY read history, capacity >= 0 and growth policy: nothing is lost, duplicated
        or reordered; the searchable part ends right after a line terminator unless the stream is
        exhausted; the loop never runs out of fuel; and the strategy selection lemma.
   4-8. ReadByLine::run (incremental reader over the roll buffer) delivers exactly the events of the
        grep reference — hence of SliceByLine::run — for every input, configuration (context sizes,
        invert, passthru, line numbers, stop-on-nonmatch, any terminator), matcher obeying the
        find_by_line_fast / candidate contract, buffer capacity >= 0 and failure-free read history;
        the simulation of Proofs/SlowPathProofs.v / FastPathProofs.v carried across Core::roll.
        The final byte count equals the input length whenever the search is not cut short by
        stop-on-nonmatch; when it is, the reader reports the offset of the START of its buffer
        (<= the reference count): known finding D8 "EarlyEndByteCount", witnessed below.
   (Reads that fail: Props/C16.v, read-failure prefix theorem.) *)
From RG Require Import Base.Bytes Model.Lines Model.SearcherCore Model.Glue Model.ReadByLine
  Proofs.LineBufferProofs.

(* 1. one LineBuffer::fill, from any well-formed state, for any reader history and policy:
      the buffer remains the window of the stream that starts at absolute_byte_offset - pos, the
      reader holds exactly what follows, the old content is kept in front, and the searchable end
      (last_lineterm) is right after a terminator byte with no terminator after it — or the stream
      is exhausted and everything is searchable. *)
Theorem line_buffer_fill_is_stream_window :
  forall (S : bytes) (ltb : byte) (pol : alloc_policy) (lb : linebuf) (r : reader),
    lb_wf S lb r ->
    match lb_fill ltb pol lb r with
    | FillOk d lb' r' => fill_post S ltb (lb_roll lb) d lb' r' /\ lb_abs lb' = lb_abs lb /\ lb_pos lb' = 0
    | FillFuel => False
    | FillIoErr | FillAllocErr => True
    end.
Proof. exact lb_fill_spec. Qed.
Print Assumptions line_buffer_fill_is_stream_window.

(* 2. the initial buffer is well-formed, consuming searchable bytes keeps it well-formed *)
Theorem line_buffer_init_wf :
  forall (S : bytes) (cap : nat) (hist : list read_step), lb_wf S (lb_new cap) {| r_rest := S; r_hist := hist |}.
Proof. exact wf_init. Qed.
Print Assumptions line_buffer_init_wf.

Theorem line_buffer_consume_wf :
  forall (S : bytes) (lb : linebuf) (r : reader) (amt : nat),
    lb_wf S lb r -> amt <= lb_llt lb - lb_pos lb -> lb_wf S (lb_consume lb amt) r.
Proof. exact consume_wf. Qed.
Print Assumptions line_buffer_consume_wf.

(* 3. requesting multi-line mode for a matcher that cannot match the terminator changes nothing:
      the line-oriented strategy is used *)
Theorem multiline_flag_irrelevant :
  forall (cfg : config) (M : matcher) (r : nat -> reply) (s : bytes),
    m_nonmatching M (lt_byte (c_lt cfg)) = true ->
    search_slice cfg M r s = slice_by_line_run cfg M r s.
Proof.
  intros cfg M r s H. unfold search_slice, multi_line_with_matcher. rewrite H. now rewrite andb_false_r.
Qed.
Print Assumptions multiline_flag_irrelevant.

(* non-vacuity: 1-byte capacity, 1-byte reads, a two-line stream *)
Example fill_example :
  match lb_fill 10%N AEager (lb_new 1) {| r_rest := [97; 10; 98; 10]%N; r_hist := [RChunk 1; RChunk 1; RChunk 1] |} with
  | FillOk d lb' r' => d = true /\ lb_buffer lb' = [97; 10]%N /\ r_rest r' = [98; 10]%N
  | _ => False
  end.
Proof. vm_compute. auto. Qed.

(* ---------------------------------------------------------------------------------------------
   ReadByLine::run = the grep reference = SliceByLine::run *)
From RG Require Import Spec.GrepSpec Proofs.FastPathProofs Proofs.FindSpecProofs Proofs.ReaderProofs
  Model.ScriptedMatcher.

(* 4. the reader strategy with the growing buffer (BufferAllocation::Eager), a sink that always
      continues, binary detection off, a read history without failures (`chunks`: every read()
      delivers between 1 and n bytes, any n, any fragmentation), any initial capacity (0 included):
      the events are those of the reference run over the lines of the stream, in order, with the
      true offsets and line numbers; the byte count n of `finish` is the input length unless
      stop-on-nonmatch ended the search, and never exceeds the reference count. *)
Theorem reader_eq_ref :
  forall (cfg : config) (M : matcher), c_binary cfg = BNone -> (forall buf, find_spec cfg M buf) ->
  forall (cap : nat) (stream : bytes) (hist : list read_step), chunks hist ->
  let gf := g_run cfg (m_is_match M) (split_lines (lt_byte (c_lt cfg)) stream) in
  exists n, read_by_line_run cfg M (fun _ => Continue) AEager cap stream hist
            = RunOk (EBegin :: rev (g_out gf) ++ [EFinish n None]) /\
            (g_stopped gf = false -> n = length stream) /\ n <= g_off gf.
Proof. exact reader_eq_ref_proof. Qed.
Print Assumptions reader_eq_ref.

(* 4'. the same from the candidate contract of grep-matcher (Props/C03.v item 4) *)
Theorem reader_eq_ref_from_candidate_contract :
  forall (cfg : config) (M : matcher), c_binary cfg = BNone -> (forall buf, cand_ok cfg M buf) ->
  forall (cap : nat) (stream : bytes) (hist : list read_step), chunks hist ->
  let gf := g_run cfg (m_is_match M) (split_lines (lt_byte (c_lt cfg)) stream) in
  exists n, read_by_line_run cfg M (fun _ => Continue) AEager cap stream hist
            = RunOk (EBegin :: rev (g_out gf) ++ [EFinish n None]) /\
            (g_stopped gf = false -> n = length stream) /\ n <= g_off gf.
Proof.
  intros cfg M Hb Hc. apply reader_eq_ref_proof; [exact Hb|].
  intro buf. apply find_spec_of_cand_proof. apply Hc.
Qed.
Print Assumptions reader_eq_ref_from_candidate_contract.

(* 4''. the slow line path (passthru, or a matcher that does not advertise the terminator): every
        matcher, no contract *)
Theorem reader_slow_eq_ref :
  forall (cfg : config) (M : matcher), c_binary cfg = BNone ->
  (forall c, is_line_by_line_fast cfg M c = false) ->
  forall (cap : nat) (stream : bytes) (hist : list read_step), chunks hist ->
  let gf := g_run cfg (m_is_match M) (split_lines (lt_byte (c_lt cfg)) stream) in
  exists n, read_by_line_run cfg M (fun _ => Continue) AEager cap stream hist
            = RunOk (EBegin :: rev (g_out gf) ++ [EFinish n None]) /\
            (g_stopped gf = false -> n = length stream) /\ n <= g_off gf.
Proof. exact reader_slow_eq_ref_proof. Qed.
Print Assumptions reader_slow_eq_ref.

(* 5. any allocation policy (BufferAllocation::Error(limit) included): the same, or the run returns
      the allocation error (a line longer than capacity + limit) *)
Theorem reader_eq_ref_any_policy :
  forall (cfg : config) (M : matcher), c_binary cfg = BNone -> (forall buf, find_spec cfg M buf) ->
  forall (pol : alloc_policy) (cap : nat) (stream : bytes) (hist : list read_step), chunks hist ->
  let gf := g_run cfg (m_is_match M) (split_lines (lt_byte (c_lt cfg)) stream) in
  (exists n, read_by_line_run cfg M (fun _ => Continue) pol cap stream hist
             = RunOk (EBegin :: rev (g_out gf) ++ [EFinish n None]) /\
             (g_stopped gf = false -> n = length stream) /\ n <= g_off gf) \/
  ((exists limit, pol = AError limit) /\
   exists evs, read_by_line_run cfg M (fun _ => Continue) pol cap stream hist = RunErr evs).
Proof. exact reader_eq_ref_any_policy_proof. Qed.
Print Assumptions reader_eq_ref_any_policy.

(* 6. a search that stop-on-nonmatch does not cut short: the whole result, byte count included,
      is the reference *)
Theorem reader_complete_eq_ref :
  forall (cfg : config) (M : matcher), c_binary cfg = BNone -> (forall buf, find_spec cfg M buf) ->
  forall (cap : nat) (stream : bytes) (hist : list read_step), chunks hist ->
  g_stopped (g_run cfg (m_is_match M) (split_lines (lt_byte (c_lt cfg)) stream)) = false ->
  read_by_line_run cfg M (fun _ => Continue) AEager cap stream hist = RunOk (grep_ref cfg (m_is_match M) stream).
Proof. exact reader_complete_eq_ref_proof. Qed.
Print Assumptions reader_complete_eq_ref.

(* 7. reader strategy = slice strategy: the same events in the same order; the byte counts agree
      unless stop-on-nonmatch ended the search (then reader count <= slice count, finding D8) *)
Theorem reader_eq_slice :
  forall (cfg : config) (M : matcher), c_binary cfg = BNone -> (forall buf, find_spec cfg M buf) ->
  forall (cap : nat) (stream : bytes) (hist : list read_step), chunks hist ->
  exists evs n m,
    read_by_line_run cfg M (fun _ => Continue) AEager cap stream hist = RunOk (evs ++ [EFinish n None]) /\
    slice_by_line_run cfg M (fun _ => Continue) stream = RunOk (evs ++ [EFinish m None]) /\
    n <= m /\
    (g_stopped (g_run cfg (m_is_match M) (split_lines (lt_byte (c_lt cfg)) stream)) = false -> n = m).
Proof. exact reader_eq_slice_proof. Qed.
Print Assumptions reader_eq_slice.

(* 8. without stop-on-nonmatch the two strategies return the very same result, whatever the
      capacity and however the reads are fragmented *)
Theorem reader_eq_slice_complete :
  forall (cfg : config) (M : matcher), c_binary cfg = BNone -> (forall buf, find_spec cfg M buf) ->
  c_stop_on_nonmatch cfg = false ->
  forall (cap : nat) (stream : bytes) (hist : list read_step), chunks hist ->
  read_by_line_run cfg M (fun _ => Continue) AEager cap stream hist
  = slice_by_line_run cfg M (fun _ => Continue) stream.
Proof. exact reader_eq_slice_complete_proof. Qed.
Print Assumptions reader_eq_slice_complete.

(* non-vacuity.  The hypothesis is satisfiable for every configuration (Props/C03.v
   cand_ok_satisfiable); concrete runs with capacity 1 and 1-byte reads, so that the buffer grows
   and rolls in every round, with before- and after-context, a context break, line numbers and an
   unterminated last line: *)
Example reader_rolls_example :
  let cfg := {| c_lt := LTByte 10; c_invert := false; c_after := 1; c_before := 1; c_passthru := false;
                c_line_number := true; c_stop_on_nonmatch := false; c_binary := BNone; c_multi_line := false |} in
  let M := scripted cfg [ {| n_anch := false; n_bytes := [98]%N; n_real := true |} ] true 1%N in
  let s := [98; 10; 120; 10; 121; 10; 119; 10; 122; 10; 98; 10; 113; 10; 98]%N in
  read_by_line_run cfg M (fun _ => Continue) AEager 1 s (repeat (RChunk 1) 40) = RunOk (grep_ref cfg (m_is_match M) s)
  /\ read_by_line_run cfg M (fun _ => Continue) AEager 2 s (repeat (RChunk 3) 40) = RunOk (grep_ref cfg (m_is_match M) s)
  /\ read_by_line_run cfg M (fun _ => Continue) AEager 0 s [] = RunOk (grep_ref cfg (m_is_match M) s)
  /\ slice_by_line_run cfg M (fun _ => Continue) s = RunOk (grep_ref cfg (m_is_match M) s)
  /\ grep_ref cfg (m_is_match M) s =
     [EBegin; EMatched 0 (Some 1) [98; 10]%N; EContext CAfter 2 (Some 2) [120; 10]%N; EBreak;
      EContext CBefore 8 (Some 5) [122; 10]%N; EMatched 10 (Some 6) [98; 10]%N;
      EContext CAfter 12 (Some 7) [113; 10]%N; EMatched 14 (Some 8) [98]%N; EFinish 15 None].
Proof. vm_compute. repeat split; reflexivity. Qed.

(* the inverted fast path and the slow path (passthru), same capacity and reads *)
Example reader_rolls_invert_passthru_example :
  let cfg i p := {| c_lt := LTByte 10; c_invert := i; c_after := 0; c_before := 2; c_passthru := p;
                c_line_number := true; c_stop_on_nonmatch := false; c_binary := BNone; c_multi_line := false |} in
  let M i p := scripted (cfg i p) [ {| n_anch := false; n_bytes := [98]%N; n_real := true |} ] true 1%N in
  let s := [98; 10; 120; 10; 121; 10; 119; 10; 122; 10; 98; 10; 113; 10; 98; 10]%N in
  read_by_line_run (cfg true false) (M true false) (fun _ => Continue) AEager 1 s (repeat (RChunk 1) 40)
    = RunOk (grep_ref (cfg true false) (m_is_match (M true false)) s)
  /\ read_by_line_run (cfg false true) (M false true) (fun _ => Continue) AEager 1 s (repeat (RChunk 1) 40)
    = RunOk (grep_ref (cfg false true) (m_is_match (M false true)) s).
Proof. vm_compute. split; reflexivity. Qed.

(* finding D8 (EarlyEndByteCount): stop-on-nonmatch ends the search after line 2; the events agree,
   but the reader reports where its buffer started (0 with one big read, 2 with 1-byte reads and
   capacity 1) while the slice strategy reports the scan position 4 *)
Example early_end_byte_count_witness :
  let cfg := {| c_lt := LTByte 10; c_invert := false; c_after := 0; c_before := 0; c_passthru := false;
                c_line_number := true; c_stop_on_nonmatch := true; c_binary := BNone; c_multi_line := false |} in
  let M := scripted cfg [ {| n_anch := false; n_bytes := [97]%N; n_real := true |} ] true 1%N in
  let s := [97; 10; 98; 10; 99; 10]%N in
  read_by_line_run cfg M (fun _ => Continue) AEager 8 s [] = RunOk [EBegin; EMatched 0 (Some 1) [97; 10]%N; EFinish 0 None]
  /\ read_by_line_run cfg M (fun _ => Continue) AEager 1 s (repeat (RChunk 1) 20)
     = RunOk [EBegin; EMatched 0 (Some 1) [97; 10]%N; EFinish 2 None]
  /\ slice_by_line_run cfg M (fun _ => Continue) s = RunOk [EBegin; EMatched 0 (Some 1) [97; 10]%N; EFinish 4 None].
Proof. vm_compute. repeat split; reflexivity. Qed.

(* the allocation-error alternative of item 5 does occur: capacity 1, no growth allowed *)
Example alloc_error_example :
  let cfg := {| c_lt := LTByte 10; c_invert := false; c_after := 0; c_before := 0; c_passthru := false;
                c_line_number := true; c_stop_on_nonmatch := false; c_binary := BNone; c_multi_line := false |} in
  let M := scripted cfg [ {| n_anch := false; n_bytes := [97]%N; n_real := true |} ] true 1%N in
  read_by_line_run cfg M (fun _ => Continue) (AError 0) 1 [97; 10]%N [] = RunErr [EBegin].
Proof. vm_compute. reflexivity. Qed.

(* ---------------------------------------------------------------------------------------------
   One Searcher, many searches: no state leaks from one search into the next
   (Model/SearcherGlue.v: Searcher::{search_slice, search_reader, search_file_maybe_path},
   LineBufferReader::new / LineBuffer::clear, fill_multi_line_buffer_from_{reader,file}) *)
From RG Require Import Model.SearcherGlue Proofs.SearcherGlueProofs Proofs.SearcherGluePinned.

(* 9. ReadByLine::run from the buffer of a fresh Searcher is the model of items 4-8 *)
Theorem read_by_line_run_is_from_new :
  forall cfg M reply_of pol cap stream hist,
    fst (read_by_line_run_from cfg M reply_of pol (lb_new cap) stream hist)
    = read_by_line_run cfg M reply_of pol cap stream hist.
Proof. exact read_by_line_run_from_new. Qed.
Print Assumptions read_by_line_run_is_from_new.

(* 10. item 4 from ANY empty roll buffer — data = [], pos = last_lineterm = absolute_byte_offset = 0,
       whatever capacity earlier searches grew it to (what LineBuffer::clear leaves: lb_clear_is_empty) *)
Theorem reader_from_eq_ref :
  forall (cfg : config) (M : matcher), c_binary cfg = BNone -> (forall buf, find_spec cfg M buf) ->
  forall (lb0 : linebuf) (stream : bytes) (hist : list read_step), lb_empty lb0 -> chunks hist ->
  let gf := g_run cfg (m_is_match M) (split_lines (lt_byte (c_lt cfg)) stream) in
  exists n, fst (read_by_line_run_from cfg M (fun _ => Continue) AEager lb0 stream hist)
            = RunOk (EBegin :: rev (g_out gf) ++ [EFinish n None]) /\
            (g_stopped gf = false -> n = length stream) /\ n <= g_off gf.
Proof.
  intros cfg M Hbin Hfind lb0 stream hist He Hh gf.
  destruct (reader_from_run_proof cfg M Hbin (fun b _ => Hfind b) AEager lb0 stream hist He Hh)
    as [H|((limit & Hl) & _)]; [exact H|discriminate].
Qed.
Print Assumptions reader_from_eq_ref.

Theorem lb_clear_is_empty : forall lb, lb_empty (lb_clear lb).
Proof. exact lb_clear_empty. Qed.
Print Assumptions lb_clear_is_empty.

(* 11. whatever state earlier searches left the Searcher in (any line buffer, any multi-line buffer
       contents), a search delivers the same events (res_sim: equal, or equal up to the byte count
       of `finish`), and the very same result when stop-on-nonmatch does not cut it short.  Every
       source kind, every strategy (slice, roll buffer, multi-line), with or without transcoding,
       configuration error included.  [searched src] = the bytes the strategy runs on. *)
Theorem search_state_independent :
  forall (cfg : config) (M : matcher), c_binary cfg = BNone -> (forall buf, find_spec cfg M buf) ->
  forall (enc_set bom_sniffing : bool) (decode : bytes -> bytes) (st1 st2 : searcher_state) (src : source),
    src_ok src ->
    res_sim (fst (search cfg M enc_set bom_sniffing decode (fun _ => Continue) st1 src))
            (fst (search cfg M enc_set bom_sniffing decode (fun _ => Continue) st2 src)) /\
    (g_stopped (g_run cfg (m_is_match M)
                  (split_lines (lt_byte (c_lt cfg)) (searched enc_set bom_sniffing decode src))) = false ->
     fst (search cfg M enc_set bom_sniffing decode (fun _ => Continue) st1 src)
     = fst (search cfg M enc_set bom_sniffing decode (fun _ => Continue) st2 src)).
Proof. exact search_state_independent_proof. Qed.
Print Assumptions search_state_independent.

(* 12. hence for a whole walk: one Searcher (built with any capacity, started in any state) searching
       a list of sources one after the other returns, for each, what a FRESH Searcher returns —
       the same events, and the same results when stop-on-nonmatch is off.  (The byte count after an
       early stop, finding D8, is the only history-dependent observable: it depends on the capacity
       the roll buffer was grown to by earlier searches; witness below.) *)
Theorem search_history_independent :
  forall (cfg : config) (M : matcher), c_binary cfg = BNone -> (forall buf, find_spec cfg M buf) ->
  forall (enc_set bom_sniffing : bool) (decode : bytes -> bytes) (cap : nat)
         (srcs : list source) (st : searcher_state),
    Forall src_ok srcs ->
    let results := fst (search_seq cfg M enc_set bom_sniffing decode st
                                   (map (fun src => (src, fun _ : nat => Continue)) srcs)) in
    let fresh := map (fun src => fst (search cfg M enc_set bom_sniffing decode (fun _ => Continue) (ss_new cap) src)) srcs in
    Forall2 res_sim results fresh /\ (c_stop_on_nonmatch cfg = false -> results = fresh).
Proof. exact search_history_independent_proof. Qed.
Print Assumptions search_history_independent.

Theorem search_reachable_independent :
  forall (cfg : config) (M : matcher), c_binary cfg = BNone -> (forall buf, find_spec cfg M buf) ->
  forall (enc_set bom_sniffing : bool) (decode : bytes -> bytes) (cap : nat) (st : searcher_state) (src : source),
    reachable cfg M enc_set bom_sniffing decode cap st -> src_ok src ->
    res_sim (fst (search cfg M enc_set bom_sniffing decode (fun _ => Continue) st src))
            (fst (search cfg M enc_set bom_sniffing decode (fun _ => Continue) (ss_new cap) src)) /\
    (g_stopped (g_run cfg (m_is_match M)
                  (split_lines (lt_byte (c_lt cfg)) (searched enc_set bom_sniffing decode src))) = false ->
     fst (search cfg M enc_set bom_sniffing decode (fun _ => Continue) st src)
     = fst (search cfg M enc_set bom_sniffing decode (fun _ => Continue) (ss_new cap) src)).
Proof. exact search_reachable_independent_proof. Qed.
Print Assumptions search_reachable_independent.

(* 13. one input, any way of reaching the Searcher — search_slice, search_reader (any read history),
       search_file with or without a memory map — any Searcher states: the same events, the same
       result when not cut short (the same configuration error, if the matcher's line terminator is
       not the Searcher's), provided the transcoder is the identity on inputs that search_slice
       searches untranscoded.  (Before repair e67305d of finding D22 the multi-line branch of
       search_file did not check the configuration: pinned and refuted below.) *)
Theorem strategy_independent_events :
  forall (cfg : config) (M : matcher), c_binary cfg = BNone -> (forall buf, find_spec cfg M buf) ->
  forall (enc_set bom_sniffing : bool) (decode : bytes -> bytes) (st1 st2 : searcher_state) (src1 src2 : source),
    src_input src1 = src_input src2 -> src_ok src1 -> src_ok src2 ->
    (needs_transcoding enc_set bom_sniffing (src_input src1) = false -> decode (src_input src1) = src_input src1) ->
    res_sim (fst (search cfg M enc_set bom_sniffing decode (fun _ => Continue) st1 src1))
            (fst (search cfg M enc_set bom_sniffing decode (fun _ => Continue) st2 src2)) /\
    (g_stopped (g_run cfg (m_is_match M) (split_lines (lt_byte (c_lt cfg)) (decode (src_input src1)))) = false ->
     fst (search cfg M enc_set bom_sniffing decode (fun _ => Continue) st1 src1)
     = fst (search cfg M enc_set bom_sniffing decode (fun _ => Continue) st2 src2)).
Proof. exact strategy_independent_events_proof. Qed.
Print Assumptions strategy_independent_events.

(* non-vacuity: a two-file walk with one Searcher of capacity 1.  The first file has a long line:
   the roll buffer grows (capacity 1 -> 27) and stays grown; the second file is then searched by
   the reader, by the file entry point with 1-byte reads, and as a slice: the same events each
   time.  With stop-on-nonmatch the byte counts are 0 (reused, grown buffer), 2 and 4 — a fresh
   Searcher reports 2 for the second search: finding D8 is history-dependent. *)
Example reused_searcher_example :
  let cfg := {| c_lt := LTByte 10; c_invert := false; c_after := 0; c_before := 0; c_passthru := false;
                c_line_number := true; c_stop_on_nonmatch := true; c_binary := BNone; c_multi_line := false |} in
  let M := scripted cfg [ {| n_anch := false; n_bytes := [97]%N; n_real := true |} ] true 1%N in
  let K := fun _ : nat => Continue in
  let f1 := [120; 120; 120; 120; 120; 120; 120; 120; 120; 120; 10; 97; 10]%N in
  let f2 := [97; 10; 98; 10; 99; 10]%N in
  fst (search_seq cfg M false false (fun b => b) (ss_new 1)
         [(SrcReader f1 [], K); (SrcReader f2 [], K); (SrcFile false f2 (repeat (RChunk 1) 6), K); (SrcSlice f2, K)])
  = [RunOk [EBegin; EMatched 11 (Some 2) [97; 10]%N; EFinish 13 None];
     RunOk [EBegin; EMatched 0 (Some 1) [97; 10]%N; EFinish 0 None];
     RunOk [EBegin; EMatched 0 (Some 1) [97; 10]%N; EFinish 2 None];
     RunOk [EBegin; EMatched 0 (Some 1) [97; 10]%N; EFinish 4 None]]
  /\ lb_cap (ss_lb (snd (search cfg M false false (fun b => b) K (ss_new 1) (SrcReader f1 [])))) = 27
  /\ fst (search cfg M false false (fun b => b) K (ss_new 1) (SrcReader f2 []))
     = RunOk [EBegin; EMatched 0 (Some 1) [97; 10]%N; EFinish 2 None].
Proof. vm_compute. repeat split; reflexivity. Qed.

(* the multi-line strategies: the multi-line buffer is refilled, not appended to *)
Example reused_searcher_multi_line_example :
  let cfg := {| c_lt := LTByte 10; c_invert := false; c_after := 0; c_before := 0; c_passthru := false;
                c_line_number := true; c_stop_on_nonmatch := false; c_binary := BNone; c_multi_line := true |} in
  let M := scripted cfg [ {| n_anch := false; n_bytes := [97; 10; 98]%N; n_real := true |} ] true 0%N in
  let K := fun _ : nat => Continue in
  let f1 := [120; 120; 120; 10; 97; 10]%N in
  let f2 := [97; 10; 98; 10; 99; 10]%N in
  let r2 := RunOk [EBegin; EMatched 0 (Some 1) [97; 10; 98; 10]%N; EFinish 6 None] in
  multi_line_with_matcher cfg M = true
  /\ fst (search_seq cfg M false false (fun b => b) (ss_new 1)
            [(SrcReader f1 [], K); (SrcReader f2 [], K); (SrcFile false f2 [], K); (SrcFile true f2 [], K); (SrcSlice f2, K)])
     = [RunOk [EBegin; EFinish 6 None]; r2; r2; r2; r2].
Proof. vm_compute. split; reflexivity. Qed.

(* the seeded defects, as refuted variants of LineBuffer::clear / the buffer refill *)
Definition lb_clear_keeps_abs (lb : linebuf) : linebuf :=       (* absolute_byte_offset not reset *)
  {| lb_data := []; lb_cap := lb_cap lb; lb_cap0 := lb_cap0 lb; lb_pos := 0; lb_llt := 0; lb_abs := lb_abs lb |}.
Definition lb_clear_if_unconsumed (lb : linebuf) : linebuf :=   (* cleared only if bytes were left over *)
  if Nat.ltb (lb_pos lb) (lb_llt lb) then lb_clear lb else lb.

Example clear_variants_refuted :
  let cfg := {| c_lt := LTByte 10; c_invert := false; c_after := 0; c_before := 0; c_passthru := false;
                c_line_number := true; c_stop_on_nonmatch := false; c_binary := BNone; c_multi_line := false |} in
  let M := scripted cfg [ {| n_anch := false; n_bytes := [97]%N; n_real := true |} ] true 1%N in
  let K := fun _ : nat => Continue in
  let f1 := [120; 120; 120; 10; 97; 10]%N in
  let f2 := [97; 10; 98; 10]%N in
  let lb1 := snd (read_by_line_run_from cfg M K AEager (lb_new 1) f1 []) in   (* after the first file *)
  fst (read_by_line_run_from cfg M K AEager (lb_clear lb1) f2 [])
    = RunOk [EBegin; EMatched 0 (Some 1) [97; 10]%N; EFinish 4 None]
  /\ fst (read_by_line_run_from cfg M K AEager (lb_clear_keeps_abs lb1) f2 [])
    = RunOk [EBegin; EMatched 0 (Some 1) [97; 10]%N; EFinish 10 None]           (* 6 bytes of file 1 counted again *)
  /\ fst (read_by_line_run_from cfg M K AEager (lb_clear_if_unconsumed lb1) f2 [])
    = RunOk [EBegin; EMatched 0 (Some 1) [97; 10]%N; EFinish 10 None].
Proof. vm_compute. repeat split; reflexivity. Qed.

Example multi_line_buffer_append_refuted :                       (* buf.clear() skipped: read_to_end appends *)
  let cfg := {| c_lt := LTByte 10; c_invert := false; c_after := 0; c_before := 0; c_passthru := false;
                c_line_number := true; c_stop_on_nonmatch := false; c_binary := BNone; c_multi_line := true |} in
  let M := scripted cfg [ {| n_anch := false; n_bytes := [97; 10; 98]%N; n_real := true |} ] true 0%N in
  let K := fun _ : nat => Continue in
  let f1 := [120; 120; 120; 10; 97; 10]%N in
  let f2 := [97; 10; 98; 10; 99; 10]%N in
  multi_line_run cfg M K f2 = RunOk [EBegin; EMatched 0 (Some 1) [97; 10; 98; 10]%N; EFinish 6 None]
  /\ multi_line_run cfg M K (f1 ++ f2)
     = RunOk [EBegin; EMatched 6 (Some 3) [97; 10; 98; 10]%N; EFinish 12 None].   (* offsets, line numbers, count off *)
Proof. vm_compute. split; reflexivity. Qed.

(* finding D22 (confirmed on the crate; repaired in e67305d): before the repair the multi-line branch
   of search_file_maybe_path did not call check_config.  With multi_line(true), no memory map, a
   matcher whose line_terminator() differs from the Searcher's and whose pattern can match "\n",
   search_slice, search_reader and the memory-mapped file returned the configuration error while
   the heap-read file was searched.  The pre-repair entry point is pinned in
   Proofs/SearcherGluePinned.v (search_file_m_pinned; it agrees with the repaired one whenever the
   check passes: search_pinned_same); item 13 fails for it, and holds for the repaired model: *)
Theorem search_pinned_same_when_config_ok :
  forall cfg M enc_set bom_sniffing decode reply_of st src, check_config cfg M = true ->
    search_pinned cfg M enc_set bom_sniffing decode reply_of st src
    = search cfg M enc_set bom_sniffing decode reply_of st src.
Proof. exact search_pinned_same. Qed.
Print Assumptions search_pinned_same_when_config_ok.

Example config_check_skipped_by_multi_line_file_pinned_refuted :
  let cfg := {| c_lt := LTByte 10; c_invert := false; c_after := 0; c_before := 0; c_passthru := false;
                c_line_number := true; c_stop_on_nonmatch := false; c_binary := BNone; c_multi_line := true |} in
  let M0 := scripted cfg [ {| n_anch := false; n_bytes := [97; 10; 98]%N; n_real := true |} ] true 0%N in
  let M := {| m_is_match := m_is_match M0; m_find_candidate := m_find_candidate M0; m_line_term := Some (LTByte 13);
              m_nonmatching := m_nonmatching M0; m_find_at := m_find_at M0 |} in
  let K := fun _ : nat => Continue in
  let f := [97; 10; 98; 10; 99; 10]%N in
  let srcs := [SrcSlice f; SrcReader f []; SrcFile true f []; SrcFile false f []] in
  check_config cfg M = false
  /\ map (fun src => fst (search_pinned cfg M false false (fun b => b) K (ss_new 1) src)) srcs
     = [RunErr []; RunErr []; RunErr [];
        RunOk [EBegin; EMatched 0 (Some 1) [97; 10; 98; 10]%N; EFinish 6 None]]
  /\ ~ res_sim (fst (search_pinned cfg M false false (fun b => b) K (ss_new 1) (SrcSlice f)))
               (fst (search_pinned cfg M false false (fun b => b) K (ss_new 1) (SrcFile false f [])))
  /\ map (fun src => fst (search cfg M false false (fun b => b) K (ss_new 1) src)) srcs
     = [RunErr []; RunErr []; RunErr []; RunErr []].
Proof.
  vm_compute. split; [reflexivity|]. split; [reflexivity|]. split; [|reflexivity].
  intros [H|(evs & n & m & H & _)]; discriminate.
Qed.

(* ---- the multi-line heap buffer (Model/MultiLineBuffer.v: Searcher::fill_multi_line_buffer_from_reader /
   _from_file, the loops that slurp a reader before MultiLine::run; Spec/MultiLineBufferSpec.v) ----
   14. for EVERY stream, read history (short reads, Interrupted, hard errors), heap limit, buffer left by an
       earlier search and read_to_end slice policy the fill ends (fuel suffices) in one of three ways: the
       buffer IS the whole stream (and no limit is hit); the heap-limit error, exactly when a limit h is set
       and the stream has at least h bytes; a read error that the history really contains.  Never a part.
   15. without hard errors the outcome is determined: everything, or the heap-limit error (the exact condition).
   16. the same for the file variant (reserve + read_to_end shortcut without a limit).
   17. what the buffer held before (contents, capacity) does not matter.
   18. at search level: an error of the fill is returned with NO sink call; otherwise MultiLine::run sees the stream.
   19. the abstraction of this step in Model/SearcherGlue.v (fill_multi_line) is what the loops deliver.
   20. the documentation says the error comes "if the contents exceed the configured heap limit": refuted at
       the boundary — contents of exactly heap_limit bytes are rejected (finding HeapLimitBoundary, replayed on the crate). *)
From RG Require Import Model.MultiLineBuffer Spec.MultiLineBufferSpec Proofs.MultiLineBufferProofs.

Theorem ml_fill_never_truncates :
  forall cap0 heap_limit rooms b stream hist, 0 < cap0 ->
    fill_allowed heap_limit stream hist
      (outcome_of (ml_fill_from_reader_cap cap0 heap_limit rooms b {| r_rest := stream; r_hist := hist |})).
Proof. exact ml_fill_from_reader_allowed. Qed.
Print Assumptions ml_fill_never_truncates.

Theorem ml_fill_reads_everything :
  forall heap_limit rooms b stream hist, failure_free hist ->
    outcome_of (ml_fill_from_reader heap_limit rooms b {| r_rest := stream; r_hist := hist |})
    = fill_expected heap_limit stream.
Proof. exact ml_fill_from_reader_reads_everything. Qed.
Print Assumptions ml_fill_reads_everything.

Theorem ml_fill_from_file_never_truncates :
  forall heap_limit rooms file_len b stream hist,
    fill_allowed heap_limit stream hist
      (outcome_of (ml_fill_from_file heap_limit rooms file_len b {| r_rest := stream; r_hist := hist |})).
Proof. exact ml_fill_from_file_allowed. Qed.
Print Assumptions ml_fill_from_file_never_truncates.

Theorem ml_fill_from_file_reads_everything_thm :
  forall heap_limit rooms file_len b stream hist, failure_free hist ->
    outcome_of (ml_fill_from_file heap_limit rooms file_len b {| r_rest := stream; r_hist := hist |})
    = fill_expected heap_limit stream.
Proof. exact ml_fill_from_file_reads_everything. Qed.
Print Assumptions ml_fill_from_file_reads_everything_thm.

Theorem ml_fill_previous_buffer_irrelevant :
  forall cap0 heap_limit rooms b1 b2 r,
    outcome_of (ml_fill_from_reader_cap cap0 heap_limit rooms b1 r)
    = outcome_of (ml_fill_from_reader_cap cap0 heap_limit rooms b2 r).
Proof. exact ml_fill_state_independent. Qed.
Print Assumptions ml_fill_previous_buffer_irrelevant.

Theorem ml_fill_error_nothing_searched :
  forall cfg M heap_limit mmap_enabled reply_of rooms b stream hist,
    let f := ml_fill_from_reader heap_limit rooms b {| r_rest := stream; r_hist := hist |} in
    let res := fst (fst (search_reader_ml cfg M heap_limit mmap_enabled reply_of rooms b {| r_rest := stream; r_hist := hist |})) in
    ml_check_config cfg M heap_limit mmap_enabled = true ->
    match outcome_of f with
    | FilledWith c => c = stream /\ res = multi_line_run cfg M reply_of stream
    | HeapLimitError => heap_limit_hit heap_limit stream = true /\ res = RunErr []
    | ReadError => In RFail hist /\ res = RunErr []
    | NoAnswer => False
    end.
Proof. exact ml_search_reader_outcomes. Qed.
Print Assumptions ml_fill_error_nothing_searched.

Theorem ml_fill_is_glue_abstraction :
  forall st rooms b decoded hist, failure_free hist ->
    outcome_of (ml_fill_from_reader None rooms b {| r_rest := decoded; r_hist := hist |})
    = FilledWith (ss_ml (fill_multi_line st decoded)).
Proof. exact ml_fill_refines_glue. Qed.
Print Assumptions ml_fill_is_glue_abstraction.

(* "If the contents exceed the configured heap limit, then an error is returned": 4 bytes with heap limit 4 do
   not exceed it and are rejected all the same *)
Theorem ml_heap_limit_error_only_when_exceeded_refuted :
  ~ (forall heap_limit rooms b stream hist,
       outcome_of (ml_fill_from_reader heap_limit rooms b {| r_rest := stream; r_hist := hist |}) = HeapLimitError ->
       contents_exceed_limit heap_limit stream = true).
Proof.
  intros H. specialize (H (Some 4) [] mb_new [97; 98; 99; 10]%N [] (proj1 ml_heap_limit_boundary)).
  rewrite (proj2 ml_heap_limit_boundary) in H. discriminate.
Qed.
Print Assumptions ml_heap_limit_error_only_when_exceeded_refuted.

(* non-vacuity: a limit of 5 lets 4 bytes through 1-byte reads with interruptions (buffer reused from an earlier
   search); a hard error after the first byte is returned with nothing searched; capacity 2 grows 2 -> 4 -> 5 *)
Example ml_fill_examples :
  let s := [97; 98; 99; 10]%N in
  let old := {| mb_data := [1; 2; 3; 4; 5; 6; 7]%N; mb_cap := 9 |} in
  failure_free [RChunk 1; RInterrupted; RChunk 1; RInterrupted; RInterrupted; RChunk 1]
  /\ outcome_of (ml_fill_from_reader (Some 5) [] old
                   {| r_rest := s; r_hist := [RChunk 1; RInterrupted; RChunk 1; RInterrupted; RInterrupted; RChunk 1] |})
     = FilledWith s
  /\ outcome_of (ml_fill_from_reader (Some 5) [] old {| r_rest := s; r_hist := [RChunk 1; RFail] |}) = ReadError
  /\ outcome_of (ml_fill_from_reader None [2; 1] old {| r_rest := s; r_hist := [RInterrupted] |}) = FilledWith s
  /\ outcome_of (ml_fill_from_reader (Some 0) [] old {| r_rest := []; r_hist := [] |}) = HeapLimitError
  /\ (match ml_fill_from_reader_cap 2 (Some 5) [] old {| r_rest := s; r_hist := [] |} with
      | MlOk b tr _ => (mb_data b, rev tr, mb_cap b) = (s, [2; 2; 1], 9)
      | _ => False
      end)
  /\ (match ml_fill_from_reader_cap 2 (Some 4) [] old {| r_rest := s; r_hist := [] |} with
      | MlHeapErr b tr _ => rev tr = [2; 2]
      | _ => False
      end).
Proof.
  cbv zeta. split.
  - intros [H|[H|[H|[H|[H|[H|[]]]]]]]; discriminate.
  - vm_compute. repeat split; reflexivity.
Qed.

(* 21. fuel suffices: both fills always end (every history is finite; every iteration uses up a history entry
       or at least one byte, or is the last).
   22. the file variant of 18.
   23. the multi-line branches of Model/SearcherGlue.v (search_reader_m, search_file_m without a map) return what
       the searches with the fill loops put in return (no heap limit, no transcoding, failure-free history).
   24. search_reader reads through encoding_rs_io's pass-through BomPeeker (3-byte prefetch): the loop behind it
       still delivers everything or the heap-limit error; the prefetch itself cannot fail or hang without a hard
       error in the history. *)
Theorem ml_fill_fuel_suffices :
  forall heap_limit rooms b r, ml_fill_from_reader heap_limit rooms b r <> MlFuel.
Proof. exact ml_fill_from_reader_fuel_suffices. Qed.
Print Assumptions ml_fill_fuel_suffices.

Theorem ml_fill_from_file_fuel_suffices_thm :
  forall heap_limit rooms file_len b r, ml_fill_from_file heap_limit rooms file_len b r <> MlFuel.
Proof. exact ml_fill_from_file_fuel_suffices. Qed.
Print Assumptions ml_fill_from_file_fuel_suffices_thm.

Theorem ml_fill_from_file_error_nothing_searched :
  forall cfg M heap_limit mmap_enabled reply_of rooms file_len b stream hist,
    let f := ml_fill_from_file heap_limit rooms file_len b {| r_rest := stream; r_hist := hist |} in
    let res := fst (fst (search_file_ml cfg M heap_limit mmap_enabled reply_of rooms file_len b {| r_rest := stream; r_hist := hist |})) in
    ml_check_config cfg M heap_limit mmap_enabled = true ->
    match outcome_of f with
    | FilledWith c => c = stream /\ res = multi_line_run cfg M reply_of stream
    | HeapLimitError => heap_limit_hit heap_limit stream = true /\ res = RunErr []
    | ReadError => In RFail hist /\ res = RunErr []
    | NoAnswer => False
    end.
Proof. exact ml_search_file_outcomes. Qed.
Print Assumptions ml_fill_from_file_error_nothing_searched.

Theorem ml_search_reader_is_glue_search :
  forall cfg M mmap_enabled reply_of rooms b st s hist,
    multi_line_with_matcher cfg M = true -> failure_free hist ->
    fst (search_reader_m cfg M (fun x => x) reply_of st s hist)
    = fst (fst (search_reader_ml cfg M None mmap_enabled reply_of rooms b {| r_rest := s; r_hist := hist |})).
Proof. exact ml_search_reader_agrees_with_glue. Qed.
Print Assumptions ml_search_reader_is_glue_search.

Theorem ml_search_file_is_glue_search :
  forall cfg M reply_of rooms b st s hist,
    multi_line_with_matcher cfg M = true ->
    fst (search_file_m cfg M false false (fun x => x) reply_of st false s hist)
    = fst (fst (search_file_ml cfg M None false reply_of rooms (length s) b {| r_rest := s; r_hist := [] |})).
Proof. exact ml_search_file_agrees_with_glue. Qed.
Print Assumptions ml_search_file_is_glue_search.

Theorem ml_fill_behind_peeker :
  forall heap_limit rooms b stream hist, failure_free hist ->
    exists got tr r', peek_loop (ml_fuel {| r_rest := stream; r_hist := hist |}) 3 [] [] {| r_rest := stream; r_hist := hist |}
                      = PeekOk got tr r' /\
      outcome_of (ml_fill_from_reader heap_limit rooms b (peeked_reader got r')) = fill_expected heap_limit stream.
Proof. exact ml_fill_behind_peeker_lemma. Qed.
Print Assumptions ml_fill_behind_peeker.

(* non-vacuity of 23/24: a multi-line matcher, 1-byte reads with an interruption inside the 3-byte prefetch *)
Example ml_glue_and_peeker_example :
  let cfg := {| c_lt := LTByte 10; c_invert := false; c_after := 0; c_before := 0; c_passthru := false;
                c_line_number := true; c_stop_on_nonmatch := false; c_binary := BNone; c_multi_line := true |} in
  let M := scripted cfg [ {| n_anch := false; n_bytes := [97; 10; 98]%N; n_real := true |} ] true 0%N in
  let K := fun _ : nat => Continue in
  let s := [97; 10; 98; 10; 99; 10]%N in
  let h := [RChunk 1; RInterrupted; RChunk 1; RChunk 1; RChunk 1] in
  multi_line_with_matcher cfg M = true
  /\ fst (fst (search_reader_ml cfg M (Some 7) false K [] mb_new {| r_rest := s; r_hist := h |}))
     = RunOk [EBegin; EMatched 0 (Some 1) [97; 10; 98; 10]%N; EFinish 6 None]
  /\ fst (fst (search_reader_ml cfg M (Some 6) false K [] mb_new {| r_rest := s; r_hist := h |})) = RunErr []
  /\ peek_loop (ml_fuel {| r_rest := s; r_hist := h |}) 3 [] [] {| r_rest := s; r_hist := h |}
     = PeekOk [97; 10; 98]%N [1; 2; 2; 3] {| r_rest := [10; 99; 10]%N; r_hist := [RChunk 1] |}.
Proof. vm_compute. repeat split; reflexivity. Qed.

(* the source tie (DESIGN §4.2): the definitions of Gen/DecisionsLib.v are regenerated on every run from the
   current text of crates/searcher/src/searcher/mod.rs (Config::max_context, Searcher::multi_line_with_matcher,
   Searcher::slice_needs_transcoding); they equal the model definitions for all arguments. *)
From RG Require Gen.DecisionsLib Proofs.GenLibProofs Model.Decode.
Theorem max_context_generated_eq_model : forall cfg : config,
  DecisionsLib.max_context (c_before cfg) (c_after cfg) = SearcherCore.max_context cfg.
Proof. exact GenLibProofs.max_context_eq. Qed.
Print Assumptions max_context_generated_eq_model.

Theorem multi_line_with_matcher_generated_eq_model :
  forall (cfg : config) (M : matcher) (nmb : option (byte -> bool)),
    (forall b : byte, m_nonmatching M b = match nmb with Some f => f b | None => false end) ->
    DecisionsLib.multi_line_with_matcher (c_multi_line cfg) (m_line_term M) (c_lt cfg) nmb
    = Glue.multi_line_with_matcher cfg M.
Proof. exact GenLibProofs.multi_line_with_matcher_eq. Qed.
Print Assumptions multi_line_with_matcher_generated_eq_model.
Example multi_line_tie_satisfiable : forall M : matcher,
  forall b : byte, m_nonmatching M b = match Some (m_nonmatching M) with Some f => f b | None => false end.
Proof. exact GenLibProofs.nm_agrees_some. Qed.

Theorem slice_needs_transcoding_generated_eq_model : forall (enc_set bom_sniffing : bool) (s : bytes),
  DecisionsLib.slice_needs_transcoding enc_set bom_sniffing (SearcherGlue.slice_has_bom s)
  = SearcherGlue.needs_transcoding enc_set bom_sniffing s.
Proof. exact GenLibProofs.slice_needs_transcoding_eq_glue. Qed.
Print Assumptions slice_needs_transcoding_generated_eq_model.

Theorem slice_needs_transcoding_generated_eq_decode_model : forall (c : Decode.enc_config) (s : bytes),
  DecisionsLib.slice_needs_transcoding (match Decode.ec_encoding c with Some _ => true | None => false end)
                                       (Decode.ec_bom_sniffing c) (Decode.slice_has_bom s)
  = Decode.slice_needs_transcoding c s.
Proof. exact GenLibProofs.slice_needs_transcoding_eq_decode. Qed.
Print Assumptions slice_needs_transcoding_generated_eq_decode_model.
