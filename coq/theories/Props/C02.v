(* Props/C02.v — under construction *)
From RG Require Import Base.Bytes.
