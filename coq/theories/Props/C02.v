(* Props/C02.v — property C02: results do not depend on how the input bytes reach the searcher.
   Statements only.
   PROVED here: the roll buffer (LineBuffer::fill/roll/ensure_capacity/consume) is a faithful
   window of the stream for EVERY read history, capacity >= 0 and growth policy: nothing is lost,
   duplicated or reordered; the searchable part ends right after a line terminator unless the
   stream is exhausted; the loop never runs out of fuel; and the strategy selection lemma.
   NOT YET PROVED (tested on every run by model = code and reader = slice on generated cases,
   tools/props/C02.py): ReadByLine::run = SliceByLine::run on the event level (the simulation
   between Core::roll's re-basing and the slice run). *)
From RG Require Import Base.Bytes Model.Lines Model.SearcherCore Model.Glue Model.ReadByLine
  Proofs.LineBufferProofs.

(* 1. one LineBuffer::fill, from any well-formed state, for any reader history and policy:
      the buffer remains the window of the stream that starts at absolute_byte_offset - pos, the
      reader holds exactly what follows, the old content is kept in front, and the searchable end
      (last_lineterm) is right after a terminator byte with no terminator after it — or the stream
      is exhausted and everything is searchable. *)
Theorem line_buffer_fill_is_stream_window :
  forall (S : bytes) (ltb : byte) (pol : alloc_policy) (lb : linebuf) (r : reader),
    lb_wf S lb r ->
    match lb_fill ltb pol lb r with
    | FillOk d lb' r' => fill_post S ltb (lb_roll lb) d lb' r' /\ lb_abs lb' = lb_abs lb /\ lb_pos lb' = 0
    | FillFuel => False
    | FillIoErr | FillAllocErr => True
    end.
Proof. exact lb_fill_spec. Qed.
Print Assumptions line_buffer_fill_is_stream_window.

(* 2. the initial buffer is well-formed, consuming searchable bytes keeps it well-formed *)
Theorem line_buffer_init_wf :
  forall (S : bytes) (cap : nat) (hist : list read_step), lb_wf S (lb_new cap) {| r_rest := S; r_hist := hist |}.
Proof. exact wf_init. Qed.
Print Assumptions line_buffer_init_wf.

Theorem line_buffer_consume_wf :
  forall (S : bytes) (lb : linebuf) (r : reader) (amt : nat),
    lb_wf S lb r -> amt <= lb_llt lb - lb_pos lb -> lb_wf S (lb_consume lb amt) r.
Proof. exact consume_wf. Qed.
Print Assumptions line_buffer_consume_wf.

(* 3. requesting multi-line mode for a matcher that cannot match the terminator changes nothing:
      the line-oriented strategy is used *)
Theorem multiline_flag_irrelevant :
  forall (cfg : config) (M : matcher) (r : nat -> reply) (s : bytes),
    m_nonmatching M (lt_byte (c_lt cfg)) = true ->
    search_slice cfg M r s = slice_by_line_run cfg M r s.
Proof.
  intros cfg M r s H. unfold search_slice, multi_line_with_matcher. rewrite H. now rewrite andb_false_r.
Qed.
Print Assumptions multiline_flag_irrelevant.

(* non-vacuity: 1-byte capacity, 1-byte reads, a two-line stream *)
Example fill_example :
  match lb_fill 10%N AEager (lb_new 1) {| r_rest := [97; 10; 98; 10]%N; r_hist := [RChunk 1; RChunk 1; RChunk 1] |} with
  | FillOk d lb' r' => d = true /\ lb_buffer lb' = [97; 10]%N /\ r_rest r' = [98; 10]%N
  | _ => False
  end.
Proof. vm_compute. auto. Qed.
