(* Props/C18.v — property C18: preprocessor / decompression output is what gets searched; failures surface.
   Only statements; every proof is one `exact`.  `close_is_error`, `select_strategy`, `should_preprocess`,
   `should_decompress` are the definitions of Gen/DecisionsCli.v, translated from the current source text of
   crates/cli/src/process.rs and crates/core/search.rs on every run.  The consumer (the searcher reading
   from a reader) is a Section-style parameter: any state machine (wants, step, finish) asking for >= 1 byte. *)
From RG Require Import Base.Bytes Model.CliTypes Model.CliExpected Gen.DecisionsCli Model.Process Model.MainRun
  Spec.ExitSpec Proofs.DecisionsProofs Proofs.ProcessProofs Proofs.MainRunProofs
  Model.PreZipFlags Model.PreZipGen Spec.PreZipSpec Proofs.PreZipProofs.
Local Open Scope bool_scope.

(* 1. CommandReader::close reports an error exactly when this is the first close, the child did not succeed, and
      either its output had been read to the end or it wrote something to stderr *)
Theorem close_table : forall stdout_open wait_success eof stderr_is_empty : bool,
  close_is_error stdout_open wait_success eof stderr_is_empty = true <->
  stdout_open = true /\ wait_success = false /\ (eof = true \/ stderr_is_empty = false).
Proof. exact close_table_proof. Qed.
Print Assumptions close_table.

Theorem close_idempotent : forall c r,
  let '(_, r1) := cr_close c r in fst (cr_close c r1) = false /\ snd (cr_close c r1) = r1.
Proof. exact close_idempotent_proof. Qed.
Print Assumptions close_idempotent.

(* 2. the complete outcome of `--pre CMD` on a file whose command starts: in terms of the reference search of the
      command's stdout (r = its result, e = whether it read to the end, fed = the bytes it was given) *)
Theorem preprocessor_outcome_table :
  forall (S R : Type) (wants : S -> nat) (step : S -> bytes -> S * bool) (finish : S -> R) (s0 : S) c r e fed,
  ch_spawn_ok c = true ->
  search_bytes S R wants step finish s0 (ch_out c) = (CDone R r e, fed) ->
  search_preprocessor S R wants step finish s0 true c =
  (if e then (if ch_ok_full c then Some (inr r) else Some (inl (ECommand)))
   else (if close_is_error true (ch_ok_early c) false (is_nil (ch_err c)) then Some (inl EClose) else Some (inr r)),
   fed).
Proof. exact search_preprocessor_table. Qed.
Print Assumptions preprocessor_outcome_table.

Theorem decompress_outcome_table :
  forall (S R : Type) (wants : S -> nat) (step : S -> bytes -> S * bool) (finish : S -> R) (s0 : S) c raw r e fed,
  ch_spawn_ok c = true ->
  search_bytes S R wants step finish s0 (ch_out c) = (CDone R r e, fed) ->
  search_decompress S R wants step finish s0 true raw c =
  (if e then (if ch_ok_full c then Some (inr r) else Some (inl (ECommand)))
   else (if close_is_error true (ch_ok_early c) false (is_nil (ch_err c)) then Some (inl EClose) else Some (inr r)),
   fed).
Proof. exact search_decompress_table. Qed.
Print Assumptions decompress_outcome_table.

(* 3. what is searched is the child's stdout: a successful search through the command is the reference search
      of its stdout — same result, same bytes consumed, a prefix of the stdout, all of it if read to the end *)
Theorem searched_bytes_are_child_stdout :
  forall (S R : Type) (wants : S -> nat) (step : S -> bytes -> S * bool) (finish : S -> R),
  (forall s, 1 <= wants s) -> forall (s0 : S) c r fed,
  ch_spawn_ok c = true ->
  search_preprocessor S R wants step finish s0 true c = (Some (inr r), fed) ->
  exists e, search_bytes S R wants step finish s0 (ch_out c) = (CDone R r e, fed) /\
            (exists rest, fed ++ rest = ch_out c) /\ (e = true -> fed = ch_out c).
Proof. exact success_is_reference_result_proof. Qed.
Print Assumptions searched_bytes_are_child_stdout.

(* 4. a command cut short because ripgrep stopped reading (-m, -q, -l, binary detection) is not an error,
      whatever its exit status, provided it wrote nothing to stderr *)
Theorem early_stop_not_error :
  forall (S R : Type) (wants : S -> nat) (step : S -> bytes -> S * bool) (finish : S -> R) (s0 : S) c r fed,
  ch_spawn_ok c = true -> ch_err c = [] ->
  search_bytes S R wants step finish s0 (ch_out c) = (CDone R r false, fed) ->
  search_preprocessor S R wants step finish s0 true c = (Some (inr r), fed) /\
  (forall raw, search_decompress S R wants step finish s0 true raw c = (Some (inr r), fed)).
Proof. exact early_stop_not_error_proof. Qed.
Print Assumptions early_stop_not_error.

(* 5. failures surface: an error is reported iff the command could not be started (6), or its output was consumed
      and it did not succeed, or it was cut short, did not succeed and had written to stderr *)
Theorem preprocessor_failure_iff :
  forall (S R : Type) (wants : S -> nat) (step : S -> bytes -> S * bool) (finish : S -> R) (s0 : S) c r e fed,
  ch_spawn_ok c = true ->
  search_bytes S R wants step finish s0 (ch_out c) = (CDone R r e, fed) ->
  (search_preprocessor S R wants step finish s0 true c = (Some (inr r), fed) \/
   exists err, search_preprocessor S R wants step finish s0 true c = (Some (inl err), fed)) /\
  ((exists err, search_preprocessor S R wants step finish s0 true c = (Some (inl err), fed)) <->
   (e = true /\ ch_ok_full c = false) \/ (e = false /\ ch_ok_early c = false /\ ch_err c <> [])).
Proof. exact preprocessor_failure_iff_proof. Qed.
Print Assumptions preprocessor_failure_iff.

(* 6. a file that cannot be opened, a command that cannot be started: an error, nothing searched *)
Theorem start_failure :
  forall (S R : Type) (wants : S -> nat) (step : S -> bytes -> S * bool) (finish : S -> R) (s0 : S) c open_ok,
  (open_ok = false -> search_preprocessor S R wants step finish s0 open_ok c = (Some (inl EOpen), [])) /\
  (open_ok = true -> ch_spawn_ok c = false ->
   search_preprocessor S R wants step finish s0 open_ok c = (Some (inl ESpawn), [])).
Proof. exact start_failure_proof. Qed.
Print Assumptions start_failure.

(* 7. fuel never decides: the model of the search always yields a result *)
Theorem preprocessor_never_stuck :
  forall (S R : Type) (wants : S -> nat) (step : S -> bytes -> S * bool) (finish : S -> R),
  (forall s, 1 <= wants s) -> forall (s0 : S) open_ok c,
  fst (search_preprocessor S R wants step finish s0 open_ok c) <> None.
Proof. exact preprocessor_never_stuck_proof. Qed.
Print Assumptions preprocessor_never_stuck.

(* 8. selection: which of the four routines SearchWorker::search calls; in particular a file is searched directly
      iff it is not stdin, is not selected by --pre/--pre-glob, and is not a recognised compressed file under -z *)
Theorem selection : forall w : wcfg,
  let pre := w_pre_is_some w && (w_globs_empty w || negb (w_glob_is_ignore w)) in
  let dec := w_search_zip w && w_has_command w in
  worker_strategy w =
  if w_is_stdin w then StStdin else if pre then StPreprocess else if dec then StDecompress else StPath.
Proof. exact selection_proof. Qed.
Print Assumptions selection.

Theorem direct_search_iff : forall w : wcfg,
  worker_strategy w = StPath <->
  w_is_stdin w = false /\
  (w_pre_is_some w = false \/ (w_globs_empty w = false /\ w_glob_is_ignore w = true)) /\
  (w_search_zip w = false \/ w_has_command w = false).
Proof. exact direct_search_iff_proof. Qed.
Print Assumptions direct_search_iff.

(* 9. with C15: a failed search of some file makes the status 2 unless a match was found under --quiet *)
Theorem failure_sets_status_2 : forall (l : low) (base : cfg) (items : list item),
  c_setup_ok base = true ->
  choose_driver (l_mode l) (matches_possible (l_patterns_empty l) (l_max_count_zero l)) (low_threads l) = DSearch ->
  forallb item_no_pipe_serial items = true ->
  existsb item_err_serial items = true ->
  ~ (existsb item_match items = true /\ l_quiet l = true) ->
  o_status (run_model ParseOk l base items) = 2%N.
Proof. exact failure_status_2_proof. Qed.
Print Assumptions failure_sets_status_2.

(* ---- the full statements that the code does not satisfy (known findings), with witnesses ---- *)
(* a consumer that stops after its first chunk *)
Definition one_chunk_wants (_ : nat) : nat := 4.
Definition one_chunk_step (n : nat) (b : bytes) : nat * bool := (n + length b, false).

(* KNOWN FINDING EarlyStopWithStderrOutput: "a command terminated because ripgrep stopped reading early is not
   treated as an error" fails when the command had written anything to stderr (the heuristic documented in
   CommandReader::close): cut short, killed by the closed pipe, one byte on stderr -> error *)
Theorem early_stop_never_error_refuted :
  exists c, ch_spawn_ok c = true /\
    fst (search_bytes nat nat one_chunk_wants one_chunk_step (fun n => n) 0 (ch_out c)) = CDone nat 4 false /\
    fst (search_preprocessor nat nat one_chunk_wants one_chunk_step (fun n => n) 0 true c) = Some (inl EClose).
Proof.
  exists {| ch_spawn_ok := true; ch_out := [1;2;3;4;5;6;7;8]%N; ch_err := [119%N]; ch_ok_full := true;
            ch_ok_early := false |}.
  vm_compute. auto.
Qed.
Print Assumptions early_stop_never_error_refuted.

(* KNOWN FINDING DecompressorMissingSearchesRaw: "if the command cannot be started an error naming the file is
   reported" fails for -z: the raw (compressed) bytes are searched instead, silently *)
Theorem decompress_start_failure_is_error_refuted :
  forall (S R : Type) (wants : S -> nat) (step : S -> bytes -> S * bool) (finish : S -> R) (s0 : S) c raw r e fed,
  ch_spawn_ok c = false ->
  search_bytes S R wants step finish s0 raw = (CDone R r e, fed) ->
  search_decompress S R wants step finish s0 true raw c = (Some (inr r), fed).
Proof. exact search_decompress_fallback. Qed.
Print Assumptions decompress_start_failure_is_error_refuted.

(* 9. which of --pre / -z is in effect after ANY sequence of --pre CMD / --pre '' / --no-pre / -z / --no-search-zip
      (the update rules of defs.rs applied in command-line order): the documented override law — the last flag that
      speaks about a setting decides it (Spec/PreZipSpec.v, written from the flag documentation) *)
Theorem flag_override_law : forall l : list pz_event,
  final_state l = {| pz_pre := spec_pre l; pz_zip := spec_zip l |}.
Proof. exact final_state_spec. Qed.
Print Assumptions flag_override_law.

(* the same law for the update rules REGENERATED from defs.rs on every run (pre_update_value, pre_update_switch,
   zip_update of Gen/DecisionsCli.v): a change of <Pre as Flag>::update / <SearchZip as Flag>::update that breaks the
   documented law breaks this proof *)
Theorem flag_override_law_generated : forall l : list pz_event,
  gen_final_state l = {| pz_pre := spec_pre l; pz_zip := spec_zip l |}.
Proof. exact gen_final_state_spec. Qed.
Print Assumptions flag_override_law_generated.

Theorem pre_and_zip_exclusive : forall l p,
  pz_pre (final_state l) = Some p -> pz_zip (final_state l) = false.
Proof. exact pre_zip_exclusive_proof. Qed.
Print Assumptions pre_and_zip_exclusive.

Theorem pre_in_effect_never_empty : forall l, pz_pre (final_state l) <> Some [].
Proof. exact pre_never_empty_proof. Qed.
Print Assumptions pre_in_effect_never_empty.

(* an empty --pre value and --no-pre are the same flag, and neither touches the decompression setting *)
Theorem cancelling_pre_keeps_zip : forall l,
  pz_zip (final_state (l ++ [EPre []])) = pz_zip (final_state l) /\
  pz_zip (final_state (l ++ [ENoPre])) = pz_zip (final_state l) /\
  final_state (l ++ [EPre []]) = final_state (l ++ [ENoPre]).
Proof. exact cancel_pre_keeps_zip_proof. Qed.
Print Assumptions cancelling_pre_keeps_zip.

(* the looser reading "-z is in effect iff the last of -z/--no-search-zip is -z and no preprocessor is in effect" is
   NOT what the update rules do: `-z --pre x --no-pre` leaves neither in effect (an override is not undone) *)
Theorem zip_iff_last_switch_and_no_pre_refuted : exists l, pz_zip (final_state l) <> loose_zip l.
Proof. exact loose_zip_refuted_proof. Qed.
Print Assumptions zip_iff_last_switch_and_no_pre_refuted.

(* ---- non-vacuity ---- *)
(* a consumer that reads everything, 3 bytes at a time; result = number of bytes seen *)
Definition all_wants (_ : nat) : nat := 3.
Definition all_step (n : nat) (b : bytes) : nat * bool := (n + length b, true).

Example ex_success :
  search_preprocessor nat nat all_wants all_step (fun n => n) 0 true
    {| ch_spawn_ok := true; ch_out := [1;2;3;4;5]%N; ch_err := [120%N]; ch_ok_full := true; ch_ok_early := false |}
  = (Some (inr 5), [1;2;3;4;5]%N).
Proof. vm_compute. reflexivity. Qed.

Example ex_failure_after_output :
  fst (search_preprocessor nat nat all_wants all_step (fun n => n) 0 true
    {| ch_spawn_ok := true; ch_out := [1;2;3;4;5]%N; ch_err := []; ch_ok_full := false; ch_ok_early := false |})
  = Some (inl ECommand).
Proof. vm_compute. reflexivity. Qed.

Example ex_early_stop_silent_child_killed :
  search_preprocessor nat nat one_chunk_wants one_chunk_step (fun n => n) 0 true
    {| ch_spawn_ok := true; ch_out := [1;2;3;4;5;6;7;8]%N; ch_err := []; ch_ok_full := true; ch_ok_early := false |}
  = (Some (inr 4), [1;2;3;4]%N).
Proof. vm_compute. reflexivity. Qed.

Example ex_flags_zip_then_empty_pre :
  final_state [EPre [120%N]; EZip; EPre []] = {| pz_pre := None; pz_zip := true |}.
Proof. vm_compute. reflexivity. Qed.
Example ex_flags_pre_after_zip :
  final_state [EZip; EPre [120%N]] = {| pz_pre := Some [120%N]; pz_zip := false |}.
Proof. vm_compute. reflexivity. Qed.

Check close_table : forall stdout_open wait_success eof stderr_is_empty : bool,
  close_is_error stdout_open wait_success eof stderr_is_empty = true <->
  stdout_open = true /\ wait_success = false /\ (eof = true \/ stderr_is_empty = false).
Check early_stop_not_error :
  forall (S R : Type) (wants : S -> nat) (step : S -> bytes -> S * bool) (finish : S -> R) (s0 : S) c r fed,
  ch_spawn_ok c = true -> ch_err c = [] ->
  search_bytes S R wants step finish s0 (ch_out c) = (CDone R r false, fed) ->
  search_preprocessor S R wants step finish s0 true c = (Some (inr r), fed) /\
  (forall raw, search_decompress S R wants step finish s0 true raw c = (Some (inr r), fed)).
Check flag_override_law : forall l : list pz_event,
  final_state l = {| pz_pre := spec_pre l; pz_zip := spec_zip l |}.
Check cancelling_pre_keeps_zip : forall l,
  pz_zip (final_state (l ++ [EPre []])) = pz_zip (final_state l) /\
  pz_zip (final_state (l ++ [ENoPre])) = pz_zip (final_state l) /\
  final_state (l ++ [EPre []]) = final_state (l ++ [ENoPre]).
Check flag_override_law_generated : forall l : list pz_event,
  gen_final_state l = {| pz_pre := spec_pre l; pz_zip := spec_zip l |}.
