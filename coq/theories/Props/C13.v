(* Props/C13.v — property C13: multi-line search reports exactly the lines covered by the
   pattern's matches.  Statements only.
   PROVED here: termination of MultiLine::run for every input / matcher obeying the find_at
   contract / sink (the advance-by-one rule after an empty match is what makes it hold), and the
   strategy selection.  NOT YET PROVED (tested by the correspondence model = code = ml_ref on every
   run, see tools/props/C13.py): multi_line_run = ml_ref (Spec/MultiLineSpec.v), the full
   statement of the property. *)
From RG Require Import Base.Bytes Model.Lines Model.SearcherCore Model.Glue Proofs.FuelProofs.

(* 1. MultiLine::run always terminates: with the fuel the model gives its loops it never runs out
      of fuel — every sink step moves the position strictly forward (one extra byte after an empty
      match) or reaches the end of the input. *)
Theorem multi_line_run_terminates :
  forall (cfg : config) (M : matcher) (r : nat -> reply),
    find_at_ok M ->
    forall s : bytes, multi_line_run cfg M r s <> RunFuel.
Proof. exact multi_line_run_terminates_proof. Qed.
Print Assumptions multi_line_run_terminates.

(* 2. searching resumes on the WHOLE input (find_at with the current position), never on a
      sub-slice: look-around sees what precedes the resumption point (repair of D6). *)
Theorem find_uses_whole_input :
  forall (M : matcher) (c : core) (s : bytes), ml_find M c s = m_find_at M s (pos c).
Proof. reflexivity. Qed.
Print Assumptions find_uses_whole_input.

(* 3. the multi-line strategy is selected only when the matcher may match the terminator;
      otherwise `-U` runs the line-oriented strategy (property C02's "whether or not multi-line
      mode was requested"). *)
Theorem multiline_flag_irrelevant_without_terminator_matches :
  forall (cfg : config) (M : matcher) (r : nat -> reply) (s : bytes),
    m_nonmatching M (lt_byte (c_lt cfg)) = true ->
    search_slice cfg M r s = slice_by_line_run cfg M r s.
Proof.
  intros cfg M r s H. unfold search_slice, multi_line_with_matcher. rewrite H.
  now rewrite andb_false_r.
Qed.
Print Assumptions multiline_flag_irrelevant_without_terminator_matches.

(* non-vacuity: the contract is satisfiable and an empty-matching matcher terminates *)
Example empty_matcher_terminates :
  let cfg := {| c_lt := LTByte 10; c_invert := false; c_after := 0; c_before := 0; c_passthru := false;
                c_line_number := true; c_stop_on_nonmatch := false; c_binary := BNone; c_multi_line := true |} in
  let M := {| m_is_match := fun _ => true; m_find_candidate := fun _ => None; m_line_term := None;
              m_nonmatching := fun _ => false;
              m_find_at := fun s p => if Nat.leb p (length s) then Some (p, p) else None |} in
  multi_line_run cfg M (fun _ => Continue) [97; 10; 98; 10]%N
  = RunOk [EBegin; EMatched 0 (Some 1) [97; 10; 98; 10]%N; EFinish 4 None].
Proof. vm_compute. reflexivity. Qed.
