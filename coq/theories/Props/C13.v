(* Props/C13.v — under construction *)
From RG Require Import Base.Bytes.
