(* Props/C13.v — property C13: multi-line search reports exactly the lines covered by the
   pattern's matches.  Statements only.
   PROVED here: termination of MultiLine::run for every input / matcher obeying the find_at
   contract / sink (the advance-by-one rule after an empty match is what makes it hold), and the
   strategy selection; and, in the second part of this file, multi_line_run = ml_ref
   (Spec/MultiLineSpec.v), the full statement of the property, with its corollaries. *)
From RG Require Import Base.Bytes Model.Lines Model.SearcherCore Model.Glue Proofs.FuelProofs.

(* 1. MultiLine::run always terminates: with the fuel the model gives its loops it never runs out
      of fuel — every sink step moves the position strictly forward (one extra byte after an empty
      match) or reaches the end of the input. *)
Theorem multi_line_run_terminates :
  forall (cfg : config) (M : matcher) (r : nat -> reply),
    find_at_ok M ->
    forall s : bytes, multi_line_run cfg M r s <> RunFuel.
Proof. exact multi_line_run_terminates_proof. Qed.
Print Assumptions multi_line_run_terminates.

(* 2. searching resumes on the WHOLE input (find_at with the current position), never on a
      sub-slice: look-around sees what precedes the resumption point (repair of D6). *)
Theorem find_uses_whole_input :
  forall (M : matcher) (c : core) (s : bytes), ml_find M c s = m_find_at M s (pos c).
Proof. reflexivity. Qed.
Print Assumptions find_uses_whole_input.

(* 3. the multi-line strategy is selected only when the matcher may match the terminator;
      otherwise `-U` runs the line-oriented strategy (property C02's "whether or not multi-line
      mode was requested"). *)
Theorem multiline_flag_irrelevant_without_terminator_matches :
  forall (cfg : config) (M : matcher) (r : nat -> reply) (s : bytes),
    m_nonmatching M (lt_byte (c_lt cfg)) = true ->
    search_slice cfg M r s = slice_by_line_run cfg M r s.
Proof.
  intros cfg M r s H. unfold search_slice, multi_line_with_matcher. rewrite H.
  now rewrite andb_false_r.
Qed.
Print Assumptions multiline_flag_irrelevant_without_terminator_matches.

(* non-vacuity: the contract is satisfiable and an empty-matching matcher terminates *)
Example empty_matcher_terminates :
  let cfg := {| c_lt := LTByte 10; c_invert := false; c_after := 0; c_before := 0; c_passthru := false;
                c_line_number := true; c_stop_on_nonmatch := false; c_binary := BNone; c_multi_line := true |} in
  let M := {| m_is_match := fun _ => true; m_find_candidate := fun _ => None; m_line_term := None;
              m_nonmatching := fun _ => false;
              m_find_at := fun s p => if Nat.leb p (length s) then Some (p, p) else None |} in
  multi_line_run cfg M (fun _ => Continue) [97; 10; 98; 10]%N
  = RunOk [EBegin; EMatched 0 (Some 1) [97; 10; 98; 10]%N; EFinish 4 None].
Proof. vm_compute. reflexivity. Qed.

(* Props/C13_MultiLine.v — property C13, the event-level statement (appended to Props/C13.v):
   MultiLine::run delivers exactly the events of the declarative multi-line reference ml_ref
   (Spec/MultiLineSpec.v).  Statements only; proofs in Proofs/MultiLineProofs.v (with
   Proofs/MLGroup.v, Proofs/MLGeometry.v, Proofs/MLInvExt.v).

   PROVED, at full strength: for every input, every configuration SearcherBuilder::build can
   produce (passthru resets the context sizes) with binary detection off, every matcher obeying the
   find_at contract, and a sink that always continues (stopping sinks: property C16's prefix law),
       multi_line_run = ml_ref,
   inverted or not, with any context sizes.  The inverted search looks for the next match from the
   start of a line, not from the end of the previous match: for it the matcher must also be
   find_at_mono (searching from a later position, up to the start of the match found, finds the
   same match — true of every leftmost search over a fixed haystack); without it the statement is
   refuted (multi_line_inverted_nonmono_refuted).

   FINDINGS, both repaired in crates/searcher/src/searcher/glue.rs and mirrored in Model/Glue.v; the
   pre-repair behaviour is pinned in Proofs/MLPinned.v:
   1. printf 'a\nb\nc\n' | rg -U -B1 'a|\z'   printed line 3 as a context line of no match: an empty
      match at the very end of an input that ends with the line terminator has the empty line range
      [len, len); MultiLine::sink kept it as the pending range and the final flush called
      sink_context for it.  The repaired sink drops such a match.
   2. printf 'a\nbb\nc\n' | rg -U -v 'a\nb|b\nc'   reported line 3 although `rg -U` reports it as
      matching: sink_matched_inverted resumed at the end of the LAST LINE of a match, so a match
      starting on that line after the first one's end was never found.  The repaired function
      keeps looking for matches starting before the end of the excluded lines; the reference for
      the inverted search is now the property's own statement, the complement of the non-inverted
      flags (the old flags are kept as inv_flags_pinned). *)
From RG Require Import Base.Bytes Model.Lines Model.SearcherCore Model.Glue Spec.GrepSpec Spec.MultiLineSpec
  Proofs.LinesProofs Proofs.FuelProofs Proofs.MLGroup Proofs.MLGeometry Proofs.MultiLineProofs Proofs.MLPinned.

(* 4. the main theorem *)
Theorem multi_line_eq_ref :
  forall (cfg : config) (M : matcher),
    c_binary cfg = BNone -> find_at_ok M ->
    (c_passthru cfg = true -> c_after cfg = 0) ->
    (c_invert cfg = true -> find_at_mono M) ->
    forall s : bytes,
      multi_line_run cfg M (fun _ => Continue) s = RunOk (ml_ref cfg (m_find_at M) s).
Proof. exact multi_line_eq_ref_proof. Qed.
Print Assumptions multi_line_eq_ref.

(* 5. the property text, non-inverted.  ml_blocks: the line ranges (i, j) = lines i .. j-1 of the
      successive leftmost non-overlapping matches over the whole input, merged when they touch or
      overlap.
      - line t lies in a block iff one of those matches overlaps it (MultiLineSpec.covers);
      - blocks are disjoint, increasing and never adjacent;
      - the matched events are, in order, exactly one per non-empty block: the whole lines
        i .. j-1 as one slice of the input, with the offset and the number of line i;
      - so no line is reported twice: matched events are at least a line apart. *)
Theorem multi_line_blocks_are_the_overlapped_lines :
  forall (cfg : config) (M : matcher), find_at_ok M ->
    (c_passthru cfg = true -> c_after cfg = 0) ->
    forall s : bytes,
      let ltb := lt_byte (c_lt cfg) in
      let L := split_lines ltb s in
      (forall t, t < length L ->
         flagf (ml_blocks cfg (m_find_at M) s) t =
         existsb (covers (length s) (off ltb s t) (off ltb s (S t)) (lt_is_suffix (LTByte ltb) (nth t L [])))
                 (ml_matches (m_find_at M) (S (length s)) s 0)) /\
      sepb L 0 (ml_blocks cfg (m_find_at M) s).
Proof. exact blocks_flags. Qed.
Print Assumptions multi_line_blocks_are_the_overlapped_lines.

Theorem multi_line_matched_blocks :
  forall (cfg : config) (M : matcher),
    c_binary cfg = BNone -> find_at_ok M -> c_invert cfg = false ->
    (c_passthru cfg = true -> c_after cfg = 0) ->
    forall s : bytes,
      exists evs : list event,
        multi_line_run cfg M (fun _ => Continue) s = RunOk evs /\
        filter is_em evs = map (bev cfg s) (filter nonemptyb (ml_blocks cfg (m_find_at M) s)) /\
        em_sorted 0 (filter is_em evs).
Proof. exact matched_blocks. Qed.
Print Assumptions multi_line_matched_blocks.

(* 6. the property text, inverted: every line NOT overlapped by a match of ml_matches — the same
      matches as the non-inverted search — is delivered as its own match (lev t: its offset, its
      number, its bytes), in order, exactly once, and no other line is *)
Theorem multi_line_inverted_lines :
  forall (cfg : config) (M : matcher),
    c_binary cfg = BNone -> find_at_ok M -> find_at_mono M -> c_invert cfg = true ->
    (c_passthru cfg = true -> c_after cfg = 0) ->
    forall s : bytes,
      let ltb := lt_byte (c_lt cfg) in
      let L := split_lines ltb s in
      exists evs : list event,
        multi_line_run cfg M (fun _ => Continue) s = RunOk evs /\
        filter is_em evs =
        map (lev cfg s)
            (filter (fun t => negb (existsb (covers (length s) (off ltb s t) (off ltb s (S t))
                                               (lt_is_suffix (LTByte ltb) (nth t L [])))
                                            (ml_matches (m_find_at M) (S (length s)) s 0)))
                    (seq 0 (length L))).
Proof. exact inverted_lines. Qed.
Print Assumptions multi_line_inverted_lines.

(* 6a. line t is delivered by the inverted search iff it is not inside a block of the non-inverted
       search *)
Theorem inverted_is_complement :
  forall (cfg : config) (M : matcher),
    c_binary cfg = BNone -> find_at_ok M -> find_at_mono M -> c_invert cfg = true ->
    (c_passthru cfg = true -> c_after cfg = 0) ->
    forall s : bytes,
      let L := split_lines (lt_byte (c_lt cfg)) s in
      exists evs : list event,
        multi_line_run cfg M (fun _ => Continue) s = RunOk evs /\
        filter is_em evs =
          map (lev cfg s) (filter (fun t => negb (flagf (ml_blocks cfg (m_find_at M) s) t)) (seq 0 (length L))) /\
        (forall t, t < length L ->
           (In (lev cfg s t) (filter is_em evs) <-> flagf (ml_blocks cfg (m_find_at M) s) t = false)).
Proof. exact MultiLineProofs.inverted_is_complement. Qed.
Print Assumptions inverted_is_complement.

(* 7. the match the repaired sink drops is narrow: ml_dangling (some successive match has an empty
      line range) holds only for an empty match at the very end of an input that ends with the
      terminator *)
Theorem dangling_only_at_end :
  forall (cfg : config) (M : matcher), find_at_ok M -> forall s : bytes,
    ml_dangling cfg (m_find_at M) s = true ->
    In (length s, length s) (ml_matches (m_find_at M) (S (length s)) s 0) /\
    exists A, s = A ++ [lt_byte (c_lt cfg)].
Proof. exact ml_dangling_shape. Qed.
Print Assumptions dangling_only_at_end.

(* ------------------------------------------------------------------ the finding, pinned *)
Definition cfg_ex (inv : bool) (a b : nat) (pt : bool) : config :=
  {| c_lt := LTByte 10; c_invert := inv; c_after := a; c_before := b; c_passthru := pt;
     c_line_number := true; c_stop_on_nonmatch := false; c_binary := BNone; c_multi_line := true |}.

(* a matcher given by a table position -> match, clamped to the find_at contract *)
Definition tab_matcher (t : list (option (nat * nat))) : matcher :=
  {| m_is_match := fun _ => true; m_find_candidate := fun _ => None; m_line_term := None;
     m_nonmatching := fun _ => false;
     m_find_at := fun s p =>
       match nth p t None with
       | Some (a, b) => if Nat.leb p a && Nat.leb a b && Nat.leb b (length s) then Some (a, b) else None
       | None => None
       end |}.

Lemma tab_matcher_ok t : find_at_ok (tab_matcher t).
Proof.
  intros s p a b. cbn [m_find_at tab_matcher]. destruct (nth p t None) as [[a' b']|]; [|discriminate].
  destruct (Nat.leb_spec p a') as [H1|H1]; destruct (Nat.leb_spec a' b') as [H2|H2];
    destruct (Nat.leb_spec b' (length s)) as [H3|H3];
    cbn [andb]; intro H; try discriminate. injection H as <- <-. lia.
Qed.
Print Assumptions tab_matcher_ok.


(* the leftmost match among a list of matches: obeys the contract and is find_at_mono *)
Definition list_matcher (ms : list (nat * nat)) : matcher :=
  {| m_is_match := fun _ => true; m_find_candidate := fun _ => None; m_line_term := None;
     m_nonmatching := fun _ => false;
     m_find_at := fun s p =>
       find (fun m : nat * nat => Nat.leb p (fst m) && Nat.leb (fst m) (snd m) && Nat.leb (snd m) (length s)) ms |}.

Lemma list_matcher_ok ms : find_at_ok (list_matcher ms).
Proof.
  intros s p a b H. cbn [m_find_at list_matcher] in H. apply find_some in H as [_ H]. cbn [fst snd] in H.
  destruct (Nat.leb_spec p a); destruct (Nat.leb_spec a b); destruct (Nat.leb_spec b (length s)); try discriminate. lia.
Qed.
Print Assumptions list_matcher_ok.

Lemma list_matcher_mono ms : find_at_mono (list_matcher ms).
Proof.
  intros s p p' Hp. cbn [m_find_at list_matcher].
  induction ms as [|[a b] r IH]; [reflexivity|]. cbn [find fst snd].
  destruct (Nat.leb p a && Nat.leb a b && Nat.leb b (length s)) eqn:E1.
  - intro Hpa. apply andb_true_iff in E1 as [E1 E3]. apply andb_true_iff in E1 as [E1 E2].
    rewrite E2, E3. destruct (Nat.leb_spec p' a); [reflexivity|lia].
  - assert (E2 : Nat.leb p' a && Nat.leb a b && Nat.leb b (length s) = false).
    { destruct (Nat.leb_spec p' a) as [H|H]; [|reflexivity].
      destruct (Nat.leb_spec p a) as [H'|H']; [exact E1|lia]. }
    rewrite E2. exact IH.
Qed.
Print Assumptions list_matcher_mono.

(* 'a|\z' on "a\nb\nc\n": (0,1), then the empty match at 6 *)
Definition t_az : list (option (nat * nat)) := [Some (0, 1); Some (6, 6)].
Definition s_abc : bytes := [97; 10; 98; 10; 99; 10]%N.

(* the PRE-REPAIR MultiLine::run (Proofs/MLPinned.v) did not meet the reference: a context line of
   no match; the repaired run does *)
Theorem multi_line_eq_ref_pinned_refuted :
  exists (cfg : config) (M : matcher) (s : bytes),
    c_binary cfg = BNone /\ find_at_ok M /\ (c_passthru cfg = true -> c_after cfg = 0) /\
    ml_dangling cfg (m_find_at M) s = true /\
    multi_line_run_pinned cfg M (fun _ => Continue) s
      = RunOk [EBegin; EMatched 0 (Some 1) [97; 10]%N; EBreak; EContext CBefore 4 (Some 3) [99; 10]%N; EFinish 6 None] /\
    ml_ref cfg (m_find_at M) s = [EBegin; EMatched 0 (Some 1) [97; 10]%N; EFinish 6 None] /\
    multi_line_run cfg M (fun _ => Continue) s = RunOk (ml_ref cfg (m_find_at M) s).
Proof.
  exists (cfg_ex false 0 1 false), (tab_matcher t_az), s_abc.
  split; [reflexivity|]. split; [apply tab_matcher_ok|]. split; [discriminate|].
  split; [vm_compute; reflexivity|]. split; [vm_compute; reflexivity|]. split; vm_compute; reflexivity.
Qed.
Print Assumptions multi_line_eq_ref_pinned_refuted.

(* the hypothesis "passthru resets the context sizes" is needed: with passthru AND after-context
   (a configuration SearcherBuilder::build never produces) the run labels the lines after a match
   as passthru context, the grep model as after-context *)
Theorem multi_line_passthru_after_refuted :
  exists (cfg : config) (M : matcher) (s : bytes),
    c_binary cfg = BNone /\ find_at_ok M /\ c_passthru cfg = true /\ c_after cfg = 1 /\
    multi_line_run cfg M (fun _ => Continue) s <> RunOk (ml_ref cfg (m_find_at M) s).
Proof.
  exists (cfg_ex false 1 0 true), (tab_matcher [Some (0, 0)]), [10; 97; 97]%N.
  split; [reflexivity|]. split; [apply tab_matcher_ok|]. split; [reflexivity|]. split; [reflexivity|].
  vm_compute. discriminate.
Qed.
Print Assumptions multi_line_passthru_after_refuted.

(* 'a\nb|b\nc' on "a\nbb\nc\n": the matches (0,3) and (3,6) overlap all three lines; the PRE-REPAIR
   inverted search (Proofs/MLPinned.v) reported line 3, the repaired one reports nothing, as the
   reference says; the non-inverted search reports the three lines as one block *)
Definition s_abbc : bytes := [97; 10; 98; 98; 10; 99; 10]%N.
Definition m_ab_bc : matcher := list_matcher [(0, 3); (3, 6)].

Theorem multi_line_inverted_pinned_refuted :
  exists (cfg : config) (M : matcher) (s : bytes),
    c_binary cfg = BNone /\ find_at_ok M /\ find_at_mono M /\ c_invert cfg = true /\
    multi_line_run_pinned cfg M (fun _ => Continue) s
      = RunOk [EBegin; EMatched 5 (Some 3) [99; 10]%N; EFinish 7 None] /\
    ml_ref cfg (m_find_at M) s = [EBegin; EFinish 7 None] /\
    multi_line_run cfg M (fun _ => Continue) s = RunOk (ml_ref cfg (m_find_at M) s) /\
    multi_line_run (cfg_ex false 0 0 false) M (fun _ => Continue) s
      = RunOk [EBegin; EMatched 0 (Some 1) s; EFinish 7 None].
Proof.
  exists (cfg_ex true 0 0 false), m_ab_bc, s_abbc.
  split; [reflexivity|]. split; [apply list_matcher_ok|]. split; [apply list_matcher_mono|]. split; [reflexivity|].
  split; [vm_compute; reflexivity|]. split; [vm_compute; reflexivity|]. split; vm_compute; reflexivity.
Qed.
Print Assumptions multi_line_inverted_pinned_refuted.

(* find_at_mono is needed for the inverted search: a matcher that answers None from position 1 but
   finds (2,3) from position 2 makes the inverted search (which asks again from the start of line 2)
   exclude line 2, while the successive matches of the non-inverted search are just (0,1) *)
Theorem multi_line_inverted_nonmono_refuted :
  exists (cfg : config) (M : matcher) (s : bytes),
    c_binary cfg = BNone /\ find_at_ok M /\ c_invert cfg = true /\
    multi_line_run cfg M (fun _ => Continue) s = RunOk [EBegin; EFinish 4 None] /\
    ml_ref cfg (m_find_at M) s = [EBegin; EMatched 2 (Some 2) [98; 10]%N; EFinish 4 None].
Proof.
  exists (cfg_ex true 0 0 false), (tab_matcher [Some (0, 1); None; Some (2, 3)]), [97; 10; 98; 10]%N.
  split; [reflexivity|]. split; [apply tab_matcher_ok|]. split; [reflexivity|].
  split; vm_compute; reflexivity.
Qed.
Print Assumptions multi_line_inverted_nonmono_refuted.

(* ------------------------------------------------------------------ non-vacuity *)
(* "ab\ncd\nef\ngh\nij": matches (1,4) spanning a terminator, (4,5) in the last line of the first
   (overlap after locating), (6,7) in the next line (touching: merged), then the empty match at the
   end of the unterminated last line; line 4 is after-context *)
Definition s_ex : bytes := [97; 98; 10; 99; 100; 10; 101; 102; 10; 103; 104; 10; 105; 106]%N.
Definition t_ex : list (option (nat * nat)) :=
  [Some (1, 4); None; None; None; Some (4, 5); Some (6, 7); None; Some (14, 14)].

Example ml_example_blocks :
  multi_line_run (cfg_ex false 1 1 false) (tab_matcher t_ex) (fun _ => Continue) s_ex
  = RunOk [EBegin; EMatched 0 (Some 1) [97; 98; 10; 99; 100; 10; 101; 102; 10]%N;
           EContext CAfter 9 (Some 4) [103; 104; 10]%N; EMatched 12 (Some 5) [105; 106]%N; EFinish 14 None]
  /\ ml_dangling (cfg_ex false 1 1 false) (m_find_at (tab_matcher t_ex)) s_ex = false
  /\ ml_matches (m_find_at (tab_matcher t_ex)) (S (length s_ex)) s_ex 0 = [(1, 4); (4, 5); (6, 7); (14, 14)].
Proof. vm_compute. repeat split. Qed.

Example ml_example_blocks_is_ref :
  multi_line_run (cfg_ex false 1 1 false) (tab_matcher t_ex) (fun _ => Continue) s_ex
  = RunOk (ml_ref (cfg_ex false 1 1 false) (m_find_at (tab_matcher t_ex)) s_ex).
Proof.
  apply multi_line_eq_ref; [reflexivity|apply tab_matcher_ok|discriminate|discriminate].
Qed.

(* inverted: the lines not overlapped by a match, one event per line, with before-context *)
Example ml_example_inverted :
  multi_line_run (cfg_ex true 0 1 false) (list_matcher [(4, 7)]) (fun _ => Continue) s_ex
  = RunOk [EBegin; EMatched 0 (Some 1) [97; 98; 10]%N; EBreak;
           EContext CBefore 6 (Some 3) [101; 102; 10]%N;
           EMatched 9 (Some 4) [103; 104; 10]%N; EMatched 12 (Some 5) [105; 106]%N; EFinish 14 None]
  /\ multi_line_run (cfg_ex true 0 1 false) (list_matcher [(4, 7)]) (fun _ => Continue) s_ex
     = RunOk (ml_ref (cfg_ex true 0 1 false) (m_find_at (list_matcher [(4, 7)])) s_ex).
Proof.
  split; [vm_compute; reflexivity|].
  apply multi_line_eq_ref; [reflexivity|apply list_matcher_ok|discriminate|intros _; apply list_matcher_mono].
Qed.
