(* Props/C10.v — property C10: all reporting modes agree with each other.
   Only statements; every proof is one `exact` (witnesses of refutations by vm_compute).
   Vocabulary (Spec/ModesSpec.v): for one searcher event stream evs,
     count_matched evs        number of Matched events,
     count_submatches evs     total number of submatches of the Matched events,
     limited (-m N) n         min N n,
   every theorem is for all matchers (find_at), inputs and streams; `ev_ok` says the matcher obeys the
   grep-matcher contract on the haystacks concerned, `line_counting` that the search is line oriented
   or inverted (then every Matched event is one counted line). *)
From RG Require Import Base.Bytes Model.MatchIter Model.Replace Model.Sink Model.Summary Model.Standard
  Model.Json Spec.ReplaceSpec Spec.ModesSpec Proofs.SinkProofs Proofs.ModesProofs.

(* 1. match spans are re-discovered identically by all three printers: the spans StandardSink and
      JSONSink record, and the number SummarySink counts, are the successive matches that start
      before the end of the reported range (the "drop a trailing empty match" branches are dead) *)
Theorem standard_records_the_submatches :
  forall find_at env cfg buf rs re l,
    needs_match_granularity cfg = true -> successive find_at env buf rs re = Some l ->
    record_matches find_at cfg env buf rs re = Some (submatches_of buf rs re l).
Proof. exact record_matches_eq. Qed.
Print Assumptions standard_records_the_submatches.

Theorem json_records_the_submatches :
  forall find_at env buf rs re l,
    re <= length buf -> successive find_at env buf rs re = Some l ->
    json_record_matches find_at env buf rs re = Some (submatches_of buf rs re l).
Proof. exact json_record_matches_eq. Qed.
Print Assumptions json_records_the_submatches.

Theorem summary_counts_the_submatches :
  forall find_at env buf rs re l,
    successive find_at env buf rs re = Some l ->
    find_iter_at_in_context find_at env buf rs re count_cb 0 = Some (length (submatches_of buf rs re l)).
Proof. exact find_iter_count. Qed.
Print Assumptions summary_counts_the_submatches.

(* 2. --count prints the number of Matched events (limited by -m), for every stream *)
Theorem count_is_number_of_matched_events :
  forall find_at cfg env path w evs fins,
    line_counting env -> Forall (ev_ok find_at env) evs -> path_present cfg path ->
    (forall k, squashed env (fins k) = false) -> sc_kind cfg = KCount ->
    exists s, summary_run find_at cfg env path w evs fins = Some (s, true) /\
      w_out (ss_wtr s) = w_out w ++ count_output cfg env (spath cfg path) (limited (sc_max cfg) (count_matched evs)) /\
      ss_has_match cfg s = Nat.ltb 0 (limited (sc_max cfg) (count_matched evs)).
Proof. exact count_run_output. Qed.
Print Assumptions count_is_number_of_matched_events.

(* 3. ... which is the number of matched() calls the standard printer accepted and printed
      (StandardSink::match_count), and the JSON printer's *)
Theorem standard_match_count_is_number_of_matched_events :
  forall find_at env cfg path w evs fins,
    e_convert env = false -> no_after_wait env (st_max cfg) -> Forall (ev_ok find_at env) evs ->
    exists s, standard_run find_at cfg env path w evs fins = Some (s, true) /\
      sd_match_count s = limited (st_max cfg) (count_matched evs).
Proof. exact standard_run_count. Qed.
Print Assumptions standard_match_count_is_number_of_matched_events.

Theorem json_match_count_is_number_of_matched_events :
  forall find_at env cfg path evs fins,
    no_after_wait env (j_max cfg) -> Forall (ev_ok find_at env) evs ->
    exists s, json_run find_at cfg env path evs fins = Some (s, true) /\
      js_match_count s = limited (j_max cfg) (count_matched evs).
Proof. exact json_run_count. Qed.
Print Assumptions json_match_count_is_number_of_matched_events.

(* 4. --files-with-matches prints the path iff that count is positive; --files-without-match iff it
      is zero; --quiet prints nothing and reports a match iff it is positive *)
Theorem files_with_matches_iff_count_positive :
  forall find_at cfg env path w evs fins,
    line_counting env -> Forall (ev_ok find_at env) evs -> path_present cfg path ->
    (forall k, squashed env (fins k) = false) -> sc_kind cfg = KPathWithMatch -> sc_stats cfg = false ->
    exists s, summary_run find_at cfg env path w evs fins = Some (s, true) /\
      w_out (ss_wtr s) = w_out w ++ (if Nat.ltb 0 (limited (sc_max cfg) (count_matched evs))
                                     then path_line cfg env (spath cfg path) else []) /\
      ss_has_match cfg s = Nat.ltb 0 (limited (sc_max cfg) (count_matched evs)).
Proof. exact files_with_matches_output. Qed.
Print Assumptions files_with_matches_iff_count_positive.

Theorem files_without_match_iff_count_zero :
  forall find_at cfg env path w evs fins,
    line_counting env -> Forall (ev_ok find_at env) evs -> path_present cfg path ->
    (forall k, squashed env (fins k) = false) -> sc_kind cfg = KPathWithoutMatch ->
    exists s, summary_run find_at cfg env path w evs fins = Some (s, true) /\
      w_out (ss_wtr s) = w_out w ++ (if Nat.eqb (limited (sc_max cfg) (count_matched evs)) 0
                                     then path_line cfg env (spath cfg path) else []).
Proof. exact files_without_match_output. Qed.
Print Assumptions files_without_match_iff_count_zero.

Theorem quiet_status :
  forall find_at cfg env path w evs fins,
    line_counting env -> Forall (ev_ok find_at env) evs -> path_present cfg path ->
    (forall k, squashed env (fins k) = false) -> sc_kind cfg = KQuiet ->
    exists s, summary_run find_at cfg env path w evs fins = Some (s, true) /\
      w_out (ss_wtr s) = w_out w /\
      ss_has_match cfg s = Nat.ltb 0 (limited (sc_max cfg) (count_matched evs)).
Proof. exact quiet_verdict. Qed.
Print Assumptions quiet_status.

(* 5. --count-matches (and any summary mode with --stats), no -m: stats.matches is the total number
      of submatches, matched_lines the lines covered; in a multi-line non-inverted search the counter
      behind -c / -l / -q is that same total (documented: there --count is --count-matches) *)
Theorem count_matches_is_number_of_submatches :
  forall find_at env cfg, sc_max cfg = None ->
  forall evs k s st, ss_stats s = Some st -> Forall (ev_ok find_at env) evs ->
    exists s' st', feed (summary_step find_at cfg env) evs k s = Some (s', Go, k + length evs) /\
      ss_stats s' = Some st' /\ ss_path s' = ss_path s /\ ss_wtr s' = ss_wtr s /\
      s_matches st' = s_matches st + count_submatches find_at env evs /\
      s_matched_lines st' = s_matched_lines st + count_matched_lines env evs /\
      ss_match_count s' = ss_match_count s +
        (if e_multi env && negb (e_invert env) then count_submatches find_at env evs else count_matched evs).
Proof. exact summary_feed_stats. Qed.
Print Assumptions count_matches_is_number_of_submatches.

(* ... and so are the number of submatches in the JSON match messages and JSON's stats.matches *)
Theorem json_submatches_are_the_submatches :
  forall find_at env cfg, j_max cfg = None ->
  forall evs k s, Forall (ev_ok find_at env) evs ->
    exists s', feed (json_step find_at cfg env) evs k s = Some (s', Go, k + length evs) /\
      s_matches (js_stats s') = s_matches (js_stats s) + count_submatches find_at env evs /\
      json_submatch_total (js_out s') = json_submatch_total (js_out s) + count_submatches find_at env evs.
Proof. exact json_feed_stats. Qed.
Print Assumptions json_submatches_are_the_submatches.

(* 5b. the same with -m N (line-oriented counting): the three printers stop after the same Matched
       event (theorems 2-3), and over that consumed prefix of the stream
         consumed (-m N) evs = everything up to and including the N-th Matched event
       --count-matches prints the number of submatches, and JSON's stats.matches and the number of
       submatch objects in its match messages are that same number *)
Theorem count_matches_under_limit :
  forall find_at env cfg path w evs fins,
    line_counting env -> Forall (ev_ok find_at env) evs -> path_present cfg path ->
    (forall k, squashed env (fins k) = false) -> sc_kind cfg = KCountMatches ->
    exists s, summary_run find_at cfg env path w evs fins = Some (s, true) /\
      w_out (ss_wtr s) = w_out w ++
        (if negb (sc_exclude_zero cfg) || Nat.ltb 0 (limited (sc_max cfg) (count_matched evs))
         then path_field cfg (spath cfg path)
              ++ dec (count_submatches find_at env (consumed (sc_max cfg) evs)) ++ lt_bytes (e_lt env)
         else []).
Proof. exact count_matches_run_output_proof. Qed.
Print Assumptions count_matches_under_limit.

Theorem json_submatches_under_limit :
  forall find_at env cfg path evs fins,
    no_after_wait env (j_max cfg) -> Forall (ev_ok find_at env) evs ->
    exists s, json_run find_at cfg env path evs fins = Some (s, true) /\
      s_matches (js_stats s) = count_submatches find_at env (consumed (j_max cfg) evs) /\
      json_submatch_total (js_out s) = count_submatches find_at env (consumed (j_max cfg) evs).
Proof. exact json_run_submatches_proof. Qed.
Print Assumptions json_submatches_under_limit.

(* 5c. --only-matching in a line-oriented search writes exactly one record per recorded span (the
       spans being the submatches by theorem 1), so the number of -o records of a line is its
       number of submatches *)
From RG Require Import Spec.PrinterSpec Proofs.PrinterProofs.
Theorem only_matching_one_record_per_submatch :
  forall cfg env path sk w, st_only_matching cfg = true ->
    w_out (sink_slow cfg env path sk w)
    = w_out w ++ concat (map (span_record cfg env path sk true) (k_matches sk)).
Proof. exact sink_slow_only_matching_layout. Qed.
Print Assumptions only_matching_one_record_per_submatch.

(* 6. every genuinely matched line has a submatch — outside the known class D2 *)
Theorem matched_line_has_submatch :
  forall find_at env (m : sink_match),
    ev_ok find_at env (SMatched m) -> genuine find_at env m ->
    ~ EmptyMatchAtEndOfUnterminatedLastLine find_at env m ->
    0 < nsub find_at env m.
Proof. exact matched_line_has_submatch_proof. Qed.
Print Assumptions matched_line_has_submatch.

(* KNOWN FINDING D2: without the class exclusion the statement is false.
   witness: the line "abc" without terminator, a matcher whose only match is the empty one at 3 (`$`) *)
Definition d2_find (hay : bytes) (p : nat) : option (nat * nat) :=
  if Nat.leb p (length hay) then Some (length hay, length hay) else None.
Definition line_env : senv := mkEnv (LTByte 10) false false 0 false false.
Definition d2_match : sink_match := mkSM [97; 98; 99]%N 0 3 (Some 1) 0.
Theorem matched_line_has_submatch_refuted :
  exists find_at env m, successive find_at env (m_buf m) (m_rs m) (m_re m) <> None /\
    (exists s e, find_at (context_haystack env (m_buf m) (m_re m)) (m_rs m) = Some (s, e) /\ m_rs m <= s <= e) /\
    nsub find_at env m = 0.
Proof.
  exists d2_find, line_env, d2_match. split; [vm_compute; discriminate|]. split.
  - exists 3, 3. vm_compute. split; [reflexivity|lia].
  - vm_compute. reflexivity.
Qed.
Print Assumptions matched_line_has_submatch_refuted.

(* ... with the consequence the property statement names: -c says 1, --count-matches says 0 *)
Definition cfg_of (k : skind) (mx : option nat) : sconfig := mkSCfg k false true mx true [58]%N None.
Definition no_bin (_ : nat) : sfinish := mkFin 3 None.
Example d2_count_vs_count_matches :
  option_map (fun r => w_out (ss_wtr (fst r)))
    (summary_run d2_find (cfg_of KCount None) line_env (Some [102]%N) w_new [SMatched d2_match] no_bin)
    = Some [102; 58; 49; 10]%N                                    (* "f:1\n" *)
  /\ option_map (fun r => w_out (ss_wtr (fst r)))
    (summary_run d2_find (cfg_of KCountMatches None) line_env (Some [102]%N) w_new [SMatched d2_match] no_bin)
    = Some [102; 58; 48; 10]%N.                                   (* "f:0\n" *)
Proof. vm_compute. split; reflexivity. Qed.

(* 7. D13 (repaired by a fix: commit): in a multi-line inverted search every Matched event is one
      line and is counted as such.  The instance of theorem 2 on the former witness
      (`rg -U -v -c 'a\n'` on "a\nb\nc\n": lines 2 and 3 are reported) now prints 2. *)
Definition ml_inv_env : senv := mkEnv (LTByte 10) true true 0 false false.
Definition abc : bytes := [97; 10; 98; 10; 99; 10]%N.
Definition an_find (hay : bytes) (p : nat) : option (nat * nat) :=   (* the pattern a\n on "a\nb\nc\n" *)
  if Nat.eqb p 0 then Some (0, 2) else None.
Example count_inverted_multiline :
  option_map (fun r => w_out (ss_wtr (fst r)))
    (summary_run an_find (cfg_of KCount None) ml_inv_env (Some [102]%N) w_new
       [SMatched (mkSM abc 2 4 (Some 2) 2); SMatched (mkSM abc 4 6 (Some 3) 4)] (fun _ => mkFin 6 None))
  = Some [102; 58; 50; 10]%N.                                     (* "f:2\n" *)
Proof. vm_compute. reflexivity. Qed.
Theorem count_inverted_multiline_general :
  forall env, e_multi env = true -> e_invert env = true -> line_counting env.
Proof. intros env H1 H2. unfold line_counting. now rewrite H1, H2. Qed.
Print Assumptions count_inverted_multiline_general.

(* 8. KNOWN FINDING MultiLineMaxCountSummary: under -U with -m N the summary printer compares the
      limit with the number of matches, the JSON (and standard) printer with the number of blocks.
      witness: blocks "aXaXa\n" (3 matches) and "a\n" (1 match), -m 2: --count-matches says 3, JSON
      reports 4 submatches *)
Definition ml_env : senv := mkEnv (LTByte 10) true false 0 false false.
Definition ml_buf : bytes := [97; 88; 97; 88; 97; 10; 98; 10; 97; 10]%N.      (* "aXaXa\nb\na\n" *)
Definition a_find (hay : bytes) (p : nat) : option (nat * nat) :=               (* the pattern a *)
  match find (fun i => Nat.leb p i && match nth_error hay i with Some 97%N => true | _ => false end)
             (seq 0 (length hay)) with
  | Some i => Some (i, i + 1)
  | None => None
  end.
Definition ml_events : list sevent :=
  [SMatched (mkSM ml_buf 0 6 (Some 1) 0); SMatched (mkSM ml_buf 8 10 (Some 3) 8)].
Theorem multiline_max_count_refuted :
  exists find_at env evs mx,
    option_map (fun r => w_out (ss_wtr (fst r)))
      (summary_run find_at (cfg_of KCountMatches mx) env (Some [102]%N) w_new evs (fun _ => mkFin 10 None))
      = Some [102; 58; 51; 10]%N /\                                (* "f:3\n" *)
    option_map (fun r => json_submatch_total (js_out (fst r)))
      (json_run find_at (mkJCfg mx false) env (Some [102]%N) evs (fun _ => mkFin 10 None)) = Some 4.
Proof. exists a_find, ml_env, ml_events, (Some 2). vm_compute. split; reflexivity. Qed.
Print Assumptions multiline_max_count_refuted.

(* 9. --stats totals: main.rs folds `stats += file_stats`; the total is the field-wise sum *)
Theorem stats_are_sums :
  forall (per_file : list stats) (acc : stats),
    fold_left stats_add per_file acc = stats_add acc (stats_sum per_file).
Proof. exact stats_fold_sum. Qed.
Print Assumptions stats_are_sums.

(* 10. mode normalisation of hiargs.rs::from_low_args (hand-written mirror, compared with the rg
       binary by the check): -v --count-matches => --count ; -o --count => --count-matches *)
Inductive smode := MStandard | MCount | MCountMatches | MFilesWithMatches | MFilesWithoutMatch | MJson.
Definition normalise_mode (m : smode) (invert only_matching : bool) : smode :=
  match m with
  | MCountMatches => if invert then MCount else m
  | MCount => if only_matching then MCountMatches else m
  | _ => m
  end.
Definition summary_kind_of (quiet : bool) (m : smode) : option skind :=
  if quiet then Some KQuiet else
  match m with
  | MFilesWithMatches => Some KPathWithMatch
  | MFilesWithoutMatch => Some KPathWithoutMatch
  | MCount => Some KCount
  | MCountMatches => Some KCountMatches
  | _ => None
  end.
Theorem inverted_count_matches_is_count :
  forall o, summary_kind_of false (normalise_mode MCountMatches true o) = Some KCount.
Proof. intro o. reflexivity. Qed.
Print Assumptions inverted_count_matches_is_count.
Theorem only_matching_count_is_count_matches :
  forall v, summary_kind_of false (normalise_mode MCount v true) = Some KCountMatches.
Proof. intro v. reflexivity. Qed.
Print Assumptions only_matching_count_is_count_matches.

(* non-vacuity: a two-file-style instance of theorems 2-4 with real numbers: three events, two of
   them Matched, -m unlimited: count 2; with -m 1: count 1 *)
Definition ex_events : list sevent :=
  [SMatched (mkSM abc 0 2 (Some 1) 0); SContext (mkSC [98; 10]%N CAfter (Some 2) 2); SMatched (mkSM abc 4 6 (Some 3) 4)].
Example count_example :
  option_map (fun r => w_out (ss_wtr (fst r)))
    (summary_run a_find (cfg_of KCount None) line_env (Some [102]%N) w_new ex_events (fun _ => mkFin 6 None))
  = Some [102; 58; 50; 10]%N
  /\ option_map (fun r => w_out (ss_wtr (fst r)))
    (summary_run a_find (cfg_of KCount (Some 1)) line_env (Some [102]%N) w_new ex_events (fun _ => mkFin 6 None))
  = Some [102; 58; 49; 10]%N
  /\ limited (Some 1) (count_matched ex_events) = 1.
Proof. vm_compute. repeat split; reflexivity. Qed.

Check count_is_number_of_matched_events :
  forall find_at cfg env path w evs fins,
    line_counting env -> Forall (ev_ok find_at env) evs -> path_present cfg path ->
    (forall k, squashed env (fins k) = false) -> sc_kind cfg = KCount ->
    exists s, summary_run find_at cfg env path w evs fins = Some (s, true) /\
      w_out (ss_wtr s) = w_out w ++ count_output cfg env (spath cfg path) (limited (sc_max cfg) (count_matched evs)) /\
      ss_has_match cfg s = Nat.ltb 0 (limited (sc_max cfg) (count_matched evs)).
Check matched_line_has_submatch :
  forall find_at env (m : sink_match),
    ev_ok find_at env (SMatched m) -> genuine find_at env m ->
    ~ EmptyMatchAtEndOfUnterminatedLastLine find_at env m ->
    0 < nsub find_at env m.

(* 5d. --only-matching in a MULTI-LINE search (StandardImpl::sink_slow_multi_line_only_matching).
       The recorded submatches are ordered and disjoint (they are the successive matches, theorem 1) ... *)
From RG Require Import Spec.PrinterMultiLineSpec Proofs.PrinterMultiLineProofs.
Theorem recorded_submatches_are_ordered :
  forall find_at env buf rs re l,
    range_ok find_at env buf re -> successive find_at env buf rs re = Some l ->
    spans_ordered 0 (submatches_of buf rs re l).
Proof. exact recorded_submatches_ordered. Qed.
Print Assumptions recorded_submatches_are_ordered.

(* ... and for every block and every ordered list of recorded spans the output is exactly: for every line
   of the block in order, for every submatch in order that has at least one byte on the line's content
   (the line without its terminator), one record showing that part.  So a submatch spanning k lines
   gives k records (one per line it has content on), and the number of records is the sum over the
   submatches of the number of lines they have content on (pieces_of). *)
Theorem only_matching_multi_line_records :
  forall cfg env path sk w,
    st_only_matching cfg = true -> k_matches sk <> [] -> spans_ordered 0 (k_matches sk) ->
    w_out (sink_slow_multi_line cfg env path sk w)
    = w_out w ++ concat (om_block_records cfg env path sk (block_lines env sk) 0) /\
    length (om_block_records cfg env path sk (block_lines env sk) 0)
    = list_sum (map (pieces_of env sk (block_lines env sk)) (k_matches sk)).
Proof. exact only_matching_multi_line_records_proof. Qed.
Print Assumptions only_matching_multi_line_records.

(* ... joined to the cross-mode relations: for a Matched event of a multi-line search whose matcher
   obeys the contract, StandardSink::matched records the submatches (theorem 1), prints those records,
   and their number is nsub (the event's share of count_submatches = what --count-matches and JSON
   report, theorem 5) when every submatch has content on exactly one line; it is at least nsub when no
   submatch is in the class OnlyTerminatorsOrEmpty (known finding MultiLineOnlyMatchingDropsEmptyMatches) *)
Theorem only_matching_multi_line_event_records :
  forall find_at cfg env path m l w,
    e_multi env = true -> st_only_matching cfg = true ->
    range_ok find_at env (m_buf m) (m_re m) ->
    successive find_at env (m_buf m) (m_rs m) (m_re m) = Some l ->
    let subs := submatches_of (m_buf m) (m_rs m) (m_re m) l in
    let sk := sunk_of m subs in
    let recs := om_block_records cfg env path sk (block_lines env sk) 0 in
    subs <> [] ->
    record_matches find_at cfg env (m_buf m) (m_rs m) (m_re m) = Some subs /\
    w_out (impl_sink cfg env path sk w) = w_out (write_search_prelude cfg env path w) ++ concat recs /\
    length recs = list_sum (map (pieces_of env sk (block_lines env sk)) subs) /\
    (Forall (fun x => pieces_of env sk (block_lines env sk) x = 1) subs -> length recs = nsub find_at env m) /\
    (Forall (fun x => ~ OnlyTerminatorsOrEmpty env sk x) subs -> nsub find_at env m <= length recs).
Proof. exact only_matching_multi_line_event. Qed.
Print Assumptions only_matching_multi_line_event_records.

(* KNOWN FINDING MultiLineOnlyMatchingDropsEmptyMatches: without the class the count relation is false.
   witness `printf '\n\n\n' | rg -U -o '\n'`: 3 submatches (--count-matches 3), no record at all *)
Definition nl_find (hay : bytes) (p : nat) : option (nat * nat) :=          (* the pattern \n on "\n\n\n" *)
  if Nat.ltb p (length hay) then Some (p, p + 1) else None.
Definition nl3_match : sink_match := mkSM [10; 10; 10]%N 0 3 (Some 1) 0.
Definition cfg_only : stdconfig := mkStd false false true false false None false false false None None [58]%N [45]%N None.
Theorem only_matching_multi_line_one_record_per_submatch_refuted :
  exists find_at env cfg m,
    e_multi env = true /\ st_only_matching cfg = true /\ nsub find_at env m = 3 /\
    option_map (fun r => w_out (sd_wtr (fst r)))
      (standard_matched find_at cfg env m (standard_sink cfg None w_new)) = Some [].
Proof. exists nl_find, ml_env, cfg_only, nl3_match. vm_compute. repeat split; reflexivity. Qed.
Print Assumptions only_matching_multi_line_one_record_per_submatch_refuted.

(* non-vacuity (replayed on the binary: printf 'abc\nde\n' | rg -U -o -n -b --column 'c\nd' prints
   "1:3:2:c" and "2:3:2:d"): one submatch (2,5) spanning two lines gives two records, both carrying the
   column and byte offset of the START of the submatch *)
Definition cfg_only_nbc : stdconfig := mkStd false false true false false None true true false None None [58]%N [45]%N None.
Definition two_line_sunk : sunk := mkSunk [97; 98; 99; 10; 100; 101; 10]%N 0 (Some 1) None [(2, 5)].
Example only_matching_multi_line_example :
  spans_ordered 0 (k_matches two_line_sunk) /\
  w_out (sink_slow_multi_line cfg_only_nbc ml_env None two_line_sunk w_new)
  = [49; 58; 51; 58; 50; 58; 99; 10;  50; 58; 51; 58; 50; 58; 100; 10]%N /\
  pieces_of ml_env two_line_sunk (block_lines ml_env two_line_sunk) (2, 5) = 2.
Proof. vm_compute. repeat split; lia. Qed.

(* 5e. per-match (--vimgrep) records in a multi-line search: one record per line a submatch touches,
       or per submatch that touches a line at all with per_match_one_line (what --vimgrep sets) *)
Theorem per_match_multi_line_event_records :
  forall find_at cfg env path m l w,
    e_multi env = true -> st_only_matching cfg = false -> st_per_match cfg = true ->
    successive find_at env (m_buf m) (m_rs m) (m_re m) = Some l ->
    let subs := submatches_of (m_buf m) (m_rs m) (m_re m) l in
    let sk := sunk_of m subs in
    let recs := pm_block_records cfg env path sk in
    subs <> [] ->
    record_matches find_at cfg env (m_buf m) (m_rs m) (m_re m) = Some subs /\
    w_out (impl_sink cfg env path sk w) = w_out (write_search_prelude cfg env path w) ++ concat recs /\
    length recs = list_sum (map (fun x => let n := lines_touched (block_lines env sk) x in
                                          if st_per_match_one_line cfg then Nat.min 1 n else n) subs) /\
    (st_per_match_one_line cfg = true -> Forall (fun x => ~ TouchesNoLine env sk x) subs ->
     length recs = nsub find_at env m).
Proof. exact per_match_multi_line_event. Qed.
Print Assumptions per_match_multi_line_event_records.

(* OBSERVATION OUTSIDE THE PROPERTY (C10's statement does not name --vimgrep; this refutes a natural
   reading "one --vimgrep record per submatch under -U", not the property; not a known finding)
   MultiLinePerMatchDropsEmptyMatchAtLineStart: an empty match at the very start of a line
   of a multi-line block gets no --vimgrep record (`line.start() >= m.end()` breaks the loop before the
   first line), although --count-matches / JSON count it and the line-oriented --vimgrep prints it.
   witness: block "ab\n", empty matches at 0, 1, 2: 3 submatches, records only for columns 2 and 3.
   replay: printf 'abc\nde\n' | rg -U --vimgrep '(?:x|\n)*'  (5 records, --count-matches says 6) *)
Definition empties_find (hay : bytes) (p : nat) : option (nat * nat) :=
  if Nat.leb p (length hay) then Some (p, p) else None.
Definition ab_match : sink_match := mkSM [97; 98; 10]%N 0 3 (Some 1) 0.
Definition cfg_vimgrep : stdconfig := mkStd false false false true true None true false false None None [58]%N [45]%N None.
Theorem per_match_multi_line_one_record_per_submatch_refuted :
  exists find_at env cfg m,
    e_multi env = true /\ st_per_match cfg = true /\ st_per_match_one_line cfg = true /\
    nsub find_at env m = 3 /\
    option_map (fun r => w_out (sd_wtr (fst r)))
      (standard_matched find_at cfg env m (standard_sink cfg None w_new))
    = Some [49; 58; 50; 58; 97; 98; 10;  49; 58; 51; 58; 97; 98; 10]%N.      (* "1:2:ab\n1:3:ab\n" *)
Proof. exists empties_find, ml_env, cfg_vimgrep, ab_match. vm_compute. repeat split; reflexivity. Qed.
Print Assumptions per_match_multi_line_one_record_per_submatch_refuted.

(* who is in the two classes: an empty submatch never gets a multi-line -o record; a non-empty submatch
   that starts inside the block always gets a --vimgrep record (only empty ones can be dropped) *)
Theorem empty_submatch_is_dropped_by_only_matching :
  forall env sk m, snd m <= fst m -> OnlyTerminatorsOrEmpty env sk m.
Proof. exact empty_submatch_has_no_piece. Qed.
Print Assumptions empty_submatch_is_dropped_by_only_matching.

Theorem nonempty_submatch_gets_a_per_match_record :
  forall env sk m, fst m < snd m -> fst m < length (k_bytes sk) -> ~ TouchesNoLine env sk m.
Proof. exact nonempty_submatch_touches_a_line. Qed.
Print Assumptions nonempty_submatch_gets_a_per_match_record.
Example nonempty_submatch_example :
  ~ TouchesNoLine ml_env two_line_sunk (2, 5) /\ OnlyTerminatorsOrEmpty ml_env two_line_sunk (3, 3)
  /\ OnlyTerminatorsOrEmpty ml_env two_line_sunk (3, 4) /\ TouchesNoLine ml_env two_line_sunk (4, 4).
Proof. vm_compute. repeat split; try reflexivity. discriminate. Qed.

(* ... and a submatch that is plain — non-empty, inside the block, without a terminator byte, not starting
   with a CR under --crlf — has content on exactly one line, so it gets exactly one record; hence for an
   event all of whose submatches are plain the number of multi-line -o records IS its number of submatches
   (its share of count_submatches = --count-matches = JSON submatches, theorem 5) *)
Theorem plain_submatch_gets_exactly_one_only_matching_record :
  forall env sk m,
    fst m < snd m -> snd m <= length (k_bytes sk) ->
    (forall p, fst m <= p < snd m -> nth_error (k_bytes sk) p <> Some (lt_byte (e_lt env))) ->
    (e_lt env = LTCrlf -> nth_error (k_bytes sk) (fst m) <> Some 13%N) ->
    pieces_of env sk (block_lines env sk) m = 1.
Proof. exact plain_submatch_has_one_piece. Qed.
Print Assumptions plain_submatch_gets_exactly_one_only_matching_record.

Theorem only_matching_multi_line_count_is_count_submatches :
  forall find_at cfg env path m l,
    e_multi env = true -> st_only_matching cfg = true ->
    range_ok find_at env (m_buf m) (m_re m) ->
    successive find_at env (m_buf m) (m_rs m) (m_re m) = Some l ->
    let subs := submatches_of (m_buf m) (m_rs m) (m_re m) l in
    let sk := sunk_of m subs in
    subs <> [] -> Forall (plain_submatch env (m_bytes m)) subs ->
    length (om_block_records cfg env path sk (block_lines env sk) 0) = nsub find_at env m.
Proof. exact only_matching_multi_line_plain_event. Qed.
Print Assumptions only_matching_multi_line_count_is_count_submatches.

(* non-vacuity: "aXaXa\nb\na\n" block of theorem 8, pattern a: three plain submatches, three records *)
Example plain_event_example :
  length (om_block_records cfg_only ml_env None (sunk_of (mkSM ml_buf 0 6 (Some 1) 0) [(0, 1); (2, 3); (4, 5)])
            (block_lines ml_env (sunk_of (mkSM ml_buf 0 6 (Some 1) 0) [(0, 1); (2, 3); (4, 5)])) 0) = 3 /\
  nsub a_find ml_env (mkSM ml_buf 0 6 (Some 1) 0) = 3.
Proof. vm_compute. repeat split; reflexivity. Qed.

Check only_matching_multi_line_records :
  forall cfg env path sk w,
    st_only_matching cfg = true -> k_matches sk <> [] -> spans_ordered 0 (k_matches sk) ->
    w_out (sink_slow_multi_line cfg env path sk w)
    = w_out w ++ concat (om_block_records cfg env path sk (block_lines env sk) 0) /\
    length (om_block_records cfg env path sk (block_lines env sk) 0)
    = list_sum (map (pieces_of env sk (block_lines env sk)) (k_matches sk)).

(* the source tie (DESIGN §4.2): the definitions of Gen/DecisionsLib.v are regenerated on every run from the
   current text of crates/printer/src/summary.rs (SummaryKind::{requires_path, requires_stats, quit_early},
   SummarySink::should_quit) and crates/printer/src/standard.rs (StandardSink::{should_quit,
   match_more_than_limit}); they equal the model definitions for all arguments. *)
From RG Require Gen.DecisionsLib Proofs.GenLibProofs.
Theorem requires_path_generated_eq_model : forall k : skind,
  DecisionsLib.requires_path k = Summary.requires_path k.
Proof. exact GenLibProofs.requires_path_eq. Qed.
Print Assumptions requires_path_generated_eq_model.
Theorem requires_stats_generated_eq_model : forall k : skind,
  DecisionsLib.requires_stats k = Summary.requires_stats k.
Proof. exact GenLibProofs.requires_stats_eq. Qed.
Print Assumptions requires_stats_generated_eq_model.
Theorem quit_early_generated_eq_model : forall k : skind,
  DecisionsLib.quit_early k = Summary.quit_early k.
Proof. exact GenLibProofs.quit_early_eq. Qed.
Print Assumptions quit_early_generated_eq_model.
Theorem summary_should_quit_generated_eq_model : forall (cfg : sconfig) (match_count : nat),
  DecisionsLib.summary_should_quit (sc_max cfg) match_count = Summary.ss_should_quit cfg match_count.
Proof. exact GenLibProofs.summary_should_quit_eq. Qed.
Print Assumptions summary_should_quit_generated_eq_model.
Theorem standard_should_quit_generated_eq_model : forall (cfg : stdconfig) (match_count after_rem : nat),
  DecisionsLib.standard_should_quit (st_max cfg) match_count after_rem
  = Standard.sd_should_quit cfg match_count after_rem.
Proof. exact GenLibProofs.standard_should_quit_eq. Qed.
Print Assumptions standard_should_quit_generated_eq_model.
Theorem match_more_than_limit_generated_eq_model : forall (cfg : stdconfig) (match_count : nat),
  DecisionsLib.match_more_than_limit (st_max cfg) match_count = Standard.sd_more_than_limit cfg match_count.
Proof. exact GenLibProofs.match_more_than_limit_eq. Qed.
Print Assumptions match_more_than_limit_generated_eq_model.
Check quit_early_generated_eq_model : forall k : skind, DecisionsLib.quit_early k = Summary.quit_early k.
Check summary_should_quit_generated_eq_model : forall (cfg : sconfig) (match_count : nat),
  DecisionsLib.summary_should_quit (sc_max cfg) match_count = Summary.ss_should_quit cfg match_count.
Check standard_should_quit_generated_eq_model : forall (cfg : stdconfig) (match_count after_rem : nat),
  DecisionsLib.standard_should_quit (st_max cfg) match_count after_rem
  = Standard.sd_should_quit cfg match_count after_rem.

(* the same tie for crates/printer/src/json.rs JSONSink::{should_quit, match_more_than_limit} (Model/Json.v) *)
From RG Require Model.Json.
Theorem json_should_quit_generated_eq_model : forall (cfg : Json.jconfig) (match_count after_rem : nat),
  DecisionsLib.json_should_quit (Json.j_max cfg) match_count after_rem
  = Json.js_should_quit cfg match_count after_rem.
Proof. exact GenLibProofs.json_should_quit_eq. Qed.
Print Assumptions json_should_quit_generated_eq_model.
Theorem json_match_more_than_limit_generated_eq_model : forall (cfg : Json.jconfig) (match_count : nat),
  DecisionsLib.json_match_more_than_limit (Json.j_max cfg) match_count = Json.js_more_than_limit cfg match_count.
Proof. exact GenLibProofs.json_match_more_than_limit_eq. Qed.
Print Assumptions json_match_more_than_limit_generated_eq_model.
