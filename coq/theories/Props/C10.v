(* Props/C10.v — property C10: all reporting modes agree with each other.
   Only statements; every proof is one `exact` (witnesses of refutations by vm_compute).
   Vocabulary (Spec/ModesSpec.v): for one searcher event stream evs,
     count_matched evs        number of Matched events,
     count_submatches evs     total number of submatches of the Matched events,
     limited (-m N) n         min N n,
   every theorem is for all matchers (find_at), inputs and streams; `ev_ok` says the matcher obeys the
   grep-matcher contract on the haystacks concerned, `line_counting` that the search is line oriented
   or inverted (then every Matched event is one counted line). *)
From RG Require Import Base.Bytes Model.MatchIter Model.Replace Model.Sink Model.Summary Model.Standard
  Model.Json Spec.ReplaceSpec Spec.ModesSpec Proofs.SinkProofs Proofs.ModesProofs.

(* 1. match spans are re-discovered identically by all three printers: the spans StandardSink and
      JSONSink record, and the number SummarySink counts, are the successive matches that start
      before the end of the reported range (the "drop a trailing empty match" branches are dead) *)
Theorem standard_records_the_submatches :
  forall find_at env cfg buf rs re l,
    needs_match_granularity cfg = true -> successive find_at env buf rs re = Some l ->
    record_matches find_at cfg env buf rs re = Some (submatches_of buf rs re l).
Proof. exact record_matches_eq. Qed.
Print Assumptions standard_records_the_submatches.

Theorem json_records_the_submatches :
  forall find_at env buf rs re l,
    re <= length buf -> successive find_at env buf rs re = Some l ->
    json_record_matches find_at env buf rs re = Some (submatches_of buf rs re l).
Proof. exact json_record_matches_eq. Qed.
Print Assumptions json_records_the_submatches.

Theorem summary_counts_the_submatches :
  forall find_at env buf rs re l,
    successive find_at env buf rs re = Some l ->
    find_iter_at_in_context find_at env buf rs re count_cb 0 = Some (length (submatches_of buf rs re l)).
Proof. exact find_iter_count. Qed.
Print Assumptions summary_counts_the_submatches.

(* 2. --count prints the number of Matched events (limited by -m), for every stream *)
Theorem count_is_number_of_matched_events :
  forall find_at cfg env path w evs fins,
    line_counting env -> Forall (ev_ok find_at env) evs -> path_present cfg path ->
    (forall k, squashed env (fins k) = false) -> sc_kind cfg = KCount ->
    exists s, summary_run find_at cfg env path w evs fins = Some (s, true) /\
      w_out (ss_wtr s) = w_out w ++ count_output cfg env (spath cfg path) (limited (sc_max cfg) (count_matched evs)) /\
      ss_has_match cfg s = Nat.ltb 0 (limited (sc_max cfg) (count_matched evs)).
Proof. exact count_run_output. Qed.
Print Assumptions count_is_number_of_matched_events.

(* 3. ... which is the number of matched() calls the standard printer accepted and printed
      (StandardSink::match_count), and the JSON printer's *)
Theorem standard_match_count_is_number_of_matched_events :
  forall find_at env cfg path w evs fins,
    e_convert env = false -> no_after_wait env (st_max cfg) -> Forall (ev_ok find_at env) evs ->
    exists s, standard_run find_at cfg env path w evs fins = Some (s, true) /\
      sd_match_count s = limited (st_max cfg) (count_matched evs).
Proof. exact standard_run_count. Qed.
Print Assumptions standard_match_count_is_number_of_matched_events.

Theorem json_match_count_is_number_of_matched_events :
  forall find_at env cfg path evs fins,
    no_after_wait env (j_max cfg) -> Forall (ev_ok find_at env) evs ->
    exists s, json_run find_at cfg env path evs fins = Some (s, true) /\
      js_match_count s = limited (j_max cfg) (count_matched evs).
Proof. exact json_run_count. Qed.
Print Assumptions json_match_count_is_number_of_matched_events.

(* 4. --files-with-matches prints the path iff that count is positive; --files-without-match iff it
      is zero; --quiet prints nothing and reports a match iff it is positive *)
Theorem files_with_matches_iff_count_positive :
  forall find_at cfg env path w evs fins,
    line_counting env -> Forall (ev_ok find_at env) evs -> path_present cfg path ->
    (forall k, squashed env (fins k) = false) -> sc_kind cfg = KPathWithMatch -> sc_stats cfg = false ->
    exists s, summary_run find_at cfg env path w evs fins = Some (s, true) /\
      w_out (ss_wtr s) = w_out w ++ (if Nat.ltb 0 (limited (sc_max cfg) (count_matched evs))
                                     then path_line cfg env (spath cfg path) else []) /\
      ss_has_match cfg s = Nat.ltb 0 (limited (sc_max cfg) (count_matched evs)).
Proof. exact files_with_matches_output. Qed.
Print Assumptions files_with_matches_iff_count_positive.

Theorem files_without_match_iff_count_zero :
  forall find_at cfg env path w evs fins,
    line_counting env -> Forall (ev_ok find_at env) evs -> path_present cfg path ->
    (forall k, squashed env (fins k) = false) -> sc_kind cfg = KPathWithoutMatch ->
    exists s, summary_run find_at cfg env path w evs fins = Some (s, true) /\
      w_out (ss_wtr s) = w_out w ++ (if Nat.eqb (limited (sc_max cfg) (count_matched evs)) 0
                                     then path_line cfg env (spath cfg path) else []).
Proof. exact files_without_match_output. Qed.
Print Assumptions files_without_match_iff_count_zero.

Theorem quiet_status :
  forall find_at cfg env path w evs fins,
    line_counting env -> Forall (ev_ok find_at env) evs -> path_present cfg path ->
    (forall k, squashed env (fins k) = false) -> sc_kind cfg = KQuiet ->
    exists s, summary_run find_at cfg env path w evs fins = Some (s, true) /\
      w_out (ss_wtr s) = w_out w /\
      ss_has_match cfg s = Nat.ltb 0 (limited (sc_max cfg) (count_matched evs)).
Proof. exact quiet_verdict. Qed.
Print Assumptions quiet_status.

(* 5. --count-matches (and any summary mode with --stats), no -m: stats.matches is the total number
      of submatches, matched_lines the lines covered; in a multi-line non-inverted search the counter
      behind -c / -l / -q is that same total (documented: there --count is --count-matches) *)
Theorem count_matches_is_number_of_submatches :
  forall find_at env cfg, sc_max cfg = None ->
  forall evs k s st, ss_stats s = Some st -> Forall (ev_ok find_at env) evs ->
    exists s' st', feed (summary_step find_at cfg env) evs k s = Some (s', Go, k + length evs) /\
      ss_stats s' = Some st' /\ ss_path s' = ss_path s /\ ss_wtr s' = ss_wtr s /\
      s_matches st' = s_matches st + count_submatches find_at env evs /\
      s_matched_lines st' = s_matched_lines st + count_matched_lines env evs /\
      ss_match_count s' = ss_match_count s +
        (if e_multi env && negb (e_invert env) then count_submatches find_at env evs else count_matched evs).
Proof. exact summary_feed_stats. Qed.
Print Assumptions count_matches_is_number_of_submatches.

(* ... and so are the number of submatches in the JSON match messages and JSON's stats.matches *)
Theorem json_submatches_are_the_submatches :
  forall find_at env cfg, j_max cfg = None ->
  forall evs k s, Forall (ev_ok find_at env) evs ->
    exists s', feed (json_step find_at cfg env) evs k s = Some (s', Go, k + length evs) /\
      s_matches (js_stats s') = s_matches (js_stats s) + count_submatches find_at env evs /\
      json_submatch_total (js_out s') = json_submatch_total (js_out s) + count_submatches find_at env evs.
Proof. exact json_feed_stats. Qed.
Print Assumptions json_submatches_are_the_submatches.

(* 5b. the same with -m N (line-oriented counting): the three printers stop after the same Matched
       event (theorems 2-3), and over that consumed prefix of the stream
         consumed (-m N) evs = everything up to and including the N-th Matched event
       --count-matches prints the number of submatches, and JSON's stats.matches and the number of
       submatch objects in its match messages are that same number *)
Theorem count_matches_under_limit :
  forall find_at env cfg path w evs fins,
    line_counting env -> Forall (ev_ok find_at env) evs -> path_present cfg path ->
    (forall k, squashed env (fins k) = false) -> sc_kind cfg = KCountMatches ->
    exists s, summary_run find_at cfg env path w evs fins = Some (s, true) /\
      w_out (ss_wtr s) = w_out w ++
        (if negb (sc_exclude_zero cfg) || Nat.ltb 0 (limited (sc_max cfg) (count_matched evs))
         then path_field cfg (spath cfg path)
              ++ dec (count_submatches find_at env (consumed (sc_max cfg) evs)) ++ lt_bytes (e_lt env)
         else []).
Proof. exact count_matches_run_output_proof. Qed.
Print Assumptions count_matches_under_limit.

Theorem json_submatches_under_limit :
  forall find_at env cfg path evs fins,
    no_after_wait env (j_max cfg) -> Forall (ev_ok find_at env) evs ->
    exists s, json_run find_at cfg env path evs fins = Some (s, true) /\
      s_matches (js_stats s) = count_submatches find_at env (consumed (j_max cfg) evs) /\
      json_submatch_total (js_out s) = count_submatches find_at env (consumed (j_max cfg) evs).
Proof. exact json_run_submatches_proof. Qed.
Print Assumptions json_submatches_under_limit.

(* 5c. --only-matching in a line-oriented search writes exactly one record per recorded span (the
       spans being the submatches by theorem 1), so the number of -o records of a line is its
       number of submatches *)
From RG Require Import Spec.PrinterSpec Proofs.PrinterProofs.
Theorem only_matching_one_record_per_submatch :
  forall cfg env path sk w, st_only_matching cfg = true ->
    w_out (sink_slow cfg env path sk w)
    = w_out w ++ concat (map (span_record cfg env path sk true) (k_matches sk)).
Proof. exact sink_slow_only_matching_layout. Qed.
Print Assumptions only_matching_one_record_per_submatch.

(* 6. every genuinely matched line has a submatch — outside the known class D2 *)
Theorem matched_line_has_submatch :
  forall find_at env (m : sink_match),
    ev_ok find_at env (SMatched m) -> genuine find_at env m ->
    ~ EmptyMatchAtEndOfUnterminatedLastLine find_at env m ->
    0 < nsub find_at env m.
Proof. exact matched_line_has_submatch_proof. Qed.
Print Assumptions matched_line_has_submatch.

(* KNOWN FINDING D2: without the class exclusion the statement is false.
   witness: the line "abc" without terminator, a matcher whose only match is the empty one at 3 (`$`) *)
Definition d2_find (hay : bytes) (p : nat) : option (nat * nat) :=
  if Nat.leb p (length hay) then Some (length hay, length hay) else None.
Definition line_env : senv := mkEnv (LTByte 10) false false 0 false false.
Definition d2_match : sink_match := mkSM [97; 98; 99]%N 0 3 (Some 1) 0.
Theorem matched_line_has_submatch_refuted :
  exists find_at env m, successive find_at env (m_buf m) (m_rs m) (m_re m) <> None /\
    (exists s e, find_at (context_haystack env (m_buf m) (m_re m)) (m_rs m) = Some (s, e) /\ m_rs m <= s <= e) /\
    nsub find_at env m = 0.
Proof.
  exists d2_find, line_env, d2_match. split; [vm_compute; discriminate|]. split.
  - exists 3, 3. vm_compute. split; [reflexivity|lia].
  - vm_compute. reflexivity.
Qed.
Print Assumptions matched_line_has_submatch_refuted.

(* ... with the consequence the property statement names: -c says 1, --count-matches says 0 *)
Definition cfg_of (k : skind) (mx : option nat) : sconfig := mkSCfg k false true mx true [58]%N None.
Definition no_bin (_ : nat) : sfinish := mkFin 3 None.
Example d2_count_vs_count_matches :
  option_map (fun r => w_out (ss_wtr (fst r)))
    (summary_run d2_find (cfg_of KCount None) line_env (Some [102]%N) w_new [SMatched d2_match] no_bin)
    = Some [102; 58; 49; 10]%N                                    (* "f:1\n" *)
  /\ option_map (fun r => w_out (ss_wtr (fst r)))
    (summary_run d2_find (cfg_of KCountMatches None) line_env (Some [102]%N) w_new [SMatched d2_match] no_bin)
    = Some [102; 58; 48; 10]%N.                                   (* "f:0\n" *)
Proof. vm_compute. split; reflexivity. Qed.

(* 7. D13 (repaired by a fix: commit): in a multi-line inverted search every Matched event is one
      line and is counted as such.  The instance of theorem 2 on the former witness
      (`rg -U -v -c 'a\n'` on "a\nb\nc\n": lines 2 and 3 are reported) now prints 2. *)
Definition ml_inv_env : senv := mkEnv (LTByte 10) true true 0 false false.
Definition abc : bytes := [97; 10; 98; 10; 99; 10]%N.
Definition an_find (hay : bytes) (p : nat) : option (nat * nat) :=   (* the pattern a\n on "a\nb\nc\n" *)
  if Nat.eqb p 0 then Some (0, 2) else None.
Example count_inverted_multiline :
  option_map (fun r => w_out (ss_wtr (fst r)))
    (summary_run an_find (cfg_of KCount None) ml_inv_env (Some [102]%N) w_new
       [SMatched (mkSM abc 2 4 (Some 2) 2); SMatched (mkSM abc 4 6 (Some 3) 4)] (fun _ => mkFin 6 None))
  = Some [102; 58; 50; 10]%N.                                     (* "f:2\n" *)
Proof. vm_compute. reflexivity. Qed.
Theorem count_inverted_multiline_general :
  forall env, e_multi env = true -> e_invert env = true -> line_counting env.
Proof. intros env H1 H2. unfold line_counting. now rewrite H1, H2. Qed.
Print Assumptions count_inverted_multiline_general.

(* 8. KNOWN FINDING MultiLineMaxCountSummary: under -U with -m N the summary printer compares the
      limit with the number of matches, the JSON (and standard) printer with the number of blocks.
      witness: blocks "aXaXa\n" (3 matches) and "a\n" (1 match), -m 2: --count-matches says 3, JSON
      reports 4 submatches *)
Definition ml_env : senv := mkEnv (LTByte 10) true false 0 false false.
Definition ml_buf : bytes := [97; 88; 97; 88; 97; 10; 98; 10; 97; 10]%N.      (* "aXaXa\nb\na\n" *)
Definition a_find (hay : bytes) (p : nat) : option (nat * nat) :=               (* the pattern a *)
  match find (fun i => Nat.leb p i && match nth_error hay i with Some 97%N => true | _ => false end)
             (seq 0 (length hay)) with
  | Some i => Some (i, i + 1)
  | None => None
  end.
Definition ml_events : list sevent :=
  [SMatched (mkSM ml_buf 0 6 (Some 1) 0); SMatched (mkSM ml_buf 8 10 (Some 3) 8)].
Theorem multiline_max_count_refuted :
  exists find_at env evs mx,
    option_map (fun r => w_out (ss_wtr (fst r)))
      (summary_run find_at (cfg_of KCountMatches mx) env (Some [102]%N) w_new evs (fun _ => mkFin 10 None))
      = Some [102; 58; 51; 10]%N /\                                (* "f:3\n" *)
    option_map (fun r => json_submatch_total (js_out (fst r)))
      (json_run find_at (mkJCfg mx false) env (Some [102]%N) evs (fun _ => mkFin 10 None)) = Some 4.
Proof. exists a_find, ml_env, ml_events, (Some 2). vm_compute. split; reflexivity. Qed.
Print Assumptions multiline_max_count_refuted.

(* 9. --stats totals: main.rs folds `stats += file_stats`; the total is the field-wise sum *)
Theorem stats_are_sums :
  forall (per_file : list stats) (acc : stats),
    fold_left stats_add per_file acc = stats_add acc (stats_sum per_file).
Proof. exact stats_fold_sum. Qed.
Print Assumptions stats_are_sums.

(* 10. mode normalisation of hiargs.rs::from_low_args (hand-written mirror, compared with the rg
       binary by the check): -v --count-matches => --count ; -o --count => --count-matches *)
Inductive smode := MStandard | MCount | MCountMatches | MFilesWithMatches | MFilesWithoutMatch | MJson.
Definition normalise_mode (m : smode) (invert only_matching : bool) : smode :=
  match m with
  | MCountMatches => if invert then MCount else m
  | MCount => if only_matching then MCountMatches else m
  | _ => m
  end.
Definition summary_kind_of (quiet : bool) (m : smode) : option skind :=
  if quiet then Some KQuiet else
  match m with
  | MFilesWithMatches => Some KPathWithMatch
  | MFilesWithoutMatch => Some KPathWithoutMatch
  | MCount => Some KCount
  | MCountMatches => Some KCountMatches
  | _ => None
  end.
Theorem inverted_count_matches_is_count :
  forall o, summary_kind_of false (normalise_mode MCountMatches true o) = Some KCount.
Proof. intro o. reflexivity. Qed.
Print Assumptions inverted_count_matches_is_count.
Theorem only_matching_count_is_count_matches :
  forall v, summary_kind_of false (normalise_mode MCount v true) = Some KCountMatches.
Proof. intro v. reflexivity. Qed.
Print Assumptions only_matching_count_is_count_matches.

(* non-vacuity: a two-file-style instance of theorems 2-4 with real numbers: three events, two of
   them Matched, -m unlimited: count 2; with -m 1: count 1 *)
Definition ex_events : list sevent :=
  [SMatched (mkSM abc 0 2 (Some 1) 0); SContext (mkSC [98; 10]%N CAfter (Some 2) 2); SMatched (mkSM abc 4 6 (Some 3) 4)].
Example count_example :
  option_map (fun r => w_out (ss_wtr (fst r)))
    (summary_run a_find (cfg_of KCount None) line_env (Some [102]%N) w_new ex_events (fun _ => mkFin 6 None))
  = Some [102; 58; 50; 10]%N
  /\ option_map (fun r => w_out (ss_wtr (fst r)))
    (summary_run a_find (cfg_of KCount (Some 1)) line_env (Some [102]%N) w_new ex_events (fun _ => mkFin 6 None))
  = Some [102; 58; 49; 10]%N
  /\ limited (Some 1) (count_matched ex_events) = 1.
Proof. vm_compute. repeat split; reflexivity. Qed.

Check count_is_number_of_matched_events :
  forall find_at cfg env path w evs fins,
    line_counting env -> Forall (ev_ok find_at env) evs -> path_present cfg path ->
    (forall k, squashed env (fins k) = false) -> sc_kind cfg = KCount ->
    exists s, summary_run find_at cfg env path w evs fins = Some (s, true) /\
      w_out (ss_wtr s) = w_out w ++ count_output cfg env (spath cfg path) (limited (sc_max cfg) (count_matched evs)) /\
      ss_has_match cfg s = Nat.ltb 0 (limited (sc_max cfg) (count_matched evs)).
Check matched_line_has_submatch :
  forall find_at env (m : sink_match),
    ev_ok find_at env (SMatched m) -> genuine find_at env m ->
    ~ EmptyMatchAtEndOfUnterminatedLastLine find_at env m ->
    0 < nsub find_at env m.

(* the source tie (DESIGN §4.2): the definitions of Gen/DecisionsLib.v are regenerated on every run from the
   current text of crates/printer/src/summary.rs (SummaryKind::{requires_path, requires_stats, quit_early},
   SummarySink::should_quit) and crates/printer/src/standard.rs (StandardSink::{should_quit,
   match_more_than_limit}); they equal the model definitions for all arguments. *)
From RG Require Gen.DecisionsLib Proofs.GenLibProofs.
Theorem requires_path_generated_eq_model : forall k : skind,
  DecisionsLib.requires_path k = Summary.requires_path k.
Proof. exact GenLibProofs.requires_path_eq. Qed.
Print Assumptions requires_path_generated_eq_model.
Theorem requires_stats_generated_eq_model : forall k : skind,
  DecisionsLib.requires_stats k = Summary.requires_stats k.
Proof. exact GenLibProofs.requires_stats_eq. Qed.
Print Assumptions requires_stats_generated_eq_model.
Theorem quit_early_generated_eq_model : forall k : skind,
  DecisionsLib.quit_early k = Summary.quit_early k.
Proof. exact GenLibProofs.quit_early_eq. Qed.
Print Assumptions quit_early_generated_eq_model.
Theorem summary_should_quit_generated_eq_model : forall (cfg : sconfig) (match_count : nat),
  DecisionsLib.summary_should_quit (sc_max cfg) match_count = Summary.ss_should_quit cfg match_count.
Proof. exact GenLibProofs.summary_should_quit_eq. Qed.
Print Assumptions summary_should_quit_generated_eq_model.
Theorem standard_should_quit_generated_eq_model : forall (cfg : stdconfig) (match_count after_rem : nat),
  DecisionsLib.standard_should_quit (st_max cfg) match_count after_rem
  = Standard.sd_should_quit cfg match_count after_rem.
Proof. exact GenLibProofs.standard_should_quit_eq. Qed.
Print Assumptions standard_should_quit_generated_eq_model.
Theorem match_more_than_limit_generated_eq_model : forall (cfg : stdconfig) (match_count : nat),
  DecisionsLib.match_more_than_limit (st_max cfg) match_count = Standard.sd_more_than_limit cfg match_count.
Proof. exact GenLibProofs.match_more_than_limit_eq. Qed.
Print Assumptions match_more_than_limit_generated_eq_model.
Check quit_early_generated_eq_model : forall k : skind, DecisionsLib.quit_early k = Summary.quit_early k.
Check summary_should_quit_generated_eq_model : forall (cfg : sconfig) (match_count : nat),
  DecisionsLib.summary_should_quit (sc_max cfg) match_count = Summary.ss_should_quit cfg match_count.
Check standard_should_quit_generated_eq_model : forall (cfg : stdconfig) (match_count after_rem : nat),
  DecisionsLib.standard_should_quit (st_max cfg) match_count after_rem
  = Standard.sd_should_quit cfg match_count after_rem.

(* the same tie for crates/printer/src/json.rs JSONSink::{should_quit, match_more_than_limit} (Model/Json.v) *)
From RG Require Model.Json.
Theorem json_should_quit_generated_eq_model : forall (cfg : Json.jconfig) (match_count after_rem : nat),
  DecisionsLib.json_should_quit (Json.j_max cfg) match_count after_rem
  = Json.js_should_quit cfg match_count after_rem.
Proof. exact GenLibProofs.json_should_quit_eq. Qed.
Print Assumptions json_should_quit_generated_eq_model.
Theorem json_match_more_than_limit_generated_eq_model : forall (cfg : Json.jconfig) (match_count : nat),
  DecisionsLib.json_match_more_than_limit (Json.j_max cfg) match_count = Json.js_more_than_limit cfg match_count.
Proof. exact GenLibProofs.json_match_more_than_limit_eq. Qed.
Print Assumptions json_match_more_than_limit_generated_eq_model.
