(* Props/C17.v — property C17: transcoded input is searched as its UTF-8 equivalent.  PARTIAL: the third-party
   transcoder (encoding_rs, encoding_rs_io) is modelled, not verified; see notes/C17.md.
   Only statements; proofs are one `exact`/`apply` or a vm_compute witness. *)
From RG Require Import Base.Bytes Model.Decode Spec.Utf16Spec Spec.Utf8Spec Proofs.DecodeProofs Proofs.Utf16SpecProofs
  Proofs.Utf8SpecProofs.

(* 1. which decoder the searcher's reader ends up with, for the settings SearcherBuilder::build makes and the
      three --encoding modes: stated for the code as it is *)
Theorem selection_table :
  forall (m : encoding_mode) (s : bytes),
    effective_decoder (decode_settings_of (enc_config_of m)) s =
    match m with
    | EncDisabled => None
    | _ => match bom_encoding (possible_bom s) with
           | Some Utf8 | None => label_of m
           | Some e => Some e
           end
    end.
Proof. exact selection_table_proof. Qed.
Print Assumptions selection_table.

(* 2. a UTF-16 mark overrides any label (inputs of at least 3 bytes: encoding_rs_io only trusts a full peek) *)
Theorem utf16_mark_overrides_label :
  forall (m : encoding_mode) (s : bytes),
    m <> EncDisabled -> length s >= 3 ->
    (starts2 255 254 s = true -> effective_decoder (decode_settings_of (enc_config_of m)) s = Some Utf16le) /\
    (starts2 254 255 s = true -> effective_decoder (decode_settings_of (enc_config_of m)) s = Some Utf16be).
Proof. exact utf16_mark_overrides_label_proof. Qed.
Print Assumptions utf16_mark_overrides_label.

(* 2b. KNOWN FINDING D14 (class Utf8MarkWithOtherLabel): "a mark overrides an explicit label" is false for the
       UTF-8 mark: witness  EF BB BF 'a'  with label utf-16le is decoded as UTF-16LE *)
Theorem utf8_mark_overrides_label_refuted :
  exists (l : enc) (s : bytes),
    starts3 239 187 191 s = true /\ l <> Utf8 /\
    effective_decoder (decode_settings_of (enc_config_of (EncSome l))) s = Some l.
Proof. exists Utf16le, [239; 187; 191; 97]%N. split; [reflexivity|]. split; [discriminate|reflexivity]. Qed.
Print Assumptions utf8_mark_overrides_label_refuted.

(* 2c. KNOWN FINDING (class SecondMarkRemoved): the mark is stripped by the peeker and the U+FEFF after it by
       the decoder: FF FE FF FE 'a' 00 is searched as "a", its transcoding is U+FEFF "a" *)
Theorem second_mark_removed_witness :
  searched_bytes EncAuto [255; 254; 255; 254; 97; 0]%N = Some [97%N] /\
  utf16_to_utf8 false [255; 254; 255; 254; 97; 0]%N = [239; 187; 191; 97]%N.   (* one mark removed: U+FEFF a *)
Proof. split; vm_compute; reflexivity. Qed.
Print Assumptions second_mark_removed_witness.

(* 3. the reference streaming decoder: any fragmentation of the input (code units and surrogate pairs split
      anywhere, empty chunks included) decodes to utf16_to_utf8 of the whole; lone surrogates and an odd tail
      become U+FFFD (definition of u16_unit / u16_finish, compared with encoding_rs on every run) *)
Theorem utf16_chunk_independent :
  forall (be : bool) (chunks : list bytes),
    u16_stream be u16_init chunks = utf16_to_utf8 be (concat chunks).
Proof. exact utf16_chunk_independent_proof. Qed.
Print Assumptions utf16_chunk_independent.

Theorem utf16_refragment :
  forall (be : bool) (chunks1 chunks2 : list bytes),
    concat chunks1 = concat chunks2 -> u16_stream be u16_init chunks1 = u16_stream be u16_init chunks2.
Proof. exact utf16_refragment_proof. Qed.
Print Assumptions utf16_refragment.

(* 3b. the decoder against the declarative specification Spec/Utf16Spec.v (bytes -> code units -> scalar values:
       BMP unit; high+low pair; lone surrogate, dangling byte => U+FFFD; leading U+FEFF dropped -> UTF-8), for every
       input, and composed with 3 for every fragmentation *)
Theorem utf16_decoder_eq_spec :
  forall (be : bool) (s : bytes), utf16_to_utf8 be s = utf16_spec be s.
Proof. exact utf16_decoder_eq_spec_proof. Qed.
Print Assumptions utf16_decoder_eq_spec.

Theorem utf16_stream_eq_spec :
  forall (be : bool) (chunks : list bytes), u16_stream be u16_init chunks = utf16_spec be (concat chunks).
Proof. exact utf16_stream_eq_spec_proof. Qed.
Print Assumptions utf16_stream_eq_spec.

(* 3c. so what the line searcher is given for UTF-16 input IS its UTF-8 equivalent: an input starting with a
       UTF-16 mark (any label, any mode but none), or labelled UTF-16 without any mark.  (utf16_spec drops a U+FEFF
       that follows the mark: known finding SecondMarkRemoved.) *)
Theorem searched_utf16_marked :
  forall (m : encoding_mode) (s : bytes),
    m <> EncDisabled -> length s >= 3 ->
    (starts2 255 254 s = true -> searched_bytes m s = Some (utf16_spec false (skipn 2 s))) /\
    (starts2 254 255 s = true -> searched_bytes m s = Some (utf16_spec true (skipn 2 s))).
Proof. exact searched_utf16_marked_proof. Qed.
Print Assumptions searched_utf16_marked.

Theorem searched_utf16_label :
  forall (be : bool) (s : bytes),
    for_bom s = None ->
    searched_bytes (EncSome (if be then Utf16be else Utf16le)) s = Some (utf16_spec be s).
Proof. exact searched_utf16_label_proof. Qed.
Print Assumptions searched_utf16_label.

(* 3d. the UTF-8 decoder of -E utf-8 (WHATWG machine: bytes needed / lower / upper boundary, mark held back and
       removed; compared with encoding_rs on every run) is fragmentation independent ... *)
Theorem utf8_chunk_independent :
  forall chunks : list bytes, u8_stream u8_init chunks = utf8_to_utf8 (concat chunks).
Proof. exact utf8_chunk_independent_proof. Qed.
Print Assumptions utf8_chunk_independent.

(* 3e. ... and equals the declarative specification Spec/Utf8Spec.v (Unicode table 3-7 `lead_class`; a complete
       well-formed sequence is copied, each maximal ill-formed subpart becomes one EF BF BD; one leading EF BB BF is
       removed), for every input and, composed with 3d, every fragmentation *)
Theorem utf8_decoder_eq_spec :
  forall s : bytes, utf8_to_utf8 s = utf8_spec_bom s.
Proof. exact utf8_decoder_eq_spec_proof. Qed.
Print Assumptions utf8_decoder_eq_spec.

Theorem utf8_stream_eq_spec :
  forall chunks : list bytes, u8_stream u8_init chunks = utf8_spec_bom (concat chunks).
Proof. exact utf8_stream_eq_spec_proof. Qed.
Print Assumptions utf8_stream_eq_spec.

(* the fuel of utf8_spec (one unit per input byte) is never what ends it *)
Theorem utf8_spec_fuel_enough :
  forall (f : nat) (s : bytes), length s <= f -> spec_fuel f s = utf8_spec s.
Proof. exact spec_fuel_enough. Qed.
Print Assumptions utf8_spec_fuel_enough.

(* 3f. sanity of the specification: well-formed input is unchanged; the output is always well-formed *)
Theorem utf8_valid_unchanged :
  forall s : bytes, utf8_valid s -> utf8_spec s = s.
Proof. exact utf8_valid_unchanged_proof. Qed.
Print Assumptions utf8_valid_unchanged.

Theorem utf8_spec_valid :
  forall s : bytes, utf8_valid (utf8_spec s).
Proof. exact utf8_spec_valid_proof. Qed.
Print Assumptions utf8_spec_valid.

Theorem utf8_decoder_valid_unchanged :
  forall s : bytes, utf8_valid s -> starts3 239 187 191 s = false -> utf8_to_utf8 s = s.
Proof. exact utf8_decoder_valid_unchanged_proof. Qed.
Print Assumptions utf8_decoder_valid_unchanged.

Theorem utf8_decoder_output_valid :
  forall s : bytes, utf8_valid (utf8_to_utf8 s).
Proof. exact utf8_decoder_output_valid_proof. Qed.
Print Assumptions utf8_decoder_output_valid.

(* 3g. so under an explicit utf-8 label an input without a UTF-16 mark is searched as its UTF-8 equivalent under
       replacement (an input starting EF BB BF: for_bom is Some, see selection_table: the label's decoder stays and
       the peeker removes the mark; a second mark is then removed by the decoder: known finding SecondMarkRemoved) *)
Theorem searched_utf8_label :
  forall s : bytes, for_bom s = None -> searched_bytes (EncSome Utf8) s = Some (utf8_spec_bom s).
Proof. exact searched_utf8_label_proof. Qed.
Print Assumptions searched_utf8_label.

(* 4. --encoding none: the raw bytes, mark included, and never the reader detour *)
Theorem none_is_identity :
  forall s : bytes,
    searched_bytes EncDisabled s = Some s /\ slice_needs_transcoding (enc_config_of EncDisabled) s = false.
Proof. exact none_is_identity_proof. Qed.
Print Assumptions none_is_identity.

(* 5. routing: a slice / memory map is searched directly only when the reader path would deliver the same bytes *)
Theorem routing_sound :
  forall (m : encoding_mode) (s : bytes),
    slice_needs_transcoding (enc_config_of m) s = false -> searched_bytes m s = Some s.
Proof. exact routing_sound_proof. Qed.
Print Assumptions routing_sound.

(* ---- non-vacuity / examples ---- *)
(* U+1F600 split over three reads, then a lone low surrogate, then an odd byte: BE with mark handled upstream *)
Example decoder_example :
  u16_stream true u16_init [[216%N]; [61; 222]%N; [0%N]; [220; 0; 97]%N]
  = [240; 159; 152; 128; 239; 191; 189; 239; 191; 189]%N.
Proof. vm_compute. reflexivity. Qed.

Example spec_example :      (* BE: U+1F600, lone low surrogate, 'a', dangling byte *)
  utf16_scalars true [216; 61; 222; 0; 220; 0; 0; 97; 5]%N = [128512; 65533; 97; 65533]%N.
Proof. vm_compute. reflexivity. Qed.

Example utf8_decoder_example :      (* overlong C0 AF, surrogate ED A0 80, truncated F0 9F 98, then 'a' split over chunks *)
  u8_stream u8_init [[192%N]; [175; 237]%N; [160; 128; 240; 159]%N; [152; 97]%N]
  = (replacement ++ replacement) ++ (replacement ++ replacement ++ replacement) ++ replacement ++ [97%N].
Proof. vm_compute. reflexivity. Qed.

Example utf8_spec_example :     (* "é" C0 AF (overlong) ED A0 80 (surrogate) F0 9F 98 (truncated) "a" *)
  utf8_spec [195; 169; 192; 175; 237; 160; 128; 240; 159; 152; 97]%N
  = [195; 169]%N ++ (replacement ++ replacement) ++ (replacement ++ replacement ++ replacement) ++ replacement ++ [97%N].
Proof. vm_compute. reflexivity. Qed.

Example utf8_valid_example :    (* é 日 😀 a *)
  utf8_valid [195; 169; 230; 151; 165; 240; 159; 152; 128; 97]%N.
Proof.
  apply (uv_seq 195 [169%N] _ 1 128 191); try reflexivity.
  apply (uv_seq 230 [151; 165]%N _ 2 128 191); try reflexivity.
  apply (uv_seq 240 [159; 152; 128]%N _ 3 144 191); try reflexivity.
  apply (uv_seq 97 [] _ 0 128 191); try reflexivity. constructor.
Qed.

Example auto_utf16le_example :
  searched_bytes EncAuto [255; 254; 97; 0; 10; 0]%N = Some [97; 10]%N.
Proof. vm_compute. reflexivity. Qed.

Check utf16_chunk_independent :
  forall (be : bool) (chunks : list bytes),
    u16_stream be u16_init chunks = utf16_to_utf8 be (concat chunks).
