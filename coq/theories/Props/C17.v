(* Props/C17.v — placeholder, replaced below *)
From RG Require Import Base.Bytes Model.Decode.
