(* Props/C05.v — property C05: which files are searched follows the documented precedence of filters.
   Only statements; every proof is one `exact`.  The Check lines pin the statements. *)
From RG Require Import Base.Bytes Model.IgnoreDir Spec.FilterSpec Proofs.FilterProofs Proofs.RepoRootProofs.

(* 1. Ignore::matched_dir_entry (overrides, the two scans of matched_ignore with any_git / saw_git and
      the parents gate, explicit files, global file, types, hidden) computes the documented fold
      overrides > (rgignore > ignore > gitignore > exclude > global > explicit) > types > hidden,
      for every chain of directories, every per-(directory, source) matcher, every option record,
      every path. *)
Theorem matched_eq_spec :
  forall (ig : ignore) (path : bytes) (is_dir : bool),
    matched_dir_entry ig path is_dir = decide_spec (sh_opts (ig_sh ig)) (view_of ig path is_dir).
Proof. exact matched_dir_entry_eq_spec. Qed.
Print Assumptions matched_eq_spec.

(* 1b. its core: the ignore-file stage alone *)
Theorem matched_ignore_eq_stage :
  forall (ig : ignore) (path : bytes) (is_dir : bool),
    matched_ignore ig (strip_dot_slash path) is_dir = ignore_stage (sh_opts (ig_sh ig)) (view_of ig path is_dir).
Proof. exact matched_ignore_eq_spec. Qed.
Print Assumptions matched_ignore_eq_stage.

(* 2. inside the ignore-file stage the first source, in documented order, that has an opinion
      decides: an Ignore from it is final whatever later sources (deeper or not) whitelist *)
Theorem whitelist_does_not_beat_earlier_ignore :
  forall (o : opts) (s : sview) (k : nat),
    s_overrides s = MNone -> s_any_rules s = true ->
    nth_error (stage_sources o s) k = Some MIgnore ->
    (forall j x, j < k -> nth_error (stage_sources o s) j = Some x -> x = MNone) ->
    decide_spec o s = MIgnore.
Proof. exact whitelist_does_not_beat_earlier_ignore_proof. Qed.
Print Assumptions whitelist_does_not_beat_earlier_ignore.

(* 2b. a whitelist from the ignore-file stage survives `hidden` but not a file-type exclusion *)
Theorem whitelist_beats_hidden_not_types :
  forall (o : opts) (s : sview),
    s_overrides s = MNone -> s_any_rules s = true -> ignore_stage o s = MWhitelist ->
    decide_spec o s = match s_types s with MIgnore => MIgnore | _ => MWhitelist end.
Proof. exact whitelist_beats_hidden_not_types_proof. Qed.
Print Assumptions whitelist_beats_hidden_not_types.

(* 3. a path named on the command line that is not a directory is always listed, whatever the
      rules, flags, globs and types say *)
Theorem explicit_path_always_searched :
  forall (f : lowflags) (c : cmdline) (max_depth : option nat) (roots : list root) (p : bytes),
    In (RFile p) roots -> In p (rg_files f c max_depth roots).
Proof. exact explicit_path_always_searched_proof. Qed.
Print Assumptions explicit_path_always_searched.

(* 4. pathutil::file_name is the last path component (none for "", "." and ".." components), hence
      is_hidden looks at the first byte of the last component *)
Theorem file_name_is_last_component :
  forall p : bytes, file_name p = name_spec p /\ is_hidden p = hidden_spec p.
Proof. exact (fun p => conj (file_name_eq_spec p) (is_hidden_eq_spec p)). Qed.
Print Assumptions file_name_is_last_component.

(* 4a. and "last component" means what it says: it contains no '/', and the path is a prefix that
       is empty or ends in '/' followed by it *)
Theorem last_component_is_after_last_slash :
  forall p : bytes,
    ~ In SLASH (last_component p) /\
    exists pre, p = pre ++ last_component p /\ (pre = [] \/ exists pre', pre = pre' ++ [SLASH]).
Proof. exact last_component_char. Qed.
Print Assumptions last_component_is_after_last_slash.

(* 4b. D4: on the pinned tree this was false — any path ending in '.' had no file name, so `.hid.`
       was not hidden.  Repaired by the fix: commit "ignore: file_name rejects only a final
       component that is '.' or '..'"; the model of the pinned text is kept for this witness. *)
Theorem file_name_pinned_refuted :
  exists p : bytes, is_hidden_with file_name_pinned p <> hidden_spec p.
Proof. exists [46; 104; 105; 100; 46]%N. vm_compute. discriminate. Qed.
Print Assumptions file_name_pinned_refuted.

(* 5. The flag-to-builder mapping (HiArgs::walk_builder), the construction of the matcher chain
      (IgnoreBuilder::build, add_parents with its early return, add_child_path with its has_git rules)
      and matched_dir_entry together compute the documented fold directly on the world's rule files:
      a source that a flag switches off has no opinion; repository roots are recognised only when a
      repository is required and VCS rules are on.  For every flag set, command line, chain above the
      root, canonical root, non-empty chain below, path. *)
Theorem decide_eq_world :
  forall (f : lowflags) (w : world) (path : bytes) (is_dir : bool),
    w_below w <> [] -> decide f w path is_dir = decide_world f w path is_dir.
Proof. exact decide_eq_world_proof. Qed.
Print Assumptions decide_eq_world.
(* 5a. the exclude file: since the repair of GitlinkExcludeNoRequire add_child_path reads the repository's
      info/exclude whenever exclude rules are on, whatever `.git` is and whether or not repositories are required *)
Theorem exclude_as_read_eq :
  forall (o : opts) (d : dirinfo), o_git_exclude o = true -> exclude_as_read o d = di_exclude d.
Proof. exact exclude_as_read_eq_proof. Qed.
Print Assumptions exclude_as_read_eq.
Example exclude_as_read_eq_nonvacuous :
  decide gx_flags (gx_world GitFile) [114; 47; 97]%N false = MIgnore
  /\ decide_world gx_flags (gx_world GitFile) [114; 47; 97]%N false = MIgnore.
Proof. exact gx_witness_now_ignored. Qed.
(* 5b. on the pinned text (git_type computed only under require_git) it was not: --no-require-git, a linked
      worktree (gitfile), exclude rule `a` *)
Theorem exclude_as_read_pinned_refuted :
  exists (o : opts) (d : dirinfo) (p : bytes) (is_dir : bool),
    o_git_exclude o = true /\ exclude_as_read_with git_type_seen_pinned o d p is_dir = MNone /\ di_exclude d p is_dir = MIgnore.
Proof. exact exclude_as_read_pinned_refuted_proof. Qed.
Print Assumptions exclude_as_read_pinned_refuted.

(* 6. flag_removes_exactly_its_source, one per flag: giving the flag = the same decision in the world
      where that source carries no rules (everything else, including the other flags, unchanged) *)
Theorem no_ignore_dot_removes_dot_sources :
  forall f w path is_dir, w_below w <> [] ->
    decide (set_dot true f) w path is_dir = decide (set_dot false f) (erase_dot w) path is_dir.
Proof. exact flag_dot_proof. Qed.
Print Assumptions no_ignore_dot_removes_dot_sources.
Theorem no_ignore_vcs_removes_git_sources :
  forall f w path is_dir, w_below w <> [] ->
    decide (set_vcs true f) w path is_dir = decide (set_vcs false f) (erase_vcs w) path is_dir.
Proof. exact flag_vcs_proof. Qed.
Print Assumptions no_ignore_vcs_removes_git_sources.
Theorem no_ignore_exclude_removes_exclude :
  forall f w path is_dir, w_below w <> [] ->
    decide (set_exclude true f) w path is_dir = decide (set_exclude false f) (erase_exclude w) path is_dir.
Proof. exact flag_exclude_proof. Qed.
Print Assumptions no_ignore_exclude_removes_exclude.
Theorem no_ignore_global_removes_global :
  forall f w path is_dir, w_below w <> [] ->
    decide (set_global true f) w path is_dir = decide (set_global false f) (erase_global w) path is_dir.
Proof. exact flag_global_proof. Qed.
Print Assumptions no_ignore_global_removes_global.
Theorem no_ignore_parent_removes_parent_files :
  forall f w path is_dir, w_below w <> [] ->
    decide (set_parent true f) w path is_dir = decide (set_parent false f) (erase_parent w) path is_dir.
Proof. exact flag_parent_proof. Qed.
Print Assumptions no_ignore_parent_removes_parent_files.
Theorem no_ignore_files_removes_ignore_files :
  forall f w path is_dir, w_below w <> [] ->
    decide (set_files true f) w path is_dir = decide (set_files false f) (erase_files w) path is_dir.
Proof. exact flag_files_proof. Qed.
Print Assumptions no_ignore_files_removes_ignore_files.
Theorem hidden_removes_hidden_filter :
  forall f w path is_dir, w_below w <> [] ->
    decide (set_hidden true f) w path is_dir
    = decide_spec (walk_builder_opts (set_hidden false f)) (unhide (wview (set_hidden false f) w path is_dir)).
Proof. exact flag_hidden_proof. Qed.
Print Assumptions hidden_removes_hidden_filter.
(* --no-ignore = its five documented implications (it does not imply --no-ignore-files) *)
Theorem no_ignore_removes_five_sources :
  forall f w path is_dir, w_below w <> [] ->
    decide (flag_no_ignore f) w path is_dir = decide (clear5 f) (erase5 w) path is_dir.
Proof. exact flag_no_ignore_proof. Qed.
Print Assumptions no_ignore_removes_five_sources.
(* -u = --no-ignore; -uu = -u --hidden; -uuu adds only the binary mode *)
Theorem unrestricted_is_composition :
  forall n f w path is_dir, w_below w <> [] ->
    decide (flag_unrestricted n f) w path is_dir =
    match n with
    | 0 => decide f w path is_dir
    | 1 => decide (clear5 f) (erase5 w) path is_dir
    | _ => decide_spec (walk_builder_opts (set_hidden false (clear5 f)))
                       (unhide (wview (set_hidden false (clear5 f)) (erase5 w) path is_dir))
    end.
Proof. exact flag_unrestricted_proof. Qed.
Print Assumptions unrestricted_is_composition.

(* 7. what counts as a repository root.  `.git` may be absent, a directory, or a gitfile (linked worktree,
      submodule).  For every flag set, command line and directory, the node add_parents builds for a
      directory above the search root and the node add_child_path builds for the same directory met
      inside the tree carry the same has_git, and it is: repositories required, VCS rules on, and
      `.git` present as a directory or a file. *)
Theorem repo_root_test_uniform :
  forall (f : lowflags) (c : cmdline) (d : dirinfo),
    let sh := ig_sh (build_root (walk_builder_opts f) (walk_builder_env f c)) in
    nd_has_git (parent_node sh d) = nd_has_git (child_node sh d)
    /\ nd_has_git (child_node sh d) = (negb (f_no_require_git f) && negb (f_no_ignore_vcs f) && repo_marker (di_dotgit d)).
Proof. exact repo_root_test_uniform_proof. Qed.
Print Assumptions repo_root_test_uniform.

(* 7a. the two file-system tests themselves both are "a directory or a gitfile" *)
Theorem dotgit_tests_eq_marker :
  forall k : dotgit, child_dotgit_test k = repo_marker k /\ parent_dotgit_test k = repo_marker k.
Proof. exact dotgit_tests_eq_marker_proof. Qed.
Print Assumptions dotgit_tests_eq_marker.

(* 7b. library level: any option record in which git_exclude is not on while git_ignore is off *)
Theorem repo_root_test_uniform_lib :
  forall (sh : shared) (d : dirinfo),
    (o_git_exclude (sh_opts sh) = true -> o_git_ignore (sh_opts sh) = true) ->
    nd_has_git (parent_node sh d) = nd_has_git (child_node sh d).
Proof. exact repo_root_test_uniform_lib_proof. Qed.
Print Assumptions repo_root_test_uniform_lib.
Example repo_root_test_uniform_lib_nonvacuous :
  (o_git_exclude (sh_opts ex_sh_default) = true -> o_git_ignore (sh_opts ex_sh_default) = true)
  /\ nd_has_git (child_node ex_sh_default (rr_dir GitFile)) = true
  /\ nd_has_git (parent_node ex_sh_default (rr_dir GitFile)) = true
  /\ nd_has_git (parent_node ex_sh_default (rr_dir GitAbsent)) = false.
Proof. vm_compute. repeat split; reflexivity. Qed.

(* 7c. ... and for all option records it is false: git_ignore(false) + git_exclude(true) (not reachable
      from the command line) makes add_parents overlook every repository root *)
Theorem repo_root_test_all_opts_refuted :
  exists (sh : shared) (d : dirinfo), nd_has_git (parent_node sh d) <> nd_has_git (child_node sh d).
Proof. exact repo_root_test_all_opts_refuted_proof. Qed.
Print Assumptions repo_root_test_all_opts_refuted.

(* non-vacuity: a shallow .rgignore ignore beats a deep .gitignore whitelist (source order dominates
   directory depth); chain = sub (has .gitignore `!a`) :: root (has .rgignore `a`, .git) :: builder root *)
Definition ex_name_a : gmatcher := fun p _ => if bytes_eqb (skipn (after_last_slash p) p) [97]%N then MIgnore else MNone.
Definition ex_white_a : gmatcher := fun p _ => if bytes_eqb (skipn (after_last_slash p) p) [97]%N then MWhitelist else MNone.
Definition ex_opts : opts := walk_builder_opts flags_default.
Definition ex_env : env :=
  {| e_overrides := {| ov_is_empty := true; ov_gi := g_empty; ov_has_whitelist := false |};
     e_types := {| ty_is_empty := true; ty_set_is_empty := true; ty_has_selected := false; ty_last := fun _ => None |};
     e_explicit := []; e_custom_names_empty := false; e_global := g_empty |}.
Definition ex_root_dir : dirinfo :=
  {| di_path := [114]%N; di_custom := ex_name_a; di_dotignore := g_empty; di_gitignore := g_empty;
     di_exclude := g_empty; di_dotgit := GitDir |}.
Definition ex_sub_dir : dirinfo :=
  {| di_path := [114; 47; 115]%N; di_custom := g_empty; di_dotignore := g_empty; di_gitignore := ex_white_a;
     di_exclude := g_empty; di_dotgit := GitAbsent |}.
Definition ex_ig : ignore := add_child (add_child (build_root ex_opts ex_env) ex_root_dir) ex_sub_dir.
Example source_order_dominates_depth :
  matched_dir_entry ex_ig [114; 47; 115; 47; 97]%N false = MIgnore /\
  stage_sources ex_opts (view_of ex_ig [114; 47; 115; 47; 97]%N false)
    = [MIgnore; MNone; MWhitelist; MNone; MNone; MNone].
Proof. vm_compute. split; reflexivity. Qed.

Check matched_eq_spec :
  forall (ig : ignore) (path : bytes) (is_dir : bool),
    matched_dir_entry ig path is_dir = decide_spec (sh_opts (ig_sh ig)) (view_of ig path is_dir).
Check explicit_path_always_searched :
  forall (f : lowflags) (c : cmdline) (max_depth : option nat) (roots : list root) (p : bytes),
    In (RFile p) roots -> In p (rg_files f c max_depth roots).
Check decide_eq_world :
  forall (f : lowflags) (w : world) (path : bytes) (is_dir : bool),
    w_below w <> [] -> decide f w path is_dir = decide_world f w path is_dir.
Check repo_root_test_uniform :
  forall (f : lowflags) (c : cmdline) (d : dirinfo),
    let sh := ig_sh (build_root (walk_builder_opts f) (walk_builder_env f c)) in
    nd_has_git (parent_node sh d) = nd_has_git (child_node sh d)
    /\ nd_has_git (child_node sh d) = (negb (f_no_require_git f) && negb (f_no_ignore_vcs f) && repo_marker (di_dotgit d)).

(* the source tie (DESIGN §4.2): `DecisionsLib.should_skip_entry` is regenerated on every run from the current text
   of walk.rs::should_skip_entry (crates/ignore/src/walk.rs), as a function of the two tests it makes on
   Ignore::matched_dir_entry's answer; it equals the model's should_skip_entry. *)
From RG Require Gen.DecisionsLib Proofs.GenLibProofs.
Theorem should_skip_entry_generated_eq_model : forall (ig : ignore) (path : bytes) (is_dir : bool),
  DecisionsLib.should_skip_entry (m_is_ignore (matched_dir_entry ig path is_dir))
                                 (m_is_whitelist (matched_dir_entry ig path is_dir))
  = IgnoreDir.should_skip_entry ig path is_dir.
Proof. exact GenLibProofs.should_skip_entry_eq. Qed.
Print Assumptions should_skip_entry_generated_eq_model.
Check should_skip_entry_generated_eq_model : forall (ig : ignore) (path : bytes) (is_dir : bool),
  DecisionsLib.should_skip_entry (m_is_ignore (matched_dir_entry ig path is_dir))
                                 (m_is_whitelist (matched_dir_entry ig path is_dir))
  = IgnoreDir.should_skip_entry ig path is_dir.
