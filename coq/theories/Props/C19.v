(* Props/C19.v — property C19: replacement output = replace-all of each matching line.
   Only statements; every proof is one `exact`.  The Check lines pin the statements. *)
From RG Require Import Base.Bytes Model.Interpolate Model.MatchIter Model.Replace
  Spec.TemplateSpec Spec.ReplaceSpec Proofs.InterpolateProofs Proofs.ReplaceProofs.

(* 1. template expansion: the port of the regex library's interpolate in
      crates/matcher/src/interpolate.rs computes the reference grammar's expansion,
      for every template, every capture table, every name table, every destination prefix. *)
Theorem interpolate_eq_spec :
  forall (cap_text : N -> option bytes) (n2i : bytes -> option N) (t dst : bytes),
    interpolate cap_text n2i t dst = Some (dst ++ expand_spec cap_text n2i t).
Proof. exact interpolate_eq_spec_proof. Qed.
Print Assumptions interpolate_eq_spec.

(* 2. Replacer::replace_all (line-oriented search): the produced text is the text between the
      successive matches, each match replaced by its expansion, the tail copied; the recorded
      spans are those of the expansions.  Matches starting at or after the end of the line's
      range are cut off (the source of the known finding D2, see 4). *)
Theorem replace_all_eq_spec :
  forall (captures_at : bytes -> nat -> option caps) (n2i : bytes -> option N)
         (lt : lineterm) (buf : bytes) (rs re : nat) (template : bytes) (l : list caps),
    let hay := firstn (trim_line_terminator lt buf 0 re) buf in
    all_matches (captures_at hay) cap_span (length hay) rs = Some l ->
    replace_all captures_at n2i lt buf rs re template
      = Some (assemble n2i hay template re rs l, assemble_spans n2i hay template re 0 rs l).
Proof. exact replace_all_eq_spec_proof. Qed.
Print Assumptions replace_all_eq_spec.

(* 3. for a line that still carries its terminator nothing is cut off: the result is the
      library's replace-all (every successive match replaced), for every matcher obeying the
      grep-matcher contract  at <= start <= end <= len. *)
Theorem replace_all_terminated_line :
  forall (captures_at : bytes -> nat -> option caps) (n2i : bytes -> option N)
         (lt : lineterm) (buf : bytes) (rs re : nat) (template : bytes) (l : list caps),
    let hay := firstn (trim_line_terminator lt buf 0 re) buf in
    length hay < re ->
    matcher_ok (captures_at hay) cap_span (length hay) ->
    all_matches (captures_at hay) cap_span (length hay) rs = Some l ->
    option_map fst (replace_all captures_at n2i lt buf rs re template)
      = Some (assemble_all n2i hay template rs l).
Proof. exact replace_all_terminated_line_proof. Qed.
Print Assumptions replace_all_terminated_line.

(* 3b. the replacement never fails or runs out of fuel for a matcher obeying the contract *)
Theorem replace_all_never_stuck :
  forall (captures_at : bytes -> nat -> option caps) (n2i : bytes -> option N)
         (lt : lineterm) (buf : bytes) (rs re : nat) (template : bytes),
    let hay := firstn (trim_line_terminator lt buf 0 re) buf in
    matcher_ok (captures_at hay) cap_span (length hay) ->
    exists out, replace_all captures_at n2i lt buf rs re template = Some out.
Proof. exact replace_all_total. Qed.
Print Assumptions replace_all_never_stuck.

(* 4. KNOWN FINDING D2 (class EmptyMatchAtEndOfUnterminatedLastLine): the full statement
      "replace_all = assemble_all" is false for an unterminated last line whose final match is
      empty and sits at the very end: witness  line "abc", pattern `$`, template "X". *)
Definition d2_matcher (hay : bytes) (p : nat) : option caps :=
  if Nat.leb p (length hay) then Some [Some (length hay, length hay)] else None.
Theorem replace_all_full_refuted :
  exists buf re template l,
    let hay := firstn (trim_line_terminator (LTByte 10) buf 0 re) buf in
    all_matches (d2_matcher hay) cap_span (length hay) 0 = Some l /\
    option_map fst (replace_all d2_matcher (fun _ => None) (LTByte 10) buf 0 re template)
      <> Some (assemble_all (fun _ => None) hay template 0 l).
Proof.
  exists [97; 98; 99]%N, 3, [88]%N, [[Some (3, 3)]]. vm_compute. split; [reflexivity|discriminate].
Qed.
Print Assumptions replace_all_full_refuted.

(* non-vacuity: a terminated line with two matches and a group reference meets the hypotheses
   of theorem 3 and the result is what one expects: "a-b\n" with `[ab]` captured -> "<a>-<b>" *)
Definition ex_matcher (hay : bytes) (p : nat) : option caps :=
  match find (fun i => Nat.leb p i && (match nth_error hay i with Some 97%N | Some 98%N => true | _ => false end))
             (seq 0 (length hay)) with
  | Some i => Some [Some (i, i + 1); Some (i, i + 1)]
  | None => None
  end.
Example replace_all_example :
  replace_all ex_matcher (fun _ => None) (LTByte 10) [97; 45; 98; 10]%N 0 4 [60; 36; 49; 62]%N
  = Some ([60; 97; 62; 45; 60; 98; 62]%N, [(0, 3); (4, 7)]).
Proof. vm_compute. reflexivity. Qed.

Check interpolate_eq_spec :
  forall (cap_text : N -> option bytes) (n2i : bytes -> option N) (t dst : bytes),
    interpolate cap_text n2i t dst = Some (dst ++ expand_spec cap_text n2i t).
