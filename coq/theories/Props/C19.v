(* Props/C19.v — property C19: replacement output = replace-all of each matching line.
   Only statements; every proof is one `exact`.  The Check lines pin the statements. *)
From RG Require Import Base.Bytes Model.Interpolate Model.MatchIter Model.Replace
  Spec.TemplateSpec Spec.ReplaceSpec Proofs.InterpolateProofs Proofs.ReplaceProofs
  Model.ReplaceGlue Proofs.ReplaceGlueProofs.

(* 1. template expansion: the port of the regex library's interpolate in
      crates/matcher/src/interpolate.rs computes the reference grammar's expansion,
      for every template, every capture table, every name table, every destination prefix. *)
Theorem interpolate_eq_spec :
  forall (cap_text : N -> option bytes) (n2i : bytes -> option N) (t dst : bytes),
    interpolate cap_text n2i t dst = Some (dst ++ expand_spec cap_text n2i t).
Proof. exact interpolate_eq_spec_proof. Qed.
Print Assumptions interpolate_eq_spec.

(* 2. Replacer::replace_all (line-oriented search): the produced text is the text between the
      successive matches, each match replaced by its expansion, the tail copied; the recorded
      spans are those of the expansions.  Matches starting at or after the end of the line's
      range are cut off (the source of the known finding D2, see 4). *)
Theorem replace_all_eq_spec :
  forall (captures_at : bytes -> nat -> option caps) (n2i : bytes -> option N)
         (lt : lineterm) (buf : bytes) (rs re : nat) (template : bytes) (l : list caps),
    let hay := firstn (trim_line_terminator lt buf 0 re) buf in
    all_matches (captures_at hay) cap_span (length hay) rs = Some l ->
    replace_all captures_at n2i lt buf rs re template
      = Some (assemble n2i hay template re rs l, assemble_spans n2i hay template re 0 rs l).
Proof. exact replace_all_eq_spec_proof. Qed.
Print Assumptions replace_all_eq_spec.

(* 3. for a line that still carries its terminator nothing is cut off: the result is the
      library's replace-all (every successive match replaced), for every matcher obeying the
      grep-matcher contract  at <= start <= end <= len. *)
Theorem replace_all_terminated_line :
  forall (captures_at : bytes -> nat -> option caps) (n2i : bytes -> option N)
         (lt : lineterm) (buf : bytes) (rs re : nat) (template : bytes) (l : list caps),
    let hay := firstn (trim_line_terminator lt buf 0 re) buf in
    length hay < re ->
    matcher_ok (captures_at hay) cap_span (length hay) ->
    all_matches (captures_at hay) cap_span (length hay) rs = Some l ->
    option_map fst (replace_all captures_at n2i lt buf rs re template)
      = Some (assemble_all n2i hay template rs l).
Proof. exact replace_all_terminated_line_proof. Qed.
Print Assumptions replace_all_terminated_line.

(* 3b. the replacement never fails or runs out of fuel for a matcher obeying the contract *)
Theorem replace_all_never_stuck :
  forall (captures_at : bytes -> nat -> option caps) (n2i : bytes -> option N)
         (lt : lineterm) (buf : bytes) (rs re : nat) (template : bytes),
    let hay := firstn (trim_line_terminator lt buf 0 re) buf in
    matcher_ok (captures_at hay) cap_span (length hay) ->
    exists out, replace_all captures_at n2i lt buf rs re template = Some out.
Proof. exact replace_all_total. Qed.
Print Assumptions replace_all_never_stuck.

(* 4. KNOWN FINDING D2 (class EmptyMatchAtEndOfUnterminatedLastLine): the full statement
      "replace_all = assemble_all" is false for an unterminated last line whose final match is
      empty and sits at the very end: witness  line "abc", pattern `$`, template "X". *)
Definition d2_matcher (hay : bytes) (p : nat) : option caps :=
  if Nat.leb p (length hay) then Some [Some (length hay, length hay)] else None.
Theorem replace_all_full_refuted :
  exists buf re template l,
    let hay := firstn (trim_line_terminator (LTByte 10) buf 0 re) buf in
    all_matches (d2_matcher hay) cap_span (length hay) 0 = Some l /\
    option_map fst (replace_all d2_matcher (fun _ => None) (LTByte 10) buf 0 re template)
      <> Some (assemble_all (fun _ => None) hay template 0 l).
Proof.
  exists [97; 98; 99]%N, 3, [88]%N, [[Some (3, 3)]]. vm_compute. split; [reflexivity|discriminate].
Qed.
Print Assumptions replace_all_full_refuted.

(* non-vacuity: a terminated line with two matches and a group reference meets the hypotheses
   of theorem 3 and the result is what one expects: "a-b\n" with `[ab]` captured -> "<a>-<b>" *)
Definition ex_matcher (hay : bytes) (p : nat) : option caps :=
  match find (fun i => Nat.leb p i && (match nth_error hay i with Some 97%N | Some 98%N => true | _ => false end))
             (seq 0 (length hay)) with
  | Some i => Some [Some (i, i + 1); Some (i, i + 1)]
  | None => None
  end.
Example replace_all_example :
  replace_all ex_matcher (fun _ => None) (LTByte 10) [97; 45; 98; 10]%N 0 4 [60; 36; 49; 62]%N
  = Some ([60; 97; 62; 45; 60; 98; 62]%N, [(0, 3); (4, 7)]).
Proof. vm_compute. reflexivity. Qed.

Check interpolate_eq_spec :
  forall (cap_text : N -> option bytes) (n2i : bytes -> option N) (t dst : bytes),
    interpolate cap_text n2i t dst = Some (dst ++ expand_spec cap_text n2i t).

(* ---- the call site: StandardSink::matched -> Replacer::replace_all (Model/ReplaceGlue.v) ----

   5. What the standard printer computes for a matched range (rs, re) of the searcher's buffer
      under -r, for both kinds of search: the specification's replace-all of the range in the
      context of the WINDOW the replacement pass looks at (multi-line: the buffer, cut
      MAX_LOOK_AHEAD = 128 bytes after the range when at least 128 bytes follow; line search: the
      buffer up to the end of the line's content).  The matches are those of the search of the
      window from rs on that start inside the range; they must end inside the range (the
      searcher's range covers its matches), else the Rust code panics (see 7). *)
Theorem standard_replacement_eq_spec_window :
  forall (captures_at : bytes -> nat -> option caps) (n2i : bytes -> option N)
         (ml : bool) (lt : lineterm) (buf : bytes) (rs re : nat) (template : bytes) (l : list caps),
    let hay := replace_haystack ml lt buf re in
    rs <= Nat.min (length hay) re ->
    (forall c, In c l -> fst (cap_span c) < re -> snd (cap_span c) <= Nat.min (length hay) re) ->
    all_matches (captures_at hay) cap_span (length hay) rs = Some l ->
    standard_matched_replace captures_at n2i ml lt buf (rs, re) template
      = Some (assemble n2i hay template re rs l, assemble_spans n2i hay template re 0 rs l).
Proof. exact standard_replacement_eq_spec_window_proof. Qed.
Print Assumptions standard_replacement_eq_spec_window.

(* 6. multi-line search, fewer than MAX_LOOK_AHEAD bytes after the range: the replaced text is
      the replace-all of the range in the context of the WHOLE buffer — the matches are those of
      the whole-buffer search (from rs on) that start inside the range; look-ahead past the end
      of the matched lines is what the whole buffer gives.  `_partial`: the hypothesis on the
      length is needed (7), and the search is restarted at rs (not carried over from the
      previous range). *)
Theorem standard_replacement_eq_spec_partial :
  forall (captures_at : bytes -> nat -> option caps) (n2i : bytes -> option N)
         (lt : lineterm) (buf : bytes) (rs re : nat) (template : bytes) (l : list caps),
    length buf - re < MAX_LOOK_AHEAD ->
    rs <= re <= length buf ->
    (forall c, In c l -> fst (cap_span c) < re -> snd (cap_span c) <= re) ->
    all_matches (captures_at buf) cap_span (length buf) rs = Some l ->
    standard_matched_replace captures_at n2i true lt buf (rs, re) template
      = Some (assemble n2i buf template re rs l, assemble_spans n2i buf template re 0 rs l).
Proof. exact standard_replacement_eq_spec_partial_proof. Qed.
Print Assumptions standard_replacement_eq_spec_partial.

(* 6b. line search through the same call site: the window is the buffer up to the end of the
       line's content and every match of a contract-obeying matcher ends inside it *)
Theorem standard_replacement_line_mode :
  forall (captures_at : bytes -> nat -> option caps) (n2i : bytes -> option N)
         (lt : lineterm) (buf : bytes) (rs re : nat) (template : bytes) (l : list caps),
    let hay := firstn (trim_line_terminator lt buf 0 re) buf in
    rs <= length hay -> length hay <= re ->
    matcher_ok (captures_at hay) cap_span (length hay) ->
    all_matches (captures_at hay) cap_span (length hay) rs = Some l ->
    standard_matched_replace captures_at n2i false lt buf (rs, re) template
      = Some (assemble n2i hay template re rs l, assemble_spans n2i hay template re 0 rs l).
Proof. exact standard_replacement_line_mode_proof. Qed.
Print Assumptions standard_replacement_line_mode.

(* 7. FINDING (class ReplacementWindowMatchEndsPastRange): 6 without the length hypothesis is
      false.  For a matcher obeying the contract on every haystack, a buffer with 129 bytes after
      the range and a range that covers all its whole-buffer matches, the replacement pass finds in
      its 128-byte window a match that the whole buffer does not have, which starts inside the
      range and ends after it; the Rust code then panics (slice index), the model yields None.
      Replayed on rg:  printf 'ab\n%0128d%s\n' 0 yyy | tr 0 x > f; rg -U -r X 'b\n(?s:.{128})\z|a' f *)
Theorem standard_replacement_eq_spec_refuted :
  exists (captures_at : bytes -> nat -> option caps) buf rs re template l,
    (forall hay, matcher_ok (captures_at hay) cap_span (length hay)) /\
    rs <= re <= length buf /\
    all_matches (captures_at buf) cap_span (length buf) rs = Some l /\
    (forall c, In c l -> fst (cap_span c) < re -> snd (cap_span c) <= re) /\
    standard_matched_replace captures_at (fun _ => None) true (LTByte 10) buf (rs, re) template = None.
Proof. exact standard_replacement_eq_spec_refuted_proof. Qed.
Print Assumptions standard_replacement_eq_spec_refuted.

(* non-vacuity of 5/6: the matcher of `(\w+)\n\b` (a match must see the first byte of the NEXT
   line) on "a\nb\n\n"; the range of the line "a\n" needs the byte 'b' that lies after the range. *)
Definition la_word (b : N) : bool := ((97 <=? b) && (b <=? 122))%N.
Definition la_matcher (hay : bytes) (p : nat) : option caps :=
  match find (fun i => Nat.leb p i
                       && (match nth_error hay i with Some b => la_word b | None => false end)
                       && (match nth_error hay (i + 1) with Some 10%N => true | _ => false end)
                       && (match nth_error hay (i + 2) with Some b => la_word b | None => false end))
             (seq 0 (length hay)) with
  | Some i => Some [Some (i, i + 2); Some (i, i + 1)]
  | None => None
  end.
Example standard_replacement_example :
  (* "a\nb\n\n", template "<$1>", range 0..2 (the line "a\n"): the look-ahead byte 'b' lies after the range *)
  standard_matched_replace la_matcher (fun _ => None) true (LTByte 10) [97; 10; 98; 10; 10]%N (0, 2) [60; 36; 49; 62]%N
    = Some ([60; 97; 62]%N, [(0, 3)])
  /\ all_matches (la_matcher [97; 10; 98; 10; 10]%N) cap_span 5 0 = Some [[Some (0, 2); Some (0, 1)]]
  /\ (* the same call on the matched lines alone (the seeded defect) finds nothing *)
  standard_matched_replace la_matcher (fun _ => None) true (LTByte 10) [97; 10]%N (0, 2) [60; 36; 49; 62]%N
    = Some ([97; 10]%N, []).
Proof. vm_compute. repeat split; reflexivity. Qed.

Check standard_replacement_eq_spec_partial :
  forall (captures_at : bytes -> nat -> option caps) (n2i : bytes -> option N)
         (lt : lineterm) (buf : bytes) (rs re : nat) (template : bytes) (l : list caps),
    length buf - re < MAX_LOOK_AHEAD ->
    rs <= re <= length buf ->
    (forall c, In c l -> fst (cap_span c) < re -> snd (cap_span c) <= re) ->
    all_matches (captures_at buf) cap_span (length buf) rs = Some l ->
    standard_matched_replace captures_at n2i true lt buf (rs, re) template
      = Some (assemble n2i buf template re rs l, assemble_spans n2i buf template re 0 rs l).
