(* Props/C06.v — property C06: single-threaded and parallel traversal report the same entries, once each.
   Only statements; every proof is one `exact` (or a vm_compute witness).  The Check lines pin the statements. *)
From RG Require Import Base.Bytes Model.Walk Model.WalkIgErr Spec.WalkSpec Proofs.WalkProofs Proofs.WalkTotal Proofs.WalkIgErr.
From Coq Require Import Permutation.

(* 1. The skipping decision of the serial walker (Walk::skip_entry) and of the parallel walker
      (the checks of Worker::generate_work) are the same boolean function of (matcher stack, entry),
      for every file system, size limit, filter predicate and ignore verdict. *)
Theorem skip_serial_eq_skip_parallel :
  forall (fs : fsys) (max_filesize : option N) (has_filter : bool) (filter : dent -> bool)
         (should_skip : igstack -> dent -> bool) (ig : igstack) (e : dent),
    0 < de_depth e ->
    skip_entry_with fs max_filesize has_filter filter should_skip true ig e
    = par_skip fs max_filesize has_filter filter should_skip ig e.
Proof. exact skip_serial_eq_skip_parallel_proof. Qed.
Print Assumptions skip_serial_eq_skip_parallel.

(* 1b. D5: on the pinned text this was false — with a size limit the serial walker returned the size
       verdict for files and never asked filter_entry.  Repaired by the fix: commit "ignore:
       single-threaded walker applies filter_entry to files when max_filesize is set". *)
Definition d5_fs : fsys := [{| i_kind := FFile 1; i_dev := 0 |}].
Definition d5_ent : dent := {| de_path := [114; 47; 97]%N; de_depth := 1; de_ty := TyFile; de_follow := false; de_ino := 0 |}.
Theorem skip_serial_eq_skip_parallel_pinned_refuted :
  exists (fs : fsys) (max_filesize : option N) (filter : dent -> bool) (ig : igstack) (e : dent),
    0 < de_depth e /\
    skip_entry_with fs max_filesize true filter (fun _ _ => false) false ig e
    <> par_skip fs max_filesize true filter (fun _ _ => false) ig e.
Proof. exists d5_fs, (Some 10%N), (fun _ => false), [], d5_ent. split; [vm_compute; lia|vm_compute; discriminate]. Qed.
Print Assumptions skip_serial_eq_skip_parallel_pinned_refuted.

(* 2. new finding D15: with same_file_system the pinned serial walker called skip_current_dir for a
      skipped directory that walkdir had not entered (it lives on another device); that popped the
      parent directory instead and dropped the remaining siblings.  Witness: t/{m (dir, other device,
      rejected by the filter), z}: pinned serial yields [t], the parallel walker [t, t/z].
      Repaired by the fix: commit "ignore: single-threaded walker no longer drops siblings of a
      skipped directory on another file system" (Walk::is_descended). *)
Definition d15_fs : fsys :=
  [ {| i_kind := FDir [([109]%N, 1); ([122]%N, 2)]; i_dev := 1 |};
    {| i_kind := FDir []; i_dev := 2 |};
    {| i_kind := FFile 0; i_dev := 1 |} ].
Definition d15_filter (e : dent) : bool := negb (bytes_eqb (de_path e) [116; 47; 109]%N).
Definition out_path (o : out) : bytes := match o with OEntry e => de_path e | OLoop c => c | OIoErr p => p end.
Definition d15_serial (d15 : bool) :=
  option_map (map out_path)
    (serial_walk_with d15_fs None None false true true d15_filter (fun _ _ => false) true d15 50 [([116]%N, 0)]).
Definition d15_parallel :=
  option_map (map out_path)
    (par_walk d15_fs None None false true true d15_filter (fun _ _ => false) 50 [([116]%N, 0)]).
Theorem serial_eq_parallel_pinned_refuted :
  d15_serial false = Some [[116]%N] /\ d15_parallel = Some [[116]%N; [116; 47; 122]%N].
Proof. vm_compute. split; reflexivity. Qed.
Print Assumptions serial_eq_parallel_pinned_refuted.
(* the repaired walker on the same witness *)
Example d15_repaired : d15_serial true = d15_parallel.
Proof. vm_compute. reflexivity. Qed.

(* 3. parallel_set_eq_spec / each_once (for the worklist model): whenever the workers finish, what they
      reported is a permutation of the descent tree of the roots — each root's entry, then for every
      yielded, descended directory the children that pass the skip function, recursively — so every
      entry of that tree is reported exactly once and nothing else is.  [descent] is inductive (the
      least such set).  For every file system, configuration, verdict and filter function.
      Termination (a derivation exists and fuel suffices for every file system) is NOT proved here:
      see notes/C06.md (loop_detected_and_terminates is partial). *)
Theorem parallel_reports_descent_each_once :
  forall (fs : fsys) (max_depth : option nat) (max_filesize : option N) (follow_links same_fs has_filter : bool)
         (filter : dent -> bool) (should_skip : igstack -> dent -> bool) (fuel : nat)
         (roots : list (bytes * nat)) (outs : list out),
    par_walk fs max_depth max_filesize follow_links same_fs has_filter filter should_skip fuel roots = Some outs ->
    exists each,
      Forall2 (descent fs max_depth max_filesize follow_links has_filter filter should_skip)
              (rev (flat_map snd (map (par_root fs same_fs) roots))) each /\
      Permutation.Permutation outs (flat_map fst (map (par_root fs same_fs) roots) ++ concat each).
Proof. exact (fun fs md mf fl sf hf filt sk => par_walk_descent fs md mf fl hf filt sk sf). Qed.
Print Assumptions parallel_reports_descent_each_once.

(* 4. loop_detected (the step-local part of loop_detected_and_terminates): with follow_links a
      followed directory is never queued when its inode is among the ancestors on the matcher
      stack, and in that situation the Loop error is what is reported. *)
Theorem loop_never_extended_partial :
  forall (fs : fsys) (max_filesize : option N) (follow_links has_filter : bool) (filter : dent -> bool)
         (should_skip : igstack -> dent -> bool) (ig : igstack) (dir : bytes) (depth : nat) (ent : bytes * nat) (c : dent),
    generate_work fs max_filesize follow_links has_filter filter should_skip ig dir depth ent = GWork c ->
    de_follow c = true -> de_is_dir c = true ->
    existsb (fun a => same_handle fs (de_ino c) (snd a)) ig = false.
Proof. exact loop_never_extended_proof. Qed.
Print Assumptions loop_never_extended_partial.

Theorem loop_reported :
  forall (fs : fsys) (max_filesize : option N) (follow_links has_filter : bool) (filter : dent -> bool)
         (should_skip : igstack -> dent -> bool) (ig : igstack) (dir : bytes) (depth : nat) (ent : bytes * nat) (e1 : dent),
    follow_links = true -> de_is_symlink (from_entry fs dir depth ent) = true ->
    from_path fs (de_path (from_entry fs dir depth ent)) depth (snd ent) true = Some e1 ->
    de_is_dir e1 = true -> existsb (fun a => same_handle fs (de_ino e1) (snd a)) ig = true ->
    generate_work fs max_filesize follow_links has_filter filter should_skip ig dir depth ent = GOut (OLoop (de_path e1)).
Proof. exact loop_reported_proof. Qed.
Print Assumptions loop_reported.

(* 5. parallel_set_eq_spec, total (and loop_detected_and_terminates): on every file system whose
      directories form a forest (some ranking increases towards sub-directories; symbolic links may
      point anywhere, cycles included) the parallel walker finishes — an explicit amount of fuel
      suffices and any larger amount gives the same result — every root's descent tree is finite, and
      what was reported is a permutation of the root messages and those trees.  The hypothesis
      `= Some outs` of theorem 3 is gone. *)
Theorem parallel_terminates_and_reports_descent :
  forall (fs : fsys) (max_depth : option nat) (max_filesize : option N) (follow_links same_fs has_filter : bool)
         (filter : dent -> bool) (should_skip : igstack -> dent -> bool) (rk : nat -> nat) (B : nat)
         (roots : list (bytes * nat)),
    ranked fs rk B ->
    exists k outs each,
      (forall F, par_walk fs max_depth max_filesize follow_links same_fs has_filter filter should_skip (k + F) roots = Some outs) /\
      Forall2 (descent fs max_depth max_filesize follow_links has_filter filter should_skip)
              (flat_map snd (map (par_root fs same_fs) roots)) each /\
      Permutation outs (flat_map fst (map (par_root fs same_fs) roots) ++ concat each).
Proof. exact (fun fs md mf fl sf hf filt sk => par_total_proof fs md mf fl sf hf filt sk). Qed.
Print Assumptions parallel_terminates_and_reports_descent.

(* 5b. the fact behind it: every work item has a (finite) descent.  With follow_links a directory
       reached through a link is never one of its own ancestors (theorem 4), so along any path the
       set of ancestor inodes grows or the rank does: a lexicographic measure decreases. *)
Theorem loop_detected_and_terminates :
  forall (fs : fsys) (max_depth : option nat) (max_filesize : option N) (follow_links has_filter : bool)
         (filter : dent -> bool) (should_skip : igstack -> dent -> bool) (rk : nat -> nat) (B : nat),
    ranked fs rk B -> forall w : work, dent_ok fs (w_dent w) ->
    exists D, descent fs max_depth max_filesize follow_links has_filter filter should_skip w D.
Proof. exact descent_exists. Qed.
Print Assumptions loop_detected_and_terminates.

(* 6. serial_set_eq_spec + each_once for the serial walker (walkdir's stack of open directories,
      WalkEventIter's depth counter and one-element buffer, Walk::next with its matcher stack,
      skip_current_dir, is_descended): given the descent trees of the roots, the serial walker
      finishes and what it reported is — kind, path and depth — a permutation of the root messages
      and those trees: every reachable, non-skipped entry exactly once, each loop / dangling-link error
      once, nothing else.  (Compared on (kind, path, depth): a root that is a symlink to a directory is
      reported with the link's file type by the serial walker and the target's by the parallel one.) *)
Theorem serial_set_eq_spec :
  forall (fs : fsys) (max_depth : option nat) (max_filesize : option N) (follow_links same_fs has_filter : bool)
         (filter : dent -> bool) (should_skip : igstack -> dent -> bool)
         (roots : list (bytes * nat)) (each : list (list out)),
    links_ok fs ->
    Forall2 (descent fs max_depth max_filesize follow_links has_filter filter should_skip)
            (flat_map snd (map (par_root fs same_fs) roots)) each ->
    exists n souts,
      (forall F, serial_walk fs max_depth max_filesize follow_links same_fs has_filter filter should_skip (n + F) roots = Some souts) /\
      Permutation (map okey souts) (map okey (flat_map fst (map (par_root fs same_fs) roots) ++ concat each)).
Proof. exact serial_descent_proof. Qed.
Print Assumptions serial_set_eq_spec.

(* 7. the property: for every file system (forest of directories, resolved links), every
      configuration (max_depth, max_filesize, follow_links, same_file_system, filter_entry), every
      ignore verdict function and every list of roots, both walkers finish and deliver the same
      multiset of (kind, path, depth): the same entries, each once, and the same errors. *)
Theorem serial_eq_parallel :
  forall (fs : fsys) (max_depth : option nat) (max_filesize : option N) (follow_links same_fs has_filter : bool)
         (filter : dent -> bool) (should_skip : igstack -> dent -> bool) (rk : nat -> nat) (B : nat)
         (roots : list (bytes * nat)),
    ranked fs rk B -> links_ok fs ->
    exists n souts pouts,
      (forall F, serial_walk fs max_depth max_filesize follow_links same_fs has_filter filter should_skip (n + F) roots = Some souts) /\
      (forall F, par_walk fs max_depth max_filesize follow_links same_fs has_filter filter should_skip (n + F) roots = Some pouts) /\
      Permutation (map okey souts) (map okey pouts).
Proof. exact serial_eq_parallel_proof. Qed.
Print Assumptions serial_eq_parallel.

(* non-vacuity of the hypotheses: the file system of loop_example below (a directory containing a
   file and a link back to itself) is a ranked forest with resolved links *)
(* non-vacuity of 3 and 4: a tree with a cycle t/{a, l -> .}: both walkers finish, report t, t/a and
   one Loop error for t/l *)
Definition loop_fs : fsys :=
  [ {| i_kind := FDir [([97]%N, 1); ([108]%N, 2)]; i_dev := 1 |};
    {| i_kind := FFile 3; i_dev := 1 |};
    {| i_kind := FLink (Some 0) 1; i_dev := 1 |} ].
Definition show_out (o : out) : N * bytes :=
  match o with OEntry e => (0%N, de_path e) | OLoop c => (1%N, c) | OIoErr p => (2%N, p) end.
Example loop_example :
  option_map (map show_out) (par_walk loop_fs None None true false false (fun _ => true) (fun _ _ => false) 50 [([116]%N, 0)])
    = Some [(0, [116]); (1, [116; 47; 108]); (0, [116; 47; 97])]%N
  /\ option_map (map show_out) (serial_walk loop_fs None None true false false (fun _ => true) (fun _ _ => false) 50 [([116]%N, 0)])
    = Some [(0, [116]); (0, [116; 47; 97]); (1, [116; 47; 108])]%N.
Proof. vm_compute. split; reflexivity. Qed.

(* non-vacuity of 1: a file rejected by the filter under a size limit is skipped by both *)
Example skip_example :
  skip_entry_with d5_fs (Some 10%N) true (fun _ => false) (fun _ _ => false) true [] d5_ent = true
  /\ par_skip d5_fs (Some 10%N) true (fun _ => false) (fun _ _ => false) [] d5_ent = true.
Proof. vm_compute. split; reflexivity. Qed.

Example loop_fs_wf : ranked loop_fs (fun i => i) 3 /\ links_ok loop_fs.
Proof.
  split.
  - intros i name j H HT. destruct i as [|[|[|[|i]]]]; cbn in H; try contradiction.
    destruct H as [H|[H|[]]]; injection H as <- <-; cbn in HT; discriminate.
  - intros i t H. destruct i as [|[|[|[|i]]]]; cbn in H; injection H as <-; cbn; discriminate.
Qed.

(* 7. Partial errors of a directory's ignore files (Model/WalkIgErr.v: building a directory's matcher yields
      (matcher, option error)).  In both walkers the matcher installed for a directory is the one add_child returned —
      the directory's node with [fst (compile ..)] on top of the unchanged stack — whatever error accompanied it (also for
      a skipped directory in the serial walker); the error itself goes to the entry. *)
Theorem partial_error_keeps_matcher :
  forall (matcher igerr : Type) (compile : bytes -> nat -> matcher * option igerr) (fs : fsys)
         (ig : mstack matcher) (e : dent) (skipped : bool),
    fst (serial_dir_push matcher igerr compile fs skipped ig e)
      = {| in_dir := de_path e; in_ino := hino fs e; in_m := fst (compile (de_path e) (hino fs e)) |} :: ig
    /\ fst (par_read_dir matcher igerr compile ig e)
      = {| in_dir := de_path e; in_ino := de_ino e; in_m := fst (compile (de_path e) (de_ino e)) |} :: ig
    /\ snd (par_read_dir matcher igerr compile ig e) = snd (compile (de_path e) (de_ino e))
    /\ snd (serial_dir_push matcher igerr compile fs false ig e) = snd (compile (de_path e) (hino fs e)).
Proof. exact partial_error_keeps_matcher_proof. Qed.
Print Assumptions partial_error_keeps_matcher.

(* 7b. the explicit stack and Model/Walk.v's (path, inode) stack: the two pushes erase to exactly the pushes of
       walk_step / run_one, and push, pop and the empty stack keep "every matcher is what compile returns" *)
Theorem push_commutes_with_erase :
  forall (matcher igerr : Type) (compile : bytes -> nat -> matcher * option igerr) (fs : fsys)
         (ig : mstack matcher) (e : dent) (skipped : bool),
    erase matcher (fst (serial_dir_push matcher igerr compile fs skipped ig e)) = (de_path e, hino fs e) :: erase matcher ig
    /\ erase matcher (fst (par_read_dir matcher igerr compile ig e)) = (de_path e, de_ino e) :: erase matcher ig.
Proof. exact push_erase_proof. Qed.
Print Assumptions push_commutes_with_erase.

Theorem matcher_stack_wf_preserved :
  forall (matcher igerr : Type) (compile : bytes -> nat -> matcher * option igerr) (fs : fsys)
         (ig : mstack matcher) (e : dent) (skipped : bool),
    wf_mstack matcher igerr compile ig ->
    wf_mstack matcher igerr compile (fst (serial_dir_push matcher igerr compile fs skipped ig e))
    /\ wf_mstack matcher igerr compile (fst (par_read_dir matcher igerr compile ig e))
    /\ wf_mstack matcher igerr compile (tl ig)
    /\ wf_mstack matcher igerr compile [].
Proof. exact wf_preserved_proof. Qed.
Print Assumptions matcher_stack_wf_preserved.
Example matcher_stack_wf_nonvacuous :
  wf_mstack nat unit (fun _ _ => (7, Some tt)) [{| in_dir := []; in_ino := 0; in_m := 7 |}].
Proof. reflexivity. Qed.

Theorem verdict_is_function_of_dir_stack :
  forall (matcher igerr : Type) (compile : bytes -> nat -> matcher * option igerr)
         (verdict : mstack matcher -> dent -> bool) (ig : mstack matcher) (e : dent),
    wf_mstack matcher igerr compile ig ->
    verdict ig e = should_skip_of matcher igerr compile verdict (erase matcher ig) e.
Proof. exact verdict_on_wf_proof. Qed.
Print Assumptions verdict_is_function_of_dir_stack.

(* 7c. hence the property for trees with malformed ignore lines: for EVERY compile function (in particular one that
       reports an error for some or all directories) and every verdict over the explicit matcher stack *)
Theorem serial_eq_parallel_partial_errors :
  forall (matcher igerr : Type) (compile : bytes -> nat -> matcher * option igerr) (fs : fsys)
         (verdict : mstack matcher -> dent -> bool)
         (max_depth : option nat) (max_filesize : option N) (follow_links same_fs has_filter : bool)
         (filter : dent -> bool) (rk : nat -> nat) (B : nat) (roots : list (bytes * nat)),
    ranked fs rk B -> links_ok fs ->
    exists n souts pouts,
      (forall F, serial_walk fs max_depth max_filesize follow_links same_fs has_filter filter
                   (should_skip_of matcher igerr compile verdict) (n + F) roots = Some souts) /\
      (forall F, par_walk fs max_depth max_filesize follow_links same_fs has_filter filter
                   (should_skip_of matcher igerr compile verdict) (n + F) roots = Some pouts) /\
      Permutation (map okey souts) (map okey pouts).
Proof. exact serial_eq_parallel_partial_errors_proof. Qed.
Print Assumptions serial_eq_parallel_partial_errors.

(* 7d. the statement has teeth: installing the matcher only when no error came with it (seeded change C08-21) violates 7 *)
Theorem only_if_ok_loses_matcher :
  exists (compile : bytes -> nat -> nat * option unit) (e : dent),
    fst (par_read_dir_only_if_ok nat unit compile [] e) <> fst (par_read_dir nat unit compile [] e).
Proof. exact only_if_ok_loses_matcher_proof. Qed.
Print Assumptions only_if_ok_loses_matcher.

Check serial_eq_parallel :
  forall (fs : fsys) (max_depth : option nat) (max_filesize : option N) (follow_links same_fs has_filter : bool)
         (filter : dent -> bool) (should_skip : igstack -> dent -> bool) (rk : nat -> nat) (B : nat)
         (roots : list (bytes * nat)),
    ranked fs rk B -> links_ok fs ->
    exists n souts pouts,
      (forall F, serial_walk fs max_depth max_filesize follow_links same_fs has_filter filter should_skip (n + F) roots = Some souts) /\
      (forall F, par_walk fs max_depth max_filesize follow_links same_fs has_filter filter should_skip (n + F) roots = Some pouts) /\
      Permutation (map okey souts) (map okey pouts).
Check skip_serial_eq_skip_parallel :
  forall (fs : fsys) (max_filesize : option N) (has_filter : bool) (filter : dent -> bool)
         (should_skip : igstack -> dent -> bool) (ig : igstack) (e : dent),
    0 < de_depth e ->
    skip_entry_with fs max_filesize has_filter filter should_skip true ig e
    = par_skip fs max_filesize has_filter filter should_skip ig e.

(* the source tie (DESIGN §4.2): the definitions of Gen/DecisionsLib.v are regenerated on every run from the
   current text of crates/ignore/src/walk.rs (skip_filesize, Walk::skip_entry, and in Worker::generate_work the two
   `let should_skip_.. = ..` decisions and the condition of `self.send(..)`); they equal the model definitions.
   filter_of / filesize_verdict / is_some_N (Model/LibArgs.v) read the arguments off the model walker. *)
From RG Require Gen.DecisionsLib Proofs.GenLibProofs.
From RG Require Import Model.LibExpected Model.LibArgs.
Theorem skip_filesize_generated_eq_model : forall (fs : fsys) (maxsz : N) (e : dent),
  DecisionsLib.skip_filesize maxsz (de_len fs e) = Walk.skip_filesize fs maxsz e.
Proof. exact GenLibProofs.skip_filesize_eq. Qed.
Print Assumptions skip_filesize_generated_eq_model.

(* the model walker has no stdout handle: self.skip = None (see the next two theorems for Some) *)
Theorem skip_entry_generated_eq_model :
  forall (fs : fsys) (max_filesize : option N) (has_filter : bool) (filter : dent -> bool)
         (should_skip : igstack -> dent -> bool) (ig : igstack) (e : dent) (path_equals : bool),
    DecisionsLib.skip_entry (de_depth e) (should_skip ig e) None path_equals (is_some_N max_filesize) (de_is_dir e)
                            (filesize_verdict fs max_filesize e) (filter_of has_filter filter e)
    = skip_entry_with fs max_filesize has_filter filter should_skip true ig e.
Proof. exact GenLibProofs.skip_entry_eq. Qed.
Print Assumptions skip_entry_generated_eq_model.

Theorem skip_entry_generated_stdout_is_skipped : forall depth mfs isd sfv flt,
  depth <> 0 -> DecisionsLib.skip_entry depth false (Some tt) true mfs isd sfv flt = true.
Proof. exact GenLibProofs.skip_entry_stdout. Qed.
Print Assumptions skip_entry_generated_stdout_is_skipped.
Example skip_entry_generated_stdout_example : 1 <> 0. Proof. discriminate. Qed.

Theorem skip_entry_generated_other_file_as_without_handle : forall depth ss mfs isd sfv flt,
  DecisionsLib.skip_entry depth ss (Some tt) false mfs isd sfv flt
  = DecisionsLib.skip_entry depth ss None false mfs isd sfv flt.
Proof. exact GenLibProofs.skip_entry_not_stdout. Qed.
Print Assumptions skip_entry_generated_other_file_as_without_handle.

Theorem par_skip_generated_eq_model :
  forall (fs : fsys) (max_filesize : option N) (has_filter : bool) (filter : dent -> bool)
         (should_skip : igstack -> dent -> bool) (ig : igstack) (e : dent),
    (if should_skip ig e then true else
     negb (DecisionsLib.par_send
             (DecisionsLib.par_should_skip_filesize (is_some_N max_filesize) (de_is_dir e)
                                                    (filesize_verdict fs max_filesize e))
             (DecisionsLib.par_should_skip_filtered (filter_of has_filter filter e))))
    = par_skip fs max_filesize has_filter filter should_skip ig e.
Proof. exact GenLibProofs.par_skip_eq. Qed.
Print Assumptions par_skip_generated_eq_model.
Check skip_entry_generated_eq_model :
  forall (fs : fsys) (max_filesize : option N) (has_filter : bool) (filter : dent -> bool)
         (should_skip : igstack -> dent -> bool) (ig : igstack) (e : dent) (path_equals : bool),
    DecisionsLib.skip_entry (de_depth e) (should_skip ig e) None path_equals (is_some_N max_filesize) (de_is_dir e)
                            (filesize_verdict fs max_filesize e) (filter_of has_filter filter e)
    = skip_entry_with fs max_filesize has_filter filter should_skip true ig e.
