(* Props/C06.v — property C06: single-threaded and parallel traversal report the same entries, once each.
   Only statements; every proof is one `exact` (or a vm_compute witness).  The Check lines pin the statements. *)
From RG Require Import Base.Bytes Model.Walk Proofs.WalkProofs.

(* 1. The skipping decision of the serial walker (Walk::skip_entry) and of the parallel walker
      (the checks of Worker::generate_work) are the same boolean function of (matcher stack, entry),
      for every file system, size limit, filter predicate and ignore verdict. *)
Theorem skip_serial_eq_skip_parallel :
  forall (fs : fsys) (max_filesize : option N) (has_filter : bool) (filter : dent -> bool)
         (should_skip : igstack -> dent -> bool) (ig : igstack) (e : dent),
    0 < de_depth e ->
    skip_entry_with fs max_filesize has_filter filter should_skip true ig e
    = par_skip fs max_filesize has_filter filter should_skip ig e.
Proof. exact skip_serial_eq_skip_parallel_proof. Qed.
Print Assumptions skip_serial_eq_skip_parallel.

(* 1b. D5: on the pinned text this was false — with a size limit the serial walker returned the size
       verdict for files and never asked filter_entry.  Repaired by the fix: commit "ignore:
       single-threaded walker applies filter_entry to files when max_filesize is set". *)
Definition d5_fs : fsys := [{| i_kind := FFile 1; i_dev := 0 |}].
Definition d5_ent : dent := {| de_path := [114; 47; 97]%N; de_depth := 1; de_ty := TyFile; de_follow := false; de_ino := 0 |}.
Theorem skip_serial_eq_skip_parallel_pinned_refuted :
  exists (fs : fsys) (max_filesize : option N) (filter : dent -> bool) (ig : igstack) (e : dent),
    0 < de_depth e /\
    skip_entry_with fs max_filesize true filter (fun _ _ => false) false ig e
    <> par_skip fs max_filesize true filter (fun _ _ => false) ig e.
Proof. exists d5_fs, (Some 10%N), (fun _ => false), [], d5_ent. split; [vm_compute; lia|vm_compute; discriminate]. Qed.
Print Assumptions skip_serial_eq_skip_parallel_pinned_refuted.

(* 2. new finding D15: with same_file_system the pinned serial walker called skip_current_dir for a
      skipped directory that walkdir had not entered (it lives on another device); that popped the
      parent directory instead and dropped the remaining siblings.  Witness: t/{m (dir, other device,
      rejected by the filter), z}: pinned serial yields [t], the parallel walker [t, t/z].
      Repaired by the fix: commit "ignore: single-threaded walker no longer drops siblings of a
      skipped directory on another file system" (Walk::is_descended). *)
Definition d15_fs : fsys :=
  [ {| i_kind := FDir [([109]%N, 1); ([122]%N, 2)]; i_dev := 1 |};
    {| i_kind := FDir []; i_dev := 2 |};
    {| i_kind := FFile 0; i_dev := 1 |} ].
Definition d15_filter (e : dent) : bool := negb (bytes_eqb (de_path e) [116; 47; 109]%N).
Definition out_path (o : out) : bytes := match o with OEntry e => de_path e | OLoop c => c | OIoErr p => p end.
Definition d15_serial (d15 : bool) :=
  option_map (map out_path)
    (serial_walk_with d15_fs None None false true true d15_filter (fun _ _ => false) true d15 50 [([116]%N, 0)]).
Definition d15_parallel :=
  option_map (map out_path)
    (par_walk d15_fs None None false true true d15_filter (fun _ _ => false) 50 [([116]%N, 0)]).
Theorem serial_eq_parallel_pinned_refuted :
  d15_serial false = Some [[116]%N] /\ d15_parallel = Some [[116]%N; [116; 47; 122]%N].
Proof. vm_compute. split; reflexivity. Qed.
Print Assumptions serial_eq_parallel_pinned_refuted.
(* the repaired walker on the same witness *)
Example d15_repaired : d15_serial true = d15_parallel.
Proof. vm_compute. reflexivity. Qed.

(* non-vacuity of 1: a file rejected by the filter under a size limit is skipped by both *)
Example skip_example :
  skip_entry_with d5_fs (Some 10%N) true (fun _ => false) (fun _ _ => false) true [] d5_ent = true
  /\ par_skip d5_fs (Some 10%N) true (fun _ => false) (fun _ _ => false) [] d5_ent = true.
Proof. vm_compute. split; reflexivity. Qed.

Check skip_serial_eq_skip_parallel :
  forall (fs : fsys) (max_filesize : option N) (has_filter : bool) (filter : dent -> bool)
         (should_skip : igstack -> dent -> bool) (ig : igstack) (e : dent),
    0 < de_depth e ->
    skip_entry_with fs max_filesize has_filter filter should_skip true ig e
    = par_skip fs max_filesize has_filter filter should_skip ig e.
