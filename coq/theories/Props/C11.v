(* Props/C11.v — property C11: line-mode matcher promises, for all lines.
   Only statements; every proof is one `exact`. *)
From RG Require Import Base.Bytes Spec.RegexSem Model.RegexBuild Model.RegexLiteral Proofs.RegexSemProofs.

(* 0. every match of the HIR semantics lies inside the haystack *)
Theorem matches_inside : forall h s i j, Matches h s i j -> i <= j <= length s.
Proof. exact matches_bounds. Qed.
Print Assumptions matches_inside.
