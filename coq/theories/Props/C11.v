(* Props/C11.v — property C11: line-mode matcher promises hold for every accepted pattern over all
   lines.  Only statements; every proof is one `exact`.  The Check lines pin the statements. *)
From RG Require Import Base.Bytes Spec.RegexSem Model.RegexBuild Model.RegexLiteral
  Proofs.RegexSemProofs Proofs.RegexBuildProofs Proofs.Utf8Proofs Proofs.RegexPassesProofs
  Proofs.RegexLiteralProofs.

(* 0. the executable semantics used by the oracles computes exactly the declarative relation
      (the repetition loop's internal fuel  min + |s| - i + 1  is sufficient) *)
Theorem ends_spec : forall h s i j, In j (ends h s i) <-> Matches h s i j.
Proof. exact ends_spec_proof. Qed.
Print Assumptions ends_spec.

Theorem matches_inside : forall h s i j, Matches h s i j -> i <= j <= length s.
Proof. exact matches_bounds. Qed.
Print Assumptions matches_inside.

(* [norm] is regex-syntax's rebuild of an HIR through its simplifying constructors, applied by the
   code between the two CRLF passes; the theorems hold for every function that preserves meaning
   ([norm_ok]), in particular for the identity. *)
Example norm_ok_id : norm_ok (fun h => h).
Proof. exact (fun h s i j => iff_refl _). Qed.

(* 1. strip.rs: no match of the stripped HIR contains the terminator (CRLF: neither \r nor \n) *)
Theorem strip_sound : forall norm, norm_ok norm -> forall h lt h' s i j,
  strip_from_match norm h lt = inl h' -> Matches h' s i j ->
  forall p, i <= p < j -> is_term_byte lt (byte_at s p) = false.
Proof. exact strip_sound_proof. Qed.
Print Assumptions strip_sound.

(* 2. stripping removes the terminator-containing matches and nothing else ... *)
Theorem strip_rejects_not_alters : forall norm, norm_ok norm -> forall h lt h' s i j,
  strip_from_match norm h lt = inl h' ->
  (Matches h' s i j <-> Matches h s i j /\ forall p, i <= p < j -> is_term_byte lt (byte_at s p) = false).
Proof. exact strip_rejects_not_alters_proof. Qed.
Print Assumptions strip_rejects_not_alters.

(* ... and it rejects only a non-ASCII terminator, or a pattern with a leaf that cannot match
   without a terminator byte: a literal containing it, or a non-empty class with no other member
   (for CRLF possibly after \r was removed from the classes) *)
Theorem strip_error_witness : forall norm h lt e,
  strip_from_match norm h lt = inr e ->
  (exists b, lt = RTByte b /\ (127 < b)%N /\ e = EInvalidLineTerminator b) \/
  (exists b, is_term_byte lt b = true /\ e = ENotAllowed b /\
             (forced_leaf b h = true \/
              exists h1, lt = RTCrlf /\ strip_ascii 13 h = inl h1 /\ forced_leaf 10 (norm h1) = true)).
Proof. exact strip_error_witness_proof. Qed.
Print Assumptions strip_error_witness.

(* the leaves named by forced_leaf indeed cannot match without the byte *)
Theorem forced_literal_needs_byte : forall b lit s i j,
  existsb (N.eqb b) lit = true -> Matches (HLit lit) s i j -> ~ (forall p, i <= p < j -> byte_at s p <> b).
Proof. exact forced_lit_sem. Qed.
Print Assumptions forced_literal_needs_byte.
Theorem forced_class_needs_byte : forall b rs s i j, (b <= 127)%N ->
  negb (is_nil rs) && is_nil (remove_point rs b) = true ->
  (Matches (HClassB rs) s i j \/ Matches (HClassU rs) s i j) -> ~ (forall p, i <= p < j -> byte_at s p <> b).
Proof.
  exact (fun b rs s i j Hb E M => match M with
         | or_introl M1 => forced_classb_sem b rs s i j E M1
         | or_intror M2 => forced_classu_sem b rs s i j Hb E M2 end).
Qed.
Print Assumptions forced_class_needs_byte.

(* 3. non_matching.rs: a byte declared non-matching occurs in no match *)
Theorem non_matching_sound : forall h b s i j,
  non_matching_bytes h b = true -> Matches h s i j -> forall p, i <= p < j -> byte_at s p <> b.
Proof. exact non_matching_sound_proof. Qed.
Print Assumptions non_matching_sound.

(* 4. literal.rs: the invariant of the tagged sequences computed by Extractor::extract, for every
      HIR and every limit setting: the text of every match is covered by a member of the sequence
      (a finite sequence; an infinite one promises nothing) — the member starts the text when the
      sequence is still a prefix sequence, and reaches the end of the text when it is exact *)
Theorem extract_invariant : forall L h s i j,
  Matches h s i j ->
  match t_seq (extract L h) with
  | None => True
  | Some ls => exists l, In l ls /\ exists u v, sub s i j = u ++ l_bytes l ++ v /\
                 (t_prefix (extract L h) = true -> u = []) /\ (l_exact l = true -> v = [])
  end.
Proof. exact extract_sound. Qed.
Print Assumptions extract_invariant.

(* ... hence every match contains one of the literals of extract_untagged (after
   optimize_for_prefix_by_preference and the is_good filter) as a substring ... *)
Theorem inner_literals_sound : forall L h ls s i j,
  extract_untagged L h = Some ls -> Matches h s i j ->
  exists l, In l ls /\ exists u v, sub s i j = u ++ l_bytes l ++ v.
Proof. exact extract_untagged_sound_proof. Qed.
Print Assumptions inner_literals_sound.

(* ... and any region [a,b) of a buffer (a line) that contains a match contains an occurrence of
   one of the literals the fast line regex is built from (InnerLiterals::new + one_regex), so a
   leftmost-occurrence search cannot answer with a position beyond a line that has a match *)
Theorem candidate_never_skips_a_matching_line : forall c acc h lits buf a b i j,
  fast_line_literals (inner_literals c acc h) = Some lits ->
  Matches h buf i j -> a <= i -> j <= b ->
  exists l q, In l lits /\ a <= q /\ q + length l <= b /\ sub buf q (q + length l) = l.
Proof. exact candidate_never_skips_proof. Qed.
Print Assumptions candidate_never_skips_a_matching_line.

(* 5. config.rs ConfiguredHIR::line_terminator: a terminator is advertised only when the final
      HIR has no haystack anchor, and then it is the configured one ... *)
Theorem terminator_withheld_with_anchors : forall norm c tr f adv,
  build norm c tr = inl (f, adv) ->
  (contains_anchor_haystack f = true -> adv = None) /\
  (contains_anchor_haystack f = false -> adv = c_line_terminator c).
Proof. exact terminator_withheld_proof. Qed.
Print Assumptions terminator_withheld_with_anchors.

(* ... and whenever build_many advertises a terminator, no match of the final HIR (after ban check,
   stripping and -w/-x wrapping) contains one of its bytes *)
Theorem build_line_terminator_promise : forall norm, norm_ok norm -> forall c tr f lt s i j,
  build norm c tr = inl (f, Some lt) -> Matches f s i j ->
  forall p, i <= p < j -> is_term_byte lt (byte_at s p) = false.
Proof. exact build_line_terminator_promise_proof. Qed.
Print Assumptions build_line_terminator_promise.

(* config.rs fixed-strings shortcut (Config::is_fixed_strings): when it is taken the ban check and the
   stripping are skipped; the promise still holds because no pattern contains a terminator byte *)
Theorem fixed_strings_shortcut_sound : forall ic sm fx lt pats s i j,
  is_fixed_strings ic sm fx (Some lt) pats = true -> Matches (fixed_hir pats) s i j ->
  forall p, i <= p < j -> is_term_byte lt (byte_at s p) = false.
Proof. exact fixed_strings_shortcut_sound_proof. Qed.
Print Assumptions fixed_strings_shortcut_sound.

(* -w / -x wrapping keeps exactly the matches whose ends satisfy the two assertions *)
Theorem wrap_meaning : forall c h s i j,
  Matches (wrap c h) s i j <->
  Matches h s i j /\
  (if c_whole_line c then look_matches (line_anchor_start c) s i = true /\ look_matches (line_anchor_end c) s j = true
   else if c_word c then
     look_matches (if c_unicode c then LWordStartHalfUnicode else LWordStartHalfAscii) s i = true /\
     look_matches (if c_unicode c then LWordEndHalfUnicode else LWordEndHalfAscii) s j = true
   else True).
Proof. exact wrap_iff. Qed.
Print Assumptions wrap_meaning.

(* ---- non-vacuity ---- *)
(* `[a\n]+b` with terminator \n: accepted, becomes `a+b`; it matches "aab" inside "x\naab" *)
Definition ex_h : hir := HConcat [HRep 1 None true (HClassU [(10, 10); (97, 97)]%N); HLit [98]%N].
Example strip_example :
  strip_from_match (fun h => h) ex_h (RTByte 10) = inl (HConcat [HRep 1 None true (HClassU [(97, 97)]%N); HLit [98]%N])
  /\ ends ex_h [120; 10; 97; 97; 98]%N 1 = [5]
  /\ ends (HConcat [HRep 1 None true (HClassU [(97, 97)]%N); HLit [98]%N]) [120; 10; 97; 97; 98]%N 1 = []
  /\ ends (HConcat [HRep 1 None true (HClassU [(97, 97)]%N); HLit [98]%N]) [120; 10; 97; 97; 98]%N 2 = [5].
Proof. vm_compute. repeat split. Qed.
(* `a\nb` is rejected *)
Example strip_reject_example :
  strip_from_match (fun h => h) (HLit [97; 10; 98]%N) (RTByte 10) = inr (ENotAllowed 10).
Proof. vm_compute. reflexivity. Qed.
(* CRLF: `[\r\n]` is rejected at the second stage *)
Example strip_crlf_example :
  strip_from_match (fun h => h) (HClassU [(10, 10); (13, 13)]%N) RTCrlf = inr (ENotAllowed 10).
Proof. vm_compute. reflexivity. Qed.
(* `é+` (U+E9): the non-matching set does not contain 0xC3, 0xA9, and contains 'a' *)
Example non_matching_example :
  map (non_matching_bytes (HRep 1 None true (HClassU [(233, 233)]%N))) [195; 169; 97]%N = [false; false; true].
Proof. vm_compute. reflexivity. Qed.
(* `\Afoo` with terminator \n: the terminator is withheld *)
Example withheld_example :
  build (fun h => h) {| c_line_terminator := Some (RTByte 10); c_ban := Some 0%N; c_crlf := false; c_unicode := true;
           c_word := false; c_whole_line := false |} (HConcat [HLook LStart; HLit [102; 111; 111]%N])
  = inl (HConcat [HLook LStart; HLit [102; 111; 111]%N], None).
Proof. vm_compute. reflexivity. Qed.

(* `[a-z]+foo[a-z]+`: the extractor keeps the inner literal "foo" (inexact, not a prefix) *)
Definition ex_lit_h : hir :=
  HConcat [HRep 1 None true (HClassB [(97, 122)]%N); HLit [102; 111; 111]%N; HRep 1 None true (HClassB [(97, 122)]%N)].
Example inner_literals_example :
  extract_untagged extractor_new ex_lit_h = Some [{| l_bytes := [102; 111; 111]%N; l_exact := false |}]
  /\ t_prefix (extract extractor_new ex_lit_h) = false
  /\ ends ex_lit_h [120; 102; 111; 111; 121; 32]%N 0 = [5].
Proof. vm_compute. repeat split. Qed.

Check strip_sound : forall norm, norm_ok norm -> forall h lt h' s i j,
  strip_from_match norm h lt = inl h' -> Matches h' s i j ->
  forall p, i <= p < j -> is_term_byte lt (byte_at s p) = false.
Check non_matching_sound : forall h b s i j,
  non_matching_bytes h b = true -> Matches h s i j -> forall p, i <= p < j -> byte_at s p <> b.
Check inner_literals_sound : forall L h ls s i j,
  extract_untagged L h = Some ls -> Matches h s i j ->
  exists l, In l ls /\ exists u v, sub s i j = u ++ l_bytes l ++ v.
