(* Props/C16.v — under construction *)
From RG Require Import Base.Bytes.
