(* Props/C16.v — property C16: stopping early or failing mid-stream yields a prefix of the full
   results.  Statements only. *)
From RG Require Import Base.Bytes Model.Lines Model.SearcherCore Model.Glue
  Model.ReadByLine Proofs.PrefixLaw Proofs.PrefixCore Proofs.MLPrefix Proofs.RBLPrefix Proofs.RBLFail Proofs.SinkDriven.

(* 1. SliceByLine::run (fast and slow line paths, any binary-detection mode, any matcher, any
      configuration, any input): let [evs] be the sink calls of the run with a sink that always
      continues (the last one is the finish call).
      (a) a sink that does not refuse any of these calls gets exactly the same run;
      (b) if the first refusal is at call k (before the finish call): the calls delivered are
          exactly evs[0..k]; after Stop exactly one finish call follows (and its own failure is the
          only way the run can still return an error); after Fail no finish call is made and the
          run returns the error. *)
Theorem stop_is_prefix_slice :
  forall (cfg : config) (M : matcher) (r : nat -> reply) (s : bytes) (evs : list event),
    slice_by_line_run cfg M (fun _ => Continue) s = RunOk evs ->
    (quiet r 0 (length evs) -> slice_by_line_run cfg M r s = RunOk evs) /\
    (forall k, S k < length evs -> quiet r 0 k -> r k <> Continue ->
       match r k with
       | Stop => exists n b, slice_by_line_run cfg M r s =
                   (match r (S k) with Fail => RunErr | _ => RunOk end) (firstn (S k) evs ++ [EFinish n b])
       | _ => slice_by_line_run cfg M r s = RunErr (firstn (S k) evs)
       end).
Proof. exact stop_is_prefix_slice_proof. Qed.
Print Assumptions stop_is_prefix_slice.

(* 2. the law holds for one call of the line matcher on any buffer and any entry state (this is
      the form reused by the incremental reader): *)
Theorem match_by_line_prefix_law :
  forall (cfg : config) (M : matcher) (binary : bool) (buf : bytes),
    Good (fun r c => match_by_line cfg M r binary c buf).
Proof. exact good_match_by_line. Qed.
Print Assumptions match_by_line_prefix_law.

(* 3. the same law for MultiLine::run (the repaired final flush, D7, is inside it) *)
Theorem stop_is_prefix_multi_line :
  forall (cfg : config) (M : matcher) (s : bytes) (r : nat -> reply) (evs : list event),
    multi_line_run cfg M (fun _ => Continue) s = RunOk evs ->
    (quiet r 0 (length evs) -> multi_line_run cfg M r s = RunOk evs) /\
    (forall k, S k < length evs -> quiet r 0 k -> r k <> Continue ->
       match r k with
       | Stop => exists n b, multi_line_run cfg M r s =
                   (match r (S k) with Fail => RunErr | _ => RunOk end) (firstn (S k) evs ++ [EFinish n b])
       | _ => multi_line_run cfg M r s = RunErr (firstn (S k) evs)
       end).
Proof. exact stop_is_prefix_multi_line_proof. Qed.
Print Assumptions stop_is_prefix_multi_line.

(* 4. the same law for ReadByLine::run, for every buffer capacity, growth policy and read history —
      including histories in which a read fails: then the reference run itself ends with the error
      (second conjunct) and a stopping sink still gets a prefix of it. *)
Theorem stop_is_prefix_reader :
  forall (cfg : config) (M : matcher) (pol : alloc_policy) (cap : nat) (stream : bytes) (hist : list read_step)
         (r : nat -> reply) (evs : list event),
    let run := fun r => read_by_line_run cfg M r pol cap stream hist in
    (run (fun _ => Continue) = RunOk evs ->
       (quiet r 0 (length evs) -> run r = RunOk evs) /\
       (forall k, S k < length evs -> quiet r 0 k -> r k <> Continue ->
          match r k with
          | Stop => exists n b, run r =
                      (match r (S k) with Fail => RunErr | _ => RunOk end) (firstn (S k) evs ++ [EFinish n b])
          | _ => run r = RunErr (firstn (S k) evs)
          end))
    /\
    (run (fun _ => Continue) = RunErr evs ->
       (quiet r 0 (length evs) -> run r = RunErr evs) /\
       (forall k, k < length evs -> quiet r 0 k -> r k <> Continue ->
          match r k with
          | Stop => exists n b, run r =
                      (match r (S k) with Fail => RunErr | _ => RunOk end) (firstn (S k) evs ++ [EFinish n b])
          | _ => run r = RunErr (firstn (S k) evs)
          end)).
Proof. intros cfg M pol cap stream hist r evs. exact (stop_is_prefix_reader_proof cfg M pol cap stream hist r evs). Qed.
Print Assumptions stop_is_prefix_reader.

(* 5. a failing input source: if read number |h1| fails (or is interrupted), the run returns the
      error, finish is not called, and the results delivered are a prefix of the results of any
      run whose read history agrees before that read (in particular of the uninterrupted one);
      or the failing read is never reached and the runs are equal. *)
Theorem read_failure_is_prefix :
  forall (x y : read_step) (h1 h2 h2' : list read_step),
    x = RFail \/ x = RInterrupted ->
    forall (cfg : config) (M : matcher) (pol : alloc_policy) (cap : nat) (stream : bytes),
    let runF := read_by_line_run cfg M (fun _ => Continue) pol cap stream (h1 ++ x :: h2) in
    let runG := read_by_line_run cfg M (fun _ => Continue) pol cap stream (h1 ++ y :: h2') in
    runF = runG \/
    exists evs, runF = RunErr evs /\
      match events_of runG with Some evsG => exists rest, evsG = evs ++ rest | None => True end.
Proof. intros x y h1 h2 h2' Hx cfg M pol cap stream. exact (read_failure_is_prefix_proof x y h2 h2' Hx cfg M pol cap stream h1). Qed.
Print Assumptions read_failure_is_prefix.

(* 6. STATEFUL sinks.  The model is driven by a reply function indexed by the call number; a real
      Sink is a state machine (step : state -> call -> state * reply) that answers according to what
      it has been shown.  For every such sink (whose reply to finish does not depend on the numbers
      reported there) there is a reply function that agrees with the sink on exactly the calls the
      run delivers (consistent), and the run under it is (SinkRunSpec): the whole uninterrupted run
      if the sink accepts every call before finish; otherwise the calls up to and including the
      first one the sink refuses, followed by exactly one finish after Stop / by nothing and the
      error after Fail.  All three strategies. *)
Theorem stateful_sink_slice :
  forall (cfg : config) (M : matcher) (St : Type) (step : St -> event -> St * reply) (s0 : St),
    (forall st n b n' b', snd (step st (EFinish n b)) = snd (step st (EFinish n' b'))) ->
    forall (s : bytes) (evs : list event),
      slice_by_line_run cfg M (fun _ => Continue) s = RunOk evs ->
      SinkRunSpec St step s0 (fun r => slice_by_line_run cfg M r s) evs.
Proof. exact slice_sink_driven. Qed.
Print Assumptions stateful_sink_slice.

Theorem stateful_sink_multi_line :
  forall (cfg : config) (M : matcher) (St : Type) (step : St -> event -> St * reply) (s0 : St),
    (forall st n b n' b', snd (step st (EFinish n b)) = snd (step st (EFinish n' b'))) ->
    forall (s : bytes) (evs : list event),
      multi_line_run cfg M (fun _ => Continue) s = RunOk evs ->
      SinkRunSpec St step s0 (fun r => multi_line_run cfg M r s) evs.
Proof. exact multi_line_sink_driven. Qed.
Print Assumptions stateful_sink_multi_line.

Theorem stateful_sink_reader :
  forall (cfg : config) (M : matcher) (St : Type) (step : St -> event -> St * reply) (s0 : St),
    (forall st n b n' b', snd (step st (EFinish n b)) = snd (step st (EFinish n' b'))) ->
    forall (pol : alloc_policy) (cap : nat) (stream : bytes) (hist : list read_step) (evs : list event),
      read_by_line_run cfg M (fun _ => Continue) pol cap stream hist = RunOk evs ->
      SinkRunSpec St step s0 (fun r => read_by_line_run cfg M r pol cap stream hist) evs.
Proof. exact reader_sink_driven. Qed.
Print Assumptions stateful_sink_reader.

(* a sink that stops after its second match (a per-file limit of 2): *)
Example limit_sink_example :
  let cfg := {| c_lt := LTByte 10; c_invert := false; c_after := 0; c_before := 0; c_passthru := false;
                c_line_number := true; c_stop_on_nonmatch := false; c_binary := BNone; c_multi_line := false |} in
  let M := {| m_is_match := fun l => match l with 97%N :: _ => true | _ => false end;
              m_find_candidate := fun _ => None; m_line_term := None; m_nonmatching := fun _ => false;
              m_find_at := fun _ _ => None |} in
  let step := fun (seen : nat) (e : event) =>
                match e with
                | EMatched _ _ _ => (S seen, if Nat.leb 2 (S seen) then Stop else Continue)
                | _ => (seen, Continue)
                end in
  let evs := [EBegin; EMatched 0 (Some 1) [97; 10]%N; EMatched 2 (Some 2) [97; 10]%N; EMatched 4 (Some 3) [97; 10]%N; EFinish 6 None] in
  slice_by_line_run cfg M (fun _ => Continue) [97; 10; 97; 10; 97; 10]%N = RunOk evs /\
  first_dev (r0 nat step 0 evs) (length evs - 1) = Some 2 /\
  slice_by_line_run cfg M (r0 nat step 0 evs) [97; 10; 97; 10; 97; 10]%N
    = RunOk [EBegin; EMatched 0 (Some 1) [97; 10]%N; EMatched 2 (Some 2) [97; 10]%N; EFinish 4 None].
Proof. vm_compute. repeat split; reflexivity. Qed.

(* non-vacuity: a concrete run with a match, context and a stop at the second call *)
Example stop_example :
  let cfg := {| c_lt := LTByte 10; c_invert := false; c_after := 1; c_before := 0; c_passthru := false;
                c_line_number := true; c_stop_on_nonmatch := false; c_binary := BNone; c_multi_line := false |} in
  let M := {| m_is_match := fun l => match l with 97%N :: _ => true | _ => false end;
              m_find_candidate := fun _ => None; m_line_term := None; m_nonmatching := fun _ => false;
              m_find_at := fun _ _ => None |} in
  slice_by_line_run cfg M (fun i => if Nat.eqb i 1 then Stop else Continue) [97; 10; 98; 10]%N
  = RunOk [EBegin; EMatched 0 (Some 1) [97; 10]%N; EFinish 2 None].
Proof. vm_compute. reflexivity. Qed.

Example read_failure_example :
  let cfg := {| c_lt := LTByte 10; c_invert := false; c_after := 0; c_before := 0; c_passthru := false;
                c_line_number := true; c_stop_on_nonmatch := false; c_binary := BNone; c_multi_line := false |} in
  let M := {| m_is_match := fun l => match l with 97%N :: _ => true | _ => false end;
              m_find_candidate := fun _ => None; m_line_term := None; m_nonmatching := fun _ => false;
              m_find_at := fun _ _ => None |} in
  read_by_line_run cfg M (fun _ => Continue) AEager 2 [97; 10; 97; 10]%N [RChunk 2; RFail]
    = RunErr [EBegin; EMatched 0 (Some 1) [97; 10]%N]
  /\ read_by_line_run cfg M (fun _ => Continue) AEager 2 [97; 10; 97; 10]%N [RChunk 2; RChunk 2]
    = RunOk [EBegin; EMatched 0 (Some 1) [97; 10]%N; EMatched 2 (Some 2) [97; 10]%N; EFinish 4 None].
Proof. vm_compute. split; reflexivity. Qed.
