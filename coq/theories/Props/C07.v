(* Props/C07.v — property C07: the parallel walker terminates and loses nothing under every
   thread schedule.  Only statements; every proof is one `exact`.  The Check lines pin the statements.

   Model/WalkPar.v is a nondeterministic transition system: a schedule is a list of choices
   (which worker takes its next atomic action; whether a steal attempt succeeds and which
   messages it moves).  Every theorem quantifies over the configured thread count n (0 = the
   default of 2 workers), the forest f, the visitor resp and the schedule (through `reach`). *)
From Coq Require Import List Arith Bool Lia Permutation.
Import ListNotations.
From RG Require Import Model.WalkPar Spec.WalkParSpec Proofs.WalkParBase Proofs.WalkParVariant Proofs.WalkParSafe
  Proofs.WalkParLive Proofs.WalkParFair.

(* 1. the safety invariant holds in every reachable state: deque/pc vectors aligned; a worker never
      steals from itself; a worker past a failed own pop has an empty deque; conservation
      (visited + still owed + thrown away after a Quit answer = the entries reachable under the
      visitor's answers, as multisets; nothing is thrown away before a Quit answer); quit_now is only
      set after a Quit answer; while it is unset, deques never mix Quit and Work and an exiting
      worker's deque holds no Work. *)
Theorem inv_preserved : forall resp n f s, reach resp (init n f) s -> SafeInv resp f s.
Proof. exact safe_reach. Qed.
Print Assumptions inv_preserved.

(* 2. when all workers have exited and no visitor answered Quit, every entry reachable under the
      Skip answers was handed to a visitor exactly once *)
Theorem final_visits_all_once : forall resp n f s,
  reach resp (init n f) s -> all_exited s -> (forall x, resp x <> WQuit) ->
  Permutation (visited s) (ids_under_skip resp f).
Proof. exact final_visits_all_once_proof. Qed.
Print Assumptions final_visits_all_once.

(* 2b. the same for WalkParallel::visit as a whole, including its root loop (run by the calling thread
      before the workers exist): when the visitor answers Quit neither to the error entry of a bad root
      path nor to an entry, the walk starts from exactly the good roots -- a Skip answer to a root's error
      skips that root only -- and visits every entry reachable under them exactly once; workers are
      not started only when there is no good root. *)
Theorem visit_roots_all_once : forall eresp resp n roots,
  (forall k, eresp k <> WQuit) -> (forall x, resp x <> WQuit) ->
  match visit_start eresp n roots with
  | Some s0 => s0 = init n (good_roots roots) /\
               forall s, reach resp s0 s -> all_exited s ->
                         Permutation (visited s) (ids_under_skip resp (good_roots roots))
  | None => good_roots roots = []
  end.
Proof. exact visit_roots_all_once_proof. Qed.
Print Assumptions visit_roots_all_once.

(* 3. whatever the visitor answers, in every reachable state: no entry was handed out more often
      than it occurs among the reachable entries ... *)
Theorem visited_submultiset : forall resp n f s, reach resp (init n f) s ->
  exists rest, Permutation (visited s ++ rest) (ids_under_skip resp f).
Proof. exact visited_submultiset_proof. Qed.
Print Assumptions visited_submultiset.

(* ... hence never twice when the entries are distinct (they are: ids stand for paths) *)
Theorem after_quit_no_duplicates : forall resp n f s,
  NoDup (forest_ids f) -> reach resp (init n f) s -> NoDup (visited s).
Proof. exact after_quit_no_duplicates_proof. Qed.
Print Assumptions after_quit_no_duplicates.

(* 4. variant: every step either strictly decreases the measure mu, or is an idle spin of the
      wait loop (failed own pop, failed steal attempt, sleep): then only that worker's control
      location changes, within the wait loop, and mu is unchanged *)
Theorem variant : forall resp s c s', length (deq s) = length (pcs s) -> step resp s c = Some s' ->
  mu s' < mu s
  \/ (mu s' = mu s
      /\ in_wait_loop (nth (worker_of c) (pcs s) PExit) = true
      /\ in_wait_loop (nth (worker_of c) (pcs s') PExit) = true
      /\ same_but_pc (worker_of c) s s').
Proof. exact variant_proof. Qed.
Print Assumptions variant.

(* hence any schedule whatsoever contains at most mu(init) steps that are not idle spins *)
Theorem busy_steps_bounded : forall resp n f cs s,
  run resp (init n f) cs = Some s -> busy_steps resp (init n f) cs <= mu (init n f).
Proof. exact busy_steps_bounded_proof. Qed.
Print Assumptions busy_steps_bounded.

(* 5. the bookkeeping of active_workers and of Quit messages, in every reachable state:
      #counted live workers <= active_workers <= that + #exited workers; active_workers >= 1 unless a
      worker is about to push Quit or has exited; once a worker has exited a Quit message exists
      (in a deque, in a hand, or about to be pushed) -- the fact that keeps idle workers wakeable.
      NOT an invariant (and false): "active_workers = 0 implies no work anywhere", see quit_broadcast_
      with_work_in_hand below. *)
Theorem counter_invariant : forall resp n f s, reach resp (init n f) s -> SafeInv resp f s /\ LiveInv s.
Proof. exact live_reach. Qed.
Print Assumptions counter_invariant.

(* the `fetch_sub(1) - 1` of deactivate_worker never underflows *)
Theorem deactivate_never_underflows : forall resp n f s w, reach resp (init n f) s ->
  nth_error (pcs s) w = Some PDeact -> 1 <= active s.
Proof. exact deactivate_safe_proof. Qed.
Print Assumptions deactivate_never_underflows.

(* 6. progress: in every reachable state in which some worker has not exited, some worker w, running
      alone (cs contains only choices of w: at most one turn of its idle loop, then a successful
      receive, or simply its next step), strictly decreases the measure.  No reachable state is a
      deadlock or a trap in which only idle spinning is possible. *)
Theorem progress : forall resp n f s, reach resp (init n f) s -> ~ all_exited s ->
  exists w cs s', Forall (fun c => worker_of c = w) cs /\ run resp s cs = Some s' /\ mu s' < mu s.
Proof. exact progress_proof. Qed.
Print Assumptions progress.

(* 6b. the same, per worker -- the two facts a fairness argument needs:
      (i) EVERY live worker that is outside the idle wait loop has its next step enabled and that step
          decreases the measure;
      (ii) when every live worker is inside the wait loop, EVERY live worker, running alone, decreases the
          measure after at most one turn of its idle loop (a Quit lies in an exited worker's deque and idle
          turns change no shared state, so this stays true until somebody makes a non-idle step).
      With `variant`/`busy_steps_bounded`: a schedule that keeps scheduling every live worker and does not fail
      steals on non-empty deques forever makes a non-idle step again and again, at most mu(init) times, and
      then all workers have exited. *)
Theorem progress_busy : forall resp n f s w p, reach resp (init n f) s ->
  nth_error (pcs s) w = Some p -> is_exit p = false -> in_wait_loop p = false ->
  exists s', step resp s (Own w) = Some s' /\ mu s' < mu s.
Proof. exact progress_busy_proof. Qed.
Print Assumptions progress_busy.

Theorem progress_idle : forall resp n f s w p, reach resp (init n f) s ->
  (forall q, In q (pcs s) -> is_exit q = true \/ in_wait_loop q = true) ->
  nth_error (pcs s) w = Some p -> is_exit p = false ->
  exists cs s', Forall (fun c => worker_of c = w) cs /\ run resp s cs = Some s' /\ mu s' < mu s.
Proof. exact progress_idle_proof. Qed.
Print Assumptions progress_idle.

(* 7. hence from every reachable state the walk can still be completed: all workers exit *)
Theorem can_always_finish : forall resp n f s, reach resp (init n f) s ->
  exists cs s', run resp s cs = Some s' /\ all_exited s'.
Proof. exact can_always_finish_proof. Qed.
Print Assumptions can_always_finish.

(* 8. TERMINATION UNDER FAIRNESS.  An infinite execution (every step of the schedule sigma enabled, tau the
      states passed) cannot be fair: if every worker that has not exited is scheduled again (weak fairness
      of the thread scheduler) and steal attempts on non-empty deques fail only finitely often (crossbeam's
      Steal::Retry needs a concurrent operation on the same deque), the execution is finite.  And an execution
      can only end -- no step enabled -- when every worker has exited (stuck_means_done).  So every fair
      execution reaches the state in which WalkParallel::visit's scope joins all workers. *)
Theorem fair_executions_are_finite : forall resp n f sigma tau,
  execution resp (init n f) sigma tau -> sched_fair sigma tau -> steal_fair sigma tau -> False.
Proof. exact fair_executions_are_finite_proof. Qed.
Print Assumptions fair_executions_are_finite.

Theorem stuck_means_done : forall resp s, (forall c, step resp s c = None) -> all_exited s.
Proof. exact stuck_means_done_proof. Qed.
Print Assumptions stuck_means_done.

(* fairness is needed: a reachable state from which worker 1 can spin through its idle loop forever
   (three steps lead back to the same state) while worker 0, which holds the root, is never scheduled *)
Example unfair_spin :
  exists s, reach (fun _ => WContinue) (init 2 [Node 0 []]) s /\ ~ all_exited s
            /\ run (fun _ => WContinue) s [Own 1; Own 1; Own 1] = Some s.
Proof.
  eexists. split; [exists [Own 0; Own 1; Own 1; Own 1; Own 1]; vm_compute; reflexivity|].
  split; [|vm_compute; reflexivity]. intros A. inversion A as [|? ? E _]. discriminate E.
Qed.

(* the comment in get_work ("if deactivate_worker() returns 0 ... there is no more work left at all")
   does not hold: a reachable state in which worker 0 has seen the counter reach 0 and is about to
   broadcast Quit while worker 1 holds a stolen, unvisited entry in its hand.  By theorems 1-2 this
   costs parallelism, never an entry. *)
Example quit_broadcast_with_work_in_hand :
  exists s, run (fun _ => WContinue) (init 2 [Node 0 [Node 1 []]])
              [Own 0; Own 1; Own 1; Own 1; Own 1; Own 0; Own 0; Own 0;
               Own 1; Steal 1 [true] 0; Own 0; Own 0; Own 0; Own 0] = Some s
            /\ active s = 0 /\ nth 0 (pcs s) PExit = PSendQuit true
            /\ nth 1 (pcs s) PExit = PAct (Work (Node 1 [])) /\ visited s = [0].
Proof. eexists. split; [vm_compute; reflexivity|]. vm_compute. auto. Qed.

(* non-vacuity: a two-worker run with a steal on the forest  0 -> {1, 2}: worker 1 steals the root,
   visits it, pushes both children, worker 0 steals one of them; all three entries get visited *)
Example steal_run :
  exists s, run (fun _ => WContinue) (init 2 [Node 0 [Node 1 []; Node 2 []]])
              [Own 1; Steal 1 [true] 0; Own 1; Own 1; Own 1; Own 1; Own 0; Steal 0 [false; true] 0;
               Own 0; Own 0; Own 1; Own 1; Own 1] = Some s
            /\ Permutation (visited s) [0; 1; 2].
Proof. eexists. split; [vm_compute; reflexivity|]. apply perm_occ. intros x. vm_compute.
  repeat (destruct x as [|x]; auto). Qed.

Check inv_preserved : forall resp n f s, reach resp (init n f) s -> SafeInv resp f s.
Check final_visits_all_once : forall resp n f s,
  reach resp (init n f) s -> all_exited s -> (forall x, resp x <> WQuit) ->
  Permutation (visited s) (ids_under_skip resp f).
Check after_quit_no_duplicates : forall resp n f s,
  NoDup (forest_ids f) -> reach resp (init n f) s -> NoDup (visited s).
Check progress : forall resp n f s, reach resp (init n f) s -> ~ all_exited s ->
  exists w cs s', Forall (fun c => worker_of c = w) cs /\ run resp s cs = Some s' /\ mu s' < mu s.
Check variant : forall resp s c s', length (deq s) = length (pcs s) -> step resp s c = Some s' ->
  mu s' < mu s
  \/ (mu s' = mu s
      /\ in_wait_loop (nth (worker_of c) (pcs s) PExit) = true
      /\ in_wait_loop (nth (worker_of c) (pcs s') PExit) = true
      /\ same_but_pc (worker_of c) s s').
Check can_always_finish : forall resp n f s, reach resp (init n f) s ->
  exists cs s', run resp s cs = Some s' /\ all_exited s'.
Check fair_executions_are_finite : forall resp n f sigma tau,
  execution resp (init n f) sigma tau -> sched_fair sigma tau -> steal_fair sigma tau -> False.
