(* Props/C04.v — property C04: ignore files mean what git says they mean.
   Only statements; every proof is one `exact` (or a vm_compute witness).  Check lines pin the statements. *)
From RG Require Import Base.Bytes Model.Glob Model.GlobSet Spec.GlobSem Spec.GlobSetSem Model.Gitignore Spec.GitSem
  Spec.GitGrammar Spec.GitLineClass Spec.GlobSyntax Spec.GitLineSyntax
  Proofs.GlobPathProofs Proofs.GitignoreProofs Proofs.GitSemProofs Proofs.GitSegProofs Proofs.GitLineProofs
  Proofs.GitLineRgProofs Proofs.GitLineGitProofs Proofs.GitGrammarClassProofs Proofs.GitTreeGrammarProofs.

(* 1. within one ignore file the LAST line whose glob matches the entry (and whose directory-only flag admits
      it) decides, `!` lines re-include: Gitignore::matched_stripped (glob set, seven strategies, reverse scan)
      for every list of parsed lines, every path, both entry kinds.  Uses C12's set_eq_members. *)
Theorem file_last_match_wins :
  forall (globs : list iglob) (path : bytes) (is_dir : bool),
    matched_stripped re_spec globs path is_dir =
    verdict_of (find (fun g => line_hit g path is_dir) (rev globs)).
Proof. exact matched_stripped_last_match_proof. Qed.
Print Assumptions file_last_match_wins.

(* 2. walking up (Gitignore::matched_path_or_any_parents): the first parent with a verdict decides *)
Theorem parents_first_verdict :
  forall (re : glob -> bytes -> bool) (globs : list iglob) (ps : list (list bytes)),
    parents_up re globs ps =
    match find (fun p => match matched_stripped re globs (join p) true with VNone => false | _ => true end) ps with
    | Some p => matched_stripped re globs (join p) true
    | None => VNone
    end.
Proof. exact parents_up_spec. Qed.
Print Assumptions parents_first_verdict.

(* 3. a deeper ignore file overrides a shallower one: the nearest directory's file is consulted first and
      the files further up only when it has no verdict; the path is made relative to the file's directory *)
Theorem nearest_ignore_file_first :
  forall (re : glob -> bytes -> bool) (d : list bytes) (globs : list iglob) (igs : list ignore_file)
         (path rel : list bytes) (is_dir : bool),
    comps_prefix d path = Some rel -> rel <> [] ->
    chain_verdict re ((d, globs) :: igs) path is_dir =
    match matched_stripped re globs (join rel) is_dir with
    | VNone => chain_verdict re igs path is_dir
    | v => v
    end.
Proof. exact chain_verdict_nearest. Qed.
Print Assumptions nearest_ignore_file_first.

(* 4. nothing beneath an ignored directory is visited, whatever any ignore file says about it *)
Theorem pruned_below_ignored_dir :
  forall (re : glob -> bytes -> bool) (igs : list ignore_file) (c : bytes) (rest : list bytes) (is_dir : bool),
    rest <> [] -> skipped re igs [c] true = true -> visited re igs (c :: rest) is_dir = false.
Proof. exact pruned_below_ignored_dir_proof. Qed.
Print Assumptions pruned_below_ignored_dir.

(* 5. PATTERN LEVEL, the whole documented grammar: a pattern body is a '/'-separated list of segments, each a
      component pattern (literals, `?`, `*`, bracket classes that cannot match '/') or `**`; no two `**` in a
      row, no empty component; [unanchored] = no separator at the beginning or in the middle (one component,
      tried at any depth).  For every such pattern, every option set with literal_separator on (case folding
      on or off) and every non-empty path of separator-free components: the regex meaning of the tokens
      ripgrep produces for it (rg_tokens: implicit `**/`, `/**/` as one token, trailing `/**` as `/**/*`)
      on the '/'-joined path = git's component-wise matching (`**` spans whole components, `* ? [..]` stay
      inside one component, a leading or inner slash anchors). *)
Theorem gitignore_pattern_eq_git :
  forall (o : gopts) (ci : bool), case_insensitive o = ci -> literal_separator o = true ->
  forall (unanchored : bool) (segs : list seg) (comps : list bytes),
    segs_ok unanchored segs = true -> comps <> [] -> Forall comp_ok comps ->
    tmatch o (rg_tokens unanchored segs) (join comps) = cmatch ci (git_cpats unanchored segs) comps.
Proof. exact seg_sem_eq. Qed.
Print Assumptions gitignore_pattern_eq_git.

(* 5b. LINE LEVEL: for every line in the class [line_class] (an executable predicate: ripgrep's add_line and
       git's line reader are both run; either both ignore the line, or add_line's glob has exactly the tokens of
       the well-formed segment form of git's reading and the negation / directory-only flags agree) and every
       entry: what ripgrep's rewritten glob (read through tmatch) says about the entry = what GitSem says
       (Some true = excluded, Some false = re-included by `!`, None = the line does not apply; trailing-slash
       lines apply to directories only).  That every line of the documented grammar IS in the class is
       proved for the documented grammar in 5e below (grammar_lines_in_class), and additionally tested by
       running the predicate on every generated line, and on the examples below. *)
Theorem gitignore_line_eq_git :
  forall (ci : bool) (line : bytes) (rel : list bytes) (is_dir : bool),
    line_class ci line = true -> rel <> [] -> Forall comp_ok rel ->
    rg_line re_spec ci line rel is_dir = git_line ci line rel is_dir.
Proof. exact line_class_sound_proof. Qed.
Print Assumptions gitignore_line_eq_git.

(* 5c. FILE LEVEL: an ignore file whose lines are in the class gives git's verdict (last matching line wins,
       `!` re-includes, directory-only lines skip files), through the real pipeline: add_line per line, glob
       set with its seven strategies, reverse scan. *)
Theorem gitignore_file_eq_git :
  forall (ci : bool) (lines : list bytes) (rel : list bytes) (is_dir : bool),
    lines_in_class ci lines -> rel <> [] -> Forall comp_ok rel ->
    verdict_opt (matched_stripped re_spec (add_lines ci lines) (join rel) is_dir) = file_verdict ci lines rel is_dir.
Proof. exact file_eq_git_proof. Qed.
Print Assumptions gitignore_file_eq_git.

(* 5d. TREE LEVEL: any ignore files at any levels (lines in the class), any entry path of separator-free
       components: the walker model visits the entry iff git leaves it unignored — composing the line theorem
       with last-match-wins, directory-only, "a deeper ignore file overrides a shallower one" (nearest first)
       and "nothing beneath an ignored directory is visited".  Hence for every finite tree (list of entries)
       the listing of the walker model is git's listing.
       This version is over the executable class (which is larger than the proved grammar: it also contains the
       "\!x" / "\#x" forms, escaped backslashes and every other line the two readers agree on token by token);
       theorem 5g below is the same statement over the documented grammar. *)
Theorem rg_model_visited_eq_git_visited_on_class :
  forall (ci : bool) (igs : list (list bytes * list bytes)) (path : list bytes) (is_dir : bool),
    igs_in_class ci igs -> Forall comp_ok path ->
    visited re_spec (parse_igs ci igs) path is_dir = git_visited ci igs path is_dir.
Proof. exact tree_rg_eq_git_proof. Qed.
Print Assumptions rg_model_visited_eq_git_visited_on_class.

Theorem rg_model_listing_eq_git_listing_on_class :
  forall (ci : bool) (igs : list (list bytes * list bytes)) (entries : list (list bytes * bool)),
    igs_in_class ci igs -> Forall (fun e => Forall comp_ok (fst e)) entries ->
    filter (fun e => visited re_spec (parse_igs ci igs) (fst e) (snd e)) entries =
    filter (fun e => git_visited ci igs (fst e) (snd e)) entries.
Proof. exact tree_listing_eq_git_proof. Qed.
Print Assumptions rg_model_listing_eq_git_listing_on_class.

(* 5e. THE GRAMMAR IS IN THE CLASS.  A grammar line (Spec/GitLineSyntax.v) is
         ["!"] ["/"] piece ("/" piece)* ["/"] blank*     piece ::= "**" | item+     item ::= plain | "\"c | "?" | "*" | "[" member+ "]"
       with (gline_ok): plain characters anything but space ! # * , / ? [ \ { } ; escaped characters anything but
       '/' and '\' ; class members characters other than space ! - / [ \ ] ^ and ranges lo <= hi, the class not
       admitting '/' ; "**" never twice in a row, no two "*" in a row inside a component ; the first item of the
       pattern not an escaped '!' or '#'.  For every such line, both readers — ripgrep's add_line (comment test,
       git-style blank trimming, "!", leading "/", trailing "/", the implicit "**/" prefix, "/**" => "/**/*", the
       glob parser) and git's reader (quoting, blank trimming, negation, directory-only, anchoring, splitting at
       "/", component parsing) — produce the segment form, i.e. the line is in line_class.  Productions NOT covered
       and therefore still under the executable class hypothesis: negated classes and classes admitting '/'
       (ClassMatchesSeparator), braces (UnescapedBrace), "\\", "\/", "\!x" and "\#x" at the start, tabs. *)
Theorem grammar_lines_in_class :
  forall (ci : bool) (gl : gline), gline_ok gl = true -> line_class ci (render_line gl) = true.
Proof. exact grammar_lines_in_class_proof. Qed.
Print Assumptions grammar_lines_in_class.

(* 5f. line and file level over the grammar (pattern lines, comments, blank lines) *)
Theorem grammar_line_eq_git :
  forall (ci : bool) (line : bytes) (rel : list bytes) (is_dir : bool),
    grammar_line line -> rel <> [] -> Forall comp_ok rel ->
    rg_line re_spec ci line rel is_dir = git_line ci line rel is_dir.
Proof. exact grammar_line_eq_git_proof. Qed.
Print Assumptions grammar_line_eq_git.

Theorem grammar_file_eq_git :
  forall (ci : bool) (lines : list bytes) (rel : list bytes) (is_dir : bool),
    grammar_lines lines -> rel <> [] -> Forall comp_ok rel ->
    verdict_opt (matched_stripped re_spec (add_lines ci lines) (join rel) is_dir) = file_verdict ci lines rel is_dir.
Proof. exact grammar_file_eq_git_proof. Qed.
Print Assumptions grammar_file_eq_git.

(* 5g. TREE LEVEL OVER THE GRAMMAR: any ignore files at any levels, every line a line of the documented grammar
       (grammar_line: a rendered gline_ok line, a comment, or a blank line), any entry path of separator-free
       components, both case modes: the walker model visits the entry iff git leaves it unignored; hence the
       listing of every finite tree is git's listing. *)
Theorem rg_model_visited_eq_git_visited :
  forall (ci : bool) (igs : list (list bytes * list bytes)) (path : list bytes) (is_dir : bool),
    grammar_igs igs -> Forall comp_ok path ->
    visited re_spec (parse_igs ci igs) path is_dir = git_visited ci igs path is_dir.
Proof. exact grammar_tree_eq_git_proof. Qed.
Print Assumptions rg_model_visited_eq_git_visited.

Theorem rg_model_listing_eq_git_listing :
  forall (ci : bool) (igs : list (list bytes * list bytes)) (entries : list (list bytes * bool)),
    grammar_igs igs -> Forall (fun e => Forall comp_ok (fst e)) entries ->
    filter (fun e => visited re_spec (parse_igs ci igs) (fst e) (snd e)) entries =
    filter (fun e => git_visited ci igs (fst e) (snd e)) entries.
Proof. exact grammar_listing_eq_git_proof. Qed.
Print Assumptions rg_model_listing_eq_git_listing.

(* non-vacuity: "!/v/k*/[a-c]x/**/" + 2 blanks is a grammar line; its text; and the vendor idiom as a tree *)
Example ex_grammar_line :
  let gl := mk_gline true true [PComp [IPlain 118]; PComp [IPlain 107; IStar]; PComp [IClass [(97, 99)]%N; IPlain 120]; PDStar] true 2 in
  gline_ok gl = true /\
  render_line gl = [33; 47; 118; 47; 107; 42; 47; 91; 97; 45; 99; 93; 120; 47; 42; 42; 47; 32; 32]%N.
Proof. vm_compute. auto. Qed.

(* every construct of the documented grammar on a representative line is in the class (both case modes), and the
   excluded shapes are not: class admitting '/', braces, "//", unclosed class *)
Definition ascii_line (l : list nat) : bytes := map N.of_nat l.
Example ex_lines_in_class :
  forallb (fun l => line_class false l && line_class true l)
    [ [97;47;42]%N (* a/* *); [33;118;47;107;47]%N (* !v/k/ *); [42;46;97]%N (* *.a *);
      [42;42;47;97;47;98]%N (* **/a/b *); [97;47;42;42;47;98]%N (* a/**/b *); [97;47;42;42]%N (* a/** *);
      [47;97]%N (* /a *); [102;92;32;32]%N (* f\ + blank *); [91;97;98;93;99]%N (* [ab]c *); [92;35;97]%N (* \#a *);
      [35;120]%N (* #x *); [47;42;42]%N (* /** *); [97;63;98;47]%N (* a?b/ *); [97;91;97;45;99;93;42;47;63;120]%N;
      [92;33;97]%N (* \!a *); [97;92;42;98]%N (* a\*b *); [33]%N (* ! *); [97;92]%N (* dangling *) ] = true
  /\ forallb (fun l => negb (line_class false l))
    [ [97;91;33;98;93;99]%N (* a[!b]c *); [123;97;44;98;125]%N (* {a,b} *);
      [97;47;47;98]%N (* a//b *); [91]%N ] = true.
Proof. vm_compute. auto. Qed.

(* the two line readers on the line `foo.` (defect D3) *)
Example ex_line_shapes :
  add_line false [102; 111; 111; 46]%N =
    LGlob (mk_iglob false false [42; 42; 47; 102; 111; 111; 46]%N
             (mk_glob (mk_gopts false true true false) (TRecPrefix :: map TLit [102; 111; 111; 46]%N)))
  /\ git_parse_line [102; 111; 111; 46]%N =
     Some (mk_gpat false false [CDStar; CSimple (map WLit [102; 111; 111; 46]%N)]).
Proof. vm_compute. auto. Qed.

(* 6. KNOWN FINDING ClassMatchesSeparator (found by this check; coordinator to number): the full statement "rg's verdict for a line = git's" is false
      for a bracket class that admits '/': line `a[!b]c`, file `c` in directory `a`. *)
Theorem class_crosses_separator_refuted :
  exists (line : bytes) (comps : list bytes),
    matched_stripped re_spec (add_lines false [line]) (join comps) false = VIgnore /\
    file_verdict false [line] comps false = None.
Proof. exists [97; 91; 33; 98; 93; 99]%N, [[97%N]; [99%N]]. vm_compute. auto. Qed.
Print Assumptions class_crosses_separator_refuted.

(* 7. KNOWN FINDING UnescapedBrace (D12): line `{a,b}`, file `a`. *)
Theorem brace_alternation_refuted :
  exists (line : bytes) (comps : list bytes),
    matched_stripped re_spec (add_lines false [line]) (join comps) false = VIgnore /\
    file_verdict false [line] comps false = None.
Proof. exists [123; 97; 44; 98; 125]%N, [[97%N]]. vm_compute. auto. Qed.
Print Assumptions brace_alternation_refuted.

(* add_line's flags on the documented line forms (computation): negation + directory-only + anchoring,
   implicit `**/`, `/**` => `/**/*`, comment, escaped trailing blank followed by blanks (defect D11, repaired),
   escaped backslash before the trailing slash (escaped-backslash defect found by this check, repaired) *)
Example ex_add_line_flags :
  (match add_line false [33; 47; 97; 47]%N with            (* "!/a/" *)
   | LGlob g => (ig_whitelist g, ig_only_dir g, ig_actual g) = (true, true, [97%N]) | _ => False end)
  /\ (match add_line false [97; 47; 42; 42]%N with          (* "a/**" => "a/**/*" *)
      | LGlob g => ig_actual g = [97; 47; 42; 42; 47; 42]%N | _ => False end)
  /\ (match add_line false [42; 46; 97]%N with              (* "*.a" => "**/*.a" *)
      | LGlob g => ig_actual g = [42; 42; 47; 42; 46; 97]%N | _ => False end)
  /\ add_line false [35; 97]%N = LSkip                      (* "#a" *)
  /\ (match add_line false [102; 92; 32; 32; 32]%N with     (* "f\ " + 2 blanks => "**/f\ " *)
      | LGlob g => ig_actual g = [42; 42; 47; 102; 92; 32]%N | _ => False end)
  /\ (match add_line false [97; 92; 92; 47]%N with          (* "a\\/" => dir-only "**/a\\" *)
      | LGlob g => (ig_only_dir g, ig_actual g) = (true, [42; 42; 47; 97; 92; 92]%N) | _ => False end).
Proof. vm_compute. repeat split. Qed.

Check file_last_match_wins :
  forall (globs : list iglob) (path : bytes) (is_dir : bool),
    matched_stripped re_spec globs path is_dir =
    verdict_of (find (fun g => line_hit g path is_dir) (rev globs)).
Check gitignore_pattern_eq_git :
  forall (o : gopts) (ci : bool), case_insensitive o = ci -> literal_separator o = true ->
  forall (unanchored : bool) (segs : list seg) (comps : list bytes),
    segs_ok unanchored segs = true -> comps <> [] -> Forall comp_ok comps ->
    tmatch o (rg_tokens unanchored segs) (join comps) = cmatch ci (git_cpats unanchored segs) comps.
Check gitignore_line_eq_git :
  forall (ci : bool) (line : bytes) (rel : list bytes) (is_dir : bool),
    line_class ci line = true -> rel <> [] -> Forall comp_ok rel ->
    rg_line re_spec ci line rel is_dir = git_line ci line rel is_dir.
Check rg_model_visited_eq_git_visited_on_class :
  forall (ci : bool) (igs : list (list bytes * list bytes)) (path : list bytes) (is_dir : bool),
    igs_in_class ci igs -> Forall comp_ok path ->
    visited re_spec (parse_igs ci igs) path is_dir = git_visited ci igs path is_dir.
Check grammar_lines_in_class :
  forall (ci : bool) (gl : gline), gline_ok gl = true -> line_class ci (render_line gl) = true.
Check rg_model_visited_eq_git_visited :
  forall (ci : bool) (igs : list (list bytes * list bytes)) (path : list bytes) (is_dir : bool),
    grammar_igs igs -> Forall comp_ok path ->
    visited re_spec (parse_igs ci igs) path is_dir = git_visited ci igs path is_dir.
Check rg_model_listing_eq_git_listing :
  forall (ci : bool) (igs : list (list bytes * list bytes)) (entries : list (list bytes * bool)),
    grammar_igs igs -> Forall (fun e => Forall comp_ok (fst e)) entries ->
    filter (fun e => visited re_spec (parse_igs ci igs) (fst e) (snd e)) entries =
    filter (fun e => git_visited ci igs (fst e) (snd e)) entries.

(* ------------------------------------------------------------------------------------------------------------
   Bracket expressions in full (Spec/GlobClassSyntax.v, written from glob(7)/fnmatch(3), to which gitignore(5)
   refers, and the globset documentation): optional complement mark `!` or `^`; a `]` (or `-`) that is the FIRST
   member stands for itself; a `-` written last stands for itself; never empty. *)
From RG Require Import Spec.GlobClassSyntax Proofs.GlobClassProofs Proofs.GlobClassMeaningProofs
  Proofs.GitLinesIndependentProofs.

(* 17. the class parser on the text of a documented bracket expression (what follows the `[`), in ANY parser state
       with a non-empty stack (top level or between braces), whatever follows: it consumes exactly the class and
       pushes exactly the documented token — complement flag set by either mark, the members in the order written,
       a leading `]`/`-` and a trailing `-` as single-character members. *)
Theorem parse_class_documented :
  forall (d : dclass) (top : list token) (stk : list (list token)) (rest : list N) (pv cu : option N),
    dclass_ok d = true ->
    exists pv',
      parse_class (mk_parser (top :: stk) (render_dclass_body d ++ rest) pv cu)
      = Ok (mk_parser ((top ++ [dclass_token d]) :: stk) rest pv' (Some 93%N)).
Proof. exact parse_class_documented_proof. Qed.
Print Assumptions parse_class_documented.

(* 18. the documented alternate-free glob syntax of C12's parse_documented_syntax with these classes as items
       (next to literals, `?`, `*`, the plain classes, around `**`): the parser yields the documented tokens. *)
Theorem parse_documented_syntax_classes :
  forall (o : gopts) (ps : list xpiece),
    backslash_escape o = true -> xglob_ok ps = true ->
    build o (render_xglob ps) = Some (Ok (xglob_tokens ps)).
Proof. exact xbuild_render_proof. Qed.
Print Assumptions parse_documented_syntax_classes.

(* 19. the plain classes of Spec/GlobSyntax.v are the instances without mark, leading `]`/`-` and trailing `-` *)
Theorem class_syntax_conservative :
  forall ms : list (N * N),
    item_ok (IClass ms) = true ->
    dclass_ok (dclass_of_members ms) = true /\
    render_dclass (dclass_of_members ms) = render_item (IClass ms) /\
    dclass_token (dclass_of_members ms) = item_tok (IClass ms).
Proof. exact class_syntax_conservative_proof. Qed.
Print Assumptions class_syntax_conservative.

(* 20. meaning: the glob that consists of one documented bracket expression parses, and (case-sensitive) matches
       exactly the one-character paths the documentation says the class stands for — `/` included when the class
       admits it: that is the known finding ClassMatchesSeparator, statement 16 *)
Theorem class_glob_meaning :
  forall (o : gopts) (d : dclass) (b : N),
    backslash_escape o = true -> case_insensitive o = false -> dclass_ok d = true ->
    exists ts, build o (render_dclass d) = Some (Ok ts) /\ tmatch o ts [b] = dclass_admits d b.
Proof. exact class_glob_meaning_proof. Qed.
Print Assumptions class_glob_meaning.

(* 21. whatever the glob text: every class token the parser produces is non-empty with ascending ranges (also inside
       alternates), so the regex emitted for it is a valid bracket expression.  An EMPTY class (`[^]`) would be an
       invalid regex, and because the regexes of one ignore file are compiled as one set, it would make the whole
       file's matcher fail to build (create_gitignore then installs an empty matcher: every line lost). *)
Theorem parsed_class_tokens_wellformed :
  forall (o : gopts) (g : list N) (ts : list token), build o g = Some (Ok ts) -> toks_wf ts = true.
Proof. exact build_tokens_wf_proof. Qed.
Print Assumptions parsed_class_tokens_wellformed.

(* 22. the lines of one ignore file are independent: a line add_line does not turn into a glob (comment, blank,
       parse error) contributes nothing and takes nothing away from the lines before and after it ... *)
Theorem unparsable_line_skipped :
  forall (ci : bool) (before : list bytes) (bad : bytes) (after : list bytes),
    (forall g, add_line ci bad <> LGlob g) ->
    add_lines ci (before ++ bad :: after) = add_lines ci (before ++ after).
Proof. exact unparsable_line_skipped_proof. Qed.
Print Assumptions unparsable_line_skipped.

(* 23. ... and every line that IS accepted carries well-formed tokens: no accepted line can be the one invalid
       regex that poisons the set of its file *)
Theorem accepted_lines_tokens_wf :
  forall (ci : bool) (lines : list bytes) (g : iglob),
    In g (add_lines ci lines) -> toks_wf (g_tokens (ig_glob g)) = true.
Proof. exact accepted_lines_tokens_wf_proof. Qed.
Print Assumptions accepted_lines_tokens_wf.

(* non-vacuity: `[^]-]` (neither `]` nor `-`), `[!]a-c-]`, `[]-a]` (the range from `]` to `a`), `[-]`;
   `n[^]-]m` as a glob; an ignore file with a rejected line between two accepted ones *)
Example ex_documented_classes :
  let d1 := mk_dclass NegCaret [(93, 93)%N] true in
  let d2 := mk_dclass NegBang [(93, 93); (97, 99)]%N true in
  let d3 := mk_dclass NegNone [(93, 97)%N] false in
  let d4 := mk_dclass NegNone [] true in
  forallb dclass_ok [d1; d2; d3; d4] = true /\
  render_dclass d1 = [91; 94; 93; 45; 93]%N /\ dclass_token d1 = TClass true [(93, 93); (45, 45)]%N /\
  render_dclass d2 = [91; 33; 93; 97; 45; 99; 45; 93]%N /\ dclass_token d2 = TClass true [(93, 93); (97, 99); (45, 45)]%N /\
  render_dclass d3 = [91; 93; 45; 97; 93]%N /\ dclass_token d3 = TClass false [(93, 97)]%N /\
  render_dclass d4 = [91; 45; 93]%N /\ dclass_token d4 = TClass false [(45, 45)]%N /\
  map (dclass_admits d1) [93; 45; 49; 47]%N = [false; false; true; true] /\
  dclass_ok (mk_dclass NegCaret [] false) = false /\
  (let g := [XPComp [XI (IPlain 110); XClass d1; XI (IPlain 109)]] in
   xglob_ok g = true /\ render_xglob g = [110; 91; 94; 93; 45; 93; 109]%N /\
   build (mk_gopts false true true false) (render_xglob g)
   = Some (Ok [TLit 110; TClass true [(93, 93); (45, 45)]%N; TLit 109])).
Proof. vm_compute. repeat split. Qed.

Example ex_lines_independent :
  let lines := [[42; 46; 108; 111; 103]; [91; 98; 45; 97; 93]; [110; 91; 94; 93; 45; 93; 109]]%N in   (* *.log  [b-a]  n[^]-]m *)
  length (add_lines false lines) = 2 /\
  add_lines false lines = add_lines false [[42; 46; 108; 111; 103]; [110; 91; 94; 93; 45; 93; 109]]%N /\
  forallb (fun g => toks_wf (g_tokens (ig_glob g))) (add_lines false lines) = true /\
  toks_wf [TClass true []] = false.
Proof. vm_compute. repeat split. Qed.

Check parse_class_documented :
  forall (d : dclass) (top : list token) (stk : list (list token)) (rest : list N) (pv cu : option N),
    dclass_ok d = true ->
    exists pv',
      parse_class (mk_parser (top :: stk) (render_dclass_body d ++ rest) pv cu)
      = Ok (mk_parser ((top ++ [dclass_token d]) :: stk) rest pv' (Some 93%N)).
Check parse_documented_syntax_classes :
  forall (o : gopts) (ps : list xpiece),
    backslash_escape o = true -> xglob_ok ps = true ->
    build o (render_xglob ps) = Some (Ok (xglob_tokens ps)).
Check parsed_class_tokens_wellformed :
  forall (o : gopts) (g : list N) (ts : list token), build o g = Some (Ok ts) -> toks_wf ts = true.
Check unparsable_line_skipped :
  forall (ci : bool) (before : list bytes) (bad : bytes) (after : list bytes),
    (forall g, add_line ci bad <> LGlob g) ->
    add_lines ci (before ++ bad :: after) = add_lines ci (before ++ after).
Check accepted_lines_tokens_wf :
  forall (ci : bool) (lines : list bytes) (g : iglob),
    In g (add_lines ci lines) -> toks_wf (g_tokens (ig_glob g)) = true.
