(* Props/C04.v — property C04: ignore files mean what git says they mean.
   Only statements; every proof is one `exact` (or a vm_compute witness).  Check lines pin the statements. *)
From RG Require Import Base.Bytes Model.Glob Model.GlobSet Spec.GlobSem Spec.GlobSetSem Model.Gitignore Spec.GitSem
  Proofs.GlobPathProofs Proofs.GitignoreProofs Proofs.GitSemProofs.

(* 1. within one ignore file the LAST line whose glob matches the entry (and whose directory-only flag admits
      it) decides, `!` lines re-include: Gitignore::matched_stripped (glob set, seven strategies, reverse scan)
      for every list of parsed lines, every path, both entry kinds.  Uses C12's set_eq_members. *)
Theorem file_last_match_wins :
  forall (globs : list iglob) (path : bytes) (is_dir : bool),
    matched_stripped re_spec globs path is_dir =
    verdict_of (find (fun g => line_hit g path is_dir) (rev globs)).
Proof. exact matched_stripped_last_match_proof. Qed.
Print Assumptions file_last_match_wins.

(* 2. walking up (Gitignore::matched_path_or_any_parents): the first parent with a verdict decides *)
Theorem parents_first_verdict :
  forall (re : glob -> bytes -> bool) (globs : list iglob) (ps : list (list bytes)),
    parents_up re globs ps =
    match find (fun p => match matched_stripped re globs (join p) true with VNone => false | _ => true end) ps with
    | Some p => matched_stripped re globs (join p) true
    | None => VNone
    end.
Proof. exact parents_up_spec. Qed.
Print Assumptions parents_first_verdict.

(* 3. a deeper ignore file overrides a shallower one: the nearest directory's file is consulted first and
      the files further up only when it has no verdict; the path is made relative to the file's directory *)
Theorem nearest_ignore_file_first :
  forall (re : glob -> bytes -> bool) (d : list bytes) (globs : list iglob) (igs : list ignore_file)
         (path rel : list bytes) (is_dir : bool),
    comps_prefix d path = Some rel -> rel <> [] ->
    chain_verdict re ((d, globs) :: igs) path is_dir =
    match matched_stripped re globs (join rel) is_dir with
    | VNone => chain_verdict re igs path is_dir
    | v => v
    end.
Proof. exact chain_verdict_nearest. Qed.
Print Assumptions nearest_ignore_file_first.

(* 4. nothing beneath an ignored directory is visited, whatever any ignore file says about it *)
Theorem pruned_below_ignored_dir :
  forall (re : glob -> bytes -> bool) (igs : list ignore_file) (c : bytes) (rest : list bytes) (is_dir : bool),
    rest <> [] -> skipped re igs [c] true = true -> visited re igs (c :: rest) is_dir = false.
Proof. exact pruned_below_ignored_dir_proof. Qed.
Print Assumptions pruned_below_ignored_dir.

(* 5. PARTIAL (one pattern class of the documented grammar): a separator-free literal name in an ignore file
      — rewritten by add_line to `**/name` — matches exactly where git's component semantics says: the last
      component at any depth.  The remaining classes (wildcards and classes inside components, anchored
      patterns, `**` in the three positions) are stated by Spec/GitSem.v and TESTED three-way (extracted
      GitSem vs real git; rg model vs real rg; rg vs git), not proved. *)
Theorem gitignore_line_eq_git_partial :
  forall (o : gopts) (l : bytes) (comps : list bytes),
    case_insensitive o = false -> l <> [] -> has 47 l = false ->
    comps <> [] -> Forall comp_ok comps ->
    tmatch o (TRecPrefix :: map TLit l) (join comps) = cmatch false [CDStar; CSimple (map WLit l)] comps.
Proof. exact basename_pattern_eq_git_proof. Qed.
Print Assumptions gitignore_line_eq_git_partial.

(* the shapes of theorem 5 are what the two line readers produce, e.g. for the line `foo.` (defect D3) *)
Example ex_line_shapes :
  add_line false [102; 111; 111; 46]%N =
    LGlob (mk_iglob false false [42; 42; 47; 102; 111; 111; 46]%N
             (mk_glob (mk_gopts false true true false) (TRecPrefix :: map TLit [102; 111; 111; 46]%N)))
  /\ git_parse_line [102; 111; 111; 46]%N =
     Some (mk_gpat false false [CDStar; CSimple (map WLit [102; 111; 111; 46]%N)]).
Proof. vm_compute. auto. Qed.

(* 6. KNOWN FINDING ClassMatchesSeparator (found by this check; coordinator to number): the full statement "rg's verdict for a line = git's" is false
      for a bracket class that admits '/': line `a[!b]c`, file `c` in directory `a`. *)
Theorem class_crosses_separator_refuted :
  exists (line : bytes) (comps : list bytes),
    matched_stripped re_spec (add_lines false [line]) (join comps) false = VIgnore /\
    file_verdict false [line] comps false = None.
Proof. exists [97; 91; 33; 98; 93; 99]%N, [[97%N]; [99%N]]. vm_compute. auto. Qed.
Print Assumptions class_crosses_separator_refuted.

(* 7. KNOWN FINDING UnescapedBrace (D12): line `{a,b}`, file `a`. *)
Theorem brace_alternation_refuted :
  exists (line : bytes) (comps : list bytes),
    matched_stripped re_spec (add_lines false [line]) (join comps) false = VIgnore /\
    file_verdict false [line] comps false = None.
Proof. exists [123; 97; 44; 98; 125]%N, [[97%N]]. vm_compute. auto. Qed.
Print Assumptions brace_alternation_refuted.

(* add_line's flags on the documented line forms (computation): negation + directory-only + anchoring,
   implicit `**/`, `/**` => `/**/*`, comment, escaped trailing blank followed by blanks (defect D11, repaired),
   escaped backslash before the trailing slash (escaped-backslash defect found by this check, repaired) *)
Example ex_add_line_flags :
  (match add_line false [33; 47; 97; 47]%N with            (* "!/a/" *)
   | LGlob g => (ig_whitelist g, ig_only_dir g, ig_actual g) = (true, true, [97%N]) | _ => False end)
  /\ (match add_line false [97; 47; 42; 42]%N with          (* "a/**" => "a/**/*" *)
      | LGlob g => ig_actual g = [97; 47; 42; 42; 47; 42]%N | _ => False end)
  /\ (match add_line false [42; 46; 97]%N with              (* "*.a" => "**/*.a" *)
      | LGlob g => ig_actual g = [42; 42; 47; 42; 46; 97]%N | _ => False end)
  /\ add_line false [35; 97]%N = LSkip                      (* "#a" *)
  /\ (match add_line false [102; 92; 32; 32; 32]%N with     (* "f\ " + 2 blanks => "**/f\ " *)
      | LGlob g => ig_actual g = [42; 42; 47; 102; 92; 32]%N | _ => False end)
  /\ (match add_line false [97; 92; 92; 47]%N with          (* "a\\/" => dir-only "**/a\\" *)
      | LGlob g => (ig_only_dir g, ig_actual g) = (true, [42; 42; 47; 97; 92; 92]%N) | _ => False end).
Proof. vm_compute. repeat split. Qed.

Check file_last_match_wins :
  forall (globs : list iglob) (path : bytes) (is_dir : bool),
    matched_stripped re_spec globs path is_dir =
    verdict_of (find (fun g => line_hit g path is_dir) (rev globs)).
Check gitignore_line_eq_git_partial :
  forall (o : gopts) (l : bytes) (comps : list bytes),
    case_insensitive o = false -> l <> [] -> has 47 l = false ->
    comps <> [] -> Forall comp_ok comps ->
    tmatch o (TRecPrefix :: map TLit l) (join comps) = cmatch false [CDStar; CSimple (map WLit l)] comps.
