(* Props/C04.v — placeholder *)
From RG Require Import Base.Bytes Model.Gitignore.
