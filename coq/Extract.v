(* Extract.v — extraction of the executable models (ExtrOcamlBasic only: its Extract
   Inductive directives for bool, option, unit, prod, list, sumbool, sumor; nat, N,
   positive stay Coq datatypes). *)
From Coq Require Import ExtrOcamlBasic.
From RG Require Import Base.Val Run.Dispatch.
Extraction "model.ml" dispatch.
