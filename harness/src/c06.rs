//! C06: the single-threaded and the parallel walker of the `ignore` crate on a real directory tree.
use crate::val::Val;
use ignore::{DirEntry, Error, WalkBuilder, WalkState};
use std::ffi::OsStr;
use std::os::unix::ffi::OsStrExt;
use std::path::PathBuf;
use std::sync::{Arc, Mutex};

/// kinds served by this module
pub fn dispatch(kind: u32, v: &Val) -> Option<Val> {
    match kind {
        601 => Some(run_walks(v)),
        602 => Some(run_race(v)),
        _ => None,
    }
}

fn pb(v: &Val) -> PathBuf {
    PathBuf::from(OsStr::from_bytes(&v.bytes()))
}

/// (0 path depth type path_is_symlink has_partial_error) | (1 loop_child) | (2 io_error_path) | (3) other error | (5 ()) panic
fn out_of(r: Result<DirEntry, Error>) -> Val {
    match r {
        Ok(d) => {
            let ty = match d.file_type() {
                Some(t) if t.is_dir() => 1,
                Some(t) if t.is_symlink() => 2,
                Some(_) => 0,
                None => 9,
            };
            Val::L(vec![
                Val::N(0),
                Val::of_bytes(d.path().as_os_str().as_bytes()),
                Val::of_us(d.depth()),
                Val::N(ty),
                Val::of_bool(d.path_is_symlink()),
                // DirEntry::error(): the (partial) error `Ignore::add_child` reported for this directory's ignore files
                Val::of_bool(d.error().is_some()),
            ])
        }
        Err(e) => err_val(&e, None),
    }
}

fn err_val(e: &Error, path: Option<&std::path::Path>) -> Val {
    match e {
        Error::WithDepth { err, .. } => err_val(err, path),
        Error::WithPath { path: p, err } => err_val(err, Some(p)),
        Error::Loop { child, .. } => Val::L(vec![Val::N(1), Val::of_bytes(child.as_os_str().as_bytes())]),
        Error::Io(_) => Val::L(vec![
            Val::N(2),
            Val::of_bytes(path.map(|p| p.as_os_str().as_bytes()).unwrap_or(b"?")),
        ]),
        Error::Partial(_) => Val::L(vec![Val::N(4)]),
        other => Val::L(vec![Val::N(3), Val::of_bytes(other.to_string().as_bytes())]),
    }
}

/// case: (cwd roots cfg threads)
///   cfg = (max_depth_opt max_filesize_opt follow same_fs has_filter filter_names hidden)
/// result: (serial parallel) — each the list of outputs in the order produced
pub fn run_walks(v: &Val) -> Val {
    if std::env::set_current_dir(pb(v.fld(0))).is_err() {
        return Val::L(vec![Val::N(9)]);
    }
    let wb = builder(v);
    // the iterator may panic (a panic is a finding): keep what was yielded before it and add a marker (5)
    let mut serial: Vec<Val> = vec![];
    let walk = wb.build();
    let res = std::panic::catch_unwind(std::panic::AssertUnwindSafe(|| {
        for r in walk {
            serial.push(out_of(r));
        }
    }));
    if res.is_err() {
        serial.push(Val::L(vec![Val::N(5), Val::L(vec![])]));
    }
    let acc: Arc<Mutex<Vec<Val>>> = Arc::new(Mutex::new(vec![]));
    wb.build_parallel().run(|| {
        let acc = acc.clone();
        Box::new(move |r| {
            let o = out_of(r);
            acc.lock().unwrap().push(o);
            WalkState::Continue
        })
    });
    let par = acc.lock().unwrap().clone();
    Val::L(vec![Val::L(serial), Val::L(par)])
}

/// kind 602: a directed schedule. case = (cwd roots cfg threads activate_ms visit_ms rounds): the parallel walker
/// with the window between an idle worker's successful steal and its re-activation stretched through the
/// `ignore::walk_verif` yield hook (a sleep at ACTIVATE) and a slow visitor; every round's multiset of
/// (path, depth) entries is compared with the serial walk's.  On correct code the two are equal under every
/// schedule, so a stalled machine can only hide a defect, never raise an alarm.
/// result: (missing extra serial_count rounds_differing)
pub fn run_race(v: &Val) -> Val {
    use ignore::walk_verif as verif;
    use std::time::Duration;
    if std::env::set_current_dir(pb(v.fld(0))).is_err() {
        return Val::L(vec![Val::N(9)]);
    }
    let wb = builder(v);
    let activate_ms = v.fld(4).us() as u64;
    let visit_ms = v.fld(5).us() as u64;
    let rounds = v.fld(6).us();
    let key = |d: &DirEntry| (d.path().as_os_str().as_bytes().to_vec(), d.depth());
    let mut serial: Vec<(Vec<u8>, usize)> = wb.build().filter_map(|r| r.ok()).map(|d| key(&d)).collect();
    serial.sort();
    verif::set_yield(Some(Arc::new(move |_worker, kind| {
        if kind == verif::ACTIVATE {
            std::thread::sleep(Duration::from_millis(activate_ms));
        }
    })));
    let mut missing: Vec<(Vec<u8>, usize)> = vec![];
    let mut extra: Vec<(Vec<u8>, usize)> = vec![];
    let mut differing = 0usize;
    for _ in 0..rounds {
        let seen: Arc<Mutex<Vec<(Vec<u8>, usize)>>> = Arc::new(Mutex::new(vec![]));
        wb.build_parallel().run(|| {
            let seen = seen.clone();
            Box::new(move |r| {
                if let Ok(d) = r {
                    std::thread::sleep(Duration::from_millis(visit_ms));
                    seen.lock().unwrap().push((d.path().as_os_str().as_bytes().to_vec(), d.depth()));
                }
                WalkState::Continue
            })
        });
        let mut seen = seen.lock().unwrap().clone();
        seen.sort();
        if seen != serial {
            differing += 1;
            // multiset differences
            let mut rest = seen.clone();
            for e in &serial {
                match rest.iter().position(|x| x == e) {
                    Some(i) => { rest.remove(i); }
                    None => missing.push(e.clone()),
                }
            }
            extra.extend(rest);
        }
    }
    verif::set_yield(None);
    let enc = |l: &Vec<(Vec<u8>, usize)>| {
        Val::L(l.iter().map(|(p, d)| Val::L(vec![Val::of_bytes(p), Val::of_us(*d)])).collect())
    };
    Val::L(vec![enc(&missing), enc(&extra), Val::of_us(serial.len()), Val::of_us(differing)])
}

/// the WalkBuilder of a case (cwd roots cfg threads ...)
fn builder(v: &Val) -> WalkBuilder {
    let roots: Vec<PathBuf> = v.fld(1).list().iter().map(pb).collect();
    let c = v.fld(2);
    let mut wb = WalkBuilder::new(&roots[0]);
    for r in &roots[1..] {
        wb.add(r);
    }
    wb.max_depth(c.fld(0).opt().map(|d| d.us()))
        .max_filesize(c.fld(1).opt().map(|d| d.n() as u64))
        .follow_links(c.fld(2).b())
        .same_file_system(c.fld(3).b())
        .hidden(c.fld(6).b())
        .parents(false)
        .ignore(true)
        .git_global(false)
        .git_ignore(false)
        .add_custom_ignore_filename(".rgignore")
        .git_exclude(false)
        .threads(v.fld(3).us());
    if c.fld(4).b() {
        let names: Vec<Vec<u8>> = c.fld(5).list().iter().map(|n| n.bytes()).collect();
        wb.filter_entry(move |d| !names.iter().any(|n| n.as_slice() == d.file_name().as_bytes()));
    }
    wb
}
