//! C12: globs and glob sets.  Kinds 1201 (parse: tokens/strategy/error), 1202 (one glob on an
//! exhaustive path set: regex matcher, one-glob set, independent oracle), 1203 (a glob set).
use crate::val::Val;
use globset::{ErrorKind, Glob, GlobBuilder, GlobSetBuilder};
use std::ffi::OsStr;
use std::os::unix::ffi::OsStrExt;
use std::path::Path;

pub fn dispatch(kind: u32, v: &Val) -> Option<Val> {
    match kind {
        1201 => Some(run_parse(v)),
        1202 => Some(run_glob(v)),
        1203 => Some(run_set(v)),
        _ => None,
    }
}

#[derive(Clone, Copy)]
pub struct Opts { pub ci: bool, pub litsep: bool, pub bsesc: bool, pub ealt: bool }

pub fn decode_opts(n: usize) -> Opts {
    Opts { ci: n & 1 != 0, litsep: n & 2 != 0, bsesc: n & 4 != 0, ealt: n & 8 != 0 }
}

pub fn build(o: Opts, glob: &[u8]) -> Result<Glob, globset::Error> {
    let s = String::from_utf8_lossy(glob).into_owned();
    GlobBuilder::new(&s)
        .case_insensitive(o.ci)
        .literal_separator(o.litsep)
        .backslash_escape(o.bsesc)
        .empty_alternates(o.ealt)
        .build()
}

fn err_val(e: &globset::Error) -> Val {
    let n = |x: u128| Val::N(x);
    match e.kind() {
        ErrorKind::UnclosedClass => Val::L(vec![n(1), n(1)]),
        ErrorKind::InvalidRange(a, b) => Val::L(vec![n(1), n(2), n(*a as u128), n(*b as u128)]),
        ErrorKind::UnopenedAlternates => Val::L(vec![n(1), n(3)]),
        ErrorKind::UnclosedAlternates => Val::L(vec![n(1), n(4)]),
        ErrorKind::NestedAlternates => Val::L(vec![n(1), n(5)]),
        ErrorKind::DanglingEscape => Val::L(vec![n(1), n(6)]),
        _ => Val::L(vec![n(1), n(8)]),
    }
}

fn run_parse(v: &Val) -> Val {
    let o = decode_opts(v.fld(0).us());
    match build(o, &v.fld(1).bytes()) {
        Err(e) => err_val(&e),
        Ok(g) => {
            let toks = Val::parse(&g.verif_tokens()).expect("token dump");
            let strat = Val::parse(&g.verif_strategy()).expect("strategy dump");
            Val::L(vec![Val::N(0), toks, strat])
        }
    }
}

const ALPHABET: [u8; 6] = [97, 98, 46, 47, 45, 65];

/// all byte strings over the alphabet of length <= l: by length, then lexicographic (alphabet order)
pub fn all_paths(l: usize) -> Vec<Vec<u8>> {
    let mut res: Vec<Vec<u8>> = vec![];
    let mut level: Vec<Vec<u8>> = vec![vec![]];
    res.extend(level.iter().cloned());
    for _ in 0..l {
        let mut next = Vec::with_capacity(level.len() * 6);
        for &c in ALPHABET.iter() {
            for p in &level {
                let mut q = Vec::with_capacity(p.len() + 1);
                q.push(c);
                q.extend_from_slice(p);
                next.push(q);
            }
        }
        res.extend(next.iter().cloned());
        level = next;
    }
    res
}

pub fn case_paths(vl: &Val, vextra: &Val) -> Vec<Vec<u8>> {
    let mut ps = all_paths(vl.us());
    for e in vextra.list() { ps.push(e.bytes()); }
    ps
}

fn enc_bits(bits: &[bool]) -> Val {
    let mut out = vec![];
    for ch in bits.chunks(8) {
        let mut b = 0u128;
        for (i, &x) in ch.iter().enumerate() { if x { b |= 1 << i; } }
        out.push(Val::N(b));
    }
    Val::L(out)
}

fn as_path(p: &[u8]) -> &Path { Path::new(OsStr::from_bytes(p)) }

fn run_glob(v: &Val) -> Val {
    let o = decode_opts(v.fld(0).us());
    let gtext = v.fld(1).bytes();
    let g = match build(o, &gtext) { Ok(g) => g, Err(_) => return Val::L(vec![Val::N(1)]) };
    let paths = case_paths(v.fld(2), v.fld(3));
    let m = g.compile_matcher();
    let set = GlobSetBuilder::new().add(g.clone()).build().expect("set");
    let re_bits: Vec<bool> = paths.iter().map(|p| m.is_match(as_path(p))).collect();
    let set_bits: Vec<bool> = paths.iter().map(|p| set.is_match(as_path(p))).collect();
    let set_m_bits: Vec<bool> = paths.iter().map(|p| !set.matches(as_path(p)).is_empty()).collect();
    let oracle = match oracle::compile(&gtext, o) {
        None => Val::L(vec![]),
        Some(og) => Val::L(vec![enc_bits(&paths.iter().map(|p| og.is_match(p)).collect::<Vec<_>>())]),
    };
    Val::L(vec![Val::N(0), enc_bits(&re_bits), enc_bits(&set_bits), enc_bits(&set_m_bits), oracle])
}

fn run_set(v: &Val) -> Val {
    let mut b = GlobSetBuilder::new();
    let mut singles = vec![];
    for x in v.fld(0).list() {
        let o = decode_opts(x.fld(0).us());
        match build(o, &x.fld(1).bytes()) {
            Ok(g) => { singles.push(g.compile_matcher()); b.add(g); }
            Err(_) => return Val::L(vec![Val::N(1)]),
        }
    }
    let set = b.build().expect("set");
    let paths = case_paths(v.fld(1), v.fld(2));
    let mut ms = vec![];
    let mut is = vec![];
    let mut fs = vec![];
    for p in &paths {
        let path = as_path(p);
        ms.push(Val::L(set.matches(path).into_iter().map(Val::of_us).collect()));
        is.push(set.is_match(path));
        fs.push(Val::L(singles.iter().enumerate().filter(|(_, m)| m.is_match(path)).map(|(i, _)| Val::of_us(i)).collect()));
    }
    Val::L(vec![Val::N(0), Val::L(ms), enc_bits(&is), Val::L(fs)])
}

/// An independent statement of the documented glob syntax (crates/globset/src/lib.rs, "Syntax"):
/// brace expansion into plain globs, then a backtracking matcher over the glob text's items.
/// It shares nothing with the token parser or the regex translation.  `compile` returns None
/// for glob text outside the documented grammar (`**` not in one of the three documented
/// positions, `**` combined with braces, unbalanced or nested braces, dangling escapes ...).
pub mod oracle {
    use super::Opts;

    #[derive(Debug, Clone)]
    enum Item {
        Byte(u8),
        AnyOne,
        AnyMany,
        Set(Box<[bool; 256]>),
        DirsPrefix, // leading "**/"
        DirsSuffix, // trailing "/**"
        DirsMiddle, // inner "/**/"
        Everything, // the glob "**"
    }

    pub struct OGlob { alts: Vec<Vec<Item>>, o: Opts }

    /// a unit of glob text: (byte, escaped?) or a class body kept verbatim
    #[derive(Clone, Debug, PartialEq)]
    enum Unit { Ch(u8, bool), Class(Vec<u8>), Join }
    // Join: zero-width seam left by brace expansion; stars on its two sides are two single stars, never "**"

    fn units(g: &[u8], o: Opts) -> Option<Vec<Unit>> {
        let mut out = vec![];
        let mut i = 0;
        while i < g.len() {
            let c = g[i];
            if c >= 0x80 { return None; }
            if c == b'\\' && o.bsesc {
                if i + 1 >= g.len() { return None; }
                if g[i + 1] >= 0x80 { return None; }
                out.push(Unit::Ch(g[i + 1], true));
                i += 2;
            } else if c == b'[' {
                // class: optional ! or ^, a first ']' is literal, ends at the next ']'
                let mut j = i + 1;
                if j < g.len() && (g[j] == b'!' || g[j] == b'^') { j += 1; }
                if j < g.len() && g[j] == b']' { j += 1; }
                while j < g.len() && g[j] != b']' { if g[j] >= 0x80 { return None; } j += 1; }
                if j >= g.len() { return None; }
                out.push(Unit::Class(g[i + 1..j].to_vec()));
                i = j + 1;
            } else {
                out.push(Unit::Ch(c, false));
                i += 1;
            }
        }
        Some(out)
    }

    fn is_raw(u: &Unit, c: u8) -> bool { matches!(u, Unit::Ch(x, false) if *x == c) }

    /// one level of brace expansion
    fn expand(us: &[Unit], o: Opts) -> Option<Vec<Vec<Unit>>> {
        let mut results: Vec<Vec<Unit>> = vec![vec![]];
        let mut i = 0;
        while i < us.len() {
            if is_raw(&us[i], b'{') {
                let mut branches: Vec<Vec<Unit>> = vec![vec![]];
                let mut j = i + 1;
                loop {
                    if j >= us.len() { return None; }           // unclosed
                    if is_raw(&us[j], b'{') { return None; }    // nested
                    if is_raw(&us[j], b'}') { break; }
                    if is_raw(&us[j], b',') { branches.push(vec![]); } else { branches.last_mut().unwrap().push(us[j].clone()); }
                    j += 1;
                }
                if !o.ealt { branches.retain(|b| !b.is_empty()); }
                if branches.is_empty() { return None; }          // `{}` / `{,}`: undocumented
                let mut next = vec![];
                for r in &results { for b in &branches { let mut x = r.clone(); x.push(Unit::Join); x.extend(b.iter().cloned()); x.push(Unit::Join); next.push(x); } }
                results = next;
                i = j + 1;
            } else if is_raw(&us[i], b'}') {
                return None;                                     // unopened
            } else {
                for r in results.iter_mut() { r.push(us[i].clone()); }
                i += 1;
            }
        }
        Some(results)
    }

    fn class_set(body: &[u8], o: Opts) -> Option<Item> {
        let (neg, body) = match body.first() { Some(b'!') | Some(b'^') => (true, &body[1..]), _ => (false, body) };
        let mut set = Box::new([false; 256]);
        let mut i = 0;
        while i < body.len() {
            let lo = body[i];
            if i + 2 < body.len() && body[i + 1] == b'-' {
                // "lo-hi"
                let hi = body[i + 2];
                if hi < lo { return None; }
                for b in lo..=hi { set[b as usize] = true; }
                i += 3;
                // "a-b-c": not a documented shape
                if i < body.len() && body[i] == b'-' && i + 1 < body.len() { return None; }
            } else {
                // a single member; a '-' that is first or last is itself
                set[lo as usize] = true;
                i += 1;
            }
        }
        if o.ci {
            for b in 0..=255u8 {
                if set[b as usize] && b.is_ascii_alphabetic() { set[(b ^ 0x20) as usize] = true; }
            }
        }
        if neg { for b in 0..256 { set[b] = !set[b]; } }
        Some(Item::Set(set))
    }

    fn items(us: &[Unit], o: Opts) -> Option<Vec<Item>> {
        let n = us.len();
        let star = |i: usize| i < n && is_raw(&us[i], b'*');
        let slash = |i: usize| i < n && is_raw(&us[i], b'/');
        let two = |i: usize| star(i) && star(i + 1);
        if (0..n).any(|i| two(i) && star(i + 2)) { return None; }           // "***"
        if n == 2 && two(0) { return Some(vec![Item::Everything]); }
        // "/**" as a whole component: followed by '/' or by the end
        let dirs_at = |i: usize| slash(i) && two(i + 1) && (i + 3 == n || slash(i + 3));
        let mut out = vec![];
        let mut i = 0;
        while i < n {
            if dirs_at(i) {
                let mut j = i + 3;
                while dirs_at(j) { j += 3; }                                  // "/**/**" = "/**"
                if j == n { out.push(Item::DirsSuffix); i = n; } else { out.push(Item::DirsMiddle); i = j + 1; }
                continue;
            }
            if two(i) {
                // only documented here as the leading "**/"
                if i != 0 || !slash(2) { return None; }
                let mut j = 3;
                while two(j) && slash(j + 2) { j += 3; }                      // "**/**/" = "**/"
                if two(j) { return None; }                                    // "**/**": not documented
                if j == n { return None; }       // "**/" alone: not documented (the code reads it as "**")
                out.push(Item::DirsPrefix);
                i = j;
                continue;
            }
            match &us[i] {
                Unit::Ch(c, true) => {
                    // an escaped separator next to "**" is not a documented shape
                    if *c == b'/' && (two(i + 1) || (i >= 2 && two(i - 2))) { return None; }
                    out.push(Item::Byte(*c));
                }
                Unit::Ch(b'?', false) => out.push(Item::AnyOne),
                Unit::Ch(b'*', false) => out.push(Item::AnyMany),
                Unit::Ch(c, false) => out.push(Item::Byte(*c)),
                Unit::Class(body) => out.push(class_set(body, o)?),
                Unit::Join => {}
            }
            i += 1;
        }
        Some(out)
    }

    pub fn compile(g: &[u8], o: Opts) -> Option<OGlob> {
        let us = units(g, o)?;
        let has_brace = us.iter().any(|u| is_raw(u, b'{') || is_raw(u, b'}'));
        let has_2star = us.windows(2).any(|w| is_raw(&w[0], b'*') && is_raw(&w[1], b'*'));
        if has_brace && has_2star { return None; }
        let mut alts = vec![];
        for e in expand(&us, o)? { alts.push(items(&e, o)?); }
        Some(OGlob { alts, o })
    }

    impl OGlob {
        pub fn is_match(&self, p: &[u8]) -> bool { self.alts.iter().any(|a| m(a, p, self.o)) }
    }

    fn eq_byte(a: u8, b: u8, o: Opts) -> bool {
        if o.ci { a.to_ascii_lowercase() == b.to_ascii_lowercase() } else { a == b }
    }

    fn m(g: &[Item], p: &[u8], o: Opts) -> bool {
        let Some(first) = g.first() else { return p.is_empty() };
        let rest = &g[1..];
        match first {
            Item::Byte(c) => !p.is_empty() && eq_byte(*c, p[0], o) && m(rest, &p[1..], o),
            Item::AnyOne => !p.is_empty() && !(o.litsep && p[0] == b'/') && m(rest, &p[1..], o),
            Item::Set(s) => !p.is_empty() && s[p[0] as usize] && m(rest, &p[1..], o),
            Item::AnyMany => {
                let mut k = 0;
                loop {
                    if m(rest, &p[k..], o) { return true; }
                    if k == p.len() || (o.litsep && p[k] == b'/') { return false; }
                    k += 1;
                }
            }
            Item::Everything => true,
            // zero or more whole directories in front: nothing, or anything up to and including a '/'
            Item::DirsPrefix => m(rest, p, o) || (0..p.len()).any(|k| p[k] == b'/' && m(rest, &p[k + 1..], o)),
            // every sub-entry: a '/' and then anything
            Item::DirsSuffix => !p.is_empty() && p[0] == b'/' && rest.is_empty(),
            // '/', zero or more whole directories, i.e. "/" or "/" anything "/"
            Item::DirsMiddle => {
                !p.is_empty() && p[0] == b'/'
                    && (m(rest, &p[1..], o) || (1..p.len()).any(|k| p[k] == b'/' && m(rest, &p[k + 1..], o)))
            }
        }
    }
}
