//! C16: the convenience sinks of grep_searcher::sinks (UTF8, Lossy, Bytes) must pass the closure's
//! "stop" answer on: a closure that returns Ok(false) at its k-th call is never called again.
use crate::scripted::*;
use crate::val::Val;
use grep_searcher::sinks;

pub fn dispatch(kind: u32, v: &Val) -> Option<Val> {
    match kind {
        1601 => Some(run_closure_sink(v)),
        _ => None,
    }
}

/// case: (cfg matcher input which k) -> (status ((lnum bytes) ...)): the calls the closure received;
/// which: 0 = sinks::UTF8, 1 = sinks::Lossy, 2 = sinks::Bytes; the closure answers Ok(false) at call number k (0-based)
fn run_closure_sink(v: &Val) -> Val {
    let mut cfg = decode_cfg(v.fld(0));
    cfg.line_number = true;
    let m = decode_matcher(&cfg, v.fld(1));
    let input = v.fld(2).bytes();
    let which = v.fld(3).n();
    let k = v.fld(4).us();
    let mut seen: Vec<Val> = vec![];
    let mut searcher = searcher_builder(&cfg).build();
    let r = {
        let mut n = 0usize;
        match which {
            0 => searcher.search_slice(&m, &input, sinks::UTF8(|lnum, line| {
                seen.push(Val::L(vec![Val::N(lnum as u128), Val::of_bytes(line.as_bytes())]));
                n += 1;
                Ok(n <= k)
            })),
            1 => searcher.search_slice(&m, &input, sinks::Lossy(|lnum, line| {
                seen.push(Val::L(vec![Val::N(lnum as u128), Val::of_bytes(line.as_bytes())]));
                n += 1;
                Ok(n <= k)
            })),
            _ => searcher.search_slice(&m, &input, sinks::Bytes(|lnum, line| {
                seen.push(Val::L(vec![Val::N(lnum as u128), Val::of_bytes(line)]));
                n += 1;
                Ok(n <= k)
            })),
        }
    };
    Val::L(vec![Val::N(if r.is_ok() { 0 } else { 1 }), Val::L(seen)])
}
