//! C16: the convenience sinks of grep_searcher::sinks (UTF8, Lossy, Bytes) must pass the closure's
//! "stop" answer on: a closure that returns Ok(false) at its k-th call is never called again.
use crate::scripted::*;
use crate::val::Val;
use grep_searcher::sinks;

pub fn dispatch(kind: u32, v: &Val) -> Option<Val> {
    match kind {
        1601 => Some(run_closure_sink(v)),
        1602 => Some(run_failing_reader(v)),
        _ => None,
    }
}

/// case: (cfg matcher input which k) -> (status ((lnum bytes) ...)): the calls the closure received;
/// which: 0 = sinks::UTF8, 1 = sinks::Lossy, 2 = sinks::Bytes; the closure answers Ok(false) at call number k (0-based)
fn run_closure_sink(v: &Val) -> Val {
    let mut cfg = decode_cfg(v.fld(0));
    cfg.line_number = true;
    let m = decode_matcher(&cfg, v.fld(1));
    let input = v.fld(2).bytes();
    let which = v.fld(3).n();
    let k = v.fld(4).us();
    let mut seen: Vec<Val> = vec![];
    let mut searcher = searcher_builder(&cfg).build();
    let r = {
        let mut n = 0usize;
        match which {
            0 => searcher.search_slice(&m, &input, sinks::UTF8(|lnum, line| {
                seen.push(Val::L(vec![Val::N(lnum as u128), Val::of_bytes(line.as_bytes())]));
                n += 1;
                Ok(n <= k)
            })),
            1 => searcher.search_slice(&m, &input, sinks::Lossy(|lnum, line| {
                seen.push(Val::L(vec![Val::N(lnum as u128), Val::of_bytes(line.as_bytes())]));
                n += 1;
                Ok(n <= k)
            })),
            _ => searcher.search_slice(&m, &input, sinks::Bytes(|lnum, line| {
                seen.push(Val::L(vec![Val::N(lnum as u128), Val::of_bytes(line)]));
                n += 1;
                Ok(n <= k)
            })),
        }
    };
    Val::L(vec![Val::N(if r.is_ok() { 0 } else { 1 }), Val::L(seen)])
}

/// kind 1602: "the source's error is returned to the caller": a reader that fails at its j-th read with a
/// distinctive error (kind PermissionDenied, payload "injected-42"); case: (cfg matcher input heap_limit j),
/// heap_limit = () | (n).  Result: (status kind_is_preserved payload_is_preserved events_count)
fn run_failing_reader(v: &Val) -> Val {
    use std::io::{self, Read};
    struct Failing { data: Vec<u8>, at: usize, reads: usize, fail_at: usize }
    impl Read for Failing {
        fn read(&mut self, buf: &mut [u8]) -> io::Result<usize> {
            if self.reads == self.fail_at {
                self.reads += 1;
                return Err(io::Error::new(io::ErrorKind::PermissionDenied, "injected-42"));
            }
            self.reads += 1;
            let n = std::cmp::min(3, std::cmp::min(buf.len(), self.data.len() - self.at));
            buf[..n].copy_from_slice(&self.data[self.at..self.at + n]);
            self.at += n;
            Ok(n)
        }
    }
    let cfg = decode_cfg(v.fld(0));
    let m = decode_matcher(&cfg, v.fld(1));
    let input = v.fld(2).bytes();
    let mut sb = searcher_builder(&cfg);
    if let Some(n) = v.fld(3).opt() {
        sb.heap_limit(Some(n.us()));
    }
    let mut searcher = sb.build();
    let mut sink = LogSink::new(Reply { at: None });
    let r = searcher.search_reader(&m, Failing { data: input, at: 0, reads: 0, fail_at: v.fld(4).us() }, &mut sink);
    let (st, kind_ok, payload_ok) = match &r {
        Ok(()) => (0, true, true),
        Err(e) => (1, e.kind() == io::ErrorKind::PermissionDenied, e.to_string().contains("injected-42")),
    };
    let finished = sink.events.iter().any(|e| matches!(e, Val::L(l) if matches!(l.first(), Some(Val::N(5)))));
    Val::L(vec![Val::N(st), Val::of_bool(kind_ok), Val::of_bool(payload_ok), Val::of_bool(finished)])
}
