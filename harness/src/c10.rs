//! C10 (and the printer part of C09): the real Summary / Standard / JSON printers driven by the real
//! searcher with the real RegexMatcher, on the same event stream the Coq models are run on.
use std::collections::HashMap;

use crate::val::Val;
use grep_matcher::Matcher;
use grep_printer::{JSONBuilder, StandardBuilder, Stats, SummaryBuilder, SummaryKind};
use grep_regex::RegexMatcher;
use grep_searcher::{
    BinaryDetection, Searcher, Sink, SinkContext, SinkContextKind, SinkFinish, SinkMatch,
};

/// kinds served by this module
pub fn dispatch(kind: u32, v: &Val) -> Option<Val> {
    match kind {
        1001 => Some(run_printers(v)),
        1002 => Some(run_data(v)),
        1003 => Some(run_decimal(v)),
        _ => None,
    }
}

/// flags of a case: (crlf multiline invert ignore_case word whole_line after before passthru
///                   line_number binary dotall fixed)     binary: 0 none, 1 quit, 2 convert
#[derive(Clone, Debug, Default)]
pub struct Flags {
    pub crlf: bool,
    pub multiline: bool,
    pub invert: bool,
    pub ignore_case: bool,
    pub word: bool,
    pub whole_line: bool,
    pub after: usize,
    pub before: usize,
    pub passthru: bool,
    pub line_number: bool,
    pub binary: u8,
    pub dotall: bool,
    pub fixed: bool,
}

impl Flags {
    pub fn parse(v: &Val) -> Flags {
        Flags {
            crlf: v.fld(0).b(),
            multiline: v.fld(1).b(),
            invert: v.fld(2).b(),
            ignore_case: v.fld(3).b(),
            word: v.fld(4).b(),
            whole_line: v.fld(5).b(),
            after: v.fld(6).us(),
            before: v.fld(7).us(),
            passthru: v.fld(8).b(),
            line_number: v.fld(9).b(),
            binary: v.fld(10).us() as u8,
            dotall: v.fld(11).b(),
            fixed: v.fld(12).b(),
        }
    }
    pub fn rgopts(&self) -> crate::rgcfg::RgOpts {
        crate::rgcfg::RgOpts {
            crlf: self.crlf,
            multiline: self.multiline,
            dotall: self.dotall,
            ignore_case: self.ignore_case,
            word: self.word,
            whole_line: self.whole_line,
            fixed: self.fixed,
            text: self.binary == 0,
            ..Default::default()
        }
    }
    pub fn searcher(&self) -> Searcher {
        let mut sb = crate::rgcfg::searcher_builder(&self.rgopts());
        sb.invert_match(self.invert).line_number(self.line_number).bom_sniffing(false);
        if self.passthru {
            sb.passthru(true);
        } else {
            sb.after_context(self.after).before_context(self.before);
        }
        sb.binary_detection(match self.binary {
            1 => BinaryDetection::quit(0),
            2 => BinaryDetection::convert(0),
            _ => BinaryDetection::none(),
        });
        sb.build()
    }
}

/// A writer that accepts at most `k` bytes per `write` call (a pipe, a terminal, a LineWriter in the
/// middle of a flush ... are all allowed to do that); `k = usize::MAX` is an ordinary Vec.
#[derive(Clone, Debug)]
pub struct ShortWriter {
    pub buf: Vec<u8>,
    pub k: usize,
}
impl ShortWriter {
    pub fn new(k: usize) -> ShortWriter { ShortWriter { buf: vec![], k: if k == 0 { usize::MAX } else { k } } }
}
impl std::io::Write for ShortWriter {
    fn write(&mut self, b: &[u8]) -> std::io::Result<usize> {
        let n = b.len().min(self.k);
        self.buf.extend_from_slice(&b[..n]);
        Ok(n)
    }
    fn flush(&mut self) -> std::io::Result<()> { Ok(()) }
}

/// One recorded sink call.
#[derive(Clone, Debug)]
pub enum Ev {
    /// `buf` is set when the searcher handed over a buffer other than the searched slice itself
    Matched { rs: usize, re: usize, lnum: Option<u64>, off: u64, buf: Option<Vec<u8>> },
    Context { bytes: Vec<u8>, kind: u8, lnum: Option<u64>, off: u64 },
    Break,
    Binary(u64),
}

/// A sink that accepts everything and records what the searcher delivers.
pub struct Rec<'a> {
    /// refuse the event with this index (None: accept everything; Some(usize::MAX): refuse begin)
    pub stop_at: Option<usize>,
    pub seen: usize,
    pub input: &'a [u8],
    pub events: Vec<Ev>,
    pub fin: (u64, Option<u64>),
    pub foreign_buffer: bool,
}
impl<'a> Rec<'a> {
    fn new(input: &'a [u8], stop_at: Option<usize>) -> Rec<'a> {
        Rec { stop_at, seen: 0, input, events: vec![], fin: (0, None), foreign_buffer: false }
    }
    fn next(&mut self) -> bool {
        let k = self.seen;
        self.seen += 1;
        self.stop_at != Some(k)
    }
}
impl<'a> Sink for Rec<'a> {
    type Error = std::io::Error;
    fn begin(&mut self, _s: &Searcher) -> Result<bool, std::io::Error> {
        Ok(self.stop_at != Some(usize::MAX))
    }
    fn matched(&mut self, _s: &Searcher, m: &SinkMatch<'_>) -> Result<bool, std::io::Error> {
        let buf = if m.buffer() != self.input {
            self.foreign_buffer = true;
            Some(m.buffer().to_vec())
        } else {
            None
        };
        let r = m.bytes_range_in_buffer();
        self.events.push(Ev::Matched { rs: r.start, re: r.end, lnum: m.line_number(), off: m.absolute_byte_offset(), buf });
        Ok(self.next())
    }
    fn context(&mut self, _s: &Searcher, c: &SinkContext<'_>) -> Result<bool, std::io::Error> {
        let kind = match c.kind() {
            SinkContextKind::Before => 0,
            SinkContextKind::After => 1,
            SinkContextKind::Other => 2,
        };
        self.events.push(Ev::Context { bytes: c.bytes().to_vec(), kind, lnum: c.line_number(), off: c.absolute_byte_offset() });
        Ok(self.next())
    }
    fn context_break(&mut self, _s: &Searcher) -> Result<bool, std::io::Error> {
        self.events.push(Ev::Break);
        Ok(self.next())
    }
    fn binary_data(&mut self, _s: &Searcher, o: u64) -> Result<bool, std::io::Error> {
        self.events.push(Ev::Binary(o));
        Ok(self.next())
    }
    fn finish(&mut self, _s: &Searcher, f: &SinkFinish) -> Result<(), std::io::Error> {
        self.fin = (f.byte_count(), f.binary_byte_offset());
        Ok(())
    }
}

fn opt_u64(o: Option<u64>) -> Val {
    Val::of_opt(o.map(|n| Val::N(n as u128)))
}

fn trim_end(crlf: bool, buf: &[u8], end: usize) -> usize {
    // printer::util::trim_line_terminator on (0, end): what the printer hands to the matcher
    let mut e = end;
    if e > 0 && buf[e - 1] == b'\n' {
        e -= 1;
        if crlf && e > 0 && buf[e - 1] == b'\r' {
            e -= 1;
        }
    }
    e
}

/// the haystack find_iter_at_in_context builds for (buf, range.end)
pub fn context_haystack<'b>(multi: bool, crlf: bool, buf: &'b [u8], re: usize) -> &'b [u8] {
    if multi {
        if buf.len() - re >= 128 { &buf[..re + 128] } else { buf }
    } else {
        &buf[..trim_end(crlf, buf, re)]
    }
}

/// table[p] = matcher.find_at(hay, p)
pub fn table_of(matcher: &RegexMatcher, hay: &[u8]) -> Val {
    let mut t = vec![];
    for p in 0..=hay.len() {
        match matcher.find_at(hay, p) {
            Ok(Some(m)) => t.push(Val::L(vec![Val::L(vec![Val::of_us(m.start()), Val::of_us(m.end())])])),
            _ => t.push(Val::L(vec![])),
        }
    }
    Val::L(t)
}

fn stats_val(s: &Stats, keep_printed: bool) -> Val {
    Val::L(vec![
        Val::N(s.searches() as u128),
        Val::N(s.searches_with_match() as u128),
        Val::N(s.bytes_searched() as u128),
        Val::N(if keep_printed { s.bytes_printed() as u128 } else { 0 }),
        Val::N(s.matched_lines() as u128),
        Val::N(s.matches() as u128),
    ])
}

fn opt_bytes(v: &Val) -> Option<Vec<u8>> {
    v.opt().map(|b| b.bytes())
}
fn opt_byte(v: &Val) -> Option<u8> {
    v.opt().map(|b| b.n() as u8)
}
fn opt_u(v: &Val) -> Option<u64> {
    v.opt().map(|b| b.n() as u64)
}

fn json_data(v: &serde_json::Value) -> Val {
    if let Some(t) = v.get("text").and_then(|t| t.as_str()) {
        Val::L(vec![Val::N(0), Val::of_bytes(t.as_bytes())])
    } else if let Some(t) = v.get("bytes").and_then(|t| t.as_str()) {
        Val::L(vec![Val::N(1), Val::of_bytes(t.as_bytes())])
    } else {
        Val::L(vec![Val::N(9)])
    }
}
fn json_opt_data(v: &serde_json::Value) -> Val {
    if v.is_null() { Val::L(vec![]) } else { Val::L(vec![json_data(v)]) }
}
fn json_opt_num(v: &serde_json::Value) -> Val {
    match v.as_u64() {
        Some(n) => Val::L(vec![Val::N(n as u128)]),
        None => Val::L(vec![]),
    }
}
fn json_num(v: &serde_json::Value) -> Val {
    Val::N(v.as_u64().unwrap_or(u64::MAX) as u128)
}

/// One line of `--json` output as a value: parsed with serde_json, clocks and bytes_printed dropped.
pub fn json_msg(line: &[u8]) -> Val {
    let v: serde_json::Value = match serde_json::from_slice(line) {
        Ok(v) => v,
        Err(_) => return Val::L(vec![Val::N(99)]),
    };
    let d = &v["data"];
    let subs = |d: &serde_json::Value| {
        Val::L(d["submatches"]
            .as_array()
            .map(|a| {
                a.iter()
                    .map(|s| Val::L(vec![json_data(&s["match"]), json_num(&s["start"]), json_num(&s["end"])]))
                    .collect()
            })
            .unwrap_or_default())
    };
    match v["type"].as_str() {
        Some("begin") => Val::L(vec![Val::N(0), json_opt_data(&d["path"])]),
        Some(t @ "match") | Some(t @ "context") => Val::L(vec![
            Val::N(if t == "match" { 1 } else { 2 }),
            json_opt_data(&d["path"]),
            json_data(&d["lines"]),
            json_opt_num(&d["line_number"]),
            json_num(&d["absolute_offset"]),
            subs(d),
        ]),
        Some("end") => {
            let s = &d["stats"];
            Val::L(vec![
                Val::N(3),
                json_opt_data(&d["path"]),
                json_opt_num(&d["binary_offset"]),
                Val::L(vec![
                    json_num(&s["searches"]),
                    json_num(&s["searches_with_match"]),
                    json_num(&s["bytes_searched"]),
                    Val::N(0),
                    json_num(&s["matched_lines"]),
                    json_num(&s["matches"]),
                ]),
            ])
        }
        _ => Val::L(vec![Val::N(98)]),
    }
}

fn path_of(p: &Option<Vec<u8>>) -> Option<std::path::PathBuf> {
    use std::os::unix::ffi::OsStrExt;
    p.as_ref().map(|b| std::path::PathBuf::from(std::ffi::OsStr::from_bytes(b)))
}

/// Everything one case needs: matcher, searcher flags, files, the recorded unconstrained streams.
pub struct Prepared {
    pub matcher: RegexMatcher,
    pub flags: Flags,
    pub files: Vec<(Option<Vec<u8>>, Vec<u8>)>,
    /// per file: the unconstrained event stream and the SinkFinish for every stopping point
    pub streams: Vec<(Vec<Ev>, Vec<(u64, Option<u64>)>)>,
    pub multi: bool,
    /// false when some refused event was followed by further events (the searcher broke the
    /// prefix law of property C16, defect D7): the models assume that law
    pub prefix_law: bool,
}

pub fn prepare(pattern: &str, flags: &Flags, files: Vec<(Option<Vec<u8>>, Vec<u8>)>) -> Result<Prepared, u32> {
    let matcher = crate::rgcfg::matcher(&[pattern.to_string()], &flags.rgopts()).map_err(|_| 1u32)?;
    let mut streams = vec![];
    let mut prefix_law = true;
    let mut searcher = flags.searcher();
    let multi = searcher.multi_line_with_matcher(&matcher);
    for (_, input) in &files {
        let mut rec = Rec::new(input, None);
        if searcher.search_slice(&matcher, input, &mut rec).is_err() {
            return Err(2);
        }
        // (a buffer other than the slice is passed on to the model as it is; the printers use it for look-ahead)
        // the SinkFinish handed over when begin / event k is refused
        let mut fins = vec![];
        let mut r0 = Rec::new(input, Some(usize::MAX));
        if searcher.search_slice(&matcher, input, &mut r0).is_err() { return Err(2); }
        fins.push(r0.fin);
        for k in 0..rec.events.len() {
            let mut rk = Rec::new(input, Some(k));
            if searcher.search_slice(&matcher, input, &mut rk).is_err() { return Err(2); }
            if rk.seen != k + 1 { prefix_law = false; }
            fins.push(rk.fin);
        }
        fins.push(rec.fin);
        streams.push((rec.events, fins));
    }
    Ok(Prepared { matcher, flags: flags.clone(), files, streams, multi, prefix_law })
}

impl Prepared {
    /// (env tables files) of the model case
    pub fn model_parts(&self) -> (Val, Val, Val) {
        let f = &self.flags;
        let env = Val::L(vec![
            Val::of_bool(f.crlf),
            Val::of_bool(self.multi),
            Val::of_bool(f.invert),
            Val::of_us(if f.passthru { 0 } else { f.after }),
            Val::of_bool(f.binary == 1),
            Val::of_bool(f.binary == 2),
        ]);
        let mut tables: Vec<Val> = vec![];
        let mut seen: HashMap<Vec<u8>, ()> = HashMap::new();
        let mut fvals = vec![];
        for ((path, input), (events, fins)) in self.files.iter().zip(self.streams.iter()) {
            let mut evs = vec![];
            for e in events {
                let mut add_table = |hay: &[u8]| {
                    if seen.insert(hay.to_vec(), ()).is_none() {
                        tables.push(Val::L(vec![Val::of_bytes(hay), table_of(&self.matcher, hay)]));
                    }
                };
                match e {
                    Ev::Matched { rs, re, lnum, off, buf } => {
                        let b: &[u8] = buf.as_deref().unwrap_or(input);
                        add_table(context_haystack(self.multi, f.crlf, b, *re));
                        evs.push(Val::L(vec![Val::N(0), Val::of_us(*rs), Val::of_us(*re), opt_u64(*lnum), Val::N(*off as u128),
                                             Val::of_opt(buf.as_ref().map(|b| Val::of_bytes(b)))]));
                    }
                    Ev::Context { bytes, kind, lnum, off } => {
                        if f.invert {
                            add_table(context_haystack(self.multi, f.crlf, bytes, bytes.len()));
                        }
                        evs.push(Val::L(vec![Val::N(1), Val::of_bytes(bytes), Val::N(*kind as u128), opt_u64(*lnum), Val::N(*off as u128)]));
                    }
                    Ev::Break => evs.push(Val::L(vec![Val::N(2)])),
                    Ev::Binary(o) => evs.push(Val::L(vec![Val::N(3), Val::N(*o as u128)])),
                }
            }
            fvals.push(Val::L(vec![
                Val::of_opt(path.as_ref().map(|p| Val::of_bytes(p))),
                Val::of_bytes(input),
                Val::L(evs),
                Val::L(fins.iter().map(|fin| Val::L(vec![Val::N(fin.0 as u128), opt_u64(fin.1)])).collect()),
            ]));
        }
        (env, Val::L(tables), Val::L(fvals))
    }

    /// run the real printer described by `mode` over all files; same shape as the model's result
    pub fn run_mode(&self, mode: &Val) -> Val { self.run_mode_chunked(mode, 0) }

    /// the same with a writer that takes at most `chunk` bytes per write call (0: unlimited)
    pub fn run_mode_chunked(&self, mode: &Val, chunk: usize) -> Val {
        let mut searcher = self.flags.searcher();
        let mut per_file = vec![];
        // bytes actually written to the printer's writer during each search
        let mut written: Vec<Val> = vec![];
        let row = |completed: bool, mc: u64, has: bool, st: Option<Val>| {
            Val::L(vec![Val::of_bool(completed), Val::N(mc as u128), Val::of_bool(has), Val::of_opt(st)])
        };
        match mode.fld(0).us() {
            0 => {
                let kind = match mode.fld(1).us() {
                    0 => SummaryKind::Count,
                    1 => SummaryKind::CountMatches,
                    2 => SummaryKind::PathWithMatch,
                    3 => SummaryKind::PathWithoutMatch,
                    _ => SummaryKind::Quiet,
                };
                let mut p = SummaryBuilder::new()
                    .kind(kind)
                    .stats(mode.fld(2).b())
                    .path(mode.fld(3).b())
                    .max_matches(opt_u(mode.fld(4)))
                    .exclude_zero(mode.fld(5).b())
                    .separator_field(mode.fld(6).bytes())
                    .path_terminator(opt_byte(mode.fld(7)))
                    .build_no_color(ShortWriter::new(chunk));
                for (path, input) in &self.files {
                    let pb = path_of(path);
                    let before = p.get_mut().get_ref().buf.len();
                    let (ok, has, st) = match &pb {
                        Some(pb) => {
                            let mut sink = p.sink_with_path(&self.matcher, pb);
                            let ok = searcher.search_slice(&self.matcher, input, &mut sink).is_ok();
                            (ok, sink.has_match(), sink.stats().map(|s| stats_val(s, true)))
                        }
                        None => {
                            let mut sink = p.sink(&self.matcher);
                            let ok = searcher.search_slice(&self.matcher, input, &mut sink).is_ok();
                            (ok, sink.has_match(), sink.stats().map(|s| stats_val(s, true)))
                        }
                    };
                    per_file.push(row(ok, 0, has, st));
                    written.push(Val::of_us(p.get_mut().get_ref().buf.len() - before));
                }
                Val::L(vec![Val::of_bytes(&p.into_inner().into_inner().buf), Val::L(per_file), Val::L(written)])
            }
            1 => {
                let mut p = StandardBuilder::new()
                    .heading(mode.fld(1).b())
                    .path(mode.fld(2).b())
                    .only_matching(mode.fld(3).b())
                    .per_match(mode.fld(4).b())
                    .per_match_one_line(mode.fld(5).b())
                    .max_matches(opt_u(mode.fld(6)))
                    .column(mode.fld(7).b())
                    .byte_offset(mode.fld(8).b())
                    .stats(mode.fld(9).b())
                    .separator_search(opt_bytes(mode.fld(10)))
                    .separator_context(opt_bytes(mode.fld(11)))
                    .separator_field_match(mode.fld(12).bytes())
                    .separator_field_context(mode.fld(13).bytes())
                    .path_terminator(opt_byte(mode.fld(14)))
                    .build_no_color(ShortWriter::new(chunk));
                for (path, input) in &self.files {
                    let pb = path_of(path);
                    let before = p.get_mut().get_ref().buf.len();
                    let (ok, mc, st) = match &pb {
                        Some(pb) => {
                            let mut sink = p.sink_with_path(&self.matcher, pb);
                            let ok = searcher.search_slice(&self.matcher, input, &mut sink).is_ok();
                            (ok, sink.match_count(), sink.stats().map(|s| stats_val(s, true)))
                        }
                        None => {
                            let mut sink = p.sink(&self.matcher);
                            let ok = searcher.search_slice(&self.matcher, input, &mut sink).is_ok();
                            (ok, sink.match_count(), sink.stats().map(|s| stats_val(s, true)))
                        }
                    };
                    per_file.push(row(ok, mc, mc > 0, st));
                    written.push(Val::of_us(p.get_mut().get_ref().buf.len() - before));
                }
                Val::L(vec![Val::of_bytes(&p.into_inner().into_inner().buf), Val::L(per_file), Val::L(written)])
            }
            _ => {
                let mut p = JSONBuilder::new()
                    .max_matches(opt_u(mode.fld(1)))
                    .always_begin_end(mode.fld(2).b())
                    .build(ShortWriter::new(chunk));
                for (path, input) in &self.files {
                    let pb = path_of(path);
                    let (ok, mc, st) = match &pb {
                        Some(pb) => {
                            let mut sink = p.sink_with_path(&self.matcher, pb);
                            let ok = searcher.search_slice(&self.matcher, input, &mut sink).is_ok();
                            (ok, sink.match_count(), stats_val(sink.stats(), false))
                        }
                        None => {
                            let mut sink = p.sink(&self.matcher);
                            let ok = searcher.search_slice(&self.matcher, input, &mut sink).is_ok();
                            (ok, sink.match_count(), stats_val(sink.stats(), false))
                        }
                    };
                    per_file.push(row(ok, mc, mc > 0, Some(st)));
                }
                let out = p.into_inner().buf;
                let msgs: Vec<Val> =
                    out.split(|&b| b == b'\n').filter(|l| !l.is_empty()).map(json_msg).collect();
                Val::L(vec![Val::L(msgs), Val::L(per_file), Val::L(written)])
            }
        }
    }
}

/// case: (pattern flags files modes)   files := list of (path input)
/// result: (status model_case real_results)
pub fn run_printers(v: &Val) -> Val {
    let pattern = String::from_utf8(v.fld(0).bytes()).unwrap_or_default();
    let flags = Flags::parse(v.fld(1));
    let files: Vec<(Option<Vec<u8>>, Vec<u8>)> =
        v.fld(2).list().iter().map(|f| (opt_bytes(f.fld(0)), f.fld(1).bytes())).collect();
    let prep = match prepare(&pattern, &flags, files) {
        Ok(p) => p,
        Err(code) => return Val::L(vec![Val::N(code as u128)]),
    };
    let (env, tables, fvals) = prep.model_parts();
    let modes = v.fld(3).clone();
    let real: Vec<Val> = modes.list().iter().map(|m| prep.run_mode(m)).collect();
    // optional field 4 of the case: print again through a writer that takes at most that many bytes per call;
    // everything observable must be the same (per mode: 1 = same, else (0 what-the-short-writer-got))
    let chunk = v.fld(4).us();
    let short: Vec<Val> = if chunk == 0 { vec![] } else {
        modes.list().iter().zip(real.iter()).map(|(m, r)| {
            let s = prep.run_mode_chunked(m, chunk);
            if &s == r { Val::N(1) } else { Val::L(vec![Val::N(0), s.fld(0).clone()]) }
        }).collect()
    };
    Val::L(vec![Val::N(0), Val::L(vec![env, tables, fvals, modes]), Val::L(real), Val::of_bool(prep.prefix_law), Val::L(short)])
}

/// std::str::from_utf8 + the JSON printer's own base64, observed through a real JSON match message
/// whose `lines` field is the whole input (multi-line search with a pattern matching everything).
pub fn run_data(v: &Val) -> Val {
    let b = v.bytes();
    if b.is_empty() {
        // nothing is ever sunk for an empty input; Data::from_bytes(b"") is Text("")
        return Val::L(vec![Val::N(0), Val::of_bytes(b"")]);
    }
    let opts = crate::rgcfg::RgOpts { text: true, multiline: true, dotall: true, ..Default::default() };
    let whole = match crate::rgcfg::matcher(&["(?s-u:.+)".to_string()], &opts) {
        Ok(m) => m,
        Err(_) => return Val::L(vec![]),
    };
    let mut p = JSONBuilder::new().build(vec![]);
    let mut sb = grep_searcher::SearcherBuilder::new();
    sb.multi_line(true).line_number(false).bom_sniffing(false).binary_detection(BinaryDetection::none());
    {
        let mut sink = p.sink(&whole);
        if sb.build().search_slice(&whole, &b, &mut sink).is_err() {
            return Val::L(vec![]);
        }
    }
    let out = p.into_inner();
    for line in out.split(|&c| c == b'\n') {
        if line.is_empty() { continue; }
        let m = json_msg(line);
        if m.fld(0).us() == 1 {
            let d = m.fld(2).clone();
            // the accept/reject decision must also be std's
            if (d.fld(0).us() == 0) != std::str::from_utf8(&b).is_ok() {
                return Val::L(vec![Val::N(7)]);
            }
            return d;
        }
    }
    Val::L(vec![])
}

/// DecimalFormatter through the verification hook
pub fn run_decimal(v: &Val) -> Val {
    let n: u64 = String::from_utf8(v.bytes()).ok().and_then(|s| s.parse().ok()).unwrap_or(0);
    Val::of_bytes(&grep_printer::verif_decimal_formatter(n))
}
