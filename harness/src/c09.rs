//! C09, kind 901: the real Standard printer with `max_columns`, `max_columns_preview` and `trim_ascii`
//! (colours off), driven by the real searcher, on the event stream the Coq model
//! (Model/StandardCols.v) is run on.  bstr's grapheme segmentation — third party, a Section
//! variable of the model — is tabulated here for the byte strings the printer can cut.
use std::collections::HashSet;

use crate::c10::{context_haystack, prepare, Ev, Flags, Prepared, ShortWriter};
use crate::val::Val;
use bstr::ByteSlice;
use grep_matcher::Matcher;
use grep_printer::StandardBuilder;

/// kinds served by this module
pub fn dispatch(kind: u32, v: &Val) -> Option<Val> {
    match kind {
        901 => Some(run_cols(v)),
        _ => None,
    }
}

fn opt_bytes(v: &Val) -> Option<Vec<u8>> {
    v.opt().map(|b| b.bytes())
}
fn opt_u(v: &Val) -> Option<u64> {
    v.opt().map(|b| b.n() as u64)
}

/// `s.grapheme_indices().map(|(_, end, _)| end)`
fn gends(s: &[u8]) -> Val {
    Val::L(s.grapheme_indices().map(|(_, e, _)| Val::of_us(e)).collect())
}

/// ASCII whitespace that is not a terminator byte, removed from the front (only used to choose which
/// byte strings are tabulated; a string the model needs and that is missing here is reported, not skipped)
fn trimmed<'a>(crlf: bool, s: &'a [u8]) -> &'a [u8] {
    let mut i = 0;
    while i < s.len() {
        let b = s[i];
        let sp = matches!(b, b'\t' | b'\n' | 0x0B | 0x0C | b'\r' | b' ');
        let term = b == b'\n' || (crlf && b == b'\r');
        if !sp || term { break; }
        i += 1;
    }
    &s[i..]
}

/// every byte string a record text can be made of: the event's bytes, each of its lines with and without
/// terminator, each recorded match, each part of a line inside a match — each also without its whitespace prefix
fn grapheme_table(prep: &Prepared) -> Val {
    let crlf = prep.flags.crlf;
    let mut seen: HashSet<Vec<u8>> = HashSet::new();
    let mut rows = vec![];
    let mut add = |s: &[u8]| {
        for t in [s, trimmed(crlf, s)] {
            if seen.insert(t.to_vec()) {
                rows.push(Val::L(vec![Val::of_bytes(t), gends(t)]));
            }
        }
    };
    for ((_, input), (events, _)) in prep.files.iter().zip(prep.streams.iter()) {
        for e in events {
            let (buf, rs, re): (&[u8], usize, usize) = match e {
                Ev::Matched { rs, re, buf, .. } => (buf.as_deref().unwrap_or(input), *rs, *re),
                Ev::Context { bytes, .. } => (bytes, 0, bytes.len()),
                _ => continue,
            };
            let bytes = &buf[rs..re];
            add(bytes);
            // the spans record_matches can find, relative to `bytes`
            let mut spans: Vec<(usize, usize)> = vec![];
            let hay = context_haystack(prep.multi, crlf, buf, re);
            let mut at = rs;
            let mut last_end: Option<usize> = None;
            while at <= hay.len() {
                match prep.matcher.find_at(hay, at) {
                    Ok(Some(m)) => {
                        if m.start() >= re { break; }
                        if m.end() == m.start() {
                            at = m.end() + 1;
                            if Some(m.end()) == last_end { continue; }
                        } else {
                            at = m.end();
                        }
                        last_end = Some(m.end());
                        let (s, e) = (m.start().saturating_sub(rs), m.end().min(re).saturating_sub(rs));
                        if s <= e && e <= bytes.len() {
                            add(&bytes[s..e]);
                            spans.push((s, e));
                        }
                    }
                    _ => break,
                }
            }
            // line ranges, with and without terminator, from the line start and from the end of its whitespace prefix
            let mut ranges: Vec<(usize, usize)> = vec![];
            let mut start = 0;
            let mut push_line = |a: usize, b: usize, ranges: &mut Vec<(usize, usize)>| {
                let mut b2 = b;
                if b2 > a && bytes[b2 - 1] == b'\n' {
                    b2 -= 1;
                    if crlf && b2 > a && bytes[b2 - 1] == b'\r' { b2 -= 1; }
                }
                for end in [b, b2] {
                    let t = trimmed(crlf, &bytes[a..end]);
                    ranges.push((a, end));
                    ranges.push((end - t.len(), end));
                }
            };
            for (i, &b) in bytes.iter().enumerate() {
                if b == b'\n' {
                    push_line(start, i + 1, &mut ranges);
                    start = i + 1;
                }
            }
            if start < bytes.len() { push_line(start, bytes.len(), &mut ranges); }
            for &(a, b) in &ranges {
                add(&bytes[a..b]);
                for &(ms, me) in &spans {
                    let (x, y) = (a.max(ms), b.min(me));
                    if x < y { add(&bytes[x..y]); }
                }
            }
        }
    }
    Val::L(rows)
}

/// mode := (1 heading path only_matching per_match per_match_one_line max column byte_offset stats
///            sep_search sep_context sep_field_match sep_field_context path_term
///            max_columns preview trim)            fields 15 16 17
fn run_mode(prep: &Prepared, mode: &Val) -> Val {
    let mut searcher = prep.flags.searcher();
    let mut per_file = vec![];
    let mut p = StandardBuilder::new()
        .heading(mode.fld(1).b())
        .path(mode.fld(2).b())
        .only_matching(mode.fld(3).b())
        .per_match(mode.fld(4).b())
        .per_match_one_line(mode.fld(5).b())
        .max_matches(opt_u(mode.fld(6)))
        .column(mode.fld(7).b())
        .byte_offset(mode.fld(8).b())
        .stats(mode.fld(9).b())
        .separator_search(opt_bytes(mode.fld(10)))
        .separator_context(opt_bytes(mode.fld(11)))
        .separator_field_match(mode.fld(12).bytes())
        .separator_field_context(mode.fld(13).bytes())
        .path_terminator(mode.fld(14).opt().map(|b| b.n() as u8))
        .max_columns(opt_u(mode.fld(15)))
        .max_columns_preview(mode.fld(16).b())
        .trim_ascii(mode.fld(17).b())
        .build_no_color(ShortWriter::new(0));
    for (path, input) in &prep.files {
        use std::os::unix::ffi::OsStrExt;
        let pb = path.as_ref().map(|b| std::path::PathBuf::from(std::ffi::OsStr::from_bytes(b)));
        let (ok, mc) = match &pb {
            Some(pb) => {
                let mut sink = p.sink_with_path(&prep.matcher, pb);
                let ok = searcher.search_slice(&prep.matcher, input, &mut sink).is_ok();
                (ok, sink.match_count())
            }
            None => {
                let mut sink = p.sink(&prep.matcher);
                let ok = searcher.search_slice(&prep.matcher, input, &mut sink).is_ok();
                (ok, sink.match_count())
            }
        };
        per_file.push(Val::L(vec![Val::of_bool(ok), Val::N(mc as u128)]));
    }
    Val::L(vec![Val::of_bytes(&p.into_inner().into_inner().buf), Val::L(per_file)])
}

/// case: (pattern flags files modes)   files := list of (path input)
/// result: (status model_case real_results prefix_law)
///   status 0 ok, 1 pattern rejected, 2 search failed
pub fn run_cols(v: &Val) -> Val {
    let pattern = String::from_utf8(v.fld(0).bytes()).unwrap_or_default();
    let flags = Flags::parse(v.fld(1));
    let files: Vec<(Option<Vec<u8>>, Vec<u8>)> =
        v.fld(2).list().iter().map(|f| (opt_bytes(f.fld(0)), f.fld(1).bytes())).collect();
    let prep = match prepare(&pattern, &flags, files) {
        Ok(p) => p,
        Err(code) => return Val::L(vec![Val::N(code as u128)]),
    };
    let modes = v.fld(3).clone();
    let (env, tables, fvals) = prep.model_parts();
    let gt = grapheme_table(&prep);
    let real: Vec<Val> = modes.list().iter().map(|m| run_mode(&prep, m)).collect();
    Val::L(vec![Val::N(0), Val::L(vec![env, tables, fvals, modes, gt]), Val::L(real), Val::of_bool(prep.prefix_law)])
}
