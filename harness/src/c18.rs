//! C18 (preprocessor / decompression): library-level side.
//! kind 1801: drive the real `grep_cli::CommandReader` the way `SearchWorker::search_preprocessor` does
//!   (read loop, then close, then `result?; close_result?`) with a byte-counting consumer.
//!   case = (script want limit)   script: bytes of an `sh -c` script, or empty = a command that cannot be spawned
//!   result = (kind fed)          kind: 0 Ok, 2 ESpawn, 3 read error, 4 close error
//! kind 1802: the inputs of the selection as the real crates compute them:
//!   case = (path (glob ...))  ->  (globs_empty glob_is_ignore has_command)
//!   (`ignore::overrides::Override` built like hiargs.rs::preprocessor_globs; `DecompressionMatcher::has_command`)
use crate::val::Val;
use std::io::Read;

fn run_reader(script: &[u8], want: usize, limit: Option<usize>) -> Val {
    let mut cmd = if script.is_empty() {
        std::process::Command::new("/nonexistent/verif-no-such-command")
    } else {
        let mut c = std::process::Command::new("/bin/sh");
        c.arg("-c").arg(String::from_utf8_lossy(script).to_string());
        c
    };
    cmd.stdin(std::process::Stdio::null());
    let mut builder = grep_cli::CommandReaderBuilder::new();
    builder.async_stderr(true);
    let mut rdr = match builder.build(&mut cmd) {
        Ok(r) => r,
        Err(_) => return Val::L(vec![Val::N(2), Val::L(vec![])]),
    };
    let mut fed: Vec<u8> = vec![];
    let mut buf = vec![0u8; want.max(1)];
    let mut read_err = false;
    loop {
        match rdr.read(&mut buf) {
            Err(_) => { read_err = true; break; }
            Ok(0) => break,
            Ok(n) => {
                fed.extend_from_slice(&buf[..n]);
                if let Some(l) = limit { if fed.len() >= l { break; } }
            }
        }
    }
    let close_err = rdr.close().is_err();
    // a second close must be a no-op
    let second = rdr.close().is_err();
    let kind = if read_err { 3 } else if close_err { 4 } else if second { 5 } else { 0 };
    Val::L(vec![Val::N(kind), Val::of_bytes(&fed)])
}

fn selection_inputs(path: &[u8], globs: &[Val]) -> Val {
    let p = String::from_utf8_lossy(path).to_string();
    let (empty, is_ignore) = if globs.is_empty() {
        (ignore::overrides::Override::empty().is_empty(), false)
    } else {
        let cwd = std::env::current_dir().unwrap();
        let mut b = ignore::overrides::OverrideBuilder::new(&cwd);
        for g in globs {
            if b.add(&String::from_utf8_lossy(&g.bytes())).is_err() {
                return Val::L(vec![Val::N(9)]);
            }
        }
        let ov = match b.build() { Ok(o) => o, Err(_) => return Val::L(vec![Val::N(9)]) };
        (ov.is_empty(), ov.matched(&p, false).is_ignore())
    };
    let has = grep_cli::DecompressionMatcher::new().has_command(&p);
    Val::L(vec![Val::of_bool(empty), Val::of_bool(is_ignore), Val::of_bool(has)])
}

pub fn dispatch(kind: u32, v: &Val) -> Option<Val> {
    match kind {
        1801 => {
            let limit = v.fld(2).opt().map(|x| x.us());
            Some(run_reader(&v.fld(0).bytes(), v.fld(1).us(), limit))
        }
        1802 => Some(selection_inputs(&v.fld(0).bytes(), v.fld(1).list())),
        _ => None,
    }
}
