//! C08 (parallel output): library-level side — the separator rule of `termcolor::BufferWriter::print`, which
//! `search_parallel` relies on ("separator before every non-first non-empty print").
//! kind 801: case = (sep buffers): re-executes this binary with kind 802 so that the real BufferWriter writes to a
//!           real stdout (a pipe); returns the bytes it wrote.
//! kind 802: (child) prints the buffers through `BufferWriter::stdout(ColorChoice::Never)` with the separator set
//!           exactly as hiargs.rs::buffer_writer does; main then prints this kind's result line "77", which the
//!           parent strips.
//! kind 804: a directed schedule for "no file is reported twice or omitted": the parallel walker (2 threads) with
//!           the window between an idle worker's successful steal and its re-activation stretched through the
//!           `ignore::walk_verif` yield hook (a sleep at ACTIVATE) and a slow visitor standing in for a file search;
//!           case = (root activate_ms visit_ms rounds) -> ((missing ...) (extra ...) duplicates) vs the serial walk.
//!           (The general schedule space is C07's subject; this is one cheap deterministic member of it.)
use crate::val::Val;
use std::io::Write;

fn child(v: &Val) -> Val {
    let mut wtr = termcolor::BufferWriter::stdout(termcolor::ColorChoice::Never);
    wtr.separator(v.fld(0).opt().map(|s| s.bytes()));
    for b in v.fld(1).list() {
        let mut buf = wtr.buffer();
        buf.write_all(&b.bytes()).unwrap();
        wtr.print(&buf).unwrap();
    }
    Val::N(77)
}

fn parent(v: &Val) -> Val {
    let exe = std::env::current_exe().unwrap();
    let mut p = std::process::Command::new(exe)
        .arg("802")
        .stdin(std::process::Stdio::piped())
        .stdout(std::process::Stdio::piped())
        .spawn()
        .unwrap();
    {
        let mut si = p.stdin.take().unwrap();
        writeln!(si, "{}", v.to_string()).unwrap();
    }
    let out = p.wait_with_output().unwrap().stdout;
    let tail = b"77\n";
    if out.ends_with(tail) {
        Val::of_bytes(&out[..out.len() - tail.len()])
    } else {
        Val::L(vec![Val::N(999), Val::of_bytes(&out)])
    }
}

fn walk_race(v: &Val) -> Val {
    use ignore::{walk_verif as verif, WalkBuilder, WalkState};
    use std::collections::BTreeSet;
    use std::sync::{Arc, Mutex};
    use std::time::Duration;
    let root = std::path::PathBuf::from(String::from_utf8_lossy(&v.fld(0).bytes()).to_string());
    let activate_ms = v.fld(1).us() as u64;
    let visit_ms = v.fld(2).us() as u64;
    let rounds = v.fld(3).us();
    let serial: BTreeSet<std::path::PathBuf> = WalkBuilder::new(&root)
        .standard_filters(false)
        .build()
        .filter_map(|r| r.ok())
        .map(|d| d.into_path())
        .collect();
    verif::set_yield(Some(Arc::new(move |_worker, kind| {
        if kind == verif::ACTIVATE {
            std::thread::sleep(Duration::from_millis(activate_ms));
        }
    })));
    let mut missing: BTreeSet<std::path::PathBuf> = BTreeSet::new();
    let mut extra: BTreeSet<std::path::PathBuf> = BTreeSet::new();
    let mut dups = 0usize;
    for _ in 0..rounds {
        let seen: Arc<Mutex<Vec<std::path::PathBuf>>> = Arc::new(Mutex::new(vec![]));
        WalkBuilder::new(&root).standard_filters(false).threads(2).build_parallel().run(|| {
            let seen = seen.clone();
            Box::new(move |r| {
                if let Ok(dent) = r {
                    std::thread::sleep(Duration::from_millis(visit_ms));
                    seen.lock().unwrap().push(dent.into_path());
                }
                WalkState::Continue
            })
        });
        let seen = seen.lock().unwrap();
        let set: BTreeSet<std::path::PathBuf> = seen.iter().cloned().collect();
        dups += seen.len() - set.len();
        missing.extend(serial.difference(&set).cloned());
        extra.extend(set.difference(&serial).cloned());
    }
    verif::set_yield(None);
    let enc = |s: &BTreeSet<std::path::PathBuf>| {
        Val::L(s.iter().map(|p| Val::of_bytes(p.to_string_lossy().as_bytes())).collect())
    };
    Val::L(vec![enc(&missing), enc(&extra), Val::of_us(dups), Val::of_us(serial.len())])
}

pub fn dispatch(kind: u32, v: &Val) -> Option<Val> {
    match kind {
        801 => Some(parent(v)),
        802 => Some(child(v)),
        804 => Some(walk_race(v)),
        _ => None,
    }
}
