//! C08 (parallel output): library-level side — the separator rule of `termcolor::BufferWriter::print`, which
//! `search_parallel` relies on ("separator before every non-first non-empty print").
//! kind 801: case = (sep buffers): re-executes this binary with kind 802 so that the real BufferWriter writes to a
//!           real stdout (a pipe); returns the bytes it wrote.
//! kind 802: (child) prints the buffers through `BufferWriter::stdout(ColorChoice::Never)` with the separator set
//!           exactly as hiargs.rs::buffer_writer does; main then prints this kind's result line "77", which the
//!           parent strips.
use crate::val::Val;
use std::io::Write;

fn child(v: &Val) -> Val {
    let mut wtr = termcolor::BufferWriter::stdout(termcolor::ColorChoice::Never);
    wtr.separator(v.fld(0).opt().map(|s| s.bytes()));
    for b in v.fld(1).list() {
        let mut buf = wtr.buffer();
        buf.write_all(&b.bytes()).unwrap();
        wtr.print(&buf).unwrap();
    }
    Val::N(77)
}

fn parent(v: &Val) -> Val {
    let exe = std::env::current_exe().unwrap();
    let mut p = std::process::Command::new(exe)
        .arg("802")
        .stdin(std::process::Stdio::piped())
        .stdout(std::process::Stdio::piped())
        .spawn()
        .unwrap();
    {
        let mut si = p.stdin.take().unwrap();
        writeln!(si, "{}", v.to_string()).unwrap();
    }
    let out = p.wait_with_output().unwrap().stdout;
    let tail = b"77\n";
    if out.ends_with(tail) {
        Val::of_bytes(&out[..out.len() - tail.len()])
    } else {
        Val::L(vec![Val::N(999), Val::of_bytes(&out)])
    }
}

pub fn dispatch(kind: u32, v: &Val) -> Option<Val> {
    match kind {
        801 => Some(parent(v)),
        802 => Some(child(v)),
        _ => None,
    }
}
