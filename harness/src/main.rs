//! rgh — correspondence harness: runs the real ripgrep crates on the cases the Coq models run on.
//! usage: rgh KIND < cases > results        (same value syntax as the OCaml driver)
include!("mods.rs");

use std::io::{BufRead, Write};
use val::Val;

fn main() {
    let kind: u32 = std::env::args().nth(1).expect("kind").parse().expect("kind number");
    let stdin = std::io::stdin();
    let stdout = std::io::stdout();
    let mut out = stdout.lock();
    // VERIF_SHOW_PANIC=1: print the panic message (debugging aid; the result line stays PANIC)
    let show = std::env::var_os("VERIF_SHOW_PANIC").is_some();
    std::panic::set_hook(Box::new(move |info| { if show { eprintln!("{}", info); } }));
    for line in stdin.lock().lines() {
        let line = line.unwrap();
        if line.is_empty() { continue; }
        let res = match Val::parse(&line) {
            Err(e) => format!("PARSEFAIL {}", e),
            Ok(v) => {
                match std::panic::catch_unwind(|| dispatch(kind, &v)) {
                    Ok(r) => r.to_string(),
                    Err(_) => "PANIC".to_string(),
                }
            }
        };
        writeln!(out, "{}", res).unwrap();
    }
}
